/-
  Model/C01.lean — process identity machine shared by C01 (signals/setters never reach a
  recycled PID) and C02 (==, hash, is_running follow the process).  Import-free.

  Transcribes, from psutil/__init__.py: `Process._init`, `_get_ident`, `create_time` (memoised),
  `__eq__`, `__hash__`, `is_running`, `_raise_if_pid_reused`, `_send_signal`, `suspend/resume/
  terminate/kill/send_signal`, the setting forms of `nice/ionice/rlimit/cpu_affinity`, `ppid`,
  `process_iter` (cache `_pmap`, `_pids_reused`, the objects it builds and yields), `__str__` (status word);
  from psutil/_pslinux.py: `boot_time` (writes the module-level `BOOT_TIME`), `Process.create_time`
  (`BOOT_TIME or boot_time()`), the argument checks of `ionice_set` / `rlimit`, and the
  ESRCH/ENOENT → NoSuchProcess translation of `wrap_exceptions`.
  The kernel is simulated: a process table of incarnations, a strictly increasing tick clock that
  stamps every new process, a published boot time that clock adjustments move, and two INPUTS attached to
  PIDs: which ones the kernel refuses to signal / alter (EPERM / EACCES → AccessDenied, the attempt is logged
  with the errno) and whose `/proc/pid/stat` cannot be opened (→ `_ident = (pid, None)`).
-/
namespace Psutil.C01

/-- one incarnation of a PID.  `start` identifies the incarnation (the instant it was created: the kernel
    clock advances at every spawn, so no two incarnations share it — SPEC side: `PObj.ghost`, `Eff.owner`).
    `stamp` is what psutil can see of it: field 22 of /proc/pid/stat, in clock ticks.  An ordinary `spawn`
    stamps `stamp = start` (one incarnation per tick — psutil's documented assumption that a PID is not
    recycled within one clock tick); `spawnSameTick` is the event that breaks the assumption: a new
    incarnation whose stat file shows the stamp of the previous one. -/
structure Inst where
  pid : Nat
  start : Nat
  zombie : Bool
  stamp : Nat
  deriving DecidableEq, Repr

/-- the two errnos CPython turns into `PermissionError` -/
inductive Errno | eperm | eacces
  deriving DecidableEq, Repr

structure Kernel where
  procs : List Inst
  clock : Nat          -- ticks since boot; stamps the next spawned process
  btime : Nat          -- published boot time (`btime` line of /proc/stat); moves with the wall clock
  denied : List (Nat × Errno)   -- INPUT: PIDs on which the kernel refuses kill / setpriority / ioprio_set /
                                -- sched_setaffinity / prlimit, with the errno it answers (first entry wins)
  hidden : List Nat    -- INPUT: PIDs whose `/proc/pid/stat` cannot be opened (EACCES/EPERM: hidepid mounts, LSMs)
  deriving Repr

/-- kernel-side events -/
inductive KEv
  | spawn (pid : Nat)        -- fork/exec: a new incarnation takes a free PID
  | exit (pid : Nat)         -- the process ends and stays in the table as a zombie
  | reap (pid : Nat)         -- the entry leaves the table (zombie reaped, or exit of an auto-reaped process)
  | tick (n : Nat)           -- time passes
  | setBtime (b : Nat)       -- system clock step: the published boot time changes
  | perm (pid : Nat) (e : Option Errno)   -- from now on the kernel refuses effects on `pid` with errno `e` / allows them
  | hide (pid : Nat) (on : Bool)          -- `/proc/pid/stat` becomes unreadable / readable again
  | spawnSameTick (pid : Nat)             -- a new incarnation takes the free PID within the SAME clock tick as the
                                          -- previous spawn: field 22 of its stat file repeats the previous stamp
                                          -- (excluded by every theorem's hypothesis `HistOK`; `C01_same_tick_counterexample`)
  deriving DecidableEq, Repr

def Kernel.find (k : Kernel) (pid : Nat) : Option Inst := k.procs.find? (·.pid == pid)

/-- `start` of the incarnation that owns `pid` right now -/
def Kernel.owner (k : Kernel) (pid : Nat) : Option Nat := (k.find pid).map (·.start)

def Kernel.apply (k : Kernel) : KEv → Kernel
  | .spawn pid =>
    match k.find pid with
    | some _ => k                                              -- PID busy: nothing happens
    | none => { k with procs := ⟨pid, k.clock, false, k.clock⟩ :: k.procs, clock := k.clock + 1 }
  | .spawnSameTick pid =>
    match k.find pid with
    | some _ => k
    | none => { k with procs := ⟨pid, k.clock, false, k.clock - 1⟩ :: k.procs, clock := k.clock + 1 }
  | .exit pid => { k with procs := k.procs.map fun x => if x.pid == pid then { x with zombie := true } else x }
  | .reap pid => { k with procs := k.procs.filter fun x => !(x.pid == pid) }
  | .tick n => { k with clock := k.clock + n }
  | .setBtime b => { k with btime := b }
  | .perm pid none => { k with denied := k.denied.filter fun x => !(x.1 == pid) }
  | .perm pid (some e) => { k with denied := (pid, e) :: k.denied }
  | .hide pid true => { k with hidden := pid :: k.hidden }
  | .hide pid false => { k with hidden := k.hidden.filter fun x => !(x == pid) }

/-- what the kernel answers when asked to signal / alter `pid` (which exists): `none` = done -/
def Kernel.refusal (k : Kernel) (pid : Nat) : Option Errno := k.denied.lookup pid

/-- `open("/proc/pid/stat")` raises PermissionError -/
def Kernel.isHidden (k : Kernel) (pid : Nat) : Bool := k.hidden.contains pid

/-- facts re-derived from the source by the translator -/
structure Cfg where
  clk : Nat                    -- CLOCK_TICKS
  goneRaises : Bool            -- `_raise_if_pid_reused` raises NoSuchProcess when `_gone` is already set
  bootWriteOnce : Bool         -- `boot_time()` assigns BOOT_TIME only while it is unset
  createUsesCache : Bool       -- `create_time()` takes the cached `BOOT_TIME` when there is one (not a fresh `boot_time()`)
  createNoneTest : Bool        -- … and decides "there is one" by `BOOT_TIME is not None` (true) / by truthiness,
                               -- `BOOT_TIME or boot_time()` (false: a cached 0.0 counts as unset — finding C02-boottime-zero)
  guardSignal : Bool           -- `_send_signal` calls `_raise_if_pid_reused()` before `os.kill`
  guardNice : Bool
  guardIonice : Bool
  guardRlimit : Bool
  guardAffinity : Bool
  guardPpid : Bool
  pid0Refused : Bool           -- `_send_signal` raises ValueError for pid 0 before `os.kill`
  negRejected : Bool           -- `_init` raises ValueError for pid < 0 (its own test, or cext.check_pid_range)
  rlimitPid0Refused : Bool     -- `_pslinux.Process.rlimit` raises ValueError for pid 0 before `prlimit`
  sigStop : Nat                -- suspend() → this signal number
  sigCont : Nat
  sigTerm : Nat
  sigKill : Nat
  ioNoValue : List Int         -- ioclasses that accept no value (IOPRIO_CLASS_IDLE, IOPRIO_CLASS_NONE)
  affinityAll : Nat            -- `cpu_affinity([])` on Linux asks for `range(affinityAll)` (every CPU a cpu_set_t holds)
  deriving Repr

/-- a `psutil.Process` object -/
structure PObj where
  pid : Nat
  ident : Option Nat      -- 2nd component of `_ident`, scaled by CLOCK_TICKS: `stamp + clk·boot` (exact);
                          -- `none` = `(pid, None)`: `_init` got AccessDenied from `create_time()` and went on
  ctime : Option Nat      -- memoised `_create_time` (set by `_init` together with `_ident`, or by a later `create_time()`)
  gone : Bool
  reused : Bool
  ghost : Nat             -- SPEC ONLY: `start` of the incarnation that owned the PID when the object was built
  deriving DecidableEq, Repr

structure Ps where
  bootTime : Option Nat   -- module-level `_pslinux.BOOT_TIME`
  objs : List PObj
  pidsReused : List Nat   -- `_pids_reused`
  pmap : List (Nat × Nat) -- `_pmap` of process_iter: PID ↦ index (in `objs`) of the cached Process object
  deriving Repr

inductive SetKind | nice | ionice | rlimit | affinity
  deriving DecidableEq, Repr

inductive EffKind | kill | set (k : SetKind)
  deriving DecidableEq, Repr

/-- something psutil made the OS do -/
structure Eff where
  kind : EffKind
  obj : Nat               -- index of the Process object that asked
  pid : Int               -- PID handed to the OS
  arg : List Int          -- signal number / setter values handed to the OS
  owner : Option Nat      -- SPEC ONLY: `start` of the incarnation owning that PID at that instant
  res : Option Errno      -- the kernel's answer: `none` = carried out, `some e` = refused (nothing happened to the process)
  deriving DecidableEq, Repr

inductive SigMethod | send (sig : Nat) | suspend | resume | terminate | kill
  deriving DecidableEq, Repr

inductive Call
  | newObj (pid : Int)
  | isRunning (i : Nat)
  | signal (i : Nat) (m : SigMethod)
  | setter (i : Nat) (k : SetKind) (args : List Int)
  | ppid (i : Nat)
  | bootTime
  | createTime (i : Nat)
  | eq (i j : Nat)
  | hash (i : Nat)
  | processIter
  | oneshot (i : Nat) (enter : Bool)   -- `with p.oneshot():` entered / left on object i (no answer may change); also stands for
                                       -- every OTHER public call outside the identity machinery (harness op `other`: wait(0),
                                       -- as_dict, name, status, cpu_times, str, hash, username, …): identity on this state
  | status (i : Nat)                   -- the status word `str(p)` / `repr(p)` shows
  deriving DecidableEq, Repr

/-- the status word of `Process.__str__` (the kernel's state letter is reduced to zombie / not zombie) -/
inductive StatusWord | reusedTerminated | terminated | zombie | alive | unknown
  deriving DecidableEq, Repr

inductive Exc | noSuchProcess (pid : Int) | accessDenied (pid : Int) | valueError | badCall
  deriving DecidableEq, Repr

inductive Out
  | unit
  | bool (b : Bool)
  | nat (n : Nat)
  | obj (i : Nat)
  | ident (pid : Nat) (ct : Option Nat)   -- `hash()`: any function of the `_ident` tuple
  | procs (l : List (Nat × Nat))   -- `list(process_iter())`: (pid, index of the yielded object), in yield order
  | status (w : StatusWord)
  | exc (e : Exc)
  deriving DecidableEq, Repr

inductive Ev | k (e : KEv) | c (call : Call)
  deriving DecidableEq, Repr

structure St where
  kern : Kernel
  ps : Ps
  log : List Eff          -- newest first
  deriving Repr

def St.init (btime : Nat) : St := ⟨⟨[], 0, btime, [], []⟩, ⟨none, [], [], []⟩, []⟩

/-- `_pslinux.boot_time()`: read `btime`, write `BOOT_TIME`, return the live value -/
def bootTimeCall (cfg : Cfg) (k : Kernel) (ps : Ps) : Ps × Nat :=
  (if cfg.bootWriteOnce && ps.bootTime.isSome then ps else { ps with bootTime := some k.btime }, k.btime)

/-- `bt = BOOT_TIME or boot_time()` (`createNoneTest = false`: a cached 0.0 is falsy, `boot_time()` is asked
    again) / `bt = BOOT_TIME if BOOT_TIME is not None else boot_time()` (`createNoneTest = true`) -/
def bootForCreate (cfg : Cfg) (k : Kernel) (ps : Ps) : Ps × Nat :=
  if cfg.createUsesCache then
    match ps.bootTime with
    | some b => if cfg.createNoneTest = true ∨ b ≠ 0 then (ps, b) else bootTimeCall cfg k ps
    | none => bootTimeCall cfg k ps
  else bootTimeCall cfg k ps

/-- `Process(pid)`: the new object (not yet stored), or `none` = NoSuchProcess (no `/proc/pid/stat`;
    `_parse_stat_file` fails before the boot time is looked at).  When the file exists but cannot be
    opened, `create_time()` raises AccessDenied, `_init` catches it (`pass`) and the object keeps the
    provisional `_ident = (pid, None)`; `BOOT_TIME` is not looked at. -/
def mkObj (cfg : Cfg) (k : Kernel) (ps : Ps) (pid : Nat) : Ps × Option PObj :=
  match k.find pid with
  | none => (ps, none)
  | some x =>
    if k.isHidden pid then (ps, some ⟨pid, none, none, false, false, x.start⟩)
    else
      let r := bootForCreate cfg k ps
      (r.1, some ⟨pid, some (x.stamp + cfg.clk * r.2), some (x.stamp + cfg.clk * r.2), false, false, x.start⟩)

def setObj (ps : Ps) (i : Nat) (o : PObj) : Ps := { ps with objs := ps.objs.set i o }

/-- result of a method call on one object: new module state, new object state, at most one OS
    effect, outcome -/
structure MRes where
  ps : Ps
  o : PObj
  eff : Option (EffKind × Int × List Int × Option Nat × Option Errno)  -- kind, pid, args, (spec) owner, kernel's answer
  out : Out

/-- `Process.is_running()` -/
def isRunningO (cfg : Cfg) (k : Kernel) (ps : Ps) (o : PObj) : Ps × PObj × Bool :=
  if o.gone || o.reused then (ps, o, false)
  else
    match mkObj cfg k ps o.pid with
    | (ps', none) => (ps', { o with gone := true }, false)
    | (ps', some fresh) =>
      if o.ident ≠ fresh.ident then
        ({ ps' with pidsReused := o.pid :: ps'.pidsReused }, { o with reused := true, gone := true }, false)
      else (ps', o, true)

/-- `Process._raise_if_pid_reused()`: `true` = raises NoSuchProcess -/
def raiseIfPidReusedO (cfg : Cfg) (k : Kernel) (ps : Ps) (o : PObj) : Ps × PObj × Bool :=
  if o.reused then (ps, o, true)
  else
    let r := isRunningO cfg k ps o
    if !r.2.2 && r.2.1.reused then (r.1, r.2.1, true)
    else if cfg.goneRaises && r.2.1.gone then (r.1, r.2.1, true)
    else (r.1, r.2.1, false)

/-- run the guard if the method has one -/
def guardedO (cfg : Cfg) (has : Bool) (k : Kernel) (ps : Ps) (o : PObj) : Ps × PObj × Bool :=
  if has then raiseIfPidReusedO cfg k ps o else (ps, o, false)

def sigOf (cfg : Cfg) : SigMethod → Nat
  | .send s => s
  | .suspend => cfg.sigStop
  | .resume => cfg.sigCont
  | .terminate => cfg.sigTerm
  | .kill => cfg.sigKill

def guardOf (cfg : Cfg) : SetKind → Bool
  | .nice => cfg.guardNice
  | .ionice => cfg.guardIonice
  | .rlimit => cfg.guardRlimit
  | .affinity => cfg.guardAffinity

/-- what the caller sees after the OS entry point answered: `PermissionError` → AccessDenied(pid) -/
def outOf (pid : Nat) : Option Errno → Out
  | none => .unit
  | some _ => .exc (.accessDenied pid)

/-- `_send_signal(sig)` -/
def signalM (cfg : Cfg) (k : Kernel) (ps : Ps) (o : PObj) (m : SigMethod) : MRes :=
  let g := guardedO cfg cfg.guardSignal k ps o
  if g.2.2 then ⟨g.1, g.2.1, none, .exc (.noSuchProcess o.pid)⟩
  else if o.pid == 0 && cfg.pid0Refused then ⟨g.1, g.2.1, none, .exc .valueError⟩
  else
    match k.find o.pid with
    | none =>    -- os.kill → ESRCH: `_gone = True`, NoSuchProcess
      ⟨g.1, { g.2.1 with gone := true }, none, .exc (.noSuchProcess o.pid)⟩
    | some x =>  -- os.kill is called: carried out, or EPERM/EACCES → AccessDenied (no flag is set)
      ⟨g.1, g.2.1, some (.kill, o.pid, [(sigOf cfg m : Int)], some x.start, k.refusal o.pid), outOf o.pid (k.refusal o.pid)⟩

def insertSorted (a : Int) : List Int → List Int
  | [] => [a]
  | b :: bs => if a < b then a :: b :: bs else if a = b then b :: bs else b :: insertSorted a bs

/-- `list(set(cpus))`, canonically ordered (the recorder sorts what it receives) -/
def canonSet (l : List Int) : List Int := l.foldr insertSorted []

/-- the platform setter's own argument handling: `none` = ValueError, `some a` = values handed to the OS -/
def setterArgs (cfg : Cfg) (pid : Nat) : SetKind → List Int → Option (List Int)
  | .nice, [v] => some [v]
  | .ionice, [c] => some [c, 0]                             -- `value is None` → 0
  | .ionice, [c, v] =>
    if v ≠ 0 && cfg.ioNoValue.contains c then none          -- "ioclass accepts no value"
    else if v < 0 || v > 7 then none                        -- "value not in 0-7 range"
    else some [c, v]
  | .rlimit, r :: lim =>
    if pid == 0 && cfg.rlimitPid0Refused then none          -- "can't use prlimit() against PID 0 process"
    else if lim.length ≠ 2 then none                        -- "second argument must be a (soft, hard) tuple"
    else some (r :: lim)
  | .affinity, [] => some ((List.range cfg.affinityAll).map Int.ofNat)   -- empty sequence: `cpus = range(1024)`
  | .affinity, c :: cs => some (canonSet (c :: cs))
  | _, _ => none                                            -- not a call shape the harness produces

/-- setting form of `nice / ionice / rlimit / cpu_affinity`: guard, then the platform method -/
def setterM (cfg : Cfg) (k : Kernel) (ps : Ps) (o : PObj) (kind : SetKind) (args : List Int) : MRes :=
  let g := guardedO cfg (guardOf cfg kind) k ps o
  if g.2.2 then ⟨g.1, g.2.1, none, .exc (.noSuchProcess o.pid)⟩
  else
    match setterArgs cfg o.pid kind args with
    | none => ⟨g.1, g.2.1, none, .exc .valueError⟩
    | some a =>
      match k.find o.pid with
      | none => ⟨g.1, g.2.1, none, .exc (.noSuchProcess o.pid)⟩      -- ESRCH → wrap_exceptions
      | some x =>  -- the native call is made: carried out, or PermissionError → AccessDenied (wrap_exceptions)
        ⟨g.1, g.2.1, some (.set kind, o.pid, a, some x.start, k.refusal o.pid), outOf o.pid (k.refusal o.pid)⟩

/-- `ppid()`: guarded query (the value itself is C05's subject) -/
def ppidM (cfg : Cfg) (k : Kernel) (ps : Ps) (o : PObj) : MRes :=
  let g := guardedO cfg cfg.guardPpid k ps o
  if g.2.2 then ⟨g.1, g.2.1, none, .exc (.noSuchProcess o.pid)⟩
  else
    match k.find o.pid with
    | none => ⟨g.1, g.2.1, none, .exc (.noSuchProcess o.pid)⟩
    | some _ => ⟨g.1, g.2.1, none, if k.isHidden o.pid then .exc (.accessDenied o.pid) else .unit⟩

/-- `create_time()`: the memoised `_create_time`, else `_proc.create_time()` (stat first, then
    `BOOT_TIME or boot_time()`), memoised — `_ident` is NOT recomputed -/
def createTimeM (cfg : Cfg) (k : Kernel) (ps : Ps) (o : PObj) : MRes :=
  match o.ctime with
  | some v => ⟨ps, o, none, .nat v⟩
  | none =>
    match k.find o.pid with
    | none => ⟨ps, o, none, .exc (.noSuchProcess o.pid)⟩
    | some x =>
      if k.isHidden o.pid then ⟨ps, o, none, .exc (.accessDenied o.pid)⟩
      else
        let r := bootForCreate cfg k ps
        ⟨r.1, { o with ctime := some (x.stamp + cfg.clk * r.2) }, none, .nat (x.stamp + cfg.clk * r.2)⟩

def isRunningM (cfg : Cfg) (k : Kernel) (ps : Ps) (o : PObj) : MRes :=
  let r := isRunningO cfg k ps o
  ⟨r.1, r.2.1, none, .bool r.2.2⟩

/-- method calls on object `i` -/
def method (cfg : Cfg) (k : Kernel) (ps : Ps) (o : PObj) : Call → Option MRes
  | .isRunning _ => some (isRunningM cfg k ps o)
  | .signal _ m => some (signalM cfg k ps o m)
  | .setter _ kind args => some (setterM cfg k ps o kind args)
  | .ppid _ => some (ppidM cfg k ps o)
  | .createTime _ => some (createTimeM cfg k ps o)
  | .hash _ => some ⟨ps, o, none, .ident o.pid o.ident⟩        -- memoised `hash(self._ident)`
  | _ => none

def Call.target : Call → Option Nat
  | .isRunning i | .signal i _ | .setter i _ _ | .ppid i | .createTime i | .hash i => some i
  | _ => none

/-- sorted insertion without duplicates (`set(pids())`, then `sorted(...)`) -/
def insertPid (a : Nat) : List Nat → List Nat
  | [] => [a]
  | b :: bs => if a < b then a :: b :: bs else if a = b then b :: bs else b :: insertPid a bs

def sortPids (l : List Nat) : List Nat := l.foldr insertPid []

/-- `pmap.get(pid)` -/
def pmLookup (pm : List (Nat × Nat)) (p : Nat) : Option Nat := (pm.find? (·.1 == p)).map (·.2)

/-- the `for pid, proc in ls:` loop of `process_iter()` over the sorted PIDs of the table.
    `kept` = cache entries that survive the two eviction rounds, `evicted` = PIDs whose entry was evicted
    because the PID is in `_pids_reused` (they are neither in `pmap` nor in `new_pids`: skipped this time).
    A PID that is not cached gets `Process(pid)` — exactly `mkObj`, which may initialise `BOOT_TIME`;
    NoSuchProcess → skipped.  The new object is appended to `objs`; its index is yielded. -/
def iterLoop (cfg : Cfg) (k : Kernel) (kept : List (Nat × Nat)) (evicted : List Nat) :
    Ps → List Nat → Ps × List (Nat × Nat)
  | ps, [] => (ps, [])
  | ps, p :: rest =>
    match pmLookup kept p with
    | some i => let r := iterLoop cfg k kept evicted ps rest; (r.1, (p, i) :: r.2)
    | none =>
      if evicted.contains p then iterLoop cfg k kept evicted ps rest
      else
        match mkObj cfg k ps p with
        | (ps', none) => iterLoop cfg k kept evicted ps' rest
        | (ps', some o) =>
          let r := iterLoop cfg k kept evicted { ps' with objs := ps'.objs ++ [o] } rest
          (r.1, (p, ps'.objs.length) :: r.2)

/-- `list(process_iter())`: cached entries whose PID left the table are dropped, then the entries of every
    PID in `_pids_reused` (which is emptied); every other cached object is yielded as it is (same object,
    whatever became of its process); every listed PID that was not cached gets a new `Process`; the new
    `_pmap` is exactly what was yielded. -/
def processIter (cfg : Cfg) (k : Kernel) (ps : Ps) : Ps × List (Nat × Nat) :=
  let table := sortPids (k.procs.map (·.pid))
  let live := ps.pmap.filter fun e => table.contains e.1
  let kept := live.filter fun e => !ps.pidsReused.contains e.1
  let evicted := (live.filter fun e => ps.pidsReused.contains e.1).map (·.1)
  let r := iterLoop cfg k kept evicted ps table
  ({ r.1 with pmap := r.2, pidsReused := [] }, r.2)

/-- the status word of `str(p)`: the `_pid_reused` flag first, else `name()` / `status()` read
    `/proc/pid/stat` of whoever holds the PID now (NoSuchProcess → "terminated") -/
def statusWord (k : Kernel) (o : PObj) : StatusWord :=
  if o.reused then .reusedTerminated
  else
    match k.find o.pid with
    | none => .terminated
    | some x => if k.isHidden o.pid then .unknown       -- name() → AccessDenied → `pass`: no status shown
                else if x.zombie then .zombie else .alive

/-- append the effect of a call made through object `i` (newest first) -/
def pushEff (i : Nat) (log : List Eff) : Option (EffKind × Int × List Int × Option Nat × Option Errno) → List Eff
  | none => log
  | some (kind, pid, arg, owner, res) => ⟨kind, i, pid, arg, owner, res⟩ :: log

def step (cfg : Cfg) (s : St) : Ev → St × Out
  | .k e => ({ s with kern := s.kern.apply e }, .unit)
  | .c call =>
    match call with
    | .newObj pid =>
      if pid < 0 then
        if cfg.negRejected then (s, .exc .valueError)
        else (s, .exc (.noSuchProcess pid))          -- no `/proc/-n`
      else
        match mkObj cfg s.kern s.ps pid.toNat with
        | (ps', none) => ({ s with ps := ps' }, .exc (.noSuchProcess pid))
        | (ps', some o) => ({ s with ps := { ps' with objs := ps'.objs ++ [o] } }, .obj ps'.objs.length)
    | .bootTime => let r := bootTimeCall cfg s.kern s.ps; ({ s with ps := r.1 }, .nat r.2)
    | .eq i j =>
      match s.ps.objs[i]?, s.ps.objs[j]? with
      | some a, some b => (s, .bool (a.pid == b.pid && a.ident == b.ident))
      | _, _ => (s, .exc .badCall)
    | .processIter => let r := processIter cfg s.kern s.ps; ({ s with ps := r.1 }, .procs r.2)
    | .oneshot _ _ => (s, .unit)
    | .status i =>
      match s.ps.objs[i]? with
      | some o => (s, .status (statusWord s.kern o))
      | none => (s, .exc .badCall)
    | call =>
      match call.target with
      | none => (s, .exc .badCall)
      | some i =>
        match s.ps.objs[i]? with
        | none => (s, .exc .badCall)
        | some o =>
          match method cfg s.kern s.ps o call with
          | none => (s, .exc .badCall)
          | some r =>
            (⟨s.kern, setObj r.ps i r.o, pushEff i s.log r.eff⟩, r.out)

def run (cfg : Cfg) (s : St) : List Ev → St
  | [] => s
  | e :: es => run cfg (step cfg s e).1 es

end Psutil.C01
