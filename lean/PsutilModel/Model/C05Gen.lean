/- Model/C05Gen.lean — the C05 model instantiated with the facts the translator extracted. -/
import PsutilModel.Model.C05
import PsutilModel.Model.C05Dyn
import PsutilModel.Model.C05Seq
import PsutilModel.Model.C05Range
import PsutilModel.Generated.C05
namespace Psutil.C05

/-- configuration of the tree walkers as extracted from the current source -/
def cfg : Cfg :=
  { childOp := Cmp.ofString Gen.C05.childOp
    descOp := Cmp.ofString Gen.C05.descOp
    parentOp := Cmp.ofString Gen.C05.parentOp
    seenGuard := Gen.C05.seenGuard
    skipSelf := Gen.C05.skipSelf
    parentsSeen := Gen.C05.parentsSeen
    childrenGuarded := Gen.C05.childrenGuarded
    ppidGuarded := Gen.C05.ppidGuarded
    lowestStop := Gen.C05.lowestStop
    goneRaises := Gen.C05.goneRaises
    rootGuarded := Gen.C05.rootGuarded }

/-- the walkers in the richer world (Model/C05Dyn.lean): the same facts plus the `except` of ppid_map() -/
def xcfg : XCfg :=
  { base := cfg
    mapSkipsDenied := Gen.C05.ppidMapSkipsDenied
    mapSkipsGone := Gen.C05.ppidMapSkipsGone }

/-- what the object keeps between two calls (Model/C05Seq.lean) -/
def ocfg : ObjCfg :=
  { ppidUncached := Gen.C05.ppidUncached
    ctimeCached := Gen.C05.ctimeCached }

/-- the range gate of `Process(pid)` (Model/C05Range.lean): the C helper's limit and the shape of `Process._init()` -/
def rcfg : RCfg :=
  { cLimit := Gen.C05.checkPidRangeLimit
    cShapeKnown := Gen.C05.checkPidRangeShapeKnown
    initOnlyC := Gen.C05.initRangeOnlyC }

/-- how the two stat readers cut the line, as extracted from the current source -/
def scfg : StatCfg :=
  { mapRfind := Gen.C05.ppidMapRfind
    mapOffset := Gen.C05.ppidMapOffset
    mapIdx := Gen.C05.ppidMapIdx
    statRfind := Gen.C05.statRfind
    statOffset := Gen.C05.statOffset
    statPpidIdx := Gen.C05.statPpidIdx
    statCtimeIdx := Gen.C05.statCtimeIdx }

end Psutil.C05
