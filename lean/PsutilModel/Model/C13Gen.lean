/- Model/C13Gen.lean — the C13 model instantiated with the facts the translator extracted. -/
import PsutilModel.Model.C13
import PsutilModel.Model.C13Pct
import PsutilModel.Model.C13Bind
import PsutilModel.Generated.C13
namespace Psutil.C13

/-- the class-body guard expressions the translator prints (`ast.unparse`) -/
def guardOf (s : String) : Guard :=
  if s == "HAS_PROC_SMAPS_ROLLUP or HAS_PROC_SMAPS" || s == "HAS_PROC_SMAPS or HAS_PROC_SMAPS_ROLLUP" then .rollupOrSmaps
  else if s == "HAS_PROC_SMAPS_ROLLUP and HAS_PROC_SMAPS" || s == "HAS_PROC_SMAPS and HAS_PROC_SMAPS_ROLLUP" then .rollupAndSmaps
  else if s == "HAS_PROC_SMAPS_ROLLUP" then .rollup
  else if s == "HAS_PROC_SMAPS" then .smaps
  else if s == "True" || s == "" then .always
  else .other

/-- configuration of the model as extracted from the current source -/
def cfg : Cfg :=
  { statmOrder := Gen.C13.statmOrder
    statmTake := Gen.C13.statmTake
    mapsKeys := Gen.C13.mapsKeys
    mapsFactor := Gen.C13.mapsFactor
    smapsFactor := Gen.C13.smapsFactor
    rollupFactor := Gen.C13.rollupFactor
    anonName := Gen.C13.anonName
    deletedSuffix := Gen.C13.deletedSuffix
    deletedCut := Gen.C13.deletedCut
    stripsPath := Gen.C13.stripsPath
    dictPerBlock := Gen.C13.mapsDictPerBlock
    flagsPrefix := Gen.C13.flagsPrefix
    rollupPrivate := Gen.C13.rollupPrefixes.getD 0 []
    rollupPss := Gen.C13.rollupPrefixes.getD 1 []
    rollupSwap := Gen.C13.rollupPrefixes.getD 2 []
    pmemFields := Gen.C13.pmemFields
    pfullmemFields := Gen.C13.pfullmemFields
    privatePat := Re.compileOne Gen.C13.privateReB
    pssPat := Re.compileOne Gen.C13.pssReB
    swapPat := Re.compileOne Gen.C13.swapReB
    pctByMembership := Gen.C13.pctValidation == "memtype not in list(pfullmem._fields) -> ValueError"
    statmFixedScale := if Gen.C13.statmScale == "PAGESIZE" then none else some (Gen.C13.statmScale.toNat?.getD 0)
    pagesizeFromSystem := Gen.C13.pagesizeDef == "cext_posix.getpagesize()"
    fallbackEnoent := Gen.C13.fallbackExcs.contains "FileNotFoundError"
    fallbackEsrch := Gen.C13.fallbackExcs.contains "ProcessLookupError"
    basicFirst := Gen.C13.fullInfoBasicFirst
    fullGuard := guardOf Gen.C13.fullInfoGuard
    fullElseIsInfo := Gen.C13.fullInfoElse == ["memory_full_info = memory_info"]
    mapsGuard := guardOf Gen.C13.mapsGuard
    rollupWrapped := ((Gen.C13.methodDecorators.lookup "_parse_smaps_rollup").getD []).contains "wrap_exceptions" }

/-- where `memory_percent`'s total comes from, as extracted from the current source -/
def pcfg : PCfg :=
  { meminfoFactor := Gen.C13.meminfoFactor
    totalKey := Gen.C13.meminfoTotalKey
    freeKey := Gen.C13.meminfoFreeKey
    pctUsesCache := Gen.C13.pctUsesCache
    vmStoresTotal := Gen.C13.vmStoresTotal }

/-- the root expressions the translator prints (`ast.unparse`) -/
def srcOf (s : String) : PathSrc :=
  if s == "self._procfs_path" then .bound
  else if s == "get_procfs_path()" then .current
  else .other

/-- which procfs tree each read site of the memory methods goes to, as extracted from the current source -/
def bcfg : BCfg :=
  { ctorBinds := Gen.C13.procfsBinders.lookup "__init__" == some "get_procfs_path()"
    neverRebinds := Gen.C13.procfsBinders.map (·.1) == ["__init__"]
    statmSrc := srcOf ((Gen.C13.readRoots.lookup "memory_info:statm").getD "")
    smapsSrc := srcOf ((Gen.C13.readRoots.lookup "_read_smaps_file:smaps").getD "")
    rollupSrc := srcOf ((Gen.C13.readRoots.lookup "_parse_smaps_rollup:smaps_rollup").getD "") }

end Psutil.C13
