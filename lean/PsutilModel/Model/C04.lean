/-
  Model/C04.lean — transcription of `psutil.pids()`, `psutil.pid_exists()` (+ `_pslinux.pid_exists`,
  `_psposix.pid_exists`), `psutil.process_iter()` as an explicit generator state machine,
  `process_iter.cache_clear()` and the side effect of `Process.is_running()` on `_pids_reused`.
  Only Base imports.

  World: a simulated kernel process table (`Kernel`) seen through the OS interface psutil uses
  (`listdir`, `kill(pid, 0)`, the `Tgid:` line of `/proc/<pid>/status`, the start time in
  `/proc/<pid>/stat`). Python objects are numbered references into `St.objs` (fresh number =
  allocation order), generators are numbered entries of `St.gens`.
-/
import PsutilModel.Base.Bytes
import PsutilModel.Base.Dec
namespace Psutil.C04

/-! ## bytes level: what `_pslinux.pids()` does with the names `os.listdir` returns -/

/-- `x.isdigit()` on bytes: non-empty and ASCII digits only -/
def isDigitName (b : Bytes) : Bool := !b.isEmpty && b.all isDigit

/-- `[int(x) for x in os.listdir(path) if x.isdigit()]` -/
def pidsOfEntries (entries : List Bytes) : List Nat :=
  entries.filterMap fun e => if isDigitName e then parseDec? e else none

/-! ## dict / sorted -/

abbrev Ref := Nat
/-- a `dict` pid ↦ object reference, in insertion order -/
abbrev PMap := List (Nat × Ref)

def PMap.get (m : PMap) (pid : Nat) : Option Ref :=
  match m with
  | [] => none
  | e :: es => if e.1 = pid then some e.2 else PMap.get es pid

/-- `pmap.pop(pid, None)` -/
def PMap.remove (m : PMap) (pid : Nat) : PMap := m.filter fun e => !(e.1 == pid)

def PMap.has (m : PMap) (pid : Nat) : Bool := m.any fun e => e.1 == pid

/-- `pmap[pid] = r` -/
def PMap.set (m : PMap) (pid : Nat) (r : Ref) : PMap :=
  if m.has pid then m.map fun e => if e.1 == pid then (pid, r) else e
  else m ++ [(pid, r)]

def PMap.keys (m : PMap) : List Nat := m.map (·.1)

/-- insertion into a list sorted by `key` -/
def insertBy {α : Type} (key : α → Nat) (x : α) : List α → List α
  | [] => [x]
  | y :: ys => if key x ≤ key y then x :: y :: ys else y :: insertBy key x ys

/-- `sorted(xs, key=…)` (insertion sort: structurally recursive, so it evaluates in proofs) -/
def sortBy {α : Type} (key : α → Nat) : List α → List α
  | [] => []
  | x :: xs => insertBy key x (sortBy key xs)

def sortNat (l : List Nat) : List Nat := sortBy id l

/-! ## the simulated kernel -/

inductive StatusKind
  | ok            -- `/proc/<pid>/status` has its `Tgid:` line
  | noTgid        -- readable, but no `Tgid:` line (→ ValueError in `_pslinux.pid_exists`)
  | unreadable    -- open() fails with an OSError
  deriving DecidableEq, Repr

/-- one process (thread group leader) -/
structure Proc where
  pid : Nat
  start : Nat              -- starttime (field 22 of stat): distinguishes incarnations of a PID
  zombie : Bool
  foreign : Bool           -- owned by another user: `kill(pid, 0)` → EPERM
  status : StatusKind
  deriving DecidableEq, Repr

/-- one non-leader thread: `/proc/<tid>` can be opened but is not listed -/
structure Thr where
  tid : Nat
  tgid : Nat
  start : Nat
  deriving DecidableEq, Repr

structure Kernel where
  procs : List Proc        -- in `os.listdir` order (arbitrary)
  thrs : List Thr
  deriving DecidableEq, Repr

def Kernel.empty : Kernel := ⟨[], []⟩

/-- largest value of C `pid_t` (what `os.kill` accepts before raising OverflowError) -/
def pidTMax : Nat := 2147483647

def Kernel.findProc (k : Kernel) (n : Nat) : Option Proc := k.procs.find? fun p => p.pid == n
def Kernel.findThr (k : Kernel) (n : Nat) : Option Thr := k.thrs.find? fun t => t.tid == n
def Kernel.used (k : Kernel) (n : Nat) : Bool := (k.findProc n).isSome || (k.findThr n).isSome

inductive KEv
  | spawn (p : Proc)                 -- new process (a *reuse* is exit + spawn with another `start`)
  | exit (pid : Nat)                 -- the process and its threads disappear
  | zombie (pid : Nat)
  | thread (t : Thr)                 -- `tgid` gets a new thread `tid`
  deriving DecidableEq, Repr

/-- kernel events; impossible ones (ID in use, ID outside `pid_t`, thread of nobody) are ignored -/
def Kernel.apply (k : Kernel) : KEv → Kernel
  | .spawn p => if k.used p.pid || decide (p.pid > pidTMax) then k else { k with procs := k.procs ++ [p] }
  | .exit pid =>
    { procs := k.procs.filter fun p => !(p.pid == pid)
      thrs := k.thrs.filter fun t => !(t.tgid == pid) }
  | .zombie pid => { k with procs := k.procs.map fun p => if p.pid == pid then { p with zombie := true } else p }
  | .thread t =>
    if k.used t.tid || decide (t.tid > pidTMax) || !(k.findProc t.tgid).isSome then k
    else { k with thrs := k.thrs ++ [t] }

def Kernel.applyAll (k : Kernel) (evs : List KEv) : Kernel := evs.foldl Kernel.apply k

/-! ### the OS interface psutil uses -/

/-- numeric entries of the procfs root, in directory order (`_pslinux.pids()`) -/
def Kernel.listdir (k : Kernel) : List Nat := k.procs.map (·.pid)

inductive KillRes | ok | esrch | eperm | overflow
  deriving DecidableEq, Repr

/-- `os.kill(n, 0)` for `n > 0` -/
def Kernel.kill (k : Kernel) (n : Nat) : KillRes :=
  if n > pidTMax then .overflow
  else match k.findProc n with
    | some p => if p.foreign then .eperm else .ok
    | none =>
      match k.findThr n with
      | some t =>
        match k.findProc t.tgid with
        | some p => if p.foreign then .eperm else .ok
        | none => .ok
      | none => .esrch

inductive StatusRes
  | tgid (t : Nat)
  | noTgid          -- ValueError
  | oserror         -- open() failed
  deriving DecidableEq, Repr

/-- reading the `Tgid:` line of `/proc/<n>/status` -/
def Kernel.readStatus (k : Kernel) (n : Nat) : StatusRes :=
  match k.findProc n with
  | some p =>
    match p.status with
    | .ok => .tgid n
    | .noTgid => .noTgid
    | .unreadable => .oserror
  | none =>
    match k.findThr n with
    | some t => .tgid t.tgid
    | none => .oserror

/-- start time read from `/proc/<n>/stat` (`none` = file absent → NoSuchProcess) -/
def Kernel.statStart (k : Kernel) (n : Nat) : Option Nat :=
  match k.findProc n with
  | some p => some p.start
  | none => (k.findThr n).map (·.start)

/-! ## psutil state -/

/-- facts re-derived from the source by the translator -/
structure Cfg where
  drainFirst : Bool            -- `_pids_reused` is drained before `new_pids`/`gone_pids` are computed
  rangeGuard : Bool            -- `pid_exists` answers False for an int outside `pid_t` instead of raising
  validNames : List String     -- `_as_dict_attrnames`
  noAccessAttrs : List String  -- names `as_dict` answers from the object itself (`pid`, the cached `create_time`)
  reuseAttrs : List String     -- valid names whose getter starts with `_raise_if_pid_reused()`
  goneRefused : Bool           -- `_raise_if_pid_reused()` also raises NoSuchProcess once `_gone` is set
  popGuarded : Bool            -- the drain loop survives `_pids_reused.pop()` on a set another thread emptied

/-- a `psutil.Process` object -/
structure PObj where
  pid : Nat
  ident : Nat                  -- start time seen by `_init` (the `_ident` is `(pid, create_time)`)
  gone : Bool                  -- `_gone`
  reused : Bool                -- `_pid_reused`
  deriving DecidableEq, Repr

inductive Attrs
  | none
  | names (l : List String)    -- in the iteration order of `set(attrs)`
  deriving DecidableEq, Repr

inductive GSt
  | fresh                                                   -- created, body not entered yet
  | running (pmap : PMap) (todo : List (Nat × Option Ref)) (listed : List Nat)
                                                            -- suspended at `yield`; `listed` is ghost
  | done
  deriving DecidableEq, Repr

structure Gen where
  attrs : Attrs
  st : GSt
  deriving DecidableEq, Repr

structure St where
  k : Kernel
  pmap : PMap                  -- `_pmap`
  flagged : List Nat           -- `_pids_reused`
  lowest : Option Nat          -- `_LOWEST_PID`
  objs : List PObj
  gens : List Gen
  deriving DecidableEq, Repr

def St.init (k : Kernel) : St := ⟨k, [], [], none, [], []⟩

inductive Out
  | unit
  | pidList (l : List Nat)
  | bool (b : Bool)
  | exc (cls : String)
  | gen (id : Nat)
  | yield (r : Ref) (pid : Nat) (info : Option (List String))
  | stop                        -- StopIteration
  | badArg                      -- the history names a generator / object that does not exist
  deriving DecidableEq, Repr

inductive Op
  | kev (e : KEv)
  | pids
  | pidExists (n : Int)
  | iter (attrs : Attrs)                  -- `g = psutil.process_iter(attrs)`: nothing runs yet
  | next (g : Nat) (mid : List KEv)       -- `next(g)`; `mid` happen right after the listing when this
                                          -- call runs the prologue, else right at its beginning
  | close (g : Nat)                       -- `g.close()` / garbage collection of the generator
  | cacheClear
  | isRunning (r : Ref)
  deriving DecidableEq, Repr

/-! ### `psutil.pids()` -/

/-- `ret = sorted(_psplatform.pids()); _LOWEST_PID = ret[0]; return ret` (`none` = IndexError) -/
def pidsCall (s : St) : St × Option (List Nat) :=
  match sortNat s.k.listdir with
  | [] => (s, none)
  | p :: ps => ({ s with lowest := some p }, some (p :: ps))

/-! ### `psutil.pid_exists()` -/

/-- `_psposix.pid_exists` then the `Tgid` check of `_pslinux.pid_exists` (`n > 0`) -/
def platformPidExists (k : Kernel) (n : Nat) : Out :=
  match k.kill n with
  | .overflow => .exc "OverflowError"
  | .esrch => .bool false
  | .eperm | .ok =>
    match k.readStatus n with
    | .tgid t => .bool (t == n)
    | .noTgid | .oserror => .bool (k.listdir.contains n)

def pidExists (cfg : Cfg) (s : St) (n : Int) : St × Out :=
  if n < 0 then (s, .bool false)
  else
    let m := n.toNat
    if m == 0 then
      match pidsCall s with
      | (s', none) => (s', .exc "IndexError")
      | (s', some l) => (s', .bool (l.contains 0))
    else if cfg.rangeGuard && decide (m > pidTMax) then (s, .bool false)
    else (s, platformPidExists s.k m)

/-! ### the platform functions on their own (callable as `psutil._psposix.pid_exists`,
    `psutil._pslinux.pid_exists`), with the window between the `kill` probe and the status read -/

/-- `_psposix.pid_exists(n)` for a non-negative int: PID 0 is answered True without a probe;
    otherwise `os.kill(n, 0)`: ESRCH → False, EPERM → True, no error → True -/
def posixPidExists (k : Kernel) (n : Nat) : Out :=
  if n == 0 then .bool true
  else
    match k.kill n with
    | .overflow => .exc "OverflowError"
    | .esrch => .bool false
    | .eperm => .bool true
    | .ok => .bool true

/-- `_pslinux.pid_exists(n)`: the POSIX probe, then — `mid` are the table changes that happen in
    between — the `Tgid:` line of `/proc/<n>/status`; ValueError / OSError → `n in pids()` -/
def linuxPidExists (k : Kernel) (n : Nat) (mid : List KEv) : Kernel × Out :=
  match posixPidExists k n with
  | .bool false => (k.applyAll mid, .bool false)
  | .bool true =>
    let k' := k.applyAll mid
    match k'.readStatus n with
    | .tgid t => (k', .bool (t == n))
    | .noTgid | .oserror => (k', .bool (k'.listdir.contains n))
  | o => (k.applyAll mid, o)

/-- `_pslinux.pid_exists(n)` when opening `/proc/<n>/status` fails (EACCES under hidepid / an LSM,
    ENOENT, …) — for a process OR a thread id: every OSError takes the same road, `n in pids()` -/
def linuxPidExistsDenied (k : Kernel) (n : Nat) (mid : List KEv) : Kernel × Out :=
  match posixPidExists k n with
  | .bool false => (k.applyAll mid, .bool false)
  | .bool true => (k.applyAll mid, .bool ((k.applyAll mid).listdir.contains n))
  | o => (k.applyAll mid, o)

/-- the argument of `psutil.pid_exists` as Python sees it: an int, a bool (an int subclass: it
    compares and converts like 0 / 1), or a float (by sign; NaN and the infinities are `other`) -/
inductive PyNum
  | int (n : Int)
  | bool (b : Bool)
  | floatNeg          -- `x < 0`
  | floatZero         -- `0.0`, `-0.0`
  | floatOther        -- positive, NaN
  deriving DecidableEq, Repr

/-- `psutil.pid_exists(x)`: `x < 0` → False; `x == 0` → `x in pids()`; else the platform function,
    whose `os.kill(x, 0)` refuses a float with TypeError -/
def pidExistsArg (cfg : Cfg) (s : St) : PyNum → St × Out
  | .int n => pidExists cfg s n
  | .bool b => pidExists cfg s (if b then 1 else 0)
  | .floatNeg => (s, .bool false)
  | .floatZero => pidExists cfg s 0
  | .floatOther => (s, .exc "TypeError")

/-! ### `Process.is_running()` -/

def St.setObj (s : St) (r : Ref) (o : PObj) : St := { s with objs := s.objs.set r o }

def addFlag (fl : List Nat) (pid : Nat) : List Nat := if fl.contains pid then fl else fl ++ [pid]

/-- `is_running()` of object `o` (stored at `r`) -/
def isRunningObj (s : St) (r : Ref) (o : PObj) : St × Bool :=
  if o.gone || o.reused then (s, false)
  else
    match s.k.statStart o.pid with
    | none => (s.setObj r { o with gone := true }, false)                 -- Process(pid) → NoSuchProcess
    | some id =>
      if id == o.ident then (s, true)
      else ({ s.setObj r { o with gone := true, reused := true } with flagged := addFlag s.flagged o.pid }, false)

/-- `_raise_if_pid_reused()`: does it raise NoSuchProcess?
    `if self._pid_reused or (not self.is_running() and self._pid_reused): raise …`, then (since the
    "seen gone" repair, fact `goneRefused`) `if self._gone: raise …` -/
def raiseIfReused (cfg : Cfg) (s : St) (r : Ref) (o : PObj) : St × Bool :=
  if o.reused then (s, true)
  else
    let (s', running) := isRunningObj s r o
    match s'.objs[r]? with
    | some o' => (s', (!running && o'.reused) || (cfg.goneRefused && o'.gone))
    | none => (s', false)

/-! ### `Process.as_dict(attrs)` as used by `process_iter` -/

inductive AttrKind | pid | plain | reuse
  deriving DecidableEq, Repr

def kindOf (cfg : Cfg) (name : String) : AttrKind :=
  if cfg.noAccessAttrs.contains name then .pid else if cfg.reuseAttrs.contains name then .reuse else .plain

/-- the loop over the names; `false` = NoSuchProcess came out -/
def asDictLoop (cfg : Cfg) (r : Ref) (pid : Nat) : St → List String → St × Bool
  | s, [] => (s, true)
  | s, nm :: rest =>
    match kindOf cfg nm with
    | .pid => asDictLoop cfg r pid s rest
    | .plain =>
      if (s.k.statStart pid).isSome then asDictLoop cfg r pid s rest else (s, false)
    | .reuse =>
      match s.objs[r]? with
      | none => (s, false)
      | some o =>
        let (s1, raised) := raiseIfReused cfg s r o
        if raised then (s1, false)
        else if (s1.k.statStart pid).isSome then asDictLoop cfg r pid s1 rest else (s1, false)

def dedup : List String → List String
  | [] => []
  | x :: xs => if xs.contains x then dedup xs else x :: dedup xs

/-- names iterated by `as_dict`: `attrs or valid_names` -/
def namesOf (cfg : Cfg) (l : List String) : List String :=
  if l.isEmpty then cfg.validNames else dedup l

/-! ### `process_iter()` -/

def St.setGen (s : St) (g : Nat) (st : GSt) : St :=
  { s with gens := s.gens.modify g fun x => { x with st := st } }

/-- the `finally:` clause — `_pmap = pmap` — and the end of the generator -/
def finish (s : St) (g : Nat) (pmap : PMap) : St := { s.setGen g .done with pmap := pmap }

/-- `proc = add(pid)` for a new PID (`none` = `Process(pid)` raised NoSuchProcess); a cached
    object is taken as it is -/
def addProc (s : St) (pmap : PMap) (pid : Nat) : Option Ref → Option (St × PMap × Ref)
  | some r => some (s, pmap, r)
  | none =>
    match s.k.statStart pid with
    | none => none
    | some id =>
      let r := s.objs.length
      some ({ s with objs := s.objs ++ [⟨pid, id, false, false⟩] }, pmap.set pid r, r)

inductive Fill
  | ok (s : St) (info : Option (List String))     -- `proc.info` set (or no attrs): yield
  | nsp (s : St)                                  -- `as_dict` raised NoSuchProcess
  | bad                                           -- `as_dict` raised ValueError (invalid name)

/-- `if attrs is not None: proc.info = proc.as_dict(attrs=attrs, ad_value=ad_value)` -/
def fillInfo (cfg : Cfg) (attrs : Attrs) (r : Ref) (pid : Nat) (s : St) : Fill :=
  match attrs with
  | .none => .ok s none
  | .names l =>
    if !(l.all cfg.validNames.contains) then .bad
    else
      let ls := namesOf cfg l
      match asDictLoop cfg r pid s ls with
      | (s2, true) => .ok s2 (some ls)
      | (s2, false) => .nsp s2

/-- the loop body from the current position until the next `yield` / the end -/
def visit (cfg : Cfg) (attrs : Attrs) (g : Nat) (listed : List Nat) :
    St → PMap → List (Nat × Option Ref) → St × Out
  | s, pmap, [] => (finish s g pmap, .stop)
  | s, pmap, (pid, oref) :: rest =>
    match addProc s pmap pid oref with
    | none => visit cfg attrs g listed s (pmap.remove pid) rest      -- NoSuchProcess: remove, continue
    | some (s1, pmap1, r) =>
      match fillInfo cfg attrs r pid s1 with
      | .ok s2 info => (s2.setGen g (.running pmap1 rest listed), .yield r pid info)
      | .bad => (finish s1 g pmap1, .exc "ValueError")               -- propagates through `finally`
      | .nsp s2 => visit cfg attrs g listed s2 (pmap1.remove pid) rest

def removeAll (m : PMap) (pids : List Nat) : PMap := pids.foldl PMap.remove m

/-- `ls = sorted(list(pmap.items()) + list(dict.fromkeys(new_pids).items()))` -/
def mergeTodo (pmap : PMap) (new : List Nat) : List (Nat × Option Ref) :=
  sortBy (·.1) (pmap.map (fun e => (e.1, some e.2)) ++ new.map (fun p => (p, none)))

/-- everything before the `try:`; `none` = `pids()` raised IndexError (empty table) -/
def prologue (cfg : Cfg) (s : St) : St × Option (PMap × List (Nat × Option Ref) × List Nat) :=
  if cfg.drainFirst then
    let pm1 := removeAll s.pmap s.flagged
    let s1 := { s with flagged := [] }
    match pidsCall s1 with
    | (s2, none) => (s2, none)
    | (s2, some a) =>
      let b := pm1.keys
      let new := a.filter fun p => !b.contains p
      let gone := b.filter fun p => !a.contains p
      let pm2 := removeAll pm1 gone
      (s2, some (pm2, mergeTodo pm2 new, a))
  else
    match pidsCall s with
    | (s1, none) => (s1, none)
    | (s1, some a) =>
      let b := s.pmap.keys
      let new := a.filter fun p => !b.contains p
      let gone := b.filter fun p => !a.contains p
      let pm1 := removeAll s.pmap gone
      let pm2 := removeAll pm1 s1.flagged
      ({ s1 with flagged := [] }, some (pm2, mergeTodo pm2 new, a))

def St.applyMid (s : St) (mid : List KEv) : St := { s with k := s.k.applyAll mid }

def genNext (cfg : Cfg) (s : St) (g : Nat) (mid : List KEv) : St × Out :=
  match s.gens[g]? with
  | none => (s.applyMid mid, .badArg)
  | some gen =>
    match gen.st with
    | .done => (s.applyMid mid, .stop)
    | .running pmap todo listed => visit cfg gen.attrs g listed (s.applyMid mid) pmap todo
    | .fresh =>
      match prologue cfg s with
      | (s1, none) => ((s1.setGen g .done).applyMid mid, .exc "IndexError")
      | (s1, some (pmap, todo, listed)) => visit cfg gen.attrs g listed (s1.applyMid mid) pmap todo

def genClose (s : St) (g : Nat) : St × Out :=
  match s.gens[g]? with
  | none => (s, .badArg)
  | some gen =>
    match gen.st with
    | .fresh => (s.setGen g .done, .unit)
    | .running pmap _ _ => (finish s g pmap, .unit)
    | .done => (s, .unit)

def step (cfg : Cfg) (s : St) : Op → St × Out
  | .kev e => ({ s with k := s.k.apply e }, .unit)
  | .pids =>
    match pidsCall s with
    | (s', none) => (s', .exc "IndexError")
    | (s', some l) => (s', .pidList l)
  | .pidExists n => pidExists cfg s n
  | .iter attrs => ({ s with gens := s.gens ++ [⟨attrs, .fresh⟩] }, .gen s.gens.length)
  | .next g mid => genNext cfg s g mid
  | .close g => genClose s g
  | .cacheClear => ({ s with pmap := [] }, .unit)
  | .isRunning r =>
    match s.objs[r]? with
    | none => (s, .badArg)
    | some o => let (s', b) := isRunningObj s r o; (s', .bool b)

def runAll (cfg : Cfg) (s : St) : List Op → St
  | [] => s
  | op :: ops => runAll cfg (step cfg s op).1 ops

/-- the outputs of a whole history -/
def trace (cfg : Cfg) (s : St) : List Op → List Out
  | [] => []
  | op :: ops => (step cfg s op).2 :: trace cfg (step cfg s op).1 ops

/-! ## the values `as_dict` stores: `ad_value` substitution

    `for name in ls: try: ret = getter() except (AccessDenied, ZombieProcess): ret = ad_value
     except NotImplementedError: if attrs: raise else: continue; retdict[name] = ret`;
    NoSuchProcess (anything else) propagates. -/

inductive GetRes | val | accessDenied | zombie | nsp | notImpl
  deriving DecidableEq, Repr

inductive DictRes
  | dict (items : List (String × Bool))     -- key, and whether the value is `ad_value`
  | nsp
  | notImpl
  deriving DecidableEq, Repr

/-- `explicit` = the truthiness of `attrs` (False for `attrs=[]` / `None`: all names) -/
def asDictVals (explicit : Bool) : List (String × GetRes) → List (String × Bool) → DictRes
  | [], acc => .dict acc
  | (nm, r) :: rest, acc =>
    match r with
    | .val => asDictVals explicit rest (acc ++ [(nm, false)])
    | .accessDenied => asDictVals explicit rest (acc ++ [(nm, true)])
    | .zombie => asDictVals explicit rest (acc ++ [(nm, true)])
    | .nsp => .nsp
    | .notImpl => if explicit then .notImpl else asDictVals explicit rest acc

/-! ## two threads in the drain loop of the prologue

    `while _pids_reused: pid = _pids_reused.pop(); remove(pid)` run by two threads on the ONE shared
    set, at the granularity at which CPython can switch threads: the truth test and the `pop()` are
    separate steps. `guarded` = the `pop()` is wrapped in `try/except KeyError: break` (fact
    `popGuarded`). -/

inductive DPc | test | pop | done | keyError
  deriving DecidableEq, Repr

structure DTh where
  pc : DPc
  removed : List Nat          -- PIDs this thread dropped from its private map
  deriving DecidableEq, Repr

def DTh.start : DTh := ⟨.test, []⟩

/-- one step of one thread on the shared set -/
def drainStep (guarded : Bool) (set : List Nat) (t : DTh) : List Nat × DTh :=
  match t.pc with
  | .test => if set.isEmpty then (set, { t with pc := .done }) else (set, { t with pc := .pop })
  | .pop =>
    match set with
    | [] => (set, { t with pc := if guarded then .done else .keyError })      -- `pop from an empty set`
    | p :: ps => (ps, ⟨.test, t.removed ++ [p]⟩)
  | .done => (set, t)
  | .keyError => (set, t)

/-- a schedule: `false` = thread A makes a step, `true` = thread B -/
def drainRun (guarded : Bool) : List Nat → DTh → DTh → List Bool → List Nat × DTh × DTh
  | set, a, b, [] => (set, a, b)
  | set, a, b, false :: rest => let (set', a') := drainStep guarded set a; drainRun guarded set' a' b rest
  | set, a, b, true :: rest => let (set', b') := drainStep guarded set b; drainRun guarded set' a b' rest

end Psutil.C04
