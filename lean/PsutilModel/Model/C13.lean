/-
  Model/C13.lean — transcription of psutil's Linux process-memory code:

    _pslinux.Process.memory_info            (/proc/pid/statm × PAGESIZE)
    _pslinux.Process._parse_smaps_rollup    (line loop over /proc/pid/smaps_rollup)
    _pslinux.Process._parse_smaps           (three regexes over /proc/pid/smaps)
    _pslinux.Process.memory_full_info       (roll-up vs per-mapping source, ENOENT/ESRCH fallback)
    _pslinux.Process.memory_maps            (get_blocks splitter + row construction)
    psutil.Process.memory_maps(grouped=…)   (grouping fold)
    psutil.Process.memory_percent(memtype)

  Same branch order and names as the Python. Error branches of the Python (ValueError from
  `int()`/tuple unpacking, IndexError from `fields[0]`/`fields[1]`/`split()[1]`, ZombieProcess,
  AccessDenied from `path_exists_strict`) are explicit `Except` constructors. Import-free (Base
  and the regex model Model/C13Re.lean only).
-/
import PsutilModel.Base.Bytes
import PsutilModel.Base.Dec
import PsutilModel.Model.C13Re
namespace Psutil.C13

inductive Exc
  | valueError | indexError | attributeError
  | zombieProcess | noSuchProcess | accessDenied | fileNotFound | keyError | typeError
  deriving DecidableEq, Repr

abbrev Res := Except Exc

/-- a class-body guard over the two import-time flags (the shapes the translator names; anything
    else is `other`, which never holds — and fails the obligation) -/
inductive Guard
  | rollupOrSmaps | rollupAndSmaps | rollup | smaps | always | other
  deriving DecidableEq, Repr

def Guard.holds (g : Guard) (hasRollup hasSmaps : Bool) : Bool :=
  match g with
  | .rollupOrSmaps => hasRollup || hasSmaps
  | .rollupAndSmaps => hasRollup && hasSmaps
  | .rollup => hasRollup
  | .smaps => hasSmaps
  | .always => true
  | .other => false

/-- facts about the source the translator re-derives on every run (Generated/C13.lean) -/
structure Cfg where
  /-- for every `pmem` field (in order), the column of `/proc/pid/statm` it is fed from -/
  statmOrder : List Nat
  /-- how many statm columns are consumed (`split()[:7]`) -/
  statmTake : Nat
  /-- the keys `memory_maps` reads out of the per-mapping dict, in row order (with colon) -/
  mapsKeys : List Bytes
  /-- the `* 1024` of `get_blocks` -/
  mapsFactor : Nat
  /-- the `* 1024` of `_parse_smaps` (all three sums) -/
  smapsFactor : Nat
  /-- the `* 1024` of `_parse_smaps_rollup` (all three branches) -/
  rollupFactor : Nat
  /-- `'[anon]'` -/
  anonName : Bytes
  /-- `' (deleted)'` and the number of characters cut by `path[:-10]` -/
  deletedSuffix : Bytes
  deletedCut : Nat
  /-- does `memory_maps` do `path = path.strip()` on the decoded path? -/
  stripsPath : Bool
  /-- is the dict of `get_blocks` re-created for every mapping? (`false`: created once and
      never cleared, as in psutil ≤ 7.0.0) -/
  dictPerBlock : Bool
  /-- the `VmFlags:` prefix whose non-numeric value is skipped -/
  flagsPrefix : Bytes
  /-- `startswith` prefixes of `_parse_smaps_rollup`, in branch order (uss, pss, swap) -/
  rollupPrivate : Bytes
  rollupPss : Bytes
  rollupSwap : Bytes
  pmemFields : List String
  pfullmemFields : List String
  /-- the three compiled patterns of `_parse_smaps` (Model/C13Re.lean `compileOne` of the pattern
      texts the translator extracted; `[]` when a text is outside the modelled fragment) -/
  privatePat : List Re.Atom
  pssPat : List Re.Atom
  swapPat : List Re.Atom
  /-- does `_parse_smaps_rollup` carry `@wrap_exceptions`? (it must not: the decorator would turn
      ESRCH into NoSuchProcess before `memory_full_info`'s `except` clause sees it) -/
  rollupWrapped : Bool
  /-- `memory_percent` validates its argument by MEMBERSHIP in the list of `pfullmem._fields`
      (`valid_types = list(pfullmem._fields)`; `if memtype not in valid_types: raise ValueError`)
      — not by `hasattr` on the namedtuple class, for which `count`, `index`, `_fields`,
      `__len__`, … would pass -/
  pctByMembership : Bool
  /-- `int(x) * PAGESIZE` in `memory_info`: `none` = the multiplier is the module global `PAGESIZE`;
      `some k` = a literal `k` was written instead (the model follows: the figures are then wrong on
      every machine whose page size is not `k`) -/
  statmFixedScale : Option Nat
  /-- `PAGESIZE = cext_posix.getpagesize()` (the page size is asked from the system, not written down) -/
  pagesizeFromSystem : Bool
  /-- which of the roll-up's errors `memory_full_info`'s `except (…)` clause catches -/
  fallbackEnoent : Bool
  fallbackEsrch : Bool
  /-- is `basic_mem = self.memory_info()` evaluated BEFORE uss / pss / swap? (it is not: statm is
      read last, so an error of the smaps side wins over an error of statm) -/
  basicFirst : Bool
  /-- the class-body guards: `if HAS_PROC_SMAPS_ROLLUP or HAS_PROC_SMAPS:` around
      `_parse_smaps_rollup` / `_parse_smaps` / `memory_full_info` (`else: memory_full_info =
      memory_info`) and `if HAS_PROC_SMAPS:` around `memory_maps` -/
  fullGuard : Guard
  fullElseIsInfo : Bool
  mapsGuard : Guard

/-! ### Python primitives not in Base -/

/-- `f.readline()` without its terminator (the caller `split()`s, which drops it anyway) -/
def readline (s : Bytes) : Bytes := s.takeWhile (· != 10)

/-- `bytes.split(None, n)`: at most `n` splits; the remainder keeps its trailing whitespace -/
def splitWsN : Nat → Bytes → List Bytes
  | 0, s =>
    match lstripWs s with
    | [] => []
    | r => [r]
  | n + 1, s =>
    match lstripWs s with
    | [] => []
    | r => r.takeWhile (fun c => !isWs c) :: splitWsN n (r.dropWhile (fun c => !isWs c))

/-- `str.isspace()` on the code points below 128 (bytes ≥ 0x80 decode — UTF-8 or
    surrogateescape — to code points that are not spaces, except the few non-ASCII Unicode
    spaces, which are outside the claimed input domain) -/
def isUWs (c : Nat) : Bool := isWs c || (28 ≤ c && c ≤ 31)

def ulstrip : Bytes → Bytes
  | [] => []
  | c :: cs => if isUWs c then ulstrip cs else c :: cs

/-- `str.strip()` -/
def ustrip (s : Bytes) : Bytes := (ulstrip (ulstrip s).reverse).reverse

/-! ### memory_info -/

/-- `int(x) * PAGESIZE for x in f.readline().split()[:7]`, unpacked into seven names and
    re-ordered into `pmem(...)`. Too few columns or a non-number: ValueError. -/
def memoryInfo (c : Cfg) (pagesize : Nat) (statm : Bytes) : Res (List Nat) :=
  let toks := (splitWs (readline statm)).take c.statmTake
  match toks.mapM parseDec? with
  | none => .error .valueError
  | some vs =>
    if vs.length = c.statmTake then
      .ok (c.statmOrder.map fun i => vs.getD i 0 * c.statmFixedScale.getD pagesize)
    else .error .valueError

/-! ### _parse_smaps_rollup -/

/-- `int(line.split()[1])` -/
def secondInt (line : Bytes) : Res Nat :=
  match splitWs line with
  | _ :: t :: _ =>
    match parseDec? t with
    | some v => .ok v
    | none => .error .valueError
  | _ => .error .indexError

structure Full where
  uss : Nat
  pss : Nat
  swap : Nat
  deriving DecidableEq, Repr

def rollupStep (c : Cfg) (acc : Full) (line : Bytes) : Res Full :=
  if startsWith c.rollupPrivate line then
    match secondInt line with
    | .ok v => .ok { acc with uss := acc.uss + v * c.rollupFactor }
    | .error e => .error e
  else if startsWith c.rollupPss line then
    match secondInt line with
    | .ok v => .ok { acc with pss := v * c.rollupFactor }
    | .error e => .error e
  else if startsWith c.rollupSwap line then
    match secondInt line with
    | .ok v => .ok { acc with swap := v * c.rollupFactor }
    | .error e => .error e
  else .ok acc

def rollupLoop (c : Cfg) : List Bytes → Full → Res Full
  | [], acc => .ok acc
  | l :: ls, acc =>
    match rollupStep c acc l with
    | .ok acc' => rollupLoop c ls acc'
    | .error e => .error e

def parseSmapsRollup (c : Cfg) (content : Bytes) : Res Full :=
  rollupLoop c (linesOf content) ⟨0, 0, 0⟩

/-! ### _parse_smaps

  The code: `sum(map(int, RE.findall(smaps_data))) * 1024` for three patterns, over the WHOLE text.
  `parseSmaps` is exactly that, with the regex model of Model/C13Re.lean (`\s+` may run over a
  newline, `.*` may not).

  The LINE-ANCHORED READING of the same three patterns (`parseSmapsLines`, what one would say
  the regexes mean):

  `\nPss\:\s+(\d+)`   : a line (not the first) that starts with `Pss:`, ≥ 1 blanks, ≥ 1 digits
  `\nSwap\:\s+(\d+)`  : same with `Swap:`
  `\nPrivate.*:\s+(\d+)` : a line that starts with `Private`; greedy `.*:` = the right-most
                           colon that is followed by blanks and digits.

  The two coincide on every rendered smaps file (Proofs/C13Regex.lean) and differ on e.g. a bare
  `Swap:` line followed by a header whose address starts with decimal digits. -/

/-- `\s+(\d+)` at the start of `s` -/
def wsDigits (s : Bytes) : Option Nat :=
  match s with
  | [] => none
  | c :: cs =>
    if isWs c then
      let ds := (lstripWs cs).takeWhile isDigit
      if ds.isEmpty then none else parseDec? ds
    else none

def matchKey (key line : Bytes) : Option Nat :=
  if startsWith key line then wsDigits (line.drop key.length) else none

/-- every suffix that follows a colon, left to right -/
def colonSuffixes : Bytes → List Bytes
  | [] => []
  | c :: cs => if c = 58 then cs :: colonSuffixes cs else colonSuffixes cs

def kPrivate : Bytes := [80, 114, 105, 118, 97, 116, 101]        -- "Private"
def kPss : Bytes := [80, 115, 115, 58]                            -- "Pss:"
def kSwap : Bytes := [83, 119, 97, 112, 58]                       -- "Swap:"

def matchPrivate (line : Bytes) : Option Nat :=
  if startsWith kPrivate line then
    (colonSuffixes (line.drop kPrivate.length)).reverse.findSome? wsDigits
  else none

def sumMatches (f : Bytes → Option Nat) (lines : List Bytes) : Nat :=
  (lines.map fun l => (f l).getD 0).sum

/-- `_read_smaps_file`: `f.read().strip()` -/
def readSmaps (content : Bytes) : Bytes := stripWs content

/-- the line-anchored reading of `_parse_smaps` -/
def parseSmapsLines (c : Cfg) (content : Bytes) : Full :=
  let lines := (splitOn 10 (readSmaps content)).drop 1     -- the regexes need a preceding `\n`
  { uss := sumMatches matchPrivate lines * c.smapsFactor
    pss := sumMatches (matchKey kPss) lines * c.smapsFactor
    swap := sumMatches (matchKey kSwap) lines * c.smapsFactor }

/-- `sum(map(int, RE.findall(smaps_data)))`; ValueError when `int()` rejects a group -/
def sumFindall (p : List Re.Atom) (data : Bytes) : Res Nat :=
  match Re.sumInts (Re.findall p data) with
  | some v => .ok v
  | none => .error .valueError

/-- `_parse_smaps` as written: three `findall`s over the whole text -/
def parseSmaps (c : Cfg) (content : Bytes) : Res Full :=
  let data := readSmaps content
  match sumFindall c.privatePat data, sumFindall c.pssPat data, sumFindall c.swapPat data with
  | .ok u, .ok p, .ok s => .ok { uss := u * c.smapsFactor, pss := p * c.smapsFactor, swap := s * c.smapsFactor }
  | .error e, _, _ => .error e
  | _, .error e, _ => .error e
  | _, _, .error e => .error e

/-! ### memory_full_info -/

/-- what opening/reading `/proc/pid/smaps_rollup` gives -/
inductive FileRes
  | data (b : Bytes)
  | enoent            -- FileNotFoundError
  | esrch             -- ProcessLookupError
  deriving DecidableEq, Repr

def memoryFullInfo (c : Cfg) (hasRollup : Bool) (pagesize : Nat)
    (rollup : FileRes) (smaps statm : Bytes) : Res (List Nat) :=
  let ext : Res Full :=
    if hasRollup then
      match rollup with
      | .data b => parseSmapsRollup c b
      | .enoent =>
        -- `except (ProcessLookupError, FileNotFoundError)`; uncaught, `@wrap_exceptions` re-raises it
        -- (`/proc/pid/stat` exists)
        if c.fallbackEnoent then parseSmaps c smaps else .error .fileNotFound
      | .esrch =>
        -- caught by the same clause — unless a `@wrap_exceptions` on the helper has already turned
        -- it into NoSuchProcess (uncaught, the outer `@wrap_exceptions` does the same)
        if c.rollupWrapped then .error .noSuchProcess
        else if c.fallbackEsrch then parseSmaps c smaps else .error .noSuchProcess
    else parseSmaps c smaps
  if c.basicFirst then
    match memoryInfo c pagesize statm with
    | .error e => .error e
    | .ok basic =>
      match ext with
      | .error e => .error e
      | .ok f => .ok (basic ++ [f.uss, f.pss, f.swap])
  else
    match ext with
    | .error e => .error e
    | .ok f =>
      match memoryInfo c pagesize statm with
      | .error e => .error e
      | .ok basic => .ok (basic ++ [f.uss, f.pss, f.swap])

/-- the CLASS-level `memory_full_info` / `memory_maps`: the class body is evaluated once, at import,
    with the two flags as they were then. Without `/proc/pid/smaps` AND without the roll-up
    `memory_full_info` is an alias of `memory_info`; `memory_maps` exists only with smaps. -/
def memoryFullInfoCls (c : Cfg) (importRollup importSmaps : Bool) (pagesize : Nat)
    (rollup : FileRes) (smaps statm : Bytes) : Res (List Nat) :=
  if c.fullGuard.holds importRollup importSmaps then
    memoryFullInfo c importRollup pagesize rollup smaps statm
  else if c.fullElseIsInfo then memoryInfo c pagesize statm
  else .error .attributeError

def memoryMapsDefined (c : Cfg) (importRollup importSmaps : Bool) : Bool :=
  c.mapsGuard.holds importRollup importSmaps

/-! ### memory_maps -/

inductive Probe
  | present | missing | denied          -- `path_exists_strict`: True / False / PermissionError
  deriving DecidableEq, Repr

structure Row where
  addr : Bytes
  perms : Bytes
  path : Bytes
  nums : List Nat
  deriving DecidableEq, Repr

/-- the dict `data` of `get_blocks` (newest binding first) -/
abbrev Dict := List (Bytes × Nat)

def fixPath (c : Cfg) (probe : Bytes → Probe) (path : Bytes) : Res Bytes :=
  let p := if c.stripsPath then ustrip path else path
  if endsWith c.deletedSuffix p then
    match probe p with
    | .denied => .error .accessDenied
    | .present => .ok p
    | .missing => .ok (p.take (p.length - c.deletedCut))
  else .ok p

def mkNums (c : Cfg) (d : Dict) : List Nat := c.mapsKeys.map fun k => (d.lookup k).getD 0

/-- body of the `for header, data in get_blocks(...)` loop -/
def mkRow (c : Cfg) (probe : Bytes → Probe) (header : Bytes) (d : Dict) : Res Row :=
  match splitWsN 5 header with
  | [addr, perms, _, _, _, path] =>
    match fixPath c probe path with
    | .ok p => .ok ⟨addr, perms, p, mkNums c d⟩
    | .error e => .error e
  | [addr, perms, _, _, _] => .ok ⟨addr, perms, c.anonName, mkNums c d⟩
  | _ => .error .valueError

/-- `get_blocks` interleaved with its consumer: `cur` is `current_block[0]`, `d` the dict —
    created once and never cleared when `c.dictPerBlock = false` (the code as it is), started
    afresh at every header otherwise. -/
def blocks (c : Cfg) (probe : Bytes → Probe) : List Bytes → Bytes → Dict → Res (List Row)
  | [], cur, d =>
    match mkRow c probe cur d with
    | .ok r => .ok [r]
    | .error e => .error e
  | line :: rest, cur, d =>
    match splitWsN 5 line with
    | [] => .error .indexError                       -- fields[0] of a blank line
    | f0 :: fs =>
      if !(endsWith [58] f0) then
        match mkRow c probe cur d with
        | .error e => .error e
        | .ok r =>
          match blocks c probe rest line (if c.dictPerBlock then [] else d) with
          | .ok rs => .ok (r :: rs)
          | .error e => .error e
      else
        match fs with
        | [] => .error .indexError                   -- fields[1]
        | f1 :: _ =>
          match parseDec? f1 with
          | some v => blocks c probe rest cur ((f0, v * c.mapsFactor) :: d)
          | none =>
            if startsWith c.flagsPrefix f0 then blocks c probe rest cur d
            else .error .valueError

def memoryMaps (c : Cfg) (probe : Bytes → Probe) (zombie : Bool) (content : Bytes) :
    Res (List Row) :=
  let data := readSmaps content
  if data.isEmpty then
    (if zombie then .error .zombieProcess else .ok [])
  else
    match splitOn 10 data with
    | [] => .ok []                                   -- unreachable (splitOn_ne_nil)
    | first :: lines => blocks c probe lines first []

/-! ### psutil.Process.memory_maps(grouped=True) -/

abbrev GRow := Bytes × List Nat

def zipAdd : List Nat → List Nat → List Nat
  | x :: xs, y :: ys => (x + y) :: zipAdd xs ys
  | _, _ => []

/-- one iteration of the grouping loop on the insertion-ordered dict `d` -/
def groupStep (d : List GRow) (r : Row) : List GRow :=
  if (d.lookup r.path).isSome then
    d.map fun g => if g.1 == r.path then (g.1, zipAdd g.2 r.nums) else g
  else d ++ [(r.path, r.nums)]

def grouped (rows : List Row) : List GRow := rows.foldl groupStep []

/-! ### psutil.Process.memory_percent -/

def memoryPercent (c : Cfg) (memtype : String) (info full : Res (List Nat))
    (cached : Option Int) (vmTotal : Int) : Res Rat :=
  if !(c.pfullmemFields.contains memtype) then .error .valueError
  else
    let (fields, metrics) :=
      if c.pmemFields.contains memtype then (c.pmemFields, info) else (c.pfullmemFields, full)
    match metrics with
    | .error e => .error e
    | .ok vals =>
      match (fields.zip vals).lookup memtype with
      | none => .error .attributeError
      | some v =>
        -- `_TOTAL_PHYMEM or virtual_memory().total`
        let total : Int := match cached with
          | some t => if t = 0 then vmTotal else t
          | none => vmTotal
        if total > 0 then .ok ((v : Rat) / (total : Rat) * 100) else .error .valueError

/-- the argument of `memory_percent`: a `str`, or any other Python object (None, 3, b'rss', …) -/
inductive MemArg
  | str (s : String)
  | other

/-- `memory_percent(arg)` for any argument. CHARACTERISATION beyond the statement (which speaks
    of field NAMES): list membership is decided by `==`, so a non-str object is simply "not in"
    the list of names → ValueError; a validation through `hasattr(cls, arg)` would raise
    TypeError ("attribute name must be string") instead. -/
def memoryPercentArg (c : Cfg) (arg : MemArg) (info full : Res (List Nat))
    (cached : Option Int) (vmTotal : Int) : Res Rat :=
  match arg with
  | .str s => memoryPercent c s info full cached vmTotal
  | .other => if c.pctByMembership then .error .valueError else .error .typeError

end Psutil.C13
