/- Model/C16Gen.lean — the C16 models instantiated with the facts the translator extracted. -/
import PsutilModel.Model.C16
import PsutilModel.Model.C16Conc
import PsutilModel.Model.C16Conc2
import PsutilModel.Generated.C16
namespace Psutil.C16

def parseSrc : String → Option Src
  | "stat" => some .stat
  | "status" => some .status
  | "smaps" => some .smaps
  | "statm" => some .statm
  | "cmdline" => some .cmdline
  | "io" => some .io
  | "smaps_rollup" => some .rollup
  | _ => none

def parseFFun : String → Option FFun
  | "cpu_times" => some .cpuTimes
  | "memory_info" => some .memoryInfo
  | "ppid" => some .ppid
  | "uids" => some .uids
  | _ => none

def parseExc : String → Option Exc
  | "AccessDenied" => some .accessDenied
  | "NoSuchProcess" => some .noSuchProcess
  | "ZombieProcess" => some .zombieProcess
  | "NotImplementedError" => some .notImplemented
  | _ => none

/-- a row of the generated method table; a row with an unknown file or memo function is dropped
    (and `cfg_good` then fails) -/
def parseMeth (r : String × String × Bool × List String × Bool) : Option Meth :=
  let (name, front, guard, srcs, zprobe) := r
  let alt : Option (Option Src) := match Gen.C16.methAlt.lookup name with
    | none => some none
    | some a => (parseSrc a).map some
  match srcs.mapM parseSrc, (if front = "" then some none else (parseFFun front).map some), alt with
  | some ss, some f, some a => some ⟨name, f, guard, guard && Gen.C16.guardRaisesWhenGone, ss, zprobe, a⟩
  | _, _, _ => none

/-- configuration of the sequential model as extracted from the current source -/
def cfg : Cfg :=
  { meths := Gen.C16.meths.filterMap parseMeth
    memoProc := Gen.C16.memoProc.filterMap parseSrc
    memoFront := Gen.C16.memoFront.filterMap parseFFun
    frontActivate := Gen.C16.frontActivate.filterMap parseFFun
    frontDeactivate := Gen.C16.frontDeactivate.filterMap parseFFun
    procActivate := Gen.C16.procActivate.filterMap parseSrc
    procDeactivate := Gen.C16.procDeactivate.filterMap parseSrc
    nestedTest := Gen.C16.nestedTest && Gen.C16.underLock
    exitInFinally := Gen.C16.exitInFinally
    delSwallows := Gen.C16.delSwallows
    validNames := Gen.C16.validNames
    validatesFirst := Gen.C16.validatesFirst
    adCatches := Gen.C16.adCatches.filterMap parseExc
    notImplSkips := Gen.C16.notImplSkips
    emptyMeansAll := Gen.C16.emptyMeansAll }

/-- the concurrent model instantiated for the front-end object's `_cache` -/
def ccfgFront : Conc.CCfg :=
  { nAct := Gen.C16.frontActivate.length, nDeact := Gen.C16.frontDeactivate.length,
    storeReloads := Gen.C16.storeReloads, storeGuard := Gen.C16.storeGuard,
    delGuard := Gen.C16.delSwallows, ownerOnly := Gen.C16.cacheOwnerOnly }

/-- … and for the platform object's `_cache` -/
def ccfgProc : Conc.CCfg :=
  { nAct := Gen.C16.procActivate.length, nDeact := Gen.C16.procDeactivate.length,
    storeReloads := Gen.C16.storeReloads, storeGuard := Gen.C16.storeGuard,
    delGuard := Gen.C16.delSwallows, ownerOnly := Gen.C16.cacheOwnerOnly }

/- ------------------------------------------------------------------ two cache levels -/

def srcNames : List String := ["stat", "status", "smaps", "statm", "cmdline", "io", "smaps_rollup"]
def ffunNames : List String := ["cpu_times", "memory_info", "ppid", "uids"]

/-- "front" = one front-end cache_(de)activate, "proc" = `_proc.oneshot_enter()/exit()`, i.e. one
    platform cache_(de)activate per helper it lists; an unknown token is dropped (and `ccfg2_good` fails) -/
def expandOrder (order : List String) (nProc : Nat) : List Conc2.Lvl :=
  order.flatMap fun t =>
    if t = "front" then [Conc2.Lvl.front] else if t = "proc" then List.replicate nProc Conc2.Lvl.proc else []

/-- the source read by the platform method of front-end memoised method number `f` (method table) -/
def fsrcOpt (f : Nat) : Option Nat :=
  match ffunNames[f]? with
  | none => none
  | some nm =>
    match Gen.C16.meths.find? (fun r => r.1 == nm && r.2.1 == nm) with
    | some (_, _, _, [src], _) => srcNames.idxOf? src
    | _ => none

/-- the two-level concurrent model instantiated with the extracted facts -/
def ccfg2 : Conc2.CCfg2 :=
  { actSeq := expandOrder Gen.C16.actOrder Gen.C16.procActivate.length
    deactSeq := expandOrder Gen.C16.deactOrder Gen.C16.procDeactivate.length
    delGuard := Gen.C16.delSwallows
    ownerOnly := Gen.C16.cacheOwnerOnly
    fsrc := fun f => (fsrcOpt f).getD 0
    pmemo := fun g => match srcNames[g]? with
      | some nm => Gen.C16.memoProc.contains nm
      | none => false }

end Psutil.C16
