/-
  Model/C18Num.lean — how the native setter HOLDS a CPU number (seeded round 5, change C01-7).

  `psutil_proc_cpu_affinity_set` converts every item of the sequence with `PyLong_AsLong` and keeps
  the result in a C variable until the `-1` test and `CPU_SET`. Model/C18.lean transcribed that
  variable as a mathematical integer in the range of a C long (`cpuSetOfSeq`). The width of the C
  type the number is held in is a dimension of its own: stored in (or cast to) a narrower signed
  type of `bits` bits the number wraps modulo `2^bits` (two's complement) BEFORE the `-1` test and
  `CPU_SET` see it, so a number that names no CPU can land on a real one. `bits` is a translator
  fact (`affinitySetCpuBits`, 64 = `long` on LP64); `stepPyN bits` is what the driver runs.

  Everything before the native call (de-duplication, the empty-list rule) and after it (the
  diagnosis loop of `cpu_affinity_set`) looks at the Python ints, which have no width.
-/
import PsutilModel.Model.C18
import PsutilModel.Model.C18Who
namespace Psutil.C18

/-- the value of a signed two's-complement C integer of `bits` bits after storing `v` into it -/
def wrapS (bits : Nat) (v : Int) : Int :=
  let m : Int := (2 : Int) ^ bits
  let r := v % m
  if 2 * r < m then r else r - m

/-- a CPU number as the native loop holds it: `PyLong_AsLong` first (a number outside the C long
    range never reaches the variable: OverflowError), then the store / cast to `bits` bits -/
def heldAs (bits : Nat) (v : Int) : Int := if fitsCLong v then wrapS bits v else v

/-- `cpuAffinitySetW` with the native loop seeing every number as held in `bits` bits; the
    diagnosis loop after a refusal still walks the Python list -/
def cpuAffinitySetN (bits : Nat) (c : Cfg) (elig : Option (List Nat)) (k : Kernel) (pid who : Nat)
    (cpus : List Int) : Out × Kernel :=
  match cextAffinitySetP c.affSetChecks k who (cpus.map (heldAs bits)) with
  | .ok k' => (.ok .none, k')
  | .error e =>
    if e = .valueError ∨ e = .os .EINVAL ∨ (c.overflowValueError = true ∧ e = .overflowError) then
      match elig with
      | none => (.exc (.noSuchProcess pid), k)
      | some eligible =>
        if diagnose (List.range k.statCpus) eligible cpus then (.exc .valueError, k)
        else if c.einvalValueError = true ∧ e = .os .EINVAL then (.exc .valueError, k)
        else (.exc (wrapExc pid e), k)
    else (.exc (wrapExc pid e), k)

def cpuAffinityN (bits : Nat) (c : Cfg) (k : Kernel) (pid whoGet whoSet : Nat) (x : Ctx) :
    Option (List Int) → Out × Kernel
  | none => cpuAffinityW c k pid whoGet whoSet x none
  | some cpus =>
    let elig := getEligibleCpusX k pid x.statusMask
    if cpus.isEmpty then
      if c.emptyAsksCount then
        cpuAffinitySetN bits c elig k pid whoSet (dedup c ((List.range k.statCpus).map Int.ofNat))
      else match c.emptyAsksAll with
      | some n => cpuAffinitySetN bits c elig k pid whoSet (dedup c ((List.range n).map Int.ofNat))
      | none =>
        match elig with
        | none => (.exc (.noSuchProcess pid), k)
        | some el => cpuAffinitySetN bits c elig k pid whoSet (dedup c (el.map Int.ofNat))
    else cpuAffinitySetN bits c elig k pid whoSet (dedup c cpus)

def stepXN (bits : Nat) (c : Cfg) (rt : Routing) (o : Origin) (k : Kernel) (pid : Nat) (x : Ctx) : Req → Out × Kernel
  | .cpuAffinity cpus => cpuAffinityN bits c k pid (rt.affGet.who o k pid) (rt.affSet.who o k pid) x cpus
  | r => stepXW c rt o k pid x r

def stepPyCoreN (bits : Nat) (c : Cfg) (rt : Routing) (o : Origin) (k : Kernel) (pid : Nat) (x : Ctx) :
    PyReq → Out × Kernel
  | .cpuAffinity (some (.iterator, l)) =>
    cpuAffinitySetN bits c (getEligibleCpusX k pid x.statusMask) k pid (rt.affSet.who o k pid) (dedup c l)
  | .rlimit _ (some (.iterator, _)) =>
    if pid = 0 ∧ c.pid0Refused then (.exc .valueError, k) else (.exc .typeError, k)
  | r => stepXN bits c rt o k pid x r.erase

/-- one public call, the native affinity setter holding CPU numbers in `bits` bits — what the
    driver runs (`stepPyN cpuNumBits cfg routing`) -/
def stepPyN (bits : Nat) (c : Cfg) (rt : Routing) (o : Origin) (k : Kernel) (pid : Nat) (x : Ctx) (r : PyReq) :
    Out × Kernel :=
  if goneGuard k pid r then (.exc (.noSuchProcess pid), k) else stepPyCoreN bits c rt o k pid x r

end Psutil.C18
