/-
  Model/C15Clock.lean — seeded round 5 (C15-8): WHICH clock each deadline computation reads, in a
  world that has TWO clocks.

  A Linux process can read
    * the STEADY clock (`time.monotonic()`, CLOCK_MONOTONIC): never set, never stepped — the clock
      `time.sleep()` sleeps by, the one on which a process "has ended by instant t", the one the
      property's "timeouts honoured" speaks about (virtual time `St.now` / `WP.now` of Model/C15.lean);
    * the WALL clock (`time.time()`, CLOCK_REALTIME): the steady clock plus an offset that somebody
      else may change at any moment (NTP step, `settimeofday`, `date -s`, VM resume), forwards or
      backwards, by any amount.
  `Wall` is that new dimension of the environment: what the wall clock reads at each instant of the
  steady clock — ANY function. `Clock` says which of the two a statement of the code reads.

  `sleepStepK` / `pollNonChildK` / `waitLoopK` are `sleepStep` / `pollNonChildP` / `waitLoopP` with
  the reading of the deadline check a parameter (same branch order, same names); `waitPidK` /
  `procWaitK` / `popenWaitK` are `wait_pid` / `Process.wait` / `Popen.wait` with `stop_at` computed
  from clock `cs` and the check reading clock `cc` (translator facts `stopReadsSteady`,
  `checkReadsSteady`); `waitProcsG` is the loop nest of `wait_procs` (over Process and Popen objects,
  as `waitProcsM`) with `deadline = <clock>() + timeout` and `deadline - <clock>()` reading the clocks
  the facts `procsDeadlineSteady` / `procsSliceSteady` say, around ANY `check_gone` step.
-/
import PsutilModel.Model.C15Probe
import PsutilModel.Model.C15R2
namespace Psutil.C15

/-- what the wall clock reads at each instant of the steady clock (any function: steps, slews, jumps
    back — nothing is assumed) -/
abbrev Wall := Rat → Rat

/-- a wall clock that was `base` ahead of the steady clock and is then STEPPED by `δ` at each
    instant `at` listed in `steps` (the shape the harness generates; the theorems take any `Wall`) -/
def Wall.stepped (base : Rat) (steps : List (Rat × Rat)) : Wall := fun t =>
  t + base + steps.foldl (fun acc s => if s.1 ≤ t then acc + s.2 else acc) 0

inductive Clock
  | steady      -- `time.monotonic()`
  | wall        -- `time.time()`
  deriving DecidableEq, Repr

/-- the reading of a clock at steady instant `t` -/
def Clock.read : Clock → Wall → Rat → Rat
  | .steady, _ => fun t => t
  | .wall, w => w

/-- the clock `wait_pid` computes `stop_at` from -/
def Cfg.stopClock (c : Cfg) : Clock := if c.stopReadsSteady then .steady else .wall
/-- the clock the deadline check in `wait_pid`'s `sleep()` reads -/
def Cfg.checkClock (c : Cfg) : Clock := if c.checkReadsSteady then .steady else .wall
/-- the clock `wait_procs` computes `deadline` from -/
def Cfg.procsDeadlineClock (c : Cfg) : Clock := if c.procsDeadlineSteady then .steady else .wall
/-- the clock `wait_procs` reads in `deadline - <clock>()` -/
def Cfg.procsSliceClock (c : Cfg) : Clock := if c.procsSliceSteady then .steady else .wall

/-- the nested `sleep(interval)` of `wait_pid`; `rc t` = what the clock of the deadline check reads at
    steady instant `t`; `_sleep` itself always sleeps by the steady clock -/
def sleepStepK (cfg : Cfg) (rc : Rat → Rat) (pid : Nat) (timeout : Option Rat) (stopAt : Rat) (s : St) :
    Option Outcome × St :=
  match timeout with
  | none => (none, s.advance cfg)
  | some τ =>
    if cfg.checkBeforeSleep then
      if pastDeadline cfg (rc s.now) stopAt then (some (.timeout τ pid), s) else (none, s.advance cfg)
    else
      let s' := s.advance cfg
      if pastDeadline cfg (rc s'.now) stopAt then (some (.timeout τ pid), s') else (none, s')

/-- `while _pid_exists(pid): interval = sleep(interval)` then `return None` -/
def pollNonChildK (cfg : Cfg) (ask : Rat → Bool) (rc : Rat → Rat) (pid : Nat) (timeout : Option Rat)
    (stopAt : Rat) : Nat → St → Outcome × St
  | 0, s => (.outOfFuel, s)
  | fuel + 1, s =>
    if ask s.now then
      match sleepStepK cfg rc pid timeout stopAt s with
      | (some o, s') => (o, s')
      | (none, s') => pollNonChildK cfg ask rc pid timeout stopAt fuel s'
    else (.none, s)

/-- the `while True:` loop around `os.waitpid(pid, flags)` -/
def waitLoopK (cfg : Cfg) (env : Env) (ask : Rat → Bool) (rc : Rat → Rat) (pid : Nat) (timeout : Option Rat)
    (stopAt : Rat) : Nat → St → Outcome × St
  | 0, s => (.outOfFuel, s)
  | fuel + 1, s =>
    let s1 := { s with nWait := s.nWait + 1 }
    if env.eintr s.nWait then
      match sleepStepK cfg rc pid timeout stopAt s1 with
      | (some o, s') => (o, s')
      | (none, s') => waitLoopK cfg env ask rc pid timeout stopAt fuel s'
    else
      match env.kind with
      | .child st =>
        match timeout with
        | some _ =>
          if env.ended s1.now then (decode st, s1)
          else
            match sleepStepK cfg rc pid timeout stopAt s1 with
            | (some o, s') => (o, s')
            | (none, s') => waitLoopK cfg env ask rc pid timeout stopAt fuel s'
        | none =>
          match env.exitAt with
          | some e => (decode st, { s1 with now := rmax s1.now e })
          | none => (.hang, s1)
      | _ =>
        pollNonChildK cfg ask rc pid timeout stopAt (fuel + 1) s1

/-- `wait_pid(pid, timeout)` at steady instant `now`: `stop_at = <cs>() + timeout`, the check reads `cc` -/
def waitPidK (cfg : Cfg) (probe : Probe) (env : Env) (view : View) (cs cc : Clock) (wall : Wall) (pid : Int)
    (timeout : Option Rat) (fuel : Nat) (now : Rat) (nWait : Nat) : Outcome × St :=
  let s0 : St := ⟨now, cfg.i0, nWait, []⟩
  if pidRefused cfg pid then (.valueError, s0)
  else waitLoopK cfg env (probe.ask env view) (cc.read wall) pid.toNat timeout
         (cs.read wall now + timeout.getD 0) fuel s0

/-- `Process.wait(timeout)` over `waitPidK` (same three steps as `procWait`) -/
def procWaitK (cfg : Cfg) (probe : Probe) (env : Env) (view : View) (cs cc : Clock) (wall : Wall)
    (timeout : Option Rat) (fuel : Nat) (now : Rat) (p : PObj) : WaitRes :=
  if cfg.validateNonNeg && negative timeout then ⟨.valueError, now, [], p⟩
  else
    match p.exitcode with
    | some v => ⟨Outcome.ofValue v, now, [], p⟩
    | none =>
      let r := waitPidK cfg probe env view cs cc wall (p.pid : Int) timeout fuel now p.nWait
      ⟨r.1, r.2.now, r.2.sleeps, { p with exitcode := r.1.value?, nWait := r.2.nWait }⟩

/-- `Popen.wait(timeout)` over `procWaitK` -/
def popenWaitK (cfg : Cfg) (probe : Probe) (env : Env) (view : View) (cs cc : Clock) (wall : Wall)
    (timeout : Option Rat) (fuel : Nat) (now : Rat) (q : PopenObj) : PopenRes :=
  popenWaitG cfg (procWaitK cfg probe env view cs cc wall timeout fuel now) timeout now q

/-! ### `wait_procs` with the clock of each of its two readings a parameter -/

/-- `check_gone(proc, timeout)` over Process / Popen objects (`checkGoneM`) with `Process.wait` a
    parameter: `pw pid timeout now obj` -/
def checkGoneMG (cfg : Cfg) (envOf : Nat → Env) (hasCb : Bool)
    (pw : Nat → Option Rat → Rat → PObj → WaitRes) (m : WPM) (pid : Nat) (t : Rat) : Except Outcome WPM :=
  match m.sub pid with
  | none =>
    let r := pw pid (some t) m.w.now { m.w.objs pid with pid := pid }
    let w1 : WP := { m.w.setObj r.obj with now := r.now, sleeps := m.w.sleeps ++ r.sleeps,
                                            calls := m.w.calls ++ [(pid, t)] }
    match r.out with
    | .timeout _ _ => .ok ⟨w1, m.sub⟩
    | .code c => .ok ⟨markGone hasCb w1 pid (some c), m.sub⟩
    | .none => if (envOf pid).running r.now then .ok ⟨w1, m.sub⟩ else .ok ⟨markGone hasCb w1 pid none, m.sub⟩
    | o => .error o
  | some rc =>
    let r := popenWaitG cfg (pw pid (some t) m.w.now) (some t) m.w.now ⟨{ m.w.objs pid with pid := pid }, rc⟩
    let w1 : WP := { m.w.setObj r.obj.proc with now := r.now, sleeps := m.w.sleeps ++ r.sleeps,
                                                 calls := m.w.calls ++ [(pid, t)] }
    let sub1 : Nat → Option (Option Int) := fun q => if q = pid then some r.obj.subRc else m.sub q
    match r.out with
    | .timeout _ _ => .ok ⟨w1, sub1⟩
    | .code c => .ok ⟨markGone hasCb w1 pid (some c), sub1⟩
    | .none => if (envOf pid).running r.now then .ok ⟨w1, sub1⟩ else .ok ⟨markGone hasCb w1 pid none, sub1⟩
    | o => .error o

/-- one `check_gone` step of `wait_procs` -/
abbrev Step := WPM → Nat → Rat → Except Outcome WPM

/-- one `for proc in alive:` pass when a timeout was given: `timeout = min(deadline - <clock>(), max_timeout)`,
    `rsl t` = what that clock reads at steady instant `t` -/
def passTG (cg : Step) (rsl : Rat → Rat) (deadline maxT : Rat) :
    List Nat → WPM → Rat → Except Outcome (WPM × Rat)
  | [], m, tmo => .ok (m, tmo)
  | pid :: rest, m, _ =>
    let t := rmin (deadline - rsl m.w.now) maxT
    if t ≤ 0 then .ok (m, t)
    else
      match cg m pid t with
      | .error o => .error o
      | .ok m' => passTG cg rsl deadline maxT rest m' t

def passNG (cg : Step) (t : Rat) : List Nat → WPM → Except Outcome WPM
  | [], m => .ok m
  | pid :: rest, m =>
    match cg m pid t with
    | .error o => .error o
    | .ok m' => passNG cg t rest m'

def whileTG (cfg : Cfg) (cg : Step) (rsl : Rat → Rat) (order : Nat → List Nat → List Nat) (deadline : Rat) :
    Nat → List Nat → WPM → Rat → Except Outcome (WPM × List Nat)
  | 0, _, _, _ => .error .outOfFuel
  | k + 1, alive, m, tmo =>
    if alive.isEmpty then .ok (m, alive)
    else if tmo ≤ 0 then .ok (m, alive)
    else
      match passTG cg rsl deadline (maxTimeout cfg alive) (order m.w.calls.length alive) m tmo with
      | .error o => .error o
      | .ok (m', tmo') => whileTG cfg cg rsl order deadline k (stillAlive alive m'.w.gone) m' tmo'

def whileNG (cfg : Cfg) (cg : Step) (order : Nat → List Nat → List Nat) :
    Nat → List Nat → WPM → Except Outcome (WPM × List Nat)
  | 0, _, _ => .error .outOfFuel
  | k + 1, alive, m =>
    if alive.isEmpty then .ok (m, alive)
    else
      match passNG cg (maxTimeout cfg alive) (order m.w.calls.length alive) m with
      | .error o => .error o
      | .ok m' => whileNG cfg cg order k (stillAlive alive m'.w.gone) m'

def lastAttemptG (cg : Step) (order : Nat → List Nat → List Nat) (alive : List Nat) (m : WPM) :
    Except Outcome (WPM × List Nat) :=
  if alive.isEmpty then .ok (m, alive)
  else
    match passNG cg 0 (order m.w.calls.length alive) m with
    | .error o => .error o
    | .ok m' => .ok (m', stillAlive alive m'.w.gone)

/-- `wait_procs(procs, timeout, callback)`: `deadline = <clock>() + timeout` reads `rd`, the slices read `rsl` -/
def waitProcsG (cfg : Cfg) (cg : Step) (rd rsl : Rat → Rat) (procs : List Nat) (timeout : Option Rat)
    (order : Nat → List Nat → List Nat) (fuel : Nat) (m : WPM) : Except Outcome (WPM × List Nat) :=
  if negative timeout then .error .valueError
  else
    let alive := dedup procs
    match timeout with
    | some τ =>
      match whileTG cfg cg rsl order (rd m.w.now + τ) fuel alive m τ with
      | .error o => .error o
      | .ok (m', alive') => lastAttemptG cg order alive' m'
    | none =>
      match whileNG cfg cg order fuel alive m with
      | .error o => .error o
      | .ok (m', alive') => lastAttemptG cg order alive' m'

/-- the `check_gone` step of the code: every `proc.wait` is `Process.wait` / `Popen.wait` with `wait_pid`
    reading clocks `cs` / `cc` under wall clock `wall` -/
def checkGoneK (cfg : Cfg) (envOf : Nat → Env) (hasCb : Bool) (fuel : Nat) (cs cc : Clock) (wall : Wall) : Step :=
  checkGoneMG cfg envOf hasCb
    (fun pid timeout now p => procWaitK cfg .kill (envOf pid) View.full cs cc wall timeout fuel now p)

/-- `wait_procs` from its first line (argument checks as `waitProcsFrontM`), every clock reading made
    on the clock the translator found, under wall clock `wall` -/
def waitProcsFrontK (cfg : Cfg) (envOf : Nat → Env) (wall : Wall) (procs : List Nat) (hashable : Bool)
    (timeout : Option Rat) (cb : Cb) (order : Nat → List Nat → List Nat) (fuel : Nat) (m : WPM) :
    Except WPErr (WPM × List Nat) :=
  if negative timeout then .error (.out .valueError)
  else if !hashable then .error .typeError
  else if cfg.cbCheck && cb == .notCallable then .error .typeError
  else
    match waitProcsG cfg (checkGoneK cfg envOf (cb != .absent) fuel cfg.stopClock cfg.checkClock wall)
            (cfg.procsDeadlineClock.read wall) (cfg.procsSliceClock.read wall) procs timeout order fuel m with
    | .error o => .error (.out o)
    | .ok r => .ok r

end Psutil.C15
