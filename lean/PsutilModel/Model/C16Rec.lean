/-
  Model/C16Rec.lean — the record handed out by a memoised helper is an OBJECT that its consumers share.

  `Model/C16.lean` abstracts the content of a source to one version number and a cached value to an immutable
  copy of it. The code caches a Python object: `_parse_stat_file()` returns a dict, the wrapper of
  `memoize_when_activated` stores THAT dict in the block's `_cache` and hands the very same object to every
  platform method that asks for it while the block is open. This model keeps what the other one abstracts away:

    * the kernel's record is a line of independent field values (`Line`; position 0 = the name between the
      parentheses, position i+1 = `fields[i]`), of any length;
    * the parser (`PField` rows extracted by the translator: key, position, what happens when the line is too
      short) builds the dict (`Rec`);
    * a platform method (`Consumer`) is the list of things it does to the dict it was handed, in program order
      (`Use`: subscript, `.get`, `.pop`, `del`, item assignment, `.clear()`): inside a block these act on the
      cached object itself, outside a block on a private one that is dropped afterwards;
    * a public method (`Route`) reaches its consumer through the front-end memoisation (`memo = true`:
      `cpu_times`, `ppid`) or directly (`memo = false`: `cpu_percent` calls `self._proc.cpu_times()`, `name`,
      `cpu_num`, …), so one consumer may run several times in one block.

  The front-end `_cache` is keyed by the route (≙ the decorated function object), the platform `_cache` has the
  single entry of the dict-returning helper. Block entry / exit as in `Model/C16.lean` (nesting decided by the
  front-end attribute, deactivation however the block is left: both are obligations of `cfg_good`).
  The process is alive and the file readable throughout (every other world dimension is `Model/C16.lean`'s).
  Import-free.
-/
namespace Psutil.C16.Rec

abbrev Key := String
/-- the dict `_parse_stat_file()` returns -/
abbrev Rec := List (Key × Nat)
/-- one kernel record: the name, then the whitespace-separated fields after the closing parenthesis -/
abbrev Line := List Nat

/-- what the parser does for a key whose position lies beyond the end of the line -/
inductive Short
  | fail                -- `ret[k] = fields[i]`: IndexError
  | dflt (d : Nat)      -- `try: ret[k] = fields[i] except IndexError: ret[k] = d`
  | omit                -- `if len(fields) > i: ret[k] = fields[i]`: the key is left out
  deriving DecidableEq, Repr

structure PField where
  key : Key
  idx : Nat
  short : Short
  deriving DecidableEq, Repr

def parse : List PField → Line → Option Rec
  | [], _ => some []
  | p :: ps, l =>
    match l[p.idx]?, p.short with
    | some v, _ => (parse ps l).map ((p.key, v) :: ·)
    | none, .fail => none
    | none, .dflt d => (parse ps l).map ((p.key, d) :: ·)
    | none, .omit => parse ps l

/-- one thing a consumer does with the dict it was handed -/
inductive Use
  | read (k : Key)                 -- values[k]             (KeyError when the key is missing)
  | readOr (k : Key) (d : Nat)     -- values.get(k, d)
  | take (k : Key)                 -- values.pop(k)         reports the value AND removes the key
  | takeOr (k : Key) (d : Nat)     -- values.pop(k, d)
  | drop (k : Key)                 -- del values[k]
  | put (k : Key) (v : Nat)        -- values[k] = <constant>
  | wipe                           -- values.clear()
  deriving DecidableEq, Repr

/-- the uses that leave the object as it was -/
def Use.pure : Use → Bool
  | .read _ | .readOr _ _ => true
  | _ => false

inductive Err | keyError | indexError
  deriving DecidableEq, Repr

/-- what a method reports: the (key, value) pairs it took out of the record, in program order -/
abbrev Ans := List (Key × Nat)

def del (r : Rec) (k : Key) : Rec := r.filter (fun kv => kv.1 != k)

def useOne (r : Rec) : Use → Rec × Except Err Ans
  | .read k => match r.lookup k with
    | some v => (r, .ok [(k, v)])
    | none => (r, .error .keyError)
  | .readOr k d => (r, .ok [(k, (r.lookup k).getD d)])
  | .take k => match r.lookup k with
    | some v => (del r k, .ok [(k, v)])
    | none => (r, .error .keyError)
  | .takeOr k d => (del r k, .ok [(k, (r.lookup k).getD d)])
  | .drop k => match r.lookup k with
    | some _ => (del r k, .ok [])
    | none => (r, .error .keyError)
  | .put k v => ((k, v) :: del r k, .ok [])
  | .wipe => ([], .ok [])

/-- a consumer's body on the object `r`: the object afterwards (also when an exception cut the body short) and the answer -/
def runUses : Rec → List Use → Rec × Except Err Ans
  | r, [] => (r, .ok [])
  | r, u :: us =>
    match useOne r u with
    | (r1, .error e) => (r1, .error e)
    | (r1, .ok a) =>
      match runUses r1 us with
      | (r2, .ok as) => (r2, .ok (a ++ as))
      | (r2, .error e) => (r2, .error e)

structure Consumer where
  name : String
  uses : List Use
  deriving DecidableEq, Repr

structure Route where
  name : String          -- public method
  consumer : String      -- the platform method it calls
  memo : Bool            -- the public method carries `@memoize_when_activated`
  deriving DecidableEq, Repr

structure RCfg where
  fields : List PField
  consumers : List Consumer
  routes : List Route

def usesOf (c : RCfg) (r : Route) : List Use :=
  match c.consumers.find? (fun x => x.name == r.consumer) with
  | some x => x.uses
  | none => []

structure St where
  cache : Option (List (Nat × Ans))    -- front-end `_cache` (absent = none); key = route number ≙ the function object
  pcache : Option (Option Rec)          -- platform `_cache`: absent / no entry for the helper yet / THE cached dict
  stack : List Bool                     -- open `with p.oneshot()` levels; true = the activating one

def St.init : St := ⟨none, none, []⟩

/-- the platform method: `values = self._parse_stat_file()` through the wrapper of `memoize_when_activated`
    (case 2: no cache, a private dict; case 3: parse, STORE the dict, hand it out; case 1: hand out the stored dict),
    then the method's own statements on the object it got -/
def platCall (c : RCfg) (r : Route) (st : St) (l : Line) : St × Except Err Ans :=
  match st.pcache with
  | none =>
    match parse c.fields l with
    | none => (st, .error .indexError)
    | some rec => (st, (runUses rec (usesOf c r)).2)
  | some none =>
    match parse c.fields l with
    | none => (st, .error .indexError)               -- nothing stored
    | some rec =>
      ({ st with pcache := some (some (runUses rec (usesOf c r)).1) }, (runUses rec (usesOf c r)).2)
  | some (some rec) =>
    ({ st with pcache := some (some (runUses rec (usesOf c r)).1) }, (runUses rec (usesOf c r)).2)

/-- a public call `p.<route>()` of route number `i` -/
def call (c : RCfg) (i : Nat) (r : Route) (st : St) (l : Line) : St × Except Err Ans :=
  if r.memo then
    match st.cache with
    | none => platCall c r st l
    | some d =>
      match d.lookup i with
      | some a => (st, .ok a)
      | none =>
        match platCall c r st l with
        | (st', .ok a) => ({ st' with cache := some ((i, a) :: d) }, .ok a)
        | (st', .error e) => (st', .error e)
  else platCall c r st l

def enter (st : St) : St :=
  if st.cache.isSome then { st with stack := false :: st.stack }
  else ⟨some [], some none, true :: st.stack⟩

def exit (st : St) : St :=
  match st.stack with
  | [] => st
  | false :: rest => { st with stack := rest }
  | true :: rest => ⟨none, none, rest⟩

inductive Op
  | enter
  | exit (byExc : Bool)
  | call (i : Nat)               -- index into cfg.routes
  | setLine (l : Line)           -- the kernel publishes a new record
  deriving DecidableEq, Repr

inductive Out
  | unit
  | ret (r : Except Err Ans)
  | badIndex

instance : DecidableEq (Except Err Ans) := fun a b =>
  match a, b with
  | .ok x, .ok y => if h : x = y then isTrue (by rw [h]) else isFalse (by intro h'; cases h'; exact h rfl)
  | .error x, .error y => if h : x = y then isTrue (by rw [h]) else isFalse (by intro h'; cases h'; exact h rfl)
  | .ok _, .error _ => isFalse (by intro h; cases h)
  | .error _, .ok _ => isFalse (by intro h; cases h)

deriving instance DecidableEq for Out

structure Sys where
  st : St
  line : Line

def step (c : RCfg) (y : Sys) : Op → Sys × Out
  | .enter => (⟨enter y.st, y.line⟩, .unit)
  | .exit _ => (⟨exit y.st, y.line⟩, .unit)
  | .call i =>
    match c.routes[i]? with
    | none => (y, .badIndex)
    | some r =>
      (⟨(call c i r y.st y.line).1, y.line⟩, .ret (call c i r y.st y.line).2)
  | .setLine l => (⟨y.st, l⟩, .unit)

def outs (c : RCfg) : Sys → List Op → List Out
  | _, [] => []
  | y, op :: ops => (step c y op).2 :: outs c (step c y op).1 ops

end Psutil.C16.Rec
