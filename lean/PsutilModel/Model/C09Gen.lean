/- Model/C09Gen.lean — the C09 model instantiated with the facts the translator extracted. -/
import PsutilModel.Model.C09
import PsutilModel.Model.C09Wrap
import PsutilModel.Generated.C09
namespace Psutil.C09

def netCfg : NetCfg :=
  { skip := Gen.C09.netSkipLines
    rfind := Gen.C09.netUsesRfind
    unpack := Gen.C09.netUnpack
    output := Gen.C09.netOutput
    stripSet := Gen.C09.netNameStrip
    univNl := Gen.C09.textUniversalNewlines }

def diskCfg : DiskCfg :=
  { branches := Gen.C09.diskBranches.map fun b =>
      { guard := b.1, nameIdx := b.2.1, singles := b.2.2.1, lo := b.2.2.2.1, hi := b.2.2.2.2.1,
        unpack := b.2.2.2.2.2.1, zeros := b.2.2.2.2.2.2 }
    yieldNames := Gen.C09.diskYield
    entryNames := Gen.C09.diskEntry
    retNames := Gen.C09.diskRet
    scaled := Gen.C09.diskScaled
    sector := Gen.C09.diskSectorSize
    skipPartitions := Gen.C09.diskSkipsPartitionsForTotal
    slashFrom := Gen.C09.storageReplace.1
    slashTo := Gen.C09.storageReplace.2
    univNl := Gen.C09.textUniversalNewlines }

/-- `"{}"` / `"None"` as written in the source → the value returned -/
def emptyOf (s : String) : Out :=
  if s = "{}" then .emptyDict else if s = "None" then .none else .exc .nameError

def diskEmptyPer : Out := emptyOf (Gen.C09.frontEmpty.getD 0 "")
def diskEmptyTot : Out := emptyOf (Gen.C09.frontEmpty.getD 1 "")
def netEmptyPer : Out := emptyOf (Gen.C09.frontEmpty.getD 2 "")
def netEmptyTot : Out := emptyOf (Gen.C09.frontEmpty.getD 3 "")

/-- `nt(*(R(x) for x in S))` of the two front ends -/
def aggOf (p : String × String) : AggCfg := { reducer := p.1, source := p.2 }
def diskAgg : AggCfg := aggOf (Gen.C09.frontTotal.getD 0 ("", ""))
def netAgg : AggCfg := aggOf (Gen.C09.frontTotal.getD 1 ("", ""))

def sysfsCfg : SysfsCfg :=
  { statName := Gen.C09.sysfsStatName
    take := Gen.C09.sysfsTake
    unpack := Gen.C09.sysfsUnpack
    yieldNames := Gen.C09.sysfsYield
    nameReplace := Gen.C09.sysfsNameReplace }

/-- the `read_sysfs` of the source with another treatment of the directory name -/
def sysfsCfgWith (nr : Option (Nat × Nat)) : SysfsCfg := { sysfsCfg with nameReplace := nr }

/-- the generators in the order `_pslinux.disk_io_counters` tries them -/
def diskSourceOrder : List String := Gen.C09.diskSources.map (·.1)

/-- `psutil.net_io_counters(pernic, nowrap=False)` over the content of `/proc/net/dev` -/
def netIoCounters (pernic : Bool) (file : Bytes) : Out :=
  frontEnd Gen.C09.snetioFields netAgg netEmptyPer netEmptyTot pernic (netPlatform netCfg file)

/-- `psutil.disk_io_counters(perdisk, nowrap=False)` over the content of `/proc/diskstats`
    and the entries of `/sys/block` -/
def diskIoCounters (sysBlock : List Bytes) (perdisk : Bool) (file : Bytes) : Out :=
  frontEnd Gen.C09.sdiskioFields diskAgg diskEmptyPer diskEmptyTot perdisk
    (diskPlatform diskCfg (isStorageDevice diskCfg sysBlock) perdisk file)

/-- `psutil.disk_io_counters(perdisk, nowrap=False)` in a world where `/proc/diskstats` and/or
    `/sys/block` may be missing: `read_procfs`, else `read_sysfs`, else `NotImplementedError` -/
def diskIoCountersWith (sc : SysfsCfg) (w : DiskWorld) (perdisk : Bool) : Out :=
  frontEnd Gen.C09.sdiskioFields diskAgg diskEmptyPer diskEmptyTot perdisk
    (diskPlatformW diskCfg sc w perdisk diskSourceOrder)

def diskIoCountersW (w : DiskWorld) (perdisk : Bool) : Out := diskIoCountersWith sysfsCfg w perdisk

def usageCfg : UsageCfg :=
  { assigns := Gen.C09.usageAssigns.map fun a => { var := a.1, op := a.2.1, lhs := a.2.2.1, rhs := a.2.2.2 }
    pctUsed := Gen.C09.usagePct.1
    pctTotal := Gen.C09.usagePct.2.1
    pctRound := Gen.C09.usagePct.2.2
    pctShape := Gen.C09.usagePercentIsRatioTimes100
    outTotal := Gen.C09.usageOut.1
    outUsed := Gen.C09.usageOut.2.1
    outFree := Gen.C09.usageOut.2.2 }

/-! ### the default call form (`nowrap=True`) over a history of calls — Model/C09Wrap.lean instantiated -/

def wrapStrict : Bool := Gen.C09.wrapStrictLess
def diskPerName : String := Gen.C09.wrapNames.getD 0 "?"
def diskTotName : String := Gen.C09.wrapNames.getD 1 "?"
def netPerName : String := Gen.C09.wrapNames.getD 2 "?"
def netTotName : String := Gen.C09.wrapNames.getD 3 "?"
def diskClearNames : List String := Gen.C09.wrapClearNames.getD 0 []
def netClearNames : List String := Gen.C09.wrapClearNames.getD 1 []

/-- `psutil.net_io_counters(pernic, nowrap=True)` in the state `w` of `_wn` -/
def netIoCountersWrap (w : WState) (pernic : Bool) (file : Bytes) : WState × Out :=
  frontEndWrap wrapStrict (if pernic then netPerName else netTotName) Gen.C09.snetioFields netAgg netEmptyPer netEmptyTot
    pernic w (netPlatform netCfg file)

/-- `psutil.disk_io_counters(perdisk, nowrap=True)` in the state `w` of `_wn` -/
def diskIoCountersWrap (w : WState) (sysBlock : List Bytes) (perdisk : Bool) (file : Bytes) : WState × Out :=
  frontEndWrap wrapStrict (if perdisk then diskPerName else diskTotName) Gen.C09.sdiskioFields diskAgg diskEmptyPer
    diskEmptyTot perdisk w (diskPlatform diskCfg (isStorageDevice diskCfg sysBlock) perdisk file)

def mstep (w : WState) : MStep → WState × Out
  | .net per nowrap file => if nowrap then netIoCountersWrap w per file else (w, netIoCounters per file)
  | .disk per nowrap sb file => if nowrap then diskIoCountersWrap w sb per file else (w, diskIoCounters sb per file)
  | .clearNet => (w.clear netClearNames, .none)          -- `cache_clear()` returns None
  | .clearDisk => (w.clear diskClearNames, .none)

/-- the value returned by every call of a history -/
def mrun (w : WState) : List MStep → List Out
  | [] => []
  | s :: r => (mstep w s).2 :: mrun (mstep w s).1 r

end Psutil.C09
