/- Model/C01KillDriver.lean — line protocol for the kill(2)-argument clause: `{"fn": entry point, "pid": n, "observed":
   [pid arguments of the os.kill calls the real call made]}` → model = `killsOf` on the extracted call graph, spec =
   `noGroupKillB` decided on the OBSERVED list. -/
import PsutilModel.Base.Proto
import PsutilModel.Model.C01Kill
import PsutilModel.Spec.C01Kill
open Lean
namespace Psutil.C01.Kill.Drv
open Psutil.Proto

def handle (cfg : KCfg) (j : Json) : R Json := do
  let fn ← (← field j "fn") |> asStr
  let pid ← (← field j "pid") |> asInt
  let obsJ ← field j "observed"
  let obs ← match obsJ with
    | .arr a => a.toList.mapM asInt
    | _ => .error "observed: not a list"
  let ks := killsOf cfg (fuel cfg) fn pid
  let isRoot := cfg.roots.any fun r => r.1 == fn
  return Json.mkObj [
    ("model", Json.mkObj [("kills", Json.arr (ks.map fun k => Json.num (JsonNumber.fromInt k)).toArray), ("root", Json.bool isRoot)]),
    ("spec", Json.mkObj [("ok", Json.bool (noGroupKillB obs))])]

def main (cfg : KCfg) : IO Unit :=
  Proto.run () (Proto.total fun (_ : Unit) j => (handle cfg j).map fun r => ((), r))

end Psutil.C01.Kill.Drv
