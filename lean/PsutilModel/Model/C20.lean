/-
  Model/C20.lean — the non-Linux platform layers of psutil (`_psbsd.py`, `_psosx.py`,
  `_pssunos.py`, `_psaix.py`, `_pswindows.py`) and the platform-conditional post-processing of
  the front end, transcribed *as they are*.

  * `wrapExceptions` interprets the `except` clauses of a module's `wrap_exceptions`
    decorator in source order; the clause list itself is a translator fact
    (`Generated/C20.lean`), so the transcription below only fixes what each *kind* of clause
    body does (zombie probe, pid_exists probe, AccessDenied, the pid-0 rule, Windows
    `convert_oserror`).
  * `inner` is the hand transcription of every `try/except` that sits *inside* a Process
    method (fallbacks, `hit_enoent`, NetBSD `EINVAL`, AIX `io_counters`, …); the translator
    lists the methods that contain such a handler and `Props` proves the two lists agree.
  * `methodFault` = what a caller of `Process.<method>()` observes when one native call of the
    method raises `OSError(errno)` and the pid is then gone / a zombie / alive *as seen by the
    module's own probe*.
  * slot tables, namedtuple feeds and `net_if_addrs` post-processing (MAC padding, Windows
    broadcast address) are plain data / small functions.
  Import-free.
-/
namespace Psutil.C20

/-! ## Platforms -/

/-- the seven platform identities the package can be imported as (Linux is C03's business) -/
inductive Platform | freebsd | openbsd | netbsd | macos | sunos | aix | windows
  deriving DecidableEq, Repr

/-- the platform *module* that implements an identity -/
inductive Family | bsd | osx | sunos | aix | windows
  deriving DecidableEq, Repr

def Platform.family : Platform → Family
  | .freebsd | .openbsd | .netbsd => .bsd
  | .macos => .osx
  | .sunos => .sunos
  | .aix => .aix
  | .windows => .windows

def Platform.all : List Platform := [.freebsd, .openbsd, .netbsd, .macos, .sunos, .aix, .windows]
def Family.all : List Family := [.bsd, .osx, .sunos, .aix, .windows]

def Platform.key : Platform → String
  | .freebsd => "freebsd" | .openbsd => "openbsd" | .netbsd => "netbsd" | .macos => "macos"
  | .sunos => "sunos" | .aix => "aix" | .windows => "windows"

def Family.key : Family → String
  | .bsd => "bsd" | .osx => "osx" | .sunos => "sunos" | .aix => "aix" | .windows => "windows"

def Platform.ofKey? (s : String) : Option Platform := Platform.all.find? (·.key == s)

/-! ## Errors as Python sees them -/

inductive Errno | ESRCH | ENOENT | EPERM | EACCES | EIO | EINVAL
  deriving DecidableEq, Repr

def Errno.all : List Errno := [.ESRCH, .ENOENT, .EPERM, .EACCES, .EIO, .EINVAL]

def Errno.name : Errno → String
  | .ESRCH => "ESRCH" | .ENOENT => "ENOENT" | .EPERM => "EPERM" | .EACCES => "EACCES"
  | .EIO => "EIO" | .EINVAL => "EINVAL"

/-- an `OSError` instance: errno, and on Windows the `winerror` attribute (`None` = `none`) -/
structure Err where
  errno : Errno
  winerror : Option Nat
  deriving DecidableEq, Repr

/-- the `OSError` subclass CPython instantiates for an errno (PEP 3151) — trusted -/
inductive PyClass | processLookup | fileNotFound | permission | osError
  deriving DecidableEq, Repr

def pyClass : Errno → PyClass
  | .ESRCH => .processLookup
  | .ENOENT => .fileNotFound
  | .EPERM | .EACCES => .permission
  | .EIO | .EINVAL => .osError

/-- `isinstance(exc, <one of the names written in the except clause>)` -/
def catches (names : List String) (c : PyClass) : Bool :=
  names.any fun n =>
    n == "OSError" || n == "Exception" || n == "BaseException" || n == "EnvironmentError" ||
    (n == "ProcessLookupError" && c == .processLookup) ||
    (n == "FileNotFoundError" && c == .fileNotFound) ||
    (n == "PermissionError" && c == .permission)

/-! ## The world as the module's own probe sees it -/

inductive PidState | gone | zombie | alive
  deriving DecidableEq, Repr

def PidState.all : List PidState := [.gone, .zombie, .alive]

structure Env where
  pid : Nat
  state : PidState
  /-- `0 in pids()` -/
  pid0Listed : Bool
  deriving DecidableEq, Repr

/-- BSD/macOS `is_zombie(pid)`: one-shot record readable and its status slot says zombie -/
def isZombie (env : Env) : Bool := env.state == .zombie

/-- `pid_exists(pid)` as the SunOS / AIX / NetBSD modules define it -/
def pidExists (f : Family) (env : Env) : Bool :=
  match f with
  | .aix => env.state != .gone                       -- /proc/<pid>/psinfo exists
  | _ => env.pid == 0 || env.state != .gone          -- _psposix.pid_exists: pid 0 → True, else kill(pid, 0)

/-! ## Outcomes -/

inductive Outcome
  | nsp (pid : Nat) (named : Bool)        -- NoSuchProcess(pid, name)
  | zombie (pid : Nat) (named : Bool)     -- ZombieProcess(pid, name, ppid)
  | ad (pid : Nat) (named : Bool)         -- AccessDenied(pid, name)
  | raw (e : Err)                         -- the OSError leaves the method unchanged
  | value                                 -- the method returns normally
  | unmodelled                            -- the translator met a clause this model has no reading for
  deriving DecidableEq, Repr

/-! ## `wrap_exceptions` -/

/-- what the body of one `except` clause does (recognised by the translator from its AST) -/
inductive Action
  | zombieProbe      -- if is_zombie(pid): raise ZombieProcess(pid, name, ppid); raise NoSuchProcess(pid, name)
  | existsProbe      -- if not pid_exists(pid): raise NoSuchProcess(pid, name); raise ZombieProcess(pid, name, ppid)
  | accessDenied     -- raise AccessDenied(pid, name)
  | pid0Rule         -- if pid == 0 and 0 in pids(): raise AccessDenied(pid, name); raise
  | convertOserror   -- raise convert_oserror(err, pid=self.pid, name=self._name)
  | unknown
  deriving DecidableEq, Repr

def Action.ofTag (s : String) : Action :=
  if s == "zombieProbe" then .zombieProbe
  else if s == "existsProbe" then .existsProbe
  else if s == "accessDenied" then .accessDenied
  else if s == "pid0Rule" then .pid0Rule
  else if s == "convertOserror" then .convertOserror
  else .unknown

structure Clause where
  names : List String
  action : Action
  deriving DecidableEq, Repr

/-- test of one `if` of `convert_oserror` -/
inductive ConvTest | permission | processLookup | otherwise | unknown
  deriving DecidableEq, Repr
/-- what that branch does -/
inductive ConvAct | ad | nsp | reraise | unknown
  deriving DecidableEq, Repr

def ConvTest.ofTag (s : String) : ConvTest :=
  if s == "permission" then .permission else if s == "ProcessLookupError" then .processLookup
  else if s == "else" then .otherwise else .unknown
def ConvAct.ofTag (s : String) : ConvAct :=
  if s == "AD" then .ad else if s == "NSP" then .nsp else if s == "raise" then .reraise else .unknown

/-- Windows: `is_permission_err` and `convert_oserror`, with the translator's facts -/
structure WinCfg where
  /-- `isinstance(exc, PermissionError)` is part of `is_permission_err` -/
  permIsinstance : Bool
  /-- `exc.winerror in {…}` -/
  permCodes : List Nat
  /-- branches of `convert_oserror` in source order -/
  convert : List (ConvTest × ConvAct)
  partialCopy : Nat
  retryTimes : Nat
  deriving DecidableEq, Repr

def isPermissionErr (w : WinCfg) (e : Err) : Bool :=
  (w.permIsinstance && pyClass e.errno == .permission) ||
  (match e.winerror with | some c => w.permCodes.contains c | none => false)

def convertOserrorGo (w : WinCfg) (e : Err) (pid : Nat) : List (ConvTest × ConvAct) → Outcome
  | [] => .unmodelled
  | (test, act) :: rest =>
    let hit : Bool :=
      match test with
      | .permission => isPermissionErr w e
      | .processLookup => pyClass e.errno == .processLookup
      | .otherwise => true
      | .unknown => false
    if hit then
      (match act with
       | .ad => .ad pid true
       | .nsp => .nsp pid true
       | .reraise => .raw e
       | .unknown => .unmodelled)
    else convertOserrorGo w e pid rest

def convertOserror (w : WinCfg) (e : Err) (pid : Nat) : Outcome := convertOserrorGo w e pid w.convert

def runAction (f : Family) (w : WinCfg) (a : Action) (e : Err) (env : Env) : Outcome :=
  match a with
  | .zombieProbe => if isZombie env then .zombie env.pid true else .nsp env.pid true
  | .existsProbe => if !pidExists f env then .nsp env.pid true else .zombie env.pid true
  | .accessDenied => .ad env.pid true
  | .pid0Rule => if env.pid == 0 && env.pid0Listed then .ad env.pid true else .raw e
  | .convertOserror => convertOserror w e env.pid
  | .unknown => .unmodelled

/-- first matching `except` clause wins; no clause → the exception propagates -/
def runClauses (f : Family) (w : WinCfg) (e : Err) (env : Env) : List Clause → Outcome
  | [] => .raw e
  | c :: cs => if catches c.names (pyClass e.errno) then runAction f w c.action e env
               else runClauses f w e env cs

/-- everything the model needs from the translator -/
structure Cfg where
  /-- `wrap_exceptions` clauses per platform module -/
  clauses : Family → List Clause
  /-- `_psbsd.wrap_exceptions_procfs` -/
  procfsClauses : List Clause
  win : WinCfg
  /-- `nt = nt._replace(broadcast=broadcast)` (true) or the value is dropped (false) -/
  broadcastAssigned : Bool
  /-- `net_if_addrs()`: the value handed to `_replace(broadcast=…)` for a record was bound in the SAME
      iteration of the record loop on every path that reaches the call (true), or a path reaches it on
      which the name still holds what an earlier record left there (false) -/
  broadcastFresh : Bool
  /-- Solaris `_proc_basic_info`: the AccessDenied for an unreadable PID 0 carries the cached name -/
  sunosPid0Named : Bool
  /-- Windows `memory_maps()`: every `convert_dos_path(...)` of the per-mapping loop sits inside the
      `try` whose `except OSError` does `raise convert_oserror(err, self.pid, self._name)` (true), or
      only the first native call does (false) -/
  winMapsLoopGuarded : Bool
  /-- `Process._get_ident`: the `WINDOWS` branch asks for `create_time(fast_only=True)` and the Windows
      `create_time` then re-raises a permission error instead of taking the slower fall-back -/
  winIdentFastOnly : Bool

def wrapExceptions (cfg : Cfg) (f : Family) (e : Err) (env : Env) : Outcome :=
  runClauses f cfg.win e env (cfg.clauses f)

/-! ## Handlers inside method bodies (hand transcription) -/

inductive Inner
  | escapes              -- nothing inside the method catches it
  | absorbed             -- caught; the method carries on with another source and returns
  | absorbedIfPerm       -- Windows: `if is_permission_err(err): <fallback through proc_info>` else re-raise
  | retrySameIfPerm      -- Windows cmdline: permission error → same native function again with use_peb=False
  | absorbedIfAD         -- SunOS uids/gids: the (wrapped) helper's AccessDenied is caught, the rest passes
  | enoentThenAlive      -- `hit_enoent`: FileNotFoundError is noted, then /proc/<pid> is stat'ed (ENOENT if gone)
  | enoentAbsorbed       -- SunOS terminal: FileNotFoundError → try the next descriptor
  | procfsWrap           -- NetBSD exe: `with wrap_exceptions_procfs(self)`
  | goneThenNsp          -- AIX io_counters: `if not pid_exists(pid): raise NoSuchProcess` else re-raise
  | einvalProbe          -- NetBSD cmdline: EINVAL → zombie? → Zombie; not pid_exists → NSP; else []
  | viaWrappedHelper     -- undecorated method whose only native calls go through a decorated method
  | handConverted        -- undecorated; `except OSError: raise convert_oserror(err, pid, name)` by hand
  | bare                 -- undecorated generator; the call is outside its hand-written `try`
  | probeSaysNo          -- the call is `os.path.exists/isfile/islink`: its stat() failed, the OSError is swallowed there
                         -- and the answer is False; the method leaves that ONE path out (an fd link, a candidate
                         -- executable) and carries on
  | pid0PsinfoGate       -- Solaris `_proc_basic_info`, PID 0: `os.path.exists(/proc/0/psinfo)` answers False (also when
                         -- its stat() failed) → `raise AccessDenied(self.pid, self._name)`
  deriving DecidableEq, Repr

/-- the Solaris methods that read the psinfo record through `_proc_basic_info()` (which, for PID 0, first
    asks `os.path.exists(<procfs>/0/psinfo)`); `uids`/`gids` reach it on their fall-back path only -/
def sunosBasicInfoMethods : List String :=
  ["create_time", "memory_full_info", "memory_info", "nice_get", "num_threads", "ppid", "status", "terminal",
   "uids", "gids"]

/-- which handler a native call sits under, per platform / method / callee.
    Source: the `try` statements of the five modules (hand transcription; the translator pins the
    list of methods that contain such a handler, `innerTry`, not the handler bodies — those are
    tied by the differential run only). -/
def inner (cfg : Cfg) (p : Platform) (meth call : String) : Inner :=
  match p with
  | .netbsd =>
    if meth == "exe" && call == "os.readlink" then .procfsWrap
    else if meth == "cmdline" && call == "proc_cmdline" then .einvalProbe
    else .escapes
  | .freebsd | .openbsd | .macos => .escapes
  | .sunos =>
    if meth == "exe" && call == "os.readlink" then .absorbed
    else if (meth == "uids" || meth == "gids") && call == "proc_cred" then .absorbedIfAD
    else if meth == "terminal" && call == "os.readlink" then .enoentAbsorbed
    else if (meth == "cwd" || meth == "open_files" || meth == "memory_maps") && call == "os.readlink" then .enoentThenAlive
    else if meth == "threads" && call == "query_process_thread" then .enoentThenAlive
    else if call == "os.path.exists" && sunosBasicInfoMethods.contains meth then .pid0PsinfoGate
    else if meth == "open_files" && call == "os.path.islink" then .probeSaysNo
    else .escapes
  | .aix =>
    if meth == "cwd" && call == "os.readlink" then .enoentThenAlive
    else if meth == "exe" && call == "os.path.isfile" then .probeSaysNo
    else if meth == "io_counters" && call == "proc_io_counters" then .goneThenNsp
    else .escapes
  | .windows =>
    if meth == "cmdline" && call == "proc_cmdline" then .retrySameIfPerm
    else if (meth == "create_time" || meth == "cpu_times") && call == "proc_times" then .absorbedIfPerm
    else if (meth == "memory_info" || meth == "memory_full_info") && call == "proc_memory_info" then .absorbedIfPerm
    else if meth == "io_counters" && call == "proc_io_counters" then .absorbedIfPerm
    else if meth == "num_handles" && call == "proc_num_handles" then .absorbedIfPerm
    else if meth == "name" then .viaWrappedHelper
    else if meth == "memory_maps" && call == "proc_memory_maps" then .handConverted
    else if meth == "memory_maps" then (if cfg.winMapsLoopGuarded then .handConverted else .bare)
    -- `ppid`: its only handler is `except KeyError`; an OSError leaves the body and meets the
    -- decorator if the method has one (`escape`), nothing otherwise
    else .escapes

/-- every place where a METHOD (no fault, an empty native answer, or its alternative path after a first
    fault) asks a yes/no question through `os.path.exists/isfile/islink` — a stat() whose failure the
    method can never see — with what the method does when the answer is "no" (the transcription above).
    `Props` proves the generated traces contain exactly these (identity, method, question) triples: a
    re-check or any other OS query that is moved behind such a question is noticed. -/
def pathProbeSites (p : Platform) : List (String × String) :=
  match p with
  | .sunos => (sunosBasicInfoMethods.map fun m => (m, "os.path.exists")) ++ [("open_files", "os.path.islink")]
  | .aix => [("exe", "os.path.isfile")]
  | _ => []

/-- (module, method) pairs that contain an OSError-capable handler according to this
    transcription; `Props` proves it equals the translator's list. -/
def handledMethods : List (String × String) :=
  [ ("bsd", "exe"), ("bsd", "cmdline"), ("bsd", "cpu_affinity_set"),
    ("sunos", "exe"), ("sunos", "uids"), ("sunos", "gids"), ("sunos", "cpu_times"), ("sunos", "terminal"),
    ("sunos", "cwd"), ("sunos", "threads"), ("sunos", "open_files"), ("sunos", "memory_maps"),
    ("aix", "cwd"), ("aix", "io_counters"),
    ("windows", "exe"), ("windows", "cmdline"), ("windows", "_get_raw_meminfo"), ("windows", "memory_maps"),
    ("windows", "create_time"), ("windows", "cpu_times"), ("windows", "io_counters"), ("windows", "num_handles") ]

/-! ## One faulted native call of one method -/

structure Method where
  name : String
  /-- decorator names, outermost first -/
  decorators : List String
  deriving DecidableEq, Repr

def Method.wrapped (m : Method) : Bool := m.decorators.contains "wrap_exceptions"
def Method.retries (m : Method) : Bool := m.decorators.contains "retry_error_partial_copy"

/-- the error, after the method body let it go, meets the decorator (or nothing) -/
def escape (cfg : Cfg) (p : Platform) (m : Method) (e : Err) (env : Env) : Outcome :=
  if m.wrapped then wrapExceptions cfg p.family e env else .raw e

/-- `enoent` = the raised error is a FileNotFoundError -/
def isEnoent (e : Err) : Bool := pyClass e.errno == .fileNotFound

/-- error raised by `os.stat("/proc/<pid>")` when the pid is gone -/
def procGoneErr : Err := ⟨.ENOENT, none⟩

/-- what happens inside the method body: the error is settled there, or it leaves the body -/
inductive Body
  | settled (o : Outcome)
  | leaves (e : Err)
  deriving DecidableEq, Repr

/--
  What happens to error `e` raised by a native call that sits under handler `i` of method `m`.
  `persistent = false`: only this one call fails; `true`: the *function* keeps failing
  (needed to see the Windows `ERROR_PARTIAL_COPY` retry loop give up).
-/
def bodyWith (cfg : Cfg) (p : Platform) (i : Inner) (e : Err) (env : Env) (persistent : Bool) : Body :=
  let f := p.family
  match i with
  | .escapes => .leaves e
  | .absorbed => .settled .value
  | .absorbedIfPerm => if isPermissionErr cfg.win e then .settled .value else .leaves e
  | .retrySameIfPerm =>
    if isPermissionErr cfg.win e && !persistent then .settled .value else .leaves e
  | .absorbedIfAD =>
    (match wrapExceptions cfg f e env with
     | .ad _ _ =>
       -- fall back to `_proc_basic_info()`: PID 0 without a readable /proc/0/psinfo is refused there
       if env.pid == 0 && env.state == .gone then .settled (.ad env.pid cfg.sunosPid0Named)
       else .settled .value
     | .raw e' => .leaves e'
     | o => .settled o)
  | .enoentThenAlive =>
    if isEnoent e then
      (if env.state == .gone then .leaves procGoneErr else .settled .value)
    else .leaves e
  | .enoentAbsorbed => if isEnoent e && !persistent then .settled .value else .leaves e
  | .procfsWrap =>
    (match runClauses f cfg.win e env cfg.procfsClauses with
     | .raw e' => .leaves e'
     | o => .settled o)
  | .goneThenNsp => if !pidExists f env then .settled (.nsp env.pid true) else .leaves e
  | .einvalProbe =>
    if e.errno == .EINVAL then
      (if isZombie env then .settled (.zombie env.pid true)
       else if !pidExists f env then .settled (.nsp env.pid true)
       else .settled .value)
    else .leaves e
  | .viaWrappedHelper => .settled (wrapExceptions cfg f e env)
  | .handConverted => .settled (convertOserror cfg.win e env.pid)
  | .bare => .settled (.raw e)
  | .probeSaysNo => .settled .value
  | .pid0PsinfoGate => .settled (.ad env.pid cfg.sunosPid0Named)

def body (cfg : Cfg) (p : Platform) (m : Method) (call : String) (e : Err) (env : Env)
    (persistent : Bool) : Body :=
  bodyWith cfg p (inner cfg p m.name call) e env persistent

/-- the caller's view once the body is done with the error: the Windows retry decorator sits
    between the body and wrap_exceptions -/
def finish (cfg : Cfg) (p : Platform) (m : Method) (b : Body) (env : Env) (persistent : Bool) : Outcome × Nat :=
  match b with
  | .settled o => (o, 0)
  | .leaves e' =>
    if m.retries && e'.winerror == some cfg.win.partialCopy then
      (if persistent then (.ad env.pid true, cfg.win.retryTimes) else (.value, 1))
    else (escape cfg p m e' env, 0)

/-- Outcome seen by the caller, and the number of `time.sleep` calls of the Windows retry loop. -/
def methodFault (cfg : Cfg) (p : Platform) (m : Method) (call : String) (e : Err) (env : Env)
    (persistent : Bool) : Outcome × Nat :=
  finish cfg p m (body cfg p m call e env persistent) env persistent

/-! ## Two faulted native calls of one method

  The first faulted call either ends the method (then a later fault never fires) or the method
  goes on: an inner handler absorbed the error and the method continues on its alternative
  path (`fallback`), or `retry_error_partial_copy` slept and runs the body again from the start
  (`rerun`). A second call — at a later index of the *faulted* run's trace — then raises `e2`. -/

inductive Mode | fallback | rerun
  deriving DecidableEq, Repr

inductive After
  | ended (o : Outcome) (sleeps : Nat)
  | goesOn (mode : Mode) (sleeps : Nat)
  deriving DecidableEq, Repr

def afterFirst (cfg : Cfg) (p : Platform) (m : Method) (call : String) (e : Err) (env : Env) : After :=
  match body cfg p m call e env false with
  | .settled .value => .goesOn .fallback 0
  | .settled o => .ended o 0
  | .leaves e' =>
    if m.retries && e'.winerror == some cfg.win.partialCopy then .goesOn .rerun 1
    else .ended (escape cfg p m e' env) 0

/-- the handler the second call sits under when the method is on the alternative path that
    absorbing the error of `call1` put it on. Only one place differs from `inner`: Windows
    `cmdline()` repeats `proc_cmdline(use_peb=False)` *inside the except clause*, outside the `try`. -/
def innerAfter (cfg : Cfg) (p : Platform) (meth call1 call2 : String) : Inner :=
  if p == .windows && meth == "cmdline" && call1 == "proc_cmdline" && call2 == "proc_cmdline" then .escapes
  else inner cfg p meth call2

/-- the second fault, given how the method went on after the first -/
def second (cfg : Cfg) (p : Platform) (m : Method) (mode : Mode) (call1 call2 : String) (e2 : Err) (env : Env) :
    Outcome × Nat :=
  match mode with
  | .fallback => finish cfg p m (bodyWith cfg p (innerAfter cfg p m.name call1 call2) e2 env false) env false
  | .rerun => methodFault cfg p m call2 e2 env false

def methodFault2 (cfg : Cfg) (p : Platform) (m : Method) (call1 : String) (e1 : Err) (call2 : String) (e2 : Err)
    (env : Env) : Outcome × Nat :=
  match afterFirst cfg p m call1 e1 env with
  | .ended o s => (o, s)
  | .goesOn mode s =>
    let r := second cfg p m mode call1 call2 e2 env
    (r.1, s + r.2)

/-! ## Record layout -/

abbrev SlotMap := List (String × Nat)

/-- one namedtuple built by a method: type name, and for every field where its value comes from -/
structure Feed where
  method : String
  ntuple : String
  /-- (field name, source) with source = "map.slot" | "const:<v>" | "expr" -/
  fields : List (String × String)
  deriving DecidableEq, Repr

/-- value the method puts in `field`, given the native record (slot ↦ value) -/
def feedValue (maps : List (String × SlotMap)) (record : String → Nat → Option Nat) (src : String) : Option Nat :=
  match src.splitOn "." with
  | [mp, slot] =>
    (match maps.lookup mp with
     | some sm => (match sm.lookup slot with | some i => record mp i | none => none)
     | none => none)
  | _ => none

/-! ## Front-end post-processing: `net_if_addrs()` -/

/-- `while addr.count(sep) < 5: addr += sep + "00"` -/
def padMacGo (sep : Char) : Nat → List Char → List Char
  | 0, a => a
  | fuel + 1, a => if a.count sep < 5 then padMacGo sep fuel (a ++ [sep, '0', '0']) else a

def padMac (sep : Char) (a : List Char) : List Char := padMacGo sep 5 a

/-- 32-bit netmask of a prefix length: `ipaddress._ip_int_from_prefix` = `ALL_ONES ^ (ALL_ONES >> prefixlen)` -/
def prefixMask (n : Nat) : Nat := (2 ^ 32 - 1) ^^^ (2 ^ (32 - n) - 1)

/-- `ipaddress.IPv4Network(f"{addr}/{mask}", strict=False).broadcast_address`
    = `int(network_address) | int(hostmask)` with `network_address = addr & netmask` -/
def ipv4Broadcast (addr plen : Nat) : Nat := (addr &&& prefixMask plen) ||| (2 ^ (32 - plen) - 1)

/-- the same on 128 bits: `ipaddress.IPv6Network(f"{addr}/{prefixlen}", strict=False).broadcast_address` -/
def prefixMask6 (n : Nat) : Nat := (2 ^ 128 - 1) ^^^ (2 ^ (128 - n) - 1)
def ipv6Broadcast (addr plen : Nat) : Nat := (addr &&& prefixMask6 plen) ||| (2 ^ (128 - plen) - 1)

inductive AddrFam | inet | inet6 | link | other
  deriving DecidableEq, Repr

/-- one raw entry handed over by the native `net_if_addrs()` (IPv4 as number + prefix length) -/
structure RawAddr where
  fam : AddrFam
  /-- AF_LINK: the MAC string; otherwise unused -/
  mac : List Char
  /-- AF_INET / AF_INET6: address as a number, and prefix length when a netmask is present -/
  ip : Nat
  plen : Option Nat
  /-- broadcast as given by the native layer (None on Windows) -/
  bcast : Option Nat
  deriving DecidableEq, Repr

structure OutAddr where
  fam : AddrFam
  mac : List Char
  ip : Nat
  plen : Option Nat
  bcast : Option Nat
  deriving DecidableEq, Repr

def netIfAddrsEntry (cfg : Cfg) (windows : Bool) (r : RawAddr) : OutAddr :=
  let sep := if windows then '-' else ':'
  let mac := if r.fam == .link then padMac sep r.mac else r.mac
  let nt : OutAddr := ⟨r.fam, mac, r.ip, r.plen, r.bcast⟩
  if windows && r.fam == .inet then
    match r.plen with
    | some n =>
      if n ≤ 32 then
        (if cfg.broadcastAssigned then { nt with bcast := some (ipv4Broadcast r.ip n) } else nt)
      else nt
    | none => nt
  else if windows && r.fam == .inet6 then
    -- `_common.broadcast_addr`, AF_INET6 branch: the netmask is a prefix length (`IPv6Network` takes
    -- nothing else; the real Windows native layer hands `None` for IPv6, then nothing happens)
    match r.plen with
    | some n =>
      if n ≤ 128 then
        (if cfg.broadcastAssigned then { nt with bcast := some (ipv6Broadcast r.ip n) } else nt)
      else nt
    | none => nt
  else nt

/-! ### One call of `net_if_addrs()`: MANY records, and records on which the helper raises

  The native layer hands a LIST of `(nic, fam, addr, mask, broadcast, ptp)`; the front end sorts it
  by family number (`rawlist.sort(key=lambda x: x[1])`, stable), walks it once, and appends each
  post-processed record to `ret[nic]`. Python's function-level names survive from one iteration to
  the next: `carry` is what the name `broadcast` holds when an iteration starts deciding what to
  `_replace`. `_common.broadcast_addr(nt)` has three outcomes per record (`Helper`): a value, `None`
  (no netmask) or an exception (`ipaddress` rejects the netmask: here a `plen` beyond the family's
  width stands for every netmask text that is not a prefix of that family — non-contiguous IPv4
  mask, IPv6 mask spelled as an address, garbage). -/

inductive Helper
  | value (b : Nat)
  | noValue
  | raises
  deriving DecidableEq, Repr

/-- `_common.broadcast_addr(nt)` on one AF_INET / AF_INET6 record -/
def broadcastHelper (r : RawAddr) : Helper :=
  match r.fam, r.plen with
  | .inet, some n => if n ≤ 32 then .value (ipv4Broadcast r.ip n) else .raises
  | .inet6, some n => if n ≤ 128 then .value (ipv6Broadcast r.ip n) else .raises
  | _, _ => .noValue

/-- one iteration of the record loop: the post-processed record and what the name `broadcast`
    holds afterwards. `cfg.broadcastFresh`: on the path where the helper raised, nothing of an
    earlier iteration reaches `_replace` (the code as it is: `try / except / else`); without it the
    value left by the previous record does. -/
def netIfAddrsStep (cfg : Cfg) (windows : Bool) (carry : Option Nat) (r : RawAddr) : OutAddr × Option Nat :=
  let sep := if windows then '-' else ':'
  let mac := if r.fam == .link then padMac sep r.mac else r.mac
  let nt : OutAddr := ⟨r.fam, mac, r.ip, r.plen, r.bcast⟩
  if windows && (r.fam == .inet || r.fam == .inet6) then
    let v : Option Nat :=
      match broadcastHelper r with
      | .value b => some b
      | .noValue => none
      | .raises => if cfg.broadcastFresh then none else carry
    match v with
    | some b => ((if cfg.broadcastAssigned then { nt with bcast := some b } else nt), v)
    | none => (nt, v)
  else (nt, carry)

def netIfAddrsLoop (cfg : Cfg) (windows : Bool) : Option Nat → List (Nat × RawAddr) → List (Nat × OutAddr)
  | _, [] => []
  | carry, (nic, r) :: rest =>
    let o := netIfAddrsStep cfg windows carry r
    (nic, o.1) :: netIfAddrsLoop cfg windows o.2 rest

/-- `list.sort(key=…)` is stable: an earlier element goes behind the later ones with a SMALLER key only -/
def insertByFam (key : AddrFam → Nat) (x : Nat × RawAddr) : List (Nat × RawAddr) → List (Nat × RawAddr)
  | [] => [x]
  | y :: ys => if key y.2.fam < key x.2.fam then y :: insertByFam key x ys else x :: y :: ys

def sortByFam (key : AddrFam → Nat) (rs : List (Nat × RawAddr)) : List (Nat × RawAddr) :=
  rs.foldr (fun x acc => insertByFam key x acc) []

/-- `psutil.net_if_addrs()` on a native answer of any length: `(nic, record)` pairs in the order the
    front end appends them (`ret[nic]` = the pairs of that nic, in this order). `key` = the family
    numbers of the platform identity (`socket.AF_INET`, `AF_INET6`, the layer's `AF_LINK` / -1). -/
def netIfAddrs (cfg : Cfg) (windows : Bool) (key : AddrFam → Nat) (rs : List (Nat × RawAddr)) : List (Nat × OutAddr) :=
  netIfAddrsLoop cfg windows none (sortByFam key rs)

/-! ## Below `PidState`: the native status code in the probe record

  `Env.state = .zombie` abstracts "the status slot of the record the probe reads holds a code the
  probe takes for a zombie". Which codes those are depends on the comparison `is_zombie(pid)`
  makes (translator fact per module) and, for the `PROC_STATUSES` shape, on the identity's
  `PROC_STATUSES` table (translator fact per identity: OpenBSD maps both `SDEAD` and `SZOMB`). -/

/-- the comparison in `is_zombie(pid)` -/
inductive ZProbe
  | procStatuses             -- `PROC_STATUSES.get(st) == _common.STATUS_ZOMBIE`
  | eqConst (c : String)     -- `st == cext.<c>`
  | noStatusProbe            -- Solaris / AIX / Windows: the decorator never reads a status code
  | unknown
  deriving DecidableEq, Repr

def ZProbe.ofTag (s : String) : ZProbe :=
  if s == "procStatuses" then .procStatuses
  else if s == "none" then .noStatusProbe
  else match s.toList with
    | 'e' :: 'q' :: ':' :: rest => .eqConst (String.ofList rest)
    | _ => .unknown

structure ZCfg where
  probe : Family → ZProbe
  /-- native codes the identity's `PROC_STATUSES` maps to `STATUS_ZOMBIE` -/
  zombieCodes : Platform → List String

/-- does the module's probe take a pid whose status slot holds `code` for a zombie?
    (modules without a status probe: the world marks a zombie by a code of the module's table) -/
def probeIsZombie (z : ZCfg) (p : Platform) (code : String) : Bool :=
  match z.probe p.family with
  | .procStatuses => (z.zombieCodes p).contains code
  | .eqConst c => code == c
  | .noStatusProbe => (z.zombieCodes p).contains code
  | .unknown => false

/-- the world as the probe sees it, from the native status code (`none`: no record, the pid is gone) -/
def probeEnv (z : ZCfg) (p : Platform) (pid : Nat) (status : Option String) (listed : Bool) : Env :=
  ⟨pid, (match status with
         | none => .gone
         | some c => if probeIsZombie z p c then .zombie else .alive), listed⟩

/-! ## Front end: the other platform-conditional branches that transform a value
  (`psutil/__init__.py`; the full list of branches with their tests is the translator fact
  `frontBranches`, classified in `Spec.frontBranches`) -/

/-- `Process.ppid()`: `if POSIX: return self._proc.ppid()` else
    `self._ppid = self._ppid or self._proc.ppid(); return self._ppid`. Result and new cache. -/
def frontPpid (posix : Bool) (cached : Option Nat) (native : Nat) : Nat × Option Nat :=
  if posix then (native, cached)
  else
    let v := match cached with
      | some c => if c != 0 then c else native     -- `or`: a cached 0 is falsy
      | none => native
    (v, some v)

/-- what `self.cmdline()` gives inside `Process.name()`: AccessDenied / ZombieProcess are swallowed -/
inductive CmdlineRes
  | ok (argv : List String)
  | swallowed
  deriving DecidableEq, Repr

/-- `os.path.basename` (posixpath): what follows the last "/" -/
def posixBasename (s : String) : String := ((s.splitOn "/").getLast?).getD ""

/-- `Process.name()` (ASCII names: `len(os.fsencode(name))` = number of characters):
    Windows returns the cached `_name` when there is one; POSIX completes a name of ≥ 15
    bytes from `basename(cmdline[0])` when that starts with it. The result is stored in `_name`. -/
def frontName (windows posix : Bool) (cached : Option String) (native : String) (cmd : CmdlineRes) : String :=
  match windows, cached with
  | true, some c => c
  | _, _ =>
    if posix && native.length ≥ 15 then
      match cmd with
      | .ok (a0 :: _) =>
        let ext := posixBasename a0
        if native.toList.isPrefixOf ext.toList then ext else native
      | _ => native
    else native

/-- `Process.username()`: POSIX → `pwd.getpwuid(self.uids().real).pw_name`, `str(real_uid)` when the
    uid is unknown; otherwise the platform layer's answer -/
def frontUsername (posix : Bool) (realUid : Nat) (pw : Option String) (native : String) : String :=
  if posix then (match pw with | some n => n | none => toString realUid) else native

/-- `psutil.pid_exists(pid)`: negative → False; `pid == 0 and POSIX` → `0 in pids()`; else the platform's -/
def frontPidExists (posix : Bool) (pid : Int) (pids : List Nat) (native : Bool) : Bool :=
  if pid < 0 then false
  else if pid == 0 && posix then pids.contains 0
  else native

/-- `Process.cpu_affinity(cpus)` with an empty list: every CPU (`range(len(cpu_times(percpu=True)))` off
    Linux); otherwise the given CPUs as a set. What is handed to the platform layer (as a set). -/
def frontAffinityArg (linux : Bool) (ncpu : Nat) (cpus : List Nat) : List Nat :=
  if cpus.isEmpty then (if linux then List.range 1024 else List.range ncpu) else cpus.eraseDups

/-- `disk_io_counters()`: keyword arguments handed to the platform function, name of the nowrap history -/
def frontDiskKwargs (linux perdisk : Bool) : List (String × Bool) :=
  if linux then [("perdisk", perdisk)] else []
def frontDiskCacheName (perdisk : Bool) : String :=
  if perdisk then "psutil.disk_io_counters.perdisk" else "psutil.disk_io_counters"
/-- system-wide form: column sums over the disks -/
def frontDiskTotal (rows : List (List Nat)) : List Nat :=
  match rows with
  | [] => []
  | r :: rs => rs.foldl (fun acc x => List.zipWith (· + ·) acc x) r

/-! ## Front end, round 2: process identity, equality on Open/NetBSD, signals

  `Process._get_ident` (branch `WINDOWS`), `Process.__eq__` (branch `OPENBSD or NETBSD`),
  `Process._send_signal` (branch `OPENBSD and pid_exists(pid)`), `Process.send_signal` (branch `POSIX`)
  and the Windows platform layer's `send_signal` / `create_time(fast_only=True)` they reach. -/

/-- handler a native call of `create_time` sits under when the front end asks for the identity:
    Windows passes `fast_only=True`, and then a permission error is re-raised instead of being
    answered from the system-wide process list (`if fast_only: raise`) -/
def innerIdent (cfg : Cfg) (p : Platform) (call : String) : Inner :=
  if p == .windows && call == "proc_times" && cfg.winIdentFastOnly then .escapes else inner cfg p "create_time" call

/-- `self._proc.create_time(fast_only=True)` (Windows) / `self.create_time()` (elsewhere) inside
    `Process._get_ident`, when native call `call` raises `e` -/
def identFault (cfg : Cfg) (p : Platform) (m : Method) (call : String) (e : Err) (env : Env) : Outcome :=
  (finish cfg p m (bodyWith cfg p (innerIdent cfg p call) e env false) env false).1

/-- what `Process._init` is left with -/
inductive InitRes
  /-- the object exists: `_ident = (pid, ctime?)`, `_create_time` cache, `_gone` flag -/
  | built (identCtime : Option Nat) (ctimeCache : Option Nat) (gone : Bool)
  /-- `NoSuchProcess(pid, msg="process PID not found")` -/
  | raisesNsp
  /-- any other exception leaves the constructor unchanged -/
  | raisesOther (e : Err)
  | unmodelled
  deriving DecidableEq, Repr

/-- `Process._init`: `self._ident = (self.pid, None)`; `try: self._ident = self._get_ident()`;
    AccessDenied / ZombieProcess → pass; NoSuchProcess → raise (or, with `_ignore_nsp`, mark gone).
    `o` = outcome of the creation-time query, `ct` the value it returns when it succeeds. -/
def frontInit (ignoreNsp : Bool) (ct : Nat) (o : Outcome) : InitRes :=
  match o with
  | .value => .built (some ct) (some ct) false
  | .ad _ _ | .zombie _ _ => .built none none false
  | .nsp _ _ => if ignoreNsp then .built none none true else .raisesNsp
  | .raw e => .raisesOther e
  | .unmodelled => .unmodelled

/-- truthiness of the second component of `_ident`: `None` and `0.0` are falsy -/
def ctimeTruthy (c : Option Nat) : Bool :=
  match c with
  | some t => t != 0
  | none => false

/-- what `self.status()` gives inside `__eq__`: a status string (zombie or not), `ZombieProcess`
    raised by the platform layer (the front-end `status()` turns it into STATUS_ZOMBIE), or another
    psutil `Error` (swallowed by `except Error: pass`) -/
inductive StatusRes | status (zombie : Bool) | zombieExc | error
  deriving DecidableEq, Repr

/-- `Process.__eq__(self, other)` for two Process objects with identities `i1`, `i2` -/
def frontEq (openOrNetbsd : Bool) (i1 i2 : Nat × Option Nat) (st : StatusRes) : Bool :=
  if openOrNetbsd && i1.1 == i2.1 && ctimeTruthy i1.2 && !ctimeTruthy i2.2 then
    match st with
    | .status z => z
    | .zombieExc => true
    | .error => i1 == i2
  else i1 == i2

/-- result of `os.kill(pid, sig)` -/
inductive KillRes | ok | esrch | eperm | other (e : Err)
  deriving DecidableEq, Repr

def KillRes.ofErr (e : Err) : KillRes :=
  match pyClass e.errno with
  | .processLookup => .esrch
  | .permission => .eperm
  | _ => .other e

inductive SigRes
  | sent
  | valueError              -- pid 0 is refused
  | nsp (named : Bool)      -- NoSuchProcess(pid, name); `_gone` is set
  | zombie (named : Bool)   -- ZombieProcess(pid, name, ppid)
  | ad (named : Bool)
  | raw (e : Err)
  deriving DecidableEq, Repr

/-- POSIX `Process._send_signal(sig)` on a process that is running and whose PID was not reused:
    (result, new `_gone` flag) -/
def frontSendSignalPosix (openbsd : Bool) (pid : Nat) (k : KillRes) (pidExists : Bool) : SigRes × Bool :=
  if pid == 0 then (.valueError, false)
  else match k with
    | .ok => (.sent, false)
    | .esrch => if openbsd && pidExists then (.zombie true, false) else (.nsp true, true)
    | .eperm => (.ad true, false)
    | .other e => (.raw e, false)

/-- the signals the Windows branches distinguish -/
inductive WinSig | sigterm | ctrlC | ctrlBreak | otherSig
  deriving DecidableEq, Repr

/-- which primitive ends up being used -/
inductive WinSigAct
  | procKill                -- `cext.proc_kill(pid)` (TerminateProcess)
  | osKill                  -- `os.kill(pid, sig)` (GenerateConsoleCtrlEvent)
  | valueError              -- "only SIGTERM, CTRL_C_EVENT and CTRL_BREAK_EVENT signals are supported on Windows"
  | nspNotRunning           -- NoSuchProcess(pid, name, msg="process no longer exists")
  deriving DecidableEq, Repr

/-- `_pswindows.Process.send_signal(sig)` -/
def winSendSignal (sig : WinSig) : WinSigAct :=
  match sig with
  | .sigterm => .procKill
  | .ctrlC | .ctrlBreak => .osKill
  | .otherSig => .valueError

/-- front-end `Process.send_signal(sig)` off POSIX (after `_raise_if_pid_reused()` let it through) -/
def frontSendSignalWin (sig : WinSig) (running : Bool) : WinSigAct :=
  if sig != .sigterm && !running then .nspNotRunning else winSendSignal sig

/-- front-end `terminate()` and `kill()` off POSIX: both `self._proc.kill()` -/
def frontTerminateWin : WinSigAct := .procKill
def frontKillWin : WinSigAct := .procKill

/-- native call a `WinSigAct` makes (none for the two refusals) -/
def WinSigAct.native? : WinSigAct → Option String
  | .procKill => some "proc_kill"
  | .osKill => some "os.kill"
  | _ => none

end Psutil.C20
