/-
  Model/C02Fault.lean — the identity machine (Model/C01.lean) with one more INPUT of the kernel: the read of
  `/proc/<pid>/stat` may FAIL TRANSIENTLY — `open()` or `read()` answers EMFILE / ENFILE (the caller is out of file
  descriptors), ENOMEM, EIO, … : an OSError that is neither "no such file / no such process" nor "permission
  denied", that says nothing about the process, and that is gone a moment later.  (C02, seeded round 5.)

  Transcribed from the source:
  * `_pslinux.Process._parse_stat_file` reads the file with `bcat(path)` — no `fallback`, no `try` — and
    `wrap_exceptions` translates PermissionError, ProcessLookupError and FileNotFoundError only: every other OSError
    leaves `create_time()` / `ppid()` / `name()` as it is (`StatFault.propagates`; translator facts `statReadShape`,
    `wrapHandlers`, `isRunningHandlers`, `initHandlers` — Model/C02Gen.lean: `statFault`).
  * `Process._init` catches AccessDenied / ZombieProcess / NoSuchProcess around `_get_ident()`: the OSError leaves
    `Process(pid)` before anything is stored, no object exists.
  * `is_running()` catches ZombieProcess / NoSuchProcess around `self != Process(self.pid)`: the OSError leaves
    `is_running()` before `_pid_reused` / `_gone` / `_pids_reused` are stored.
  * `_raise_if_pid_reused()` (signals, setters, ppid, children) calls `is_running()` first: same.
  * `__str__` catches ZombieProcess / NoSuchProcess / AccessDenied around `name()` / `status()`: the OSError leaves `str(p)`.
  * `process_iter()`: `Process(pid)` for a PID that is not cached raises inside the generator's `try: … finally:
    _pmap = pmap`: the sweep stops there, what was cached and what was built before stays cached, `_pids_reused` has
    been emptied (`sweepF`).
  So in every call but the sweep the failing read is the FIRST thing that touches the OS and nothing has been stored
  before it (`firstStatRead`).

  The other two ways a failure of that read can surface are modelled too, as what-if configurations (they are
  what a `fallback=` / a broad `except OSError` on that path amounts to): `asGone` — the file looks absent, so
  NoSuchProcess — and `asDenied` — AccessDenied.  Then the code goes on exactly as it does for a PID that is not
  in the table / whose stat file is unreadable (`viewKernel`).
-/
import PsutilModel.Model.C01
namespace Psutil.C02
open Psutil.C01

/-- how an OSError of the read of `/proc/pid/stat` that is neither ENOENT/ESRCH nor EACCES/EPERM reaches the
    caller of `create_time()` (re-derived from the source by the translator) -/
inductive StatFault
  | propagates     -- as it is: the OSError itself
  | asGone         -- swallowed into "no such file": NoSuchProcess
  | asDenied       -- swallowed into AccessDenied
  deriving DecidableEq, Repr

/-- outcome of a call made while reads may fail -/
inductive OutF
  | ok (o : Out)
  | osError         -- the transient OSError itself (EMFILE, ENFILE, ENOMEM, EIO …) reaches the caller
  deriving DecidableEq, Repr

/-- state: the identity machine + INPUT `faulty` = PIDs whose `/proc/pid/stat` cannot be read right now -/
structure FSt where
  st : St
  faulty : List Nat
  deriving Repr

inductive FEv
  | ev (e : Ev)                       -- kernel event or psutil call of the identity machine
  | fault (pid : Nat) (on : Bool)     -- reads of `/proc/pid/stat` start / stop failing
  deriving DecidableEq, Repr

def FSt.init (btime : Nat) : FSt := ⟨St.init btime, []⟩

def flagged (o : PObj) : Bool := o.gone || o.reused

/-- does this method call on object `o` open `/proc/<o.pid>/stat` — as the first thing it asks the OS, before it
    stores anything?  `is_running()`: unless a sticky flag answers; signals / setters: through the reuse guard
    (`_raise_if_pid_reused` → `is_running()`), when they have one; `ppid()`: through the guard, else (no guard, or
    `_gone` set and tolerated) through `_proc.ppid()`; `create_time()`: unless memoised; `hash()`: never. -/
def methodReads (cfg : Cfg) (o : PObj) : Call → Bool
  | .isRunning _ => !flagged o
  | .signal _ _ => cfg.guardSignal && !flagged o
  | .setter _ k _ => guardOf cfg k && !flagged o
  | .ppid _ => if cfg.guardPpid then !o.reused && (!o.gone || !cfg.goneRaises) else true
  | .createTime _ => o.ctime.isNone
  | _ => false

/-- the PID whose `/proc/pid/stat` the call opens first, before any store (`none`: it opens no such file —
    or it is the sweep, which opens several: `sweepF`) -/
def firstStatRead (cfg : Cfg) (s : St) : Call → Option Nat
  | .newObj pid => if pid < 0 then none else some pid.toNat
  | .status i =>
    match s.ps.objs[i]? with
    | some o => if o.reused then none else some o.pid       -- `_pid_reused` answers without `name()`
    | none => none
  | .processIter => none
  | call =>
    match call.target with
    | none => none
    | some i =>
      match s.ps.objs[i]? with
      | some o => if methodReads cfg o call then some o.pid else none
      | none => none

/-- what the process table / the stat files look like to code that swallows the failure: a faulty PID is
    not there (`asGone`) or unreadable (`asDenied`) -/
def viewKernel (sf : StatFault) (k : Kernel) (F : List Nat) : Kernel :=
  match sf with
  | .propagates => k
  | .asGone => { k with procs := k.procs.filter fun x => !F.contains x.pid }
  | .asDenied => { k with hidden := F ++ k.hidden }

/-- the PIDs `process_iter()`'s loop gets through before `Process(pid)` opens a faulty stat file (cached entries and
    entries evicted in this sweep are not opened), and whether it does open one -/
def sweepPrefix (kept : List (Nat × Nat)) (evicted F : List Nat) : List Nat → List Nat × Bool
  | [] => ([], false)
  | p :: rest =>
    if (pmLookup kept p).isNone && !evicted.contains p && F.contains p then ([], true)
    else let r := sweepPrefix kept evicted F rest; (p :: r.1, r.2)

/-- `list(process_iter())` while the stat files of `F` cannot be read.  `propagates`: the loop of `processIter` over
    the prefix it gets through; if it was cut short the caller gets the OSError and `finally: _pmap = pmap` keeps the
    surviving cache entries plus what was built.  Swallowed: every `Process(pid)` of the loop sees `viewKernel`
    (the PID listing itself — `pids()` — and the cache are not read through stat files). -/
def sweepF (cfg : Cfg) (sf : StatFault) (k : Kernel) (ps : Ps) (F : List Nat) : Ps × Option (List (Nat × Nat)) :=
  let table := sortPids (k.procs.map (·.pid))
  let live := ps.pmap.filter fun e => table.contains e.1
  let kept := live.filter fun e => !ps.pidsReused.contains e.1
  let evicted := (live.filter fun e => ps.pidsReused.contains e.1).map (·.1)
  match sf with
  | .propagates =>
    let pre := sweepPrefix kept evicted F table
    if pre.2 then
      let r := iterLoop cfg k kept evicted ps pre.1
      ({ r.1 with pmap := kept ++ r.2.filter (fun e => (pmLookup kept e.1).isNone), pidsReused := [] }, none)
    else
      let r := processIter cfg k ps
      (r.1, some r.2)
  | sf =>
    let r := iterLoop cfg (viewKernel sf k F) kept evicted ps table
    ({ r.1 with pmap := r.2, pidsReused := [] }, some r.2)

/-- one psutil call while the stat files of `F` cannot be read -/
def stepF (cfg : Cfg) (sf : StatFault) (s : St) (F : List Nat) (call : Call) : St × OutF :=
  match call with
  | .processIter =>
    let r := sweepF cfg sf s.kern s.ps F
    ({ s with ps := r.1 }, match r.2 with | some l => .ok (.procs l) | none => .osError)
  | call =>
    match firstStatRead cfg s call with
    | none => let r := step cfg s (.c call); (r.1, .ok r.2)
    | some p =>
      if F.contains p then
        match sf with
        | .propagates => (s, .osError)                     -- nothing was stored before the read
        | sf =>
          -- the code goes on as for a vanished / unreadable PID (exact when the reuse guard refuses a `_gone`
          -- object — `goneRaises` —, otherwise the later `os.kill` would still see the real table)
          let r := step cfg { s with kern := viewKernel sf s.kern F } (.c call)
          ({ r.1 with kern := s.kern }, .ok r.2)
      else let r := step cfg s (.c call); (r.1, .ok r.2)

def FSt.step (cfg : Cfg) (sf : StatFault) (fs : FSt) : FEv → FSt × OutF
  | .fault pid true => ({ fs with faulty := pid :: fs.faulty }, .ok .unit)
  | .fault pid false => ({ fs with faulty := fs.faulty.filter fun x => !(x == pid) }, .ok .unit)
  | .ev (.k e) => ({ fs with st := (C01.step cfg fs.st (.k e)).1 }, .ok .unit)
  | .ev (.c call) => let r := stepF cfg sf fs.st fs.faulty call; ({ fs with st := r.1 }, r.2)

def runF (cfg : Cfg) (sf : StatFault) (fs : FSt) : List FEv → FSt
  | [] => fs
  | e :: es => runF cfg sf (fs.step cfg sf e).1 es

end Psutil.C02
