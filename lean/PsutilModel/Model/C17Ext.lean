/-
  Model/C17Ext.lean — second batch of C17 models (extension round).

    §11 net_if_addrs          psutil/_psutil_posix.c  psutil_net_if_addrs + psutil_convert_ipaddr
                              (family switch, addrlen, hostlen, netmask / broadcast / ptp selection)
    §12 ifreq entry points    net_if_mtu / net_if_flags / net_if_is_running / net_if_duplex_speed:
                              PSUTIL_STRNCPY into `ifr_name[IFNAMSIZ]`, then the ioctl answer
    §13 disk_partitions (C)   psutil/arch/linux/disk.c over glibc's getmntent line decoding
    §14 linux_sysinfo         psutil/arch/linux/mem.c  Py_BuildValue format units vs field widths
    §15 getpriority / errno   psutil/_psutil_posix.c  a legitimate -1 told from an error by errno

  Same conventions as Model/C17.lean: every fact the translator re-derives is a field of a `…Cfg`;
  libc behaviour the code relies on (getnameinfo's text, fgets' cut, va_arg widths) is explicit and
  named; anything C leaves undefined is a constructor, never a default.
-/
import PsutilModel.Model.C17
namespace Psutil.C17

/-! ## §11 getifaddrs() list → rows of net_if_addrs() -/

/-- one `struct sockaddr` of the list, as the bytes of the object it lives in (`store[0..2)` is
    `sa_family`; for a `sockaddr_ll`: `sll_halen` at 11, `sll_addr` from 12) plus what libc's
    `getnameinfo(…, NI_NUMERICHOST)` prints for it (`none` = it fails) and the `salen` it requires -/
structure Sock where
  fam : Nat
  store : Bytes
  need : Nat
  text : Option Bytes
  deriving DecidableEq, Repr

structure IfEntry where
  name : Bytes
  flags : Nat
  addr : Option Sock
  netmask : Option Sock
  /-- `ifa_ifu`: glibc declares `ifa_broadaddr` and `ifa_dstaddr` as the two names of ONE union member -/
  ifu : Option Sock
  deriving DecidableEq, Repr

structure NCfg where
  famInet : Nat             -- value of the macro compared first (AF_INET)
  famInet6 : Nat            -- second macro of the `||` (AF_INET6)
  famPacket : Nat           -- AF_PACKET
  lenInet : Nat             -- sizeof of the struct chosen when `family == AF_INET`
  lenInet6 : Nat            -- … otherwise
  hostlenIsBuf : Bool       -- getnameinfo(addr, addrlen, buf, sizeof(buf), NULL, 0, NI_NUMERICHOST)
  halenOff : Nat            -- offsetof(struct sockaddr_ll, sll_halen)
  lladdrOff : Nat           -- offsetof(struct sockaddr_ll, sll_addr)
  /-- the `if (flags & A) … else if (flags & B) …` chain: (flag bit, slot filled from `ifa_ifu`) in source order -/
  ifuChain : List (Nat × String)
  /-- C sources of the six tuple slots in `Py_BuildValue("(siOOOO)", …)` order -/
  tupleOrder : List String
  /-- which `ifa_…` pointer each `py_…` variable is converted from -/
  netmaskSrc : String
  /-- the `family` every conversion of one entry is given: "ifa_addr" = `ifa->ifa_addr->sa_family` -/
  familySrc : String

/-- libc: `getnameinfo(sa, salen, host, hostlen, NULL, 0, NI_NUMERICHOST)`; the sockaddr's OWN
    family decides what is printed; `salen` too small → EAI_FAMILY; text + NUL longer than
    `hostlen` → EAI_OVERFLOW -/
def gni (s : Sock) (salen hostlen : Nat) : Option Bytes :=
  match s.text with
  | none => none
  | some t => if salen < s.need then none else if hostlen < t.length + 1 then none else some t

def optVal : Option Bytes → Val
  | some b => .str b
  | none => .none

/-- `psutil_convert_ipaddr(addr, family)` -/
def convertIp (cfg : NCfg) (mac : MCfg) (a : Option Sock) (family : Nat) : Val :=
  match a with
  | none => .none
  | some s =>
    if family = cfg.famInet ∨ family = cfg.famInet6 then
      let addrlen := if family = cfg.famInet then cfg.lenInet else cfg.lenInet6
      optVal (gni s addrlen (if cfg.hostlenIsBuf then mac.bufSize else 0))
    else if family = cfg.famPacket then
      let len := s.store.getD cfg.halenOff 0
      optVal (macFormat mac ((s.store.drop cfg.lladdrOff).take len))
    else .none

/-- one-past-last index of `store` that psutil itself dereferences during one conversion
    (`sll_halen`, then `data[0..len)`); the INET branch hands the pointer to libc with `addrlen` -/
def convertReads (cfg : NCfg) (a : Option Sock) (family : Nat) : List Nat :=
  match a with
  | none => []
  | some s =>
    if family = cfg.famInet ∨ family = cfg.famInet6 then
      [if family = cfg.famInet then cfg.lenInet else cfg.lenInet6]
    else if family = cfg.famPacket then
      [cfg.halenOff + 1, cfg.lladdrOff + s.store.getD cfg.halenOff 0]
    else []

def bitSet (flags bit : Nat) : Bool := flags &&& bit != 0

/-- slot chosen by the `if / else if` chain: the first entry whose flag bit is set -/
def ifuSlot (chain : List (Nat × String)) (flags : Nat) : Option String :=
  (chain.find? (fun e => bitSet flags e.1)).map (·.2)

/-- one iteration of the `for (ifa = ifaddr; …)` loop: `none` = `continue` -/
def ifRow (cfg : NCfg) (mac : MCfg) (e : IfEntry) : Option (List Val) :=
  match e.addr with
  | none => none
  | some a =>
    let family := if cfg.familySrc == "ifa_addr" then a.fam else 0
    let address := convertIp cfg mac e.addr family
    if address = .none then none
    else
      let netmask := convertIp cfg mac (if cfg.netmaskSrc == "ifa_netmask" then e.netmask else e.ifu) family
      let slot := ifuSlot cfg.ifuChain e.flags
      let ifuV := convertIp cfg mac e.ifu family
      let bc := if slot = some "py_broadcast" then ifuV else .none
      let ptp := if slot = some "py_ptp" then ifuV else .none
      some (cfg.tupleOrder.map fun src =>
        if src == "ifa_name" then .str e.name
        else if src == "family" then .int family
        else if src == "py_address" then address
        else if src == "py_netmask" then netmask
        else if src == "py_broadcast" then bc
        else if src == "py_ptp" then ptp
        else .none)

def ifRows (cfg : NCfg) (mac : MCfg) (es : List IfEntry) : List (List Val) :=
  es.filterMap (ifRow cfg mac)

/-- every read extent of one iteration, with the size of the object it is made in -/
def ifReads (cfg : NCfg) (e : IfEntry) : List (Nat × Nat) :=
  match e.addr with
  | none => []
  | some a =>
    let f := a.fam
    let ext (o : Option Sock) : List (Nat × Nat) :=
      match o with
      | none => []
      | some s => (convertReads cfg o f).map (fun r => (r, s.store.length))
    ext e.addr ++ ext e.netmask ++ ext e.ifu

/-! ## §12 entry points that copy a NIC name into `struct ifreq` -/

structure QCfg where
  /-- sizeof(ifr.ifr_name) = IFNAMSIZ from <net/if.h> -/
  ifnamsiz : Nat
  /-- `flags = ifr.ifr_flags & MASK` is shared with §9; bit tested by net_if_is_running -/
  runningBit : Nat

/-- content of `ifr.ifr_name` (as a C string) when the ioctl is issued -/
def ifrName (s : SCfg) (q : QCfg) (name : Bytes) : Bytes :=
  (applyWrites (List.replicate q.ifnamsiz 170) (strncpyWrites s name q.ifnamsiz)).takeWhile (fun c => c != 0)

/-- every store of the copy lies inside `ifr_name` -/
def ifrInBounds (s : SCfg) (q : QCfg) (name : Bytes) : Bool :=
  (strncpyWrites s name q.ifnamsiz).all (fun w => w.1 < q.ifnamsiz)

/-- `net_if_is_running`: `(ifr.ifr_flags & IFF_RUNNING) != 0` on the 16-bit flags word -/
def isRunning (q : QCfg) (flags : Nat) : Bool := bitSet (flags % 65536) q.runningBit

/-! ## §13 disk_partitions (C side) over glibc's getmntent -/

structure DCfg where
  /-- `getmntent_r(file, &ent, buf, size)` (true) or `getmntent(file)` with libc's own buffer -/
  reentrant : Bool
  /-- size of the caller's buffer for the `_r` form (0 when absent) -/
  userBuf : Nat
  /-- size of the buffer libc's `getmntent` reads a line into (measured on the platform libc) -/
  libcBuf : Nat
  /-- `struct mntent` members behind the four tuple slots, in `Py_BuildValue` order -/
  order : List String

def DCfg.effBuf (c : DCfg) : Nat := if c.reentrant then c.userBuf else c.libcBuf

def isBlank (c : Nat) : Bool := c == 32 || c == 9

/-- `fgets(buf, B, f)` on one line `l` (no NL inside; `term` = a NL follows it in the file — only
    the last line of a file can lack one): the bytes glibc goes on with (a line that does not fit
    is cut at `B-1` bytes and its rest is read and forgotten), and whether the NL was seen (then
    the trailing blanks are chopped with it) -/
def fgetsLine (B : Nat) (l : Bytes) (term : Bool) : Bytes × Bool :=
  if term then (if l.length + 2 ≤ B then (l, true) else (l.take (B - 1), false))
  else (l.take (B - 1), false)

/-- glibc `decode_name`: `\040 \011 \012 \134 \\` -/
def decodeName : Nat → Bytes → Bytes
  | 0, _ => []
  | _ + 1, [] => []
  | f + 1, 92 :: 48 :: 52 :: 48 :: r => 32 :: decodeName f r
  | f + 1, 92 :: 48 :: 49 :: 49 :: r => 9 :: decodeName f r
  | f + 1, 92 :: 48 :: 49 :: 50 :: r => 10 :: decodeName f r
  | f + 1, 92 :: 49 :: 51 :: 52 :: r => 92 :: decodeName f r
  | f + 1, 92 :: 92 :: r => 92 :: decodeName f r
  | f + 1, c :: r => c :: decodeName f r

/-- `strsep(&head, " \t")`: token up to the first blank; rest after it (`none` = no blank found) -/
def strsepBlank (h : Bytes) : Bytes × Option Bytes :=
  let tok := h.takeWhile (fun c => !isBlank c)
  if tok.length < h.length then (tok, some (h.drop (tok.length + 1))) else (tok, none)

def skipBlanks (h : Bytes) : Bytes := h.dropWhile isBlank

/-- the next field: `cp = strsep(&head, " \t"); if (head) head += strspn(head, " \t")`;
    an exhausted line yields the empty string -/
def nextField (h : Option Bytes) : Bytes × Option Bytes :=
  match h with
  | none => ([], none)
  | some s =>
    let (tok, rest) := strsepBlank s
    (decodeName (tok.length + 1) tok, rest.map skipBlanks)

/-- one mounts line through glibc's `getmntent` with a line buffer of `B` bytes;
    `none` = the line is skipped (blank or comment) -/
def mntLine (B : Nat) (l : Bytes) (term : Bool := true) : Option Mnt :=
  let (got, whole) := fgetsLine B l term
  -- a complete line loses its trailing blanks (and the newline)
  let got := if whole then (got.reverse.dropWhile isBlank).reverse else got
  let head := skipBlanks got
  match head with
  | [] => none
  | 35 :: _ => none
  | _ =>
    let (f1, h1) := nextField (some head)
    let (f2, h2) := nextField h1
    let (f3, h3) := nextField h2
    let (f4, _) := nextField h3
    some ⟨f1, f2, f3, f4⟩

/-- the tuple psutil builds from one `struct mntent` (slots named by member) -/
def mntTuple (cfg : DCfg) (m : Mnt) : List Bytes :=
  cfg.order.map fun src =>
    if src == "mnt_fsname" then m.dev else if src == "mnt_dir" then m.dir
    else if src == "mnt_type" then m.typ else if src == "mnt_opts" then m.opts else []

/-- `cext.disk_partitions(path)` on the lines of the file -/
def diskPartitionsC (cfg : DCfg) (lines : List Bytes) (lastTerm : Bool := true) : List (List Bytes) :=
  (lines.zipIdx.filterMap fun p => mntLine cfg.effBuf p.1 (lastTerm || p.2 + 1 < lines.length)).map (mntTuple cfg)

/-! ## §14 linux_sysinfo: `Py_BuildValue("(kkkkkkI)", info.totalram, …)` -/

/-- one converted slot: the Python int, or `ub` when `va_arg` reads a type wider than what was
    passed (upper half indeterminate) -/
inductive Slot
  | val (v : Int)
  | ub
  deriving DecidableEq, Repr

/-- (width in bits, signed) of a Py_BuildValue integer format unit on LP64 -/
def unitType (u : Char) : Option (Nat × Bool) :=
  if u = 'k' then some (64, false) else if u = 'K' then some (64, false)
  else if u = 'l' then some (64, true) else if u = 'L' then some (64, true)
  else if u = 'I' then some (32, false) else if u = 'i' then some (32, true)
  else none

/-- an unsigned struct member of `fbits` bits holding `v`, passed through `...` and fetched with
    format unit `u`: a member narrower than `int` is promoted, a member as wide as the unit
    arrives intact, a wider one is cut to the unit's width (x86-64: low half of the register),
    a narrower one leaves the upper bits indeterminate -/
def buildSlot (u : Char) (fbits v : Nat) : Slot :=
  match unitType u with
  | none => .ub
  | some (ubits, signed) =>
    let pbits := max fbits 32           -- default argument promotion
    if ubits > pbits then .ub
    else
      let cutv := v % 2 ^ ubits
      .val (if signed then toSigned ubits cutv else cutv)

structure YCfg where
  format : List Char                    -- the units between the parentheses
  fields : List String                  -- `info.<member>` arguments, in order
  /-- width of each `struct sysinfo` member, from <linux/sysinfo.h> -/
  fieldBits : List (String × Nat)

/-- the 7-tuple for the struct the kernel filled in (`info` = member name ↦ value) -/
def sysinfoTuple (cfg : YCfg) (info : String → Nat) : List Slot :=
  (cfg.format.zip cfg.fields).map fun p =>
    match cfg.fieldBits.lookup p.2 with
    | none => .ub
    | some b => buildSlot p.1 b (info p.2)

/-! ## §15 getpriority(2): `-1` is a legitimate return value, errno tells -/

structure GCfg where
  /-- `errno = 0;` is executed before the `getpriority` call (only argument parsing in between) -/
  resetBefore : Bool
  /-- the error test also requires `priority == -1` -/
  testMinusOne : Bool

inductive PrioOut
  | value (v : Int)
  | osError (code : Nat)
  deriving DecidableEq, Repr

/-- `psutil_posix_getpriority` after a successful parse.  `errnoIn` = errno on entry (whatever an
    earlier, unrelated call left there); `k` = the kernel's answer: a nice value, or an error
    code.  getpriority(2): a successful call leaves errno alone and returns the value; a failing
    one returns -1 and sets errno. -/
def getPriority (cfg : GCfg) (errnoIn : Nat) (k : Except Nat Int) : PrioOut :=
  let e0 := if cfg.resetBefore then 0 else errnoIn
  let ret : Int := match k with | .ok v => v | .error _ => -1
  let e1 : Nat := match k with | .ok _ => e0 | .error c => c
  if (!cfg.testMinusOne || ret == -1) && e1 != 0 then .osError e1 else .value ret

end Psutil.C17
