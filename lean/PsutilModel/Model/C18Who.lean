/-
  Model/C18Who.lean — WHO is calling, and WHICH process each system call is addressed to.

  Model/C18.lean hands `self.pid` to every system call. That is a fact about the source, not a law:
  every one of the four attributes can also be reached through primitives that act on the CALLING
  process (`who = 0` in getpriority/setpriority/ioprio_get/ioprio_set/sched_*affinity/prlimit;
  `os.nice`, `resource.getrlimit/setrlimit`, which take no pid at all). Code that takes such a
  short cut "when the target is me" has to decide what "me" is, and a pid that was remembered
  earlier (at import time, when the `Process` object was made) stops being the caller's pid after
  a `fork()`.

  New dimensions (seeded round 5):
    * the identity of the calling process is `Kernel.self` — already a field, but until now no
      call looked at it for `pid ≠ 0`;
    * `Origin`: the pid of the process that imported the module and of the process that created
      the `Process` object (both equal the caller's unless a fork happened in between);
    * `Routing`: for each of the eight forms, how the native call is addressed (`Addr`) — the
      translator extracts it from the source (every call of a process-addressed primitive in the
      front end and in `_pslinux.Process`, its pid argument, and the pid comparisons guarding it).

  `stepPyW c rt o` is `stepPy c` with the system calls addressed according to `rt`; it is what the
  driver runs. For `Routing.direct` (every form passes `self.pid`) it IS `stepPy`
  (`Proofs/C18Who.lean`).
-/
import PsutilModel.Model.C18
namespace Psutil.C18

/-- where a pid that `self.pid` is compared with was obtained -/
inductive PidSrc
  /-- `os.getpid()` evaluated in the call -/
  | now
  /-- `os.getpid()` evaluated when the `Process` object was created (an attribute set in `__init__`) -/
  | atCreate
  /-- `os.getpid()` evaluated when the module was imported (a module global) -/
  | atImport
  deriving DecidableEq, Repr

/-- how one form addresses the process it acts on -/
inductive Addr
  /-- the native call receives `self.pid` -/
  | pid
  /-- `if self.pid == <src>:` a primitive acting on the calling process (`who = 0`, or one that
      takes no pid) `else:` the native call with `self.pid` -/
  | callerIf (src : PidSrc)
  /-- always a primitive acting on the calling process -/
  | caller
  deriving DecidableEq, Repr

/-- translator facts: the addressing of the get and the set form of each attribute -/
structure Routing where
  niceGet : Addr
  niceSet : Addr
  ioniceGet : Addr
  ioniceSet : Addr
  affGet : Addr
  affSet : Addr
  rlimitGet : Addr
  rlimitSet : Addr
  deriving DecidableEq, Repr

/-- every form hands `self.pid` to its native call -/
def Routing.direct : Routing := ⟨.pid, .pid, .pid, .pid, .pid, .pid, .pid, .pid⟩

/-- pids remembered from earlier moments of the program (a fork makes them differ from the caller's) -/
structure Origin where
  /-- pid of the process in which the module was imported -/
  importPid : Nat
  /-- pid of the process in which the `Process` object was created -/
  createPid : Nat
  deriving DecidableEq, Repr

/-- the program never forked: module imported, object created and call made by the same process -/
def Origin.unforked (k : Kernel) : Origin := ⟨k.self, k.self⟩

def PidSrc.eval (o : Origin) (k : Kernel) : PidSrc → Nat
  | .now => k.self
  | .atCreate => o.createPid
  | .atImport => o.importPid

/-- the `who` argument the system call receives (0 = the calling process) -/
def Addr.who (o : Origin) (k : Kernel) (pid : Nat) : Addr → Nat
  | .pid => pid
  | .callerIf s => if pid = s.eval o k then 0 else pid
  | .caller => 0

/-! the forms of Model/C18.lean §5 with the system call addressed to `who` (exceptions, the status
    file and the PID-0 refusal keep using `self.pid`, as in the source) -/

def niceGetW (c : Cfg) (k : Kernel) (pid who : Nat) (errnoIn : Nat) : Out × Kernel :=
  match cextGetpriorityE c.prioGet k who errnoIn with
  | .ok v => (.ok (.int v), k)
  | .error e => (.exc (wrapExc pid e), k)

def niceSetW (c : Cfg) (k : Kernel) (pid who : Nat) (v : Int) : Out × Kernel :=
  match cextSetpriorityP c.setPrioChecks k who v with
  | .ok k' => (.ok .none, k')
  | .error e => (.exc (wrapExc pid e), k)

def ioniceGetW (c : Cfg) (k : Kernel) (pid who : Nat) (errnoIn : Nat) : Out × Kernel :=
  match cextIoprioGetE c.ioprioGet c.shift k who errnoIn with
  | .error e => (.exc (wrapExc pid e), k)
  | .ok (cls, data) =>
    if c.enumClasses.contains cls then (.ok (.ionice cls data), k)
    else (.exc .valueError, k)

def ioniceSetW (c : Cfg) (k : Kernel) (pid who : Nat) (ioclass : Int) (value : Option Int) : Out × Kernel :=
  let value := value.getD c.defaultLevel
  if value ≠ 0 ∧ c.noValueClasses.contains ioclass then (.exc .valueError, k)
  else if value < c.levelMin ∨ value > c.levelMax then (.exc .valueError, k)
  else match cextIoprioSetP c.ioprioSetChecks c.shift c.nativeRange c.nativeRangeEinval k who ioclass value with
    | .ok k' => (.ok .none, k')
    | .error e => (.exc (wrapExc pid e), k)

def cpuAffinitySetW (c : Cfg) (elig : Option (List Nat)) (k : Kernel) (pid who : Nat) (cpus : List Int) :
    Out × Kernel :=
  match cextAffinitySetP c.affSetChecks k who cpus with
  | .ok k' => (.ok .none, k')
  | .error e =>
    if e = .valueError ∨ e = .os .EINVAL ∨ (c.overflowValueError = true ∧ e = .overflowError) then
      match elig with
      | none => (.exc (.noSuchProcess pid), k)
      | some eligible =>
        if diagnose (List.range k.statCpus) eligible cpus then (.exc .valueError, k)
        else if c.einvalValueError = true ∧ e = .os .EINVAL then (.exc .valueError, k)
        else (.exc (wrapExc pid e), k)
    else (.exc (wrapExc pid e), k)

def cpuAffinityW (c : Cfg) (k : Kernel) (pid whoGet whoSet : Nat) (x : Ctx) : Option (List Int) → Out × Kernel
  | none =>
    match cextAffinityGetL c.affGet c.affLoop k whoGet x.errnoIn with
    | .ok l => (.ok (.cpus (if c.getSortedSet then sortedSet l else l)), k)
    | .error e => (.exc (wrapExc pid e), k)
  | some cpus =>
    let elig := getEligibleCpusX k pid x.statusMask
    if cpus.isEmpty then
      if c.emptyAsksCount then
        cpuAffinitySetW c elig k pid whoSet (dedup c ((List.range k.statCpus).map Int.ofNat))
      else match c.emptyAsksAll with
      | some n => cpuAffinitySetW c elig k pid whoSet (dedup c ((List.range n).map Int.ofNat))
      | none =>
        match elig with
        | none => (.exc (.noSuchProcess pid), k)
        | some el => cpuAffinitySetW c elig k pid whoSet (dedup c (el.map Int.ofNat))
    else cpuAffinitySetW c elig k pid whoSet (dedup c cpus)

def rlimitLW (c : Cfg) (k : Kernel) (pid whoGet whoSet : Nat) (res : Int) (limits : Option (List Int)) :
    Out × Kernel :=
  if pid = 0 ∧ c.pid0Refused then (.exc .valueError, k)
  else match limits with
    | none =>
      match pyPrlimitGetP k whoGet res with
      | .ok (s, h) => (.ok (.limits s h), k)
      | .error e => (.exc (wrapExc pid e), k)
    | some l =>
      if l.length ≠ c.pairLen then (.exc .valueError, k)
      else match pyPrlimitSetP k whoSet res l with
        | .ok k' => (.ok .none, k')
        | .error e => (.exc (wrapExc pid e), k)

/-- `stepX` with the system calls addressed according to `rt` -/
def stepXW (c : Cfg) (rt : Routing) (o : Origin) (k : Kernel) (pid : Nat) (x : Ctx) : Req → Out × Kernel
  | .nice none => niceGetW c k pid (rt.niceGet.who o k pid) x.errnoIn
  | .nice (some v) => niceSetW c k pid (rt.niceSet.who o k pid) v
  | .ionice none none => ioniceGetW c k pid (rt.ioniceGet.who o k pid) x.errnoIn
  | .ionice none (some _) =>
    if c.valueWithoutClassRaises then (.exc .valueError, k)
    else ioniceGetW c k pid (rt.ioniceGet.who o k pid) x.errnoIn
  | .ionice (some cls) value => ioniceSetW c k pid (rt.ioniceSet.who o k pid) cls value
  | .cpuAffinity cpus => cpuAffinityW c k pid (rt.affGet.who o k pid) (rt.affSet.who o k pid) x cpus
  | .rlimit res limits => rlimitLW c k pid (rt.rlimitGet.who o k pid) (rt.rlimitSet.who o k pid) res limits

def stepPyCoreW (c : Cfg) (rt : Routing) (o : Origin) (k : Kernel) (pid : Nat) (x : Ctx) : PyReq → Out × Kernel
  | .cpuAffinity (some (.iterator, l)) =>
    cpuAffinitySetW c (getEligibleCpusX k pid x.statusMask) k pid (rt.affSet.who o k pid) (dedup c l)
  | .rlimit _ (some (.iterator, _)) =>
    if pid = 0 ∧ c.pid0Refused then (.exc .valueError, k) else (.exc .typeError, k)
  | r => stepXW c rt o k pid x r.erase

/-- one public call on `psutil.Process(pid)` made by process `k.self` of a program whose module was
    imported by `o.importPid` and whose object was created by `o.createPid` — what the driver runs -/
def stepPyW (c : Cfg) (rt : Routing) (o : Origin) (k : Kernel) (pid : Nat) (x : Ctx) (r : PyReq) : Out × Kernel :=
  if goneGuard k pid r then (.exc (.noSuchProcess pid), k) else stepPyCoreW c rt o k pid x r

/-- decoding of the translator's address codes: 0 = `self.pid`; 1 / 2 / 3 = the caller when
    `self.pid ==` os.getpid() now / remembered at object creation / remembered at import;
    anything else = always the caller -/
def Addr.ofCode : Nat → Addr
  | 0 => .pid
  | 1 => .callerIf .now
  | 2 => .callerIf .atCreate
  | 3 => .callerIf .atImport
  | _ => .caller

end Psutil.C18
