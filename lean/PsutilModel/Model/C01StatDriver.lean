/-
  Model/C01StatDriver.lean — line-protocol driver of the C01 check over stat BYTES (Model/C01Stat.lean); the ops of
  Model/C01Driver.lean, where

    {"op":"spawn","pid":p, "comm":hex, "letter":n, "ppid":n, "pre":[17 ints], "post":[ints]}   (every key after pid optional)
    {"op":"stat","pid":p, …same keys…}     the line of the listed process changes (prctl(PR_SET_NAME), counters, …)

  say what `/proc/<p>/stat` shows.  Omitted keys take the line the harness has always written: comm `proc <pid>`, state
  S, ppid 1, pgrp = session = pid, tpgid -1, flags 4194304, priority 20, one thread, vsize 1000, rss 10, zeros elsewhere.
  The MODEL answer is `stepB` (the identity machine on the kernel as READ from those bytes by the extracted reader);
  the SPEC answer is Spec/C01.lean on the kernel's own table (`StB.toSt`), which never looks at the bytes.  A line the
  extracted reader cannot parse is answered {"kind":"no_prediction"}.
-/
import PsutilModel.Model.C01Driver
import PsutilModel.Model.C01Stat
open Lean Psutil Psutil.Proto
namespace Psutil.C01.Drv
open Psutil.C01

def defaultComm (pid : Nat) : Bytes := [112, 114, 111, 99, 32] ++ renderDec pid

def defaultPre (pid : Nat) : List Int :=
  [(pid : Int), (pid : Int), 0, -1, 4194304] ++ List.replicate 8 0 ++ [20, 0, 1, 0]

def defaultPost : List Int := [1000, 10] ++ List.replicate 28 0

def withDefault (j : Json) (k : String) (f : Json → R α) (d : α) : R α :=
  match j.getObjVal? k with
  | .ok v => f v
  | .error _ => .ok d

def parseLine (j : Json) (pid : Nat) : R (Bytes × Aux) := do
  let comm ← withDefault j "comm" asBytes (defaultComm pid)
  let letter ← withDefault j "letter" asNat 83
  let ppid ← withDefault j "ppid" asNat 1
  let pre ← withDefault j "pre" (asList asInt) (defaultPre pid)
  let post ← withDefault j "post" (asList asInt) defaultPost
  return (comm, ⟨letter, ppid, pre, post⟩)

def parseEvB (j : Json) : R EvB := do
  let op ← strF j "op"
  if op == "spawn" then
    let pid ← natF j "pid"
    let (comm, aux) ← parseLine j pid
    return .k (.spawn pid comm aux)
  else if op == "stat" then
    let pid ← natF j "pid"
    let (comm, aux) ← parseLine j pid
    return .k (.rewrite pid comm aux)
  else
    match ← parseEv j with
    | .c call => return .c call
    | .k (.exit p) => return .k (.exit p)
    | .k (.reap p) => return .k (.reap p)
    | .k (.tick n) => return .k (.tick n)
    | .k (.setBtime b) => return .k (.setBtime b)
    | .k (.perm p e) => return .k (.perm p e)
    | .k (.hide p on) => return .k (.hide p on)
    | .k (.spawn p) => return .k (.spawn p (defaultComm p) ⟨83, 1, defaultPre p, defaultPost⟩)
    | .k (.spawnSameTick p) => return .k (.spawnSameTick p (defaultComm p) ⟨83, 1, defaultPre p, defaultPost⟩)

def jOutB : Option Out → Json
  | some o => jOut o
  | none => jObj [("kind", "no_prediction")]

def handleB (sc : StatCfg) (cfg : Cfg) (s : StB) (j : Json) : R (StB × Json) := do
  let op ← strF j "op"
  if op == "reset" then
    return (StB.init (← natF j "btime"), ok (Json.str "reset"))
  if op == "pairs" then
    return (s, pairs s.toSt)
  let ev ← parseEvB j
  let spec := specOf s.toSt ev.erase
  let (s', out) := stepB sc cfg s ev
  let newEff := (s'.log.take (s'.log.length - s.log.length)).reverse
  let wf : List (String × Json) :=
    match ev with
    | .k (.spawn _ _ aux) | .k (.rewrite _ _ aux) => [("line_wf", Json.bool (decide aux.WF))]
    | _ => []
  return (s', jObj ([("model", jObj [("out", jOutB out), ("eff", jList jEff newEff)]), ("spec", spec)] ++ wf))

def driverMainB (sc : StatCfg) (cfg : Cfg) : IO Unit := Proto.run (StB.init 1) (total (handleB sc cfg))

end Psutil.C01.Drv
