/- Model/C03Gen.lean — the C03 model instantiated with the facts the translator extracted. -/
import PsutilModel.Model.C03
import PsutilModel.Generated.C03
namespace Psutil.C03

/-- configuration of the model as extracted from the current source -/
def cfg : Cfg :=
  { wrapClauses := Gen.C03.wrapClauses
    isZombieCatch := Gen.C03.isZombieCatch
    readlinkCatch := Gen.C03.readlinkCatch
    threadsCatch := Gen.C03.threadsCatch
    ofLinkCatch := Gen.C03.ofLinkCatch
    ofInfoCatch := Gen.C03.ofInfoCatch
    inodesCatch := Gen.C03.inodesCatch
    fullInfoCatch := Gen.C03.fullInfoCatch
    ppidMapCatch := Gen.C03.ppidMapCatch
    asDictCatch := Gen.C03.asDictCatch
    iterCatch := Gen.C03.iterCatch
    childrenCatch := Gen.C03.childrenCatch
    childrenRecCatch := Gen.C03.childrenRecCatch
    parentCatch := Gen.C03.parentCatch
    parentsCatch := Gen.C03.parentsCatch
    initClauses := Gen.C03.initClauses
    runningClauses := Gen.C03.runningClauses
    nameCatch := Gen.C03.nameCatch
    statusCatch := Gen.C03.statusCatch
    exeCatch := Gen.C03.exeCatch
    exeGuessCatch := Gen.C03.exeGuessCatch
    guessClauses := Gen.C03.guessItClauses
    guessTailRaises := Gen.C03.guessItTail == "if isinstance(fallback, AccessDenied): raise fallback ;; return fallback"
    wrapped := Gen.C03.wrapped
    memoized := Gen.C03.memoized
    feMemoized := Gen.C03.feMemoized
    hasRollup := Gen.C03.hasRollup
    goneGuard := Gen.C03.goneGuard
    childrenPopSelf := Gen.C03.childrenPopSelf
    probeLenient := Gen.C03.runningProbe == "lenient"
    asDictSkipCatch := Gen.C03.asDictSkipCatch
    asDictSkipRule := Gen.C03.asDictSkipRule
    parentRootGuard := Gen.C03.parentRootStop == "guard; return None"
    lazyBodies := Gen.C03.lazyBodies
    existsStrictClauses := Gen.C03.existsStrictClauses }

/-- the public names of psutil.Process and the as_dict attribute names, as extracted -/
def publicMethods : List String := Gen.C03.publicMethods
def asDictNames : List String := Gen.C03.asDictNames

/-- shape facts that the model hard-codes (pinned by the obligation `cfg_shapes_good` in Props/C03.lean) -/
def runningProbe : String := Gen.C03.runningProbe
def asDictLs : String := Gen.C03.asDictLs
def oneshotShape : String := Gen.C03.oneshotShape
def tryScopes : List (String × List String) := Gen.C03.tryScopes
/-- the statements of the lowest-PID stop of parent() ("guard; return None" | "return None" | the statements as text) -/
def parentRootStop : String := Gen.C03.parentRootStop
/-- the file-system probes memory_maps() makes on a mapping's path (expected: the one `(deleted)` suffix test) -/
def mapsDeletedProbe : String := Gen.C03.mapsDeletedProbe

/-- the last statements of exe()'s helper guess_it(fallback), from the `isinstance(fallback, …)` test on (as text) -/
def guessItTail : String := Gen.C03.guessItTail
/-- every use of a name bound by `except … as NAME` in psutil.Process / process_iter other than `raise` and attribute reads:
    where a caught exception OBJECT starts to travel as a value (expected: exe() hands it to guess_it, nothing else) -/
def excValueFlows : List String := Gen.C03.excValueFlows

end Psutil.C03
