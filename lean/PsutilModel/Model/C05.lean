/-
  Model/C05.lean — transcription of the process-tree walkers of psutil (Linux):

    psutil/_pslinux.py   ppid_map()                       (snapshot pid ↦ ppid over the listed PIDs)
    psutil/__init__.py   Process.__init__ / _get_ident    (`mkProcess`)
                         Process.is_running               (`isRunning`)
                         Process._raise_if_pid_reused     (`raiseIfPidReused`)
                         Process.children(recursive=…)    (`children`, `walk`)
                         Process.parent / ppid            (`parent`)
                         Process.parents                  (`parents`, `parentsLoop`)
                         pids() / _LOWEST_PID             (`Ps`, `lowestPid`)

  Same branch order and names as the Python. Imports Base.Bytes and Base.Dec only (stat line).
  Loops that Python writes as `while` are fuelled; running out of fuel is the explicit outcome
  `Out.diverged` (never a default value) and the theorems say when it can(not) be reached.
-/
import PsutilModel.Base.Bytes
import PsutilModel.Base.Dec
namespace Psutil.C05

/-! ## Configuration: facts the translator re-derives from the source on every run -/

/-- a Python comparison operator -/
inductive Cmp where
  | lt | le | eq | ne | gt | ge
  | unknown            -- the translator found an operator text it does not know
deriving DecidableEq, Repr

def Cmp.eval : Cmp → Nat → Nat → Bool
  | .lt, a, b => decide (a < b)
  | .le, a, b => decide (a ≤ b)
  | .eq, a, b => decide (a = b)
  | .ne, a, b => decide (a ≠ b)
  | .gt, a, b => decide (a > b)
  | .ge, a, b => decide (a ≥ b)
  | .unknown, _, _ => false

def Cmp.ofString (s : String) : Cmp :=
  if s == "<" then .lt else if s == "<=" then .le else if s == "==" then .eq
  else if s == "!=" then .ne else if s == ">" then .gt else if s == ">=" then .ge else .unknown

structure Cfg where
  /-- `children()`: operator in `self.create_time() OP child.create_time()` (non-recursive branch) -/
  childOp : Cmp
  /-- `children(recursive=True)`: operator in `self.create_time() OP child.create_time()` -/
  descOp : Cmp
  /-- `parent()`: operator in `parent.create_time() OP ctime` -/
  parentOp : Cmp
  /-- the recursive walk has `if pid in seen: continue` -/
  seenGuard : Bool
  /-- `children()` never hands out the caller itself (its own PID is dropped from the ppid map) -/
  skipSelf : Bool
  /-- `parents()` stops at a process it has already visited -/
  parentsSeen : Bool
  /-- `children()` starts with `self._raise_if_pid_reused()` -/
  childrenGuarded : Bool
  /-- `ppid()` starts with `self._raise_if_pid_reused()` -/
  ppidGuarded : Bool
  /-- `parent()` returns None for the lowest listed PID before anything else -/
  lowestStop : Bool
  /-- `_raise_if_pid_reused()` also raises NoSuchProcess when `self._gone` is set (after the reused test) -/
  goneRaises : Bool
  /-- the lowest-PID stop of `parent()` checks the caller's identity (`self._raise_if_pid_reused()`)
      before it returns None (false in psutil as found: the stop comes before any identity check) -/
  rootGuarded : Bool
deriving Repr

/-! ## World -/

/-- one listed process = one `/proc/<pid>/stat` -/
structure Row where
  pid : Nat
  ppid : Nat
  start : Nat        -- starttime (field 22), clock ticks since boot
deriving DecidableEq, Repr

/-- the process table, in `os.listdir` order -/
abbrev Table := List Row

def Table.find (T : Table) (pid : Nat) : Option Row := List.find? (fun r => r.pid == pid) T

def Table.pids (T : Table) : List Nat := T.map (·.pid)

/-- what `ppid_map()` returns: `(pid, ppid)` in dict order -/
abbrev PpidMap := List (Nat × Nat)

/-- `_pslinux.ppid_map()` over an (atomically read) table -/
def ppidMap (T : Table) : PpidMap := T.map fun r => (r.pid, r.ppid)

/-- `Process(pid).create_time()` at the moment the PID is examined:
    `some start`, or `none` = `NoSuchProcess` (no `/proc/<pid>/stat`) -/
abbrev Look := Nat → Option Nat

def lookOf (T : Table) : Look := fun pid => (T.find pid).map (·.start)

/-! ## Outcomes (every exception of the Python is a constructor) -/

inductive Out (α : Type) where
  | ok (v : α)
  | nsp (pid : Nat)       -- psutil.NoSuchProcess(pid)
  | indexError            -- `pids()[0]` with nothing listed
  | diverged              -- the loop did not finish within its fuel
deriving DecidableEq, Repr

/-! ## The `psutil.Process` object of the caller -/

structure Caller where
  pid : Nat
  ctime : Nat             -- `_create_time` / `_ident[1]`, cached at construction
  gone : Bool             -- `_gone`
  reused : Bool           -- `_pid_reused`
deriving DecidableEq, Repr

/-- `psutil.Process(pid)` -/
def mkProcess (look : Look) (pid : Nat) : Out Caller :=
  match look pid with
  | none => .nsp pid
  | some s => .ok ⟨pid, s, false, false⟩

/-- `Process.is_running()` -/
def isRunning (look : Look) (me : Caller) : Caller × Bool :=
  if me.gone || me.reused then (me, false)
  else
    match look me.pid with
    | none => ({ me with gone := true }, false)                    -- NoSuchProcess → `_gone = True`
    | some s =>
      if s == me.ctime then (me, true)                             -- `self == Process(self.pid)`
      else ({ me with gone := true, reused := true }, false)       -- `_pid_reused = True`; raise NSP → `_gone = True`

/-- `Process._raise_if_pid_reused()`: the Bool says "raises NoSuchProcess".
    `if self._pid_reused or (not self.is_running() and self._pid_reused): raise …`
    and then, when the fact `goneRaises` holds, `if self._gone: raise …`. -/
def raiseIfPidReused (goneRaises : Bool) (look : Look) (me : Caller) : Caller × Bool :=
  if me.reused then (me, true)
  else
    let r := isRunning look me
    if !r.2 && r.1.reused then (r.1, true)
    else (r.1, goneRaises && r.1.gone)

/-! ## children() -/

/-- `reverse_ppid_map[p]` / the PIDs whose recorded parent is `p`, in map order -/
def kidsOf (pm : PpidMap) (p : Nat) : List Nat := (pm.filter fun e => e.2 == p).map (·.1)

/-- `child = Process(pid); self.create_time() OP child.create_time()`; NoSuchProcess → skipped -/
def accepted (op : Cmp) (ct : Nat) (look : Look) (pid : Nat) : Bool :=
  match look pid with
  | none => false
  | some s => op.eval ct s

/-- body of the non-recursive branch -/
def childrenFlat (op : Cmp) (ct root : Nat) (pm : PpidMap) (look : Look) : List Nat :=
  (kidsOf pm root).filter (accepted op ct look)

/-- the `while stack:` loop of the recursive branch. `stack` has its top at the head
    (`stack.pop()` takes the last appended element); `ok` is the create-time test. -/
def walk (seenGuard : Bool) (ok : Nat → Bool) (pm : PpidMap) :
    Nat → List Nat → List Nat → List Nat → Option (List Nat)
  | 0, _, _, _ => none
  | _ + 1, _, [], ret => some ret
  | fuel + 1, seen, pid :: rest, ret =>
    if seenGuard && seen.contains pid then walk seenGuard ok pm fuel seen rest ret
    else
      let acc := (kidsOf pm pid).filter ok
      walk seenGuard ok pm fuel (pid :: seen) (acc.reverse ++ rest) (ret ++ acc)

/-- enough iterations for any ppid map when the `seen` guard is present (proved in Props) -/
def walkFuel (pm : PpidMap) : Nat := (pm.length + 1) * (pm.length + 1) + 2

/-- the map the walkers use: with `skipSelf` the caller's own entry is dropped first -/
def usedMap (c : Cfg) (root : Nat) (pm : PpidMap) : PpidMap :=
  if c.skipSelf then pm.filter (fun e => e.1 != root) else pm

/-- `Process.children(recursive)`.
    `look0`: the world when the caller's identity is checked; `pm`: the snapshot `ppid_map()`
    returned; `look`: the world in which each child PID is examined afterwards (each PID is
    examined at most once, so a function covers every interleaving of vanishing processes). -/
def children (c : Cfg) (me : Caller) (recursive : Bool) (look0 : Look) (pm : PpidMap) (look : Look) :
    Caller × Out (List Nat) :=
  let g := if c.childrenGuarded then raiseIfPidReused c.goneRaises look0 me else (me, false)
  if g.2 then (g.1, .nsp me.pid)
  else
    let pm' := usedMap c me.pid pm
    if !recursive then (g.1, .ok (childrenFlat c.childOp me.ctime me.pid pm' look))
    else
      match walk c.seenGuard (accepted c.descOp me.ctime look) pm' (walkFuel pm') [] [me.pid] [] with
      | none => (g.1, .diverged)
      | some l => (g.1, .ok l)

/-! ## parent() / parents() -/

/-- module state: `psutil._LOWEST_PID` -/
structure Ps where
  lowest : Option Nat
deriving DecidableEq, Repr

def minPid? (T : Table) : Option Nat := T.pids.min?

/-- `_LOWEST_PID if _LOWEST_PID is not None else pids()[0]`; `none` = IndexError (nothing
    listed). `psutil.pids()` stores its first element in `_LOWEST_PID`. -/
def lowestPid (ps : Ps) (T : Table) : Ps × Option Nat :=
  match ps.lowest with
  | some l => (ps, some l)
  | none =>
    match minPid? T with
    | none => (ps, none)
    | some m => (⟨some m⟩, some m)

def callerOf (r : Row) : Caller := ⟨r.pid, r.start, false, false⟩

/-- `parent()` after the lowest-PID stop: `ppid = self.ppid()`, `ctime = self.create_time()`,
    `parent = Process(ppid)`, create-time test, NoSuchProcess → None. -/
def parentCore (c : Cfg) (T : Table) (me : Caller) : Caller × Out (Option Row) :=
  -- ppid(): `_raise_if_pid_reused()` then `self._proc.ppid()`
  let g := if c.ppidGuarded then raiseIfPidReused c.goneRaises (lookOf T) me else (me, false)
  if g.2 then (g.1, .nsp me.pid)
  else
    match T.find me.pid with
    | none => (g.1, .nsp me.pid)                                   -- own stat file is gone
    | some r =>
      match T.find r.ppid with
      | none => (g.1, .ok none)                                    -- Process(ppid): NoSuchProcess → None
      | some q =>
        if c.parentOp.eval q.start me.ctime then (g.1, .ok (some q))
        else (g.1, .ok none)                                       -- ppid reused by a younger process

/-- `Process.parent()` on a table that does not change during the call. The returned row is the
    parent `Process` object (pid, create time). -/
def parent (c : Cfg) (ps : Ps) (T : Table) (me : Caller) : Ps × Caller × Out (Option Row) :=
  if c.lowestStop then
    match lowestPid ps T with
    | (ps', none) => (ps', me, .indexError)
    | (ps', some lowest) =>
      if me.pid == lowest then
        if c.rootGuarded then
          let g := raiseIfPidReused c.goneRaises (lookOf T) me
          if g.2 then (ps', g.1, .nsp me.pid) else (ps', g.1, .ok none)
        else (ps', me, .ok none)
      else (ps', parentCore c T me)
  else (ps, parentCore c T me)

/-- the `while proc is not None` loop of `parents()`; `cur` is the process whose `parent()` is
    asked next, `seen` the PIDs already on the chain (only used with `parentsSeen`). -/
def parentsLoop (c : Cfg) (T : Table) :
    Nat → Ps → List Nat → Caller → List Row → Ps × Out (List Row)
  | 0, ps, _, _, _ => (ps, .diverged)
  | fuel + 1, ps, seen, cur, acc =>
    match parent c ps T cur with
    | (ps', _, .ok none) => (ps', .ok acc)
    | (ps', _, .ok (some q)) =>
      if c.parentsSeen && seen.contains q.pid then (ps', .ok acc)
      else parentsLoop c T fuel ps' (q.pid :: seen) (callerOf q) (acc ++ [q])
    | (ps', _, .nsp p) => (ps', .nsp p)
    | (ps', _, .indexError) => (ps', .indexError)
    | (ps', _, .diverged) => (ps', .diverged)

def parentsFuel (T : Table) : Nat := T.length + 2

/-- `Process.parents()` -/
def parents (c : Cfg) (ps : Ps) (T : Table) (me : Caller) : Ps × Out (List Row) :=
  parentsLoop c T (parentsFuel T) ps [me.pid] me []

/-! ## Reading one `/proc/<pid>/stat` (how the table is obtained from the bytes)

    ppid_map():          rpar = data.rfind(b')'); dset = data[rpar + 2:].split(); ppid = int(dset[1])
    _parse_stat_file():  rpar = data.rfind(b')'); fields = data[rpar + 2:].split()
                         ret['ppid'] = fields[1] … ret['create_time'] = fields[19] … fields[36]
    ppid():              int(ret['ppid'])          create_time(): float(ret['create_time']) / CLOCK_TICKS + boot time
-/

structure StatCfg where
  mapRfind : Bool
  mapOffset : Nat
  mapIdx : Nat
  statRfind : Bool
  statOffset : Nat
  statPpidIdx : Nat
  statCtimeIdx : Nat
deriving Repr

inductive POut where
  | ok (v : Nat)
  | indexError
  | valueError
deriving DecidableEq, Repr

/-- `data.rfind(b')')` / `data.find(b')')`: −1 when absent -/
def parenPos (rfind : Bool) (data : Bytes) : Int :=
  match (if rfind then rfindIdx? 41 data else findIdx? 41 data) with
  | some i => (i : Int)
  | none => -1

/-- `data[i:]` for a possibly negative `i` -/
def sliceFrom (data : Bytes) (i : Int) : Bytes :=
  if 0 ≤ i then data.drop i.toNat else data.drop (data.length - (-i).toNat)

def fieldsAfterParen (rfind : Bool) (offset : Nat) (data : Bytes) : List Bytes :=
  splitWs (sliceFrom data (parenPos rfind data + offset))

/-- `int(tokens[i])` for the decimal tokens the kernel writes -/
def intAt (tokens : List Bytes) (i : Nat) : POut :=
  match tokens[i]? with
  | none => .indexError
  | some t =>
    match parseDec? t with
    | none => .valueError
    | some n => .ok n

/-- the value `ppid_map()` stores for one stat file -/
def mapEntry (sc : StatCfg) (data : Bytes) : POut :=
  intAt (fieldsAfterParen sc.mapRfind sc.mapOffset data) sc.mapIdx

/-- highest index `_parse_stat_file` reads unconditionally (`fields[36]`, cpu_num) -/
def statNeeds : Nat := 36

/-- `Process(pid)._proc.ppid()` -/
def statPpid (sc : StatCfg) (data : Bytes) : POut :=
  let fs := fieldsAfterParen sc.statRfind sc.statOffset data
  if fs.length ≤ statNeeds then .indexError else intAt fs sc.statPpidIdx

/-- starttime in clock ticks as `create_time()` reads it -/
def statCtime (sc : StatCfg) (data : Bytes) : POut :=
  let fs := fieldsAfterParen sc.statRfind sc.statOffset data
  if fs.length ≤ statNeeds then .indexError else intAt fs sc.statCtimeIdx

end Psutil.C05
