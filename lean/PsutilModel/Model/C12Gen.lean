/- Model/C12Gen.lean — the C12 model instantiated with the facts the translator extracted. -/
import PsutilModel.Model.C12
import PsutilModel.Generated.C12
namespace Psutil.C12

/-- configuration of the model as extracted from the current source -/
def cfg : Cfg :=
  { sepTest := Gen.C12.cmdlineSepTest
    sepNul := Gen.C12.cmdlineSepNul
    sepSpace := Gen.C12.cmdlineSepSpace
    rule2Sep := Gen.C12.cmdlineRule2Sep
    rule2In := Gen.C12.cmdlineRule2In
    rule2Split := Gen.C12.cmdlineRule2Split
    stripOne := Gen.C12.cmdlineStripsOneSep
    envNul := Gen.C12.environNul
    envEq := Gen.C12.environEq
    rlNul := Gen.C12.readlinkNul
    deletedSuffix := Gen.C12.deletedSuffix
    deletedCut := Gen.C12.deletedCut
    nameMinLen := Gen.C12.nameMinLen
    nameTestOnBytes := Gen.C12.nameTestOnBytes
    textRaw := Gen.C12.openTextNoNewlineTranslation
    -- the `except` clauses, read as Python reads them (first matching clause, subclass-aware)
    nameSwallows := handledWith Gen.C12.nameCmdlineClauses "pass"
    exeGuessOn := handledWith Gen.C12.exeNativeClauses "guess"
    exeGuessSwallows := handledWith Gen.C12.exeGuessClauses "pass"
    guessReraises := allExc.filter (catches Gen.C12.guessReraiseClass)
    -- the `except` clauses of `path_exists_strict` around `os.stat(path)`, read the same way over OSError's subclasses
    existsFalseOn := osHandledWith Gen.C12.existsStrictClauses "false"
    existsTrueOn := osHandledWith Gen.C12.existsStrictClauses "true" }

end Psutil.C12
