/- Model/C18Gen.lean — the C18 model instantiated with the facts the translator extracted. -/
import PsutilModel.Model.C18
import PsutilModel.Model.C18Who
import PsutilModel.Model.C18Num
import PsutilModel.Model.C18Alt
import PsutilModel.Generated.C18
namespace Psutil.C18

/-- configuration of the model as extracted from the current source -/
def cfg : Cfg :=
  { shift := Gen.C18.ioprioClassShift
    macrosCanonical := Gen.C18.ioprioMacrosCanonical
    nativeRange := Gen.C18.ioprioSetRangeCheck
    nativeRangeEinval := Gen.C18.ioprioSetRangeRaisesEinval
    defaultLevel := Gen.C18.ioniceDefaultLevel
    levelMin := Gen.C18.ioniceLevelMin
    levelMax := Gen.C18.ioniceLevelMax
    noValueClasses := Gen.C18.ioniceNoValueClasses
    enumClasses := Gen.C18.ioPriorityMembers
    pairLen := Gen.C18.rlimitPairLen
    valueWithoutClassRaises := Gen.C18.ioniceValueWithoutClassRaises
    pid0Refused := Gen.C18.rlimitRefusesPid0
    emptyAsksAll := Gen.C18.emptyAffinityRange
    emptyAsksCount := Gen.C18.emptyAffinityUsesStatCount
    getSortedSet := Gen.C18.affinityGetSortedSet
    setDedup := Gen.C18.affinitySetDedup
    prioGet := ⟨Gen.C18.getpriorityClearsErrno, ErrTest.ofCode Gen.C18.getpriorityErrTest⟩
    ioprioGet := ⟨Gen.C18.ioprioGetClearsErrno, ErrTest.ofCode Gen.C18.ioprioGetErrTest⟩
    affGet := ⟨Gen.C18.affinityGetClearsErrno, ErrTest.ofCode Gen.C18.affinityGetErrTest⟩
    einvalValueError := Gen.C18.affinityEinvalRaisesValueError
    overflowValueError := Gen.C18.affinityOverflowRaisesValueError
    setPrioChecks := Gen.C18.setpriorityChecksRetval
    ioprioSetChecks := Gen.C18.ioprioSetChecksRetval
    affSetChecks := Gen.C18.affinitySetChecksRetval
    affLoop := ⟨Gen.C18.affinityGetInitBits, Gen.C18.affinityGetRetryTest, Gen.C18.affinityGetGrowth.1,
      Gen.C18.affinityGetGrowth.2⟩ }

/-- which process each form addresses, as extracted from the current source (Model/C18Who.lean) -/
def routing : Routing :=
  { niceGet := Addr.ofCode Gen.C18.addrNiceGet
    niceSet := Addr.ofCode Gen.C18.addrNiceSet
    ioniceGet := Addr.ofCode Gen.C18.addrIoniceGet
    ioniceSet := Addr.ofCode Gen.C18.addrIoniceSet
    affGet := Addr.ofCode Gen.C18.addrAffinityGet
    affSet := Addr.ofCode Gen.C18.addrAffinitySet
    rlimitGet := Addr.ofCode Gen.C18.addrRlimitGet
    rlimitSet := Addr.ofCode Gen.C18.addrRlimitSet }

/-- width of the signed C integer the native affinity setter holds a CPU number in, as extracted
    from the current source (Model/C18Num.lean) -/
def cpuNumBits : Nat := Gen.C18.affinitySetCpuBits

/-- the other source the get form of `rlimit` answers from after a refusal, as extracted from the
    current source (Model/C18Alt.lean); a source the model does not know counts as none here — the
    obligation `cfg_rlimit_get_single_source` is what breaks then -/
def rlimitAlt : AltSrc := (AltSrc.ofCode Gen.C18.rlimitGetOtherSources).getD none

end Psutil.C18
