/-
  Model/C18Alt.lean — a get form whose primary system call is REFUSED and that has another readable
  source (seeded round 5, C18-7).

  `resource.prlimit(pid, res)` on a process of another user without CAP_SYS_RESOURCE fails with
  EPERM. The kernel shows the same sixteen pairs in the world-readable `/proc/<pid>/limits`, one row
  per resource. A get form may therefore answer from that file after the refusal; what it answers
  is decided by WHICH ROW it reads for the resource asked. `AltSrc` is that dimension:

    * `none`            — the refusal is passed on (the code as it is: fact `rlimitGetOtherSources = 0`);
    * `some rows`       — after EPERM / EACCES the pair of row `rows[res]` of `/proc/<pid>/limits` is
                          returned (a resource without an entry passes the refusal on).

  `procLimitsRow` is the file as procfs documents it: row r holds the limits of resource r of that
  process, readable by everybody, gone with the process.
-/
import PsutilModel.Model.C18
import PsutilModel.Model.C18Num
namespace Psutil.C18

abbrev AltSrc := Option (List Nat)

/-- `/proc/<pid>/limits`, row of resource `row`: world-readable, shows what the kernel holds -/
def procLimitsRow (k : Kernel) (pid row : Nat) : Option (Nat × Nat) :=
  (k.procs pid).map fun st => st.rlimits row

/-- what the get form answers for resource `res` once the system call was refused (`refusal` = the
    result that passes the refusal on) -/
def altAnswer (alt : AltSrc) (k : Kernel) (pid : Nat) (res : Int) (refusal : Out × Kernel) : Out × Kernel :=
  match alt with
  | none => refusal
  | some rows =>
    match rows[res.toNat]? with
    | none => refusal
    | some row =>
      match procLimitsRow k pid row with
      | some (s, h) => (.ok (.limits (ofU64 s) (ofU64 h)), refusal.2)
      | none => refusal

/-- the get form of `rlimit` of the platform layer with the alternative source `alt` -/
def rlimitGetAlt (alt : AltSrc) (c : Cfg) (k : Kernel) (pid : Nat) (res : Int) : Out × Kernel :=
  match rlimitLX c k pid res none with
  | (.exc (.accessDenied p), k') => altAnswer alt k pid res (.exc (.accessDenied p), k')
  | r => r

/-- one public call — **what the driver runs**: `stepPyN` (Model/C18Num.lean) with the get form of
    `rlimit` answering from the alternative source after a refusal -/
def stepPyA (alt : AltSrc) (bits : Nat) (c : Cfg) (rt : Routing) (og : Origin) (k : Kernel) (pid : Nat) (x : Ctx)
    (r : PyReq) : Out × Kernel :=
  match r, stepPyN bits c rt og k pid x r with
  | .rlimit rs none, (.exc (.accessDenied p), k') => altAnswer alt k pid rs.val (.exc (.accessDenied p), k')
  | _, res => res

/-- the alternative source named by the translator's fact: the number of statements of
    `_pslinux.Process.rlimit` that return a value which is not the result of `resource.prlimit(self.pid,
    resource_)`. 0 = none; anything else is a source this model does not know (no `AltSrc`). -/
def AltSrc.ofCode : Nat → Option AltSrc
  | 0 => some none
  | _ => Option.none

/-- every resource answered from its own row -/
def altIdentity : AltSrc := some (List.range 16)

end Psutil.C18
