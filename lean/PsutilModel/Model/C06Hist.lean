/-
  Model/C06Hist.lean — HISTORIES of calls on one `psutil.Process` object: the caching machinery that sits
  between the public getters and the parsers of Model/C06.lean.

    psutil/__init__.py   Process.oneshot()            (context manager: activations, `yield`, teardown)
                         @memoize_when_activated on Process.cpu_times / ppid / uids (+ memory_info)
    psutil/_common.py    memoize_when_activated       (one `_cache` slot per object: absent / (owner, dict))
    psutil/_pslinux.py   Process.oneshot_enter/_exit, @memoize_when_activated on _parse_stat_file,
                         _read_status_file (+ _read_smaps_file)

  Two objects carry a `_cache` slot: the front-end `Process` (`fe`) and the platform `_pslinux.Process`
  (`pl`). `cache_activate` puts a FRESH dict into the slot, `cache_deactivate` deletes the slot; a decorated
  function looks its value up in the dict when the slot exists (storing it on a miss, exceptions are not
  stored) and runs undecorated otherwise. One thread (the thread dimension is C16's).

  WHAT `oneshot()` does on entry, on a normal exit and when an exception propagates out of the block are
  translator facts (`HCfg.enterActs/leaveActs/leaveExcActs`: the calls the control flow of the generator
  reaches in each case), as are the sets of decorated functions. Import-free (Base + Model/C06 + vocabulary).
-/
import PsutilModel.Model.C06
import PsutilModel.Model.C06Api
namespace Psutil.C06

/-- result of a getter (a sum over the result types of Model/C06.lean) -/
inductive Out
  | bytes (b : Bytes)
  | int (i : Int)
  | st (s : StatusOut)
  | cpu (c : CpuTimes)
  | obytes (o : Option Bytes)
  | ids (t : Nat × Nat × Nat)
  | nat (n : Nat)
  | pair (p : Nat × Nat)
  deriving DecidableEq, Repr

/-- what a call inside `oneshot()` does to the two `_cache` slots -/
inductive Act
  | feOn     -- self.<decorated method>.cache_activate(self)
  | feOff    -- self.<decorated method>.cache_deactivate(self)
  | plOn     -- self._proc.oneshot_enter()   (when that activates a decorated platform function)
  | plOff    -- self._proc.oneshot_exit()    (when that deactivates one)
  | other    -- anything else: no effect on the slots
  deriving DecidableEq, Repr

/-- facts about the caching code, extracted by the translator on every run -/
structure HCfg where
  /-- the calls `oneshot()` makes before its `yield` (branch that really opens a block) -/
  enterActs : List Act
  /-- the calls reached after the `yield` RETURNED (block left normally) -/
  leaveActs : List Act
  /-- the calls reached after the `yield` RAISED (an exception propagates out of the block) -/
  leaveExcActs : List Act
  /-- `if hasattr(self, "_cache"): yield` — entering a block while one is open does nothing -/
  nestedNoop : Bool
  /-- front-end getters decorated with `@memoize_when_activated` -/
  feMemo : List Getter
  /-- `_parse_stat_file` is decorated with `@memoize_when_activated` -/
  plMemoStat : Bool
  /-- `_read_status_file` is decorated with `@memoize_when_activated` -/
  plMemoStatus : Bool

/-- the kernel files of the process at one moment -/
structure World where
  stat : Bytes
  status : Bytes
  deriving DecidableEq, Repr

/-- the parser configuration and the machine around the process -/
structure Env where
  cfg : Cfg
  tck : Nat
  tmap : List (Int × Bytes)

def Getter.usesStat : Getter → Bool
  | .name | .ppid | .status | .cpuTimes | .cpuNum | .terminal => true
  | _ => false

/-- the body of `cpu_times()` after `values = self._parse_stat_file()` -/
def cpuTimesOf (tck : Nat) (v : StatRaw) : Res CpuTimes := do
  let utime ← pyFloat v.utime >>= (pyDiv · tck)
  let stime ← pyFloat v.stime >>= (pyDiv · tck)
  let cu ← pyFloat v.cutime >>= (pyDiv · tck)
  let cs ← pyFloat v.cstime >>= (pyDiv · tck)
  let io ← (match v.blkio with
    | some t => pyFloat t
    | none => pure 0) >>= (pyDiv · tck)
  pure ⟨utime, stime, cu, cs, io⟩

/-- a stat-backed getter, given the dict `_parse_stat_file()` returned -/
def evalStat (e : Env) (g : Getter) (v : StatRaw) : Res Out :=
  match g with
  | .name => .ok (.bytes v.name)
  | .ppid => (pyInt v.ppid).map .int
  | .status => .ok (.st (if v.status.all (· < 128) then .str (lookupStatus e.cfg.statuses v.status) else .nonAscii))
  | .cpuTimes => (cpuTimesOf e.tck v).map .cpu
  | .cpuNum => (pyInt v.cpuNum).map .int
  | .terminal => (pyInt v.ttynr).map fun nr => .obytes (e.tmap.lookup nr)
  | _ => .error .valueError        -- not a stat-backed getter (never reached: `Getter.usesStat`)

/-- a status-backed getter, given the bytes `_read_status_file()` returned -/
def evalStatus (e : Env) (g : Getter) (file : Bytes) : Res Out :=
  match g with
  | .uids => (uids e.cfg file).map .ids
  | .gids => (gids e.cfg file).map .ids
  | .numThreads => (numThreads e.cfg file).map .nat
  | .numCtxSwitches => (numCtxSwitches e.cfg file).map .pair
  | _ => .error .valueError        -- not a status-backed getter (never reached)

/-- the getter run with NO cache anywhere: parse what the kernel publishes now -/
def direct (e : Env) (g : Getter) (w : World) : Res Out :=
  if g.usesStat then parseStat e.cfg w.stat >>= evalStat e g else evalStatus e g w.status

/-- the dict of the platform object's `_cache` slot: memoised `_parse_stat_file()` / `_read_status_file()` -/
structure PlCache where
  stat : Option StatRaw
  status : Option Bytes
  deriving DecidableEq, Repr

/-- one `Process` object: the `_cache` slot of the front end (values of the decorated getters) and of
    the platform object; `none` = the attribute does not exist -/
structure Obj where
  fe : Option (List (Getter × Out))
  pl : Option PlCache
  deriving DecidableEq, Repr

/-- `self._parse_stat_file()` -/
def readStat (h : HCfg) (e : Env) (w : World) (o : Obj) : Res StatRaw × Obj :=
  match o.pl with
  | none => (parseStat e.cfg w.stat, o)
  | some c =>
    if h.plMemoStat then
      match c.stat with
      | some v => (.ok v, o)
      | none =>
        match parseStat e.cfg w.stat with
        | .ok v => (.ok v, { o with pl := some { c with stat := some v } })
        | .error x => (.error x, o)
    else (parseStat e.cfg w.stat, o)

/-- `self._read_status_file()` -/
def readStatusFile (h : HCfg) (w : World) (o : Obj) : Bytes × Obj :=
  match o.pl with
  | none => (w.status, o)
  | some c =>
    if h.plMemoStatus then
      match c.status with
      | some b => (b, o)
      | none => (w.status, { o with pl := some { c with status := some w.status } })
    else (w.status, o)

/-- the platform method `self._proc.<getter>()` -/
def plEval (h : HCfg) (e : Env) (g : Getter) (w : World) (o : Obj) : Res Out × Obj :=
  if g.usesStat then
    ((readStat h e w o).1 >>= evalStat e g, (readStat h e w o).2)
  else
    (evalStatus e g (readStatusFile h w o).1, (readStatusFile h w o).2)

/-- the public method `p.<getter>()` -/
def feEval (h : HCfg) (e : Env) (g : Getter) (w : World) (o : Obj) : Res Out × Obj :=
  match o.fe with
  | none => plEval h e g w o
  | some c =>
    if h.feMemo.contains g then
      match c.lookup g with
      | some v => (.ok v, o)
      | none =>
        match (plEval h e g w o).1 with
        | .ok v => (.ok v, { (plEval h e g w o).2 with fe := some ((g, v) :: c) })
        | .error x => (.error x, (plEval h e g w o).2)
    else plEval h e g w o

def applyAct (o : Obj) : Act → Obj
  | .feOn => { o with fe := some [] }
  | .feOff => { o with fe := none }
  | .plOn => { o with pl := some ⟨none, none⟩ }
  | .plOff => { o with pl := none }
  | .other => o

def applyActs (o : Obj) (acts : List Act) : Obj := acts.foldl applyAct o

/-- the object, what the kernel publishes now, and for every open `with p.oneshot():` whether its entry
    really activated the caches (`true`) or was the nested no-op (`false`); innermost first -/
structure HState where
  obj : Obj
  cur : World
  stack : List Bool

/-- a freshly constructed `Process(pid)` -/
def HState.fresh (w : World) : HState := ⟨⟨none, none⟩, w, []⟩

def step (h : HCfg) (e : Env) (s : HState) : Ev World → HState × Option (Res Out)
  | .publish w => ({ s with cur := w }, none)
  | .get g => ({ s with obj := (feEval h e g s.cur s.obj).2 }, some (feEval h e g s.cur s.obj).1)
  | .enter =>
    if h.nestedNoop && s.obj.fe.isSome then ({ s with stack := false :: s.stack }, none)
    else ({ s with obj := applyActs s.obj h.enterActs, stack := true :: s.stack }, none)
  | .leave exc =>
    match s.stack with
    | [] => (s, none)
    | false :: rest => ({ s with stack := rest }, none)
    | true :: rest =>
      ({ s with obj := applyActs s.obj (if exc then h.leaveExcActs else h.leaveActs), stack := rest }, none)

/-- the observations of a history, one per `get` -/
def run (h : HCfg) (e : Env) : HState → List (Ev World) → List (Res Out)
  | _, [] => []
  | s, ev :: evs =>
    match (step h e s ev).2 with
    | some o => o :: run h e (step h e s ev).1 evs
    | none => run h e (step h e s ev).1 evs

end Psutil.C06
