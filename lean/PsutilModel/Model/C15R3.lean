/-
  Model/C15R3.lean — third round (audit-driven) additions to the C15 model:

  * `wait_pid` / `Process.wait` with the pid as an INTEGER and the first test of `wait_pid` as the
    translator found it (`pidRefused`: which of 0 / negative / positive pids the test raises
    ValueError for — facts `pidRejectsZero`, `pidRejectsNeg`, `pidRejectsPos`). `waitPid` of
    Model/C15.lean hard-codes `pid = 0 → ValueError` over natural numbers; `waitPidI` is what the
    driver runs, so a change of the test changes the driver's model too, and negative pids
    (`os.waitpid(-1, …)` = "any child") can be asked about.
-/
import PsutilModel.Model.C15
namespace Psutil.C15

/-- does the first statement of `wait_pid` raise ValueError for this pid? -/
def pidRefused (cfg : Cfg) (pid : Int) : Bool :=
  if pid = 0 then cfg.pidRejectsZero else if pid < 0 then cfg.pidRejectsNeg else cfg.pidRejectsPos

/-- `wait_pid(pid, timeout)` for any integer pid. A non-positive pid that gets past the test (a
    configuration `cfg_pid_test` excludes) reaches `os.waitpid(pid, flags)`, which then speaks about
    whatever `env` describes ("any child" / "any child of the group"). -/
def waitPidI (cfg : Cfg) (env : Env) (pid : Int) (timeout : Option Rat) (fuel : Nat)
    (now : Rat) (nWait : Nat) : Outcome × St :=
  let s0 : St := ⟨now, cfg.i0, nWait, []⟩
  if pidRefused cfg pid then (.valueError, s0)
  else waitLoop cfg env pid.toNat timeout (now + timeout.getD 0) fuel s0

/-- `Process.wait(timeout)` over `waitPidI` (same three steps as `procWait`) -/
def procWaitI (cfg : Cfg) (env : Env) (timeout : Option Rat) (fuel : Nat) (now : Rat) (p : PObj) :
    WaitRes :=
  if cfg.validateNonNeg && negative timeout then ⟨.valueError, now, [], p⟩
  else
    match p.exitcode with
    | some v => ⟨Outcome.ofValue v, now, [], p⟩
    | none =>
      let r := waitPidI cfg env (p.pid : Int) timeout fuel now p.nWait
      ⟨r.1, r.2.now, r.2.sleeps, { p with exitcode := r.1.value?, nWait := r.2.nWait }⟩

end Psutil.C15
