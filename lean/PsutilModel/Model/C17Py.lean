/-
  Model/C17Py.lean — round 2 of C17: the Python-side wrappers around the C entry points, and the
  source SHAPE of the string decoding in users.c.

    §16 users.c decode shape     psutil/arch/linux/users.c   which expression feeds each string slot
    §17 RootFsDeviceFinder       psutil/_pslinux.py          ask_proc_partitions / ask_sys_dev_block /
                                                             ask_sys_class_block / find
    §18 net_if_stats()           psutil/_pslinux.py          mtu / flags / duplex+speed → snicstats, ENODEV skip
    §19 net_if_addrs()           psutil/__init__.py          sort by family, AF_LINK padding, grouping by NIC

  Same conventions as Model/C17.lean: every fact re-derived by the translator is a field of a `…Cfg`;
  Python exceptions the code can raise (IndexError, KeyError, OSError) are explicit constructors.
  Text files are ASCII byte strings free of '\r' (what the kernel prints); `str.isdigit()` followed by
  `int()` is modelled on ASCII digits only.
-/
import PsutilModel.Model.C17Ext
import PsutilModel.Base.Dec
namespace Psutil.C17

/-! ## §16 users.c: the expression behind each string slot -/

/-- how a `char` array member of `struct utmp` is turned into a Python string -/
inductive DecodeKind
  | bounded      -- PyUnicode_DecodeFSDefaultAndSize(ut->F, strnlen(ut->F, sizeof(ut->F)))
  | unbounded    -- PyUnicode_DecodeFSDefault(ut->F)
  | other        -- anything else (local copies, other lengths, other functions): NOT modelled
  deriving DecidableEq, Repr

/-- the two decode expressions the model understands, whitespace removed, for member `f` -/
def boundedExpr (f : String) : String :=
  "PyUnicode_DecodeFSDefaultAndSize(ut->" ++ f ++ ",strnlen(ut->" ++ f ++ ",sizeof(ut->" ++ f ++ ")))"

def unboundedExpr (f : String) : String := "PyUnicode_DecodeFSDefault(ut->" ++ f ++ ")"

def decodeKind (f expr : String) : DecodeKind :=
  if expr == boundedExpr f then .bounded else if expr == unboundedExpr f then .unbounded else .other

/-- what the translator reads off `psutil_users`: for each `py_…` string variable of the tuple the
    right-hand sides assigned to it inside the loop (whitespace removed, source order); every call
    expression that mentions `ut_user` / `ut_line` / `ut_host` (outermost call, whitespace removed,
    source order); how often each of the three members is mentioned at all; the `char x[N]` locals -/
structure UShape where
  slotExprs : List (String × List String)
  fieldUses : List String
  mentions : List (String × Nat)
  charLocals : List String
  deriving DecidableEq, Repr

/-- the decode kind of the slot variable `var` for member `f`: the LAST right-hand side (the
    `else` branch for the host) decides; no assignment at all = `other` -/
def UShape.kind (s : UShape) (var f : String) : DecodeKind :=
  match s.slotExprs.lookup var with
  | none => .other
  | some es => match es.getLast? with
    | none => .other
    | some e => decodeKind f e

/-- the configuration whose three `…Bounded` flags are READ OFF the shape; a shape the model does
    not understand keeps the flag of `base` (and can never satisfy `UShape.Canonical`) -/
def UCfg.withShape (base : UCfg) (s : UShape) : UCfg :=
  let pick (var f : String) (b : Bool) : Bool :=
    match s.kind var f with
    | .bounded => true
    | .unbounded => false
    | .other => b
  { base with
    userBounded := pick "py_username" "ut_user" base.userBounded
    lineBounded := pick "py_tty" "ut_line" base.lineBounded
    hostBounded := pick "py_hostname" "ut_host" base.hostBounded }

/-! ## §17 RootFsDeviceFinder -/

structure FCfg where
  /-- `f.readlines()[K:]` -/
  partSkip : Nat
  /-- `if len(fields) < K: continue` -/
  partMinFields : Nat
  /-- indices into `line.split()` of major, minor, name -/
  partMajorIdx : Nat
  partMinorIdx : Nat
  partNameIdx : Nat
  /-- `f"/dev/{name}"` (all three strategies use the same prefix: one entry per strategy) -/
  devPrefixes : List Bytes
  /-- `line.startswith(K)` and `rpartition(K)` of ask_sys_dev_block -/
  ueventKeys : List Bytes
  /-- strategies in the order `find()` tries them -/
  order : List String
  /-- `if path is not None and os.path.exists(path)` -/
  existsCheck : Bool
  /-- the major/minor each comparison uses: ("major", "minor") as (self.major, self.minor) -/
  needleOrder : List String

def FCfg.devPrefix (c : FCfg) (k : Nat) : Bytes := c.devPrefixes.getD k []

inductive Ask
  | found (path : Bytes)
  | nothing                -- the method returns None (or raised OSError, which `find` swallows)
  | indexError             -- `fields[k]` out of range (not an OSError: propagates out of `find`)
  deriving DecidableEq, Repr

/-- `s.isdigit()` then `int(s)`, on ASCII -/
def pyDigitsInt (s : Bytes) : Option Nat :=
  if s ≠ [] ∧ s.all isDigit = true then parseDec? s else none

/-- `(major, minor)` as `needleOrder` says the code compares them -/
def FCfg.needle (c : FCfg) (M m : Nat) : Nat × Nat :=
  if c.needleOrder = ["major", "minor"] then (M, m) else (m, M)

/-- one line of /proc/partitions after the header -/
def partLine (c : FCfg) (M m : Nat) (line : Bytes) : Ask :=
  let fields := splitWs line
  if fields.length < c.partMinFields then .nothing
  else
    match fields[c.partMajorIdx]?, fields[c.partMinorIdx]?, fields[c.partNameIdx]? with
    | some fa, some fb, some name =>
      if pyDigitsInt fa = some (c.needle M m).1 ∧ pyDigitsInt fb = some (c.needle M m).2 ∧ name ≠ []
      then .found (c.devPrefix 0 ++ name) else .nothing
    | _, _, _ => .indexError

/-- first line that answers -/
def firstAsk (f : Bytes → Ask) : List Bytes → Ask
  | [] => .nothing
  | l :: ls => match f l with
    | .nothing => firstAsk f ls
    | a => a

def askPartLines (c : FCfg) (M m : Nat) (lines : List Bytes) : Ask :=
  firstAsk (partLine c M m) (lines.drop c.partSkip)

def askProcPartitions (c : FCfg) (M m : Nat) (text : Bytes) : Ask := askPartLines c M m (linesOf text)

/-- `s.rpartition(nd)[2]` when `nd` occurs in `s`: what follows its LAST occurrence -/
def afterLast (nd : Bytes) : Bytes → Option Bytes
  | [] => if nd = [] then some [] else none
  | c :: cs =>
    match afterLast nd cs with
    | some r => some r
    | none => if startsWith nd (c :: cs) then some ((c :: cs).drop nd.length) else none

def ueventLine (c : FCfg) (line : Bytes) : Ask :=
  let key := c.ueventKeys.getD 0 []
  if startsWith key line then
    let s := stripWs line
    let name := (afterLast (c.ueventKeys.getD 1 []) s).getD s
    if name ≠ [] then .found (c.devPrefix 1 ++ name) else .nothing
  else .nothing

def askUeventLines (c : FCfg) (lines : List Bytes) : Ask := firstAsk (ueventLine c) lines

def askSysDevBlock (c : FCfg) (text : Bytes) : Ask := askUeventLines c (linesOf text)

/-- `"{major}:{minor}"` -/
def needleText (a b : Nat) : Bytes := renderDec a ++ [58] ++ renderDec b

/-- `/sys/class/block/*/dev` in glob order: (directory name, content; `none` = FileNotFoundError) -/
def askSysClassBlock (c : FCfg) (M m : Nat) : List (Bytes × Option Bytes) → Ask
  | [] => .nothing
  | (name, content) :: rest =>
    match content with
    | none => askSysClassBlock c M m rest
    | some d =>
      if stripWs d = needleText (c.needle M m).1 (c.needle M m).2 then .found (c.devPrefix 2 ++ name)
      else askSysClassBlock c M m rest

/-- what the finder can see -/
structure RootSys where
  major : Nat
  minor : Nat
  /-- /proc/partitions (`none`: open fails with OSError) -/
  partitions : Option Bytes
  /-- /sys/dev/block/<a>:<b>/uevent -/
  uevent : Nat → Nat → Option Bytes
  classDevs : List (Bytes × Option Bytes)
  pathExists : Bytes → Bool

def runStrategy (c : FCfg) (s : RootSys) (name : String) : Ask :=
  if name == "ask_proc_partitions" then
    (match s.partitions with | none => .nothing | some t => askProcPartitions c s.major s.minor t)
  else if name == "ask_sys_dev_block" then
    (match s.uevent (c.needle s.major s.minor).1 (c.needle s.major s.minor).2 with
     | none => .nothing | some t => askSysDevBlock c t)
  else if name == "ask_sys_class_block" then askSysClassBlock c s.major s.minor s.classDevs
  else .nothing

/-- the `if path is None: try: path = self.ask_…()` chain -/
def findChain (c : FCfg) (s : RootSys) : List String → Ask
  | [] => .nothing
  | n :: ns => match runStrategy c s n with
    | .nothing => findChain c s ns
    | a => a

/-- `RootFsDeviceFinder().find()`: `none` = returns None -/
def rootFind (c : FCfg) (s : RootSys) : Ask :=
  match findChain c s c.order with
  | .found p => if !c.existsCheck || s.pathExists p then .found p else .nothing
  | a => a

/-! ## §18 net_if_stats() -/

/-- what the kernel answers for one NIC: each ioctl either fails with an errno or succeeds -/
structure NicAns where
  mtu : Except Nat Nat
  /-- SIOCGIFFLAGS: the `short` flags word -/
  flags : Except Nat Nat
  /-- SIOCETHTOOL: (duplex byte, speed_hi, speed) -/
  eth : Except Nat (Nat × Nat × Nat)

structure TCfg where
  /-- errno values for which net_if_duplex_speed answers (DUPLEX_UNKNOWN, 0) instead of raising -/
  ethTolerated : List Nat
  /-- value of DUPLEX_UNKNOWN the C code answers then -/
  duplexUnknownC : Nat
  /-- `duplex_map`: cext.DUPLEX_* value ↦ NicDuplex enum value -/
  duplexMap : List (Nat × Nat)
  /-- the errno for which a NIC is skipped (errno.ENODEV) -/
  skipErrno : Nat
  /-- the calls inside the `try`, in order -/
  callOrder : List String
  /-- separator of `','.join(flags)` -/
  flagSep : Bytes
  isupFlag : String

structure NicRow where
  isup : Bool
  duplex : Nat
  speed : Int
  mtu : Nat
  /-- the flag names; the Python value is `','.join(flags)` (`NicRow.flagsText`) -/
  flags : List String
  deriving DecidableEq, Repr

/-- the `flags` field as Python builds it: `output_flags = ','.join(flags)` -/
def NicRow.flagsText (t : TCfg) (r : NicRow) : Bytes := joinWith t.flagSep (r.flags.map ofString)

inductive StatsOut
  | rows (rs : List (Bytes × NicRow))
  | osError (errno : Nat)
  | keyError (duplex : Nat)
  | ub
  deriving DecidableEq, Repr

/-- `cext.net_if_duplex_speed(name)` -/
def duplexSpeedC (t : TCfg) (e : ECfg) (a : Except Nat (Nat × Nat × Nat)) : Except Nat (Option (Nat × Int)) :=
  match a with
  | .error code => if t.ethTolerated.contains code then .ok (some (t.duplexUnknownC, 0)) else .error code
  | .ok (d, hi, lo) =>
    match ethSpeed e hi lo with
    | .ub => .ok none
    | .speed v => .ok (some (d, v))

inductive NicOut
  | row (r : NicRow)
  | skip
  | osError (errno : Nat)
  | keyError (duplex : Nat)
  | ub
  deriving DecidableEq, Repr

/-- the body of the `for name in names` loop; `table`/`mask` = §9 -/
def nicStats (t : TCfg) (e : ECfg) (table : List (Nat × String)) (mask : Nat) (a : NicAns) : NicOut :=
  let fail (code : Nat) : NicOut := if code = t.skipErrno then .skip else .osError code
  -- calls in source order: the first failure decides
  let step (call : String) : Option Nat :=
    if call == "net_if_mtu" then (match a.mtu with | .error c => some c | .ok _ => none)
    else if call == "net_if_flags" then (match a.flags with | .error c => some c | .ok _ => none)
    else if call == "net_if_duplex_speed" then (match duplexSpeedC t e a.eth with | .error c => some c | .ok _ => none)
    else none
  match t.callOrder.findSome? step with
  | some code => fail code
  | none =>
    match a.mtu, a.flags, duplexSpeedC t e a.eth with
    | .ok mtu, .ok fl, .ok (some (d, sp)) =>
      let names := iffNames table mask fl
      (match t.duplexMap.lookup d with
       | none => .keyError d
       | some dv => .row ⟨names.contains t.isupFlag, dv, sp, mtu, names⟩)
    | .ok _, .ok _, .ok none => .ub
    | _, _, _ => .skip     -- unreachable when `callOrder` names all three calls

def netIfStatsGo (t : TCfg) (e : ECfg) (table : List (Nat × String)) (mask : Nat) :
    List (Bytes × NicAns) → List (Bytes × NicRow) → StatsOut
  | [], acc => .rows acc.reverse
  | (n, a) :: rest, acc =>
    match nicStats t e table mask a with
    | .row r => netIfStatsGo t e table mask rest ((n, r) :: acc)
    | .skip => netIfStatsGo t e table mask rest acc
    | .osError c => .osError c
    | .keyError d => .keyError d
    | .ub => .ub

/-- `_pslinux.net_if_stats()` over the (distinct) names of /proc/net/dev -/
def netIfStats (t : TCfg) (e : ECfg) (table : List (Nat × String)) (mask : Nat) (nics : List (Bytes × NicAns)) : StatsOut :=
  netIfStatsGo t e table mask nics []

/-! ## §19 net_if_addrs() front end (psutil/__init__.py) -/

structure AddrRow where
  name : Bytes
  fam : Int
  addr : Val
  mask : Val
  bcast : Val
  ptp : Val
  deriving DecidableEq, Repr

structure WCfg where
  /-- `_psplatform.AF_LINK` (= socket.AF_PACKET on Linux) -/
  afLink : Int
  /-- separator counted and appended (POSIX: ':') -/
  sep : Nat
  /-- `while addr.count(sep) < K` -/
  minSeps : Nat
  /-- text appended after the separator -/
  padText : Bytes
  /-- `rawlist.sort(key=lambda x: x[K])` -/
  sortKeyIdx : Nat

/-- `while addr.count(sep) < K: addr += sep + pad` (fuel = K: each round adds one separator) -/
def padMac (w : WCfg) : Nat → Bytes → Bytes
  | 0, a => a
  | f + 1, a => if a.count w.sep < w.minSeps then padMac w f (a ++ [w.sep] ++ w.padText) else a

/-- insertion into a list kept sorted by family, after every element with the same family:
    `list.sort(key=…)` is stable -/
def insertByFam (r : AddrRow) : List AddrRow → List AddrRow
  | [] => [r]
  | x :: xs => if r.fam < x.fam then r :: x :: xs else x :: insertByFam r xs

def sortByFam (rs : List AddrRow) : List AddrRow := rs.foldl (fun acc r => insertByFam r acc) []

/-- `ret[name].append(nt)` on an insertion-ordered dict -/
def dictAppend (d : List (Bytes × List AddrRow)) (r : AddrRow) : List (Bytes × List AddrRow) :=
  match d with
  | [] => [(r.name, [r])]
  | (n, l) :: rest => if n = r.name then (n, l ++ [r]) :: rest else (n, l) :: dictAppend rest r

def frontRow (w : WCfg) (r : AddrRow) : AddrRow :=
  if r.fam = w.afLink then
    (match r.addr with
     | .str a => { r with addr := .str (padMac w w.minSeps a) }
     | _ => r)        -- the platform layer never emits a row without an address (§11 `ifRow`)
  else r

def rowOfVals (vs : List Val) : Option AddrRow :=
  match vs with
  | [.str n, .int f, a, m, b, p] => some ⟨n, f, a, m, b, p⟩
  | _ => none

/-- `psutil.net_if_addrs()` given the rows of the platform layer (§11) -/
def netIfAddrs (w : WCfg) (raw : List AddrRow) : List (Bytes × List AddrRow) :=
  ((if w.sortKeyIdx = 1 then sortByFam raw else raw).map (frontRow w)).foldl dictAppend []

end Psutil.C17
