/-
  Model/C04Fine.lean — ONE thread running `psutil.process_iter()` at STATEMENT granularity against an
  arbitrary environment (round 2).

  `Model/C04.lean` makes a whole `next()` atomic: the table may change right after the listing and at
  the beginning of each later call, another generator may run between two calls. Two real threads
  interleave more finely, and the kernel does not wait for a `next()` to begin. Here the thread is
  a function of what it READS from the shared world, statement by statement —

      pmap = _pmap.copy()            → `FReads.copy`       (whatever `_pmap` held at that instant)
      a = set(pids())                → `FReads.listing`    (the table at THAT instant)
      while _pids_reused: pop()      → `FReads.popped`     (the PIDs the shared set handed to THIS thread),
                                       `FReads.popErr`     (a `pop()` found the set emptied by another thread)
      proc = add(pid)                → `FTouch.create`     (start time `Process(pid)` reads, or NoSuchProcess)
      proc.info = proc.as_dict(...)  → `FTouch.fill`       (does `as_dict` still find the process?)
      finally: _pmap = pmap          → `FRes.published`

  — everything else (`b`, `new_pids`, `gone_pids`, `remove`, `sorted`, the private `pmap`) is local
  to the thread. Between two reads the environment — any number of other threads at any granularity,
  `cache_clear()`, `is_running()`, the kernel — may do anything: the theorems quantify over ALL
  values of the reads, hence over all schedules. The local computations are the very functions the
  atomic model uses (`removeAll`, `mergeTodo`, `PMap.set/remove`).

  An object the thread creates itself for PID `p` is written `base + p`, `base` being a number above
  every reference of the copy (one fresh object per PID: `add` is called once per to-do entry).
-/
import PsutilModel.Model.C04
namespace Psutil.C04

structure FReads where
  copy : PMap
  listing : List Nat
  popped : List Nat
  popErr : Bool
  deriving DecidableEq, Repr

structure FTouch where
  create : Option Nat
  fill : Bool
  deriving DecidableEq, Repr

structure FRes where
  todo : List (Nat × Option Ref)     -- `ls` (empty when the prologue raised)
  yields : List (Nat × Ref)          -- (PID, object) in the order yielded
  published : Option PMap            -- what `finally: _pmap = pmap` stores; `none` = raised before `try:`
  exc : Option String
  deriving DecidableEq, Repr

/-- everything before `try:`, on the values read (same expressions, same order as `prologue`) -/
def finePrologue (cfg : Cfg) (rd : FReads) : PMap × List (Nat × Option Ref) :=
  let a := sortNat rd.listing
  if cfg.drainFirst then
    let pm1 := removeAll rd.copy rd.popped
    let b := pm1.keys
    let new := a.filter fun p => !b.contains p
    let gone := b.filter fun p => !a.contains p
    let pm2 := removeAll pm1 gone
    (pm2, mergeTodo pm2 new)
  else
    let b := rd.copy.keys
    let new := a.filter fun p => !b.contains p
    let gone := b.filter fun p => !a.contains p
    let pm1 := removeAll rd.copy gone
    let pm2 := removeAll pm1 rd.popped
    (pm2, mergeTodo pm2 new)

/-- `proc = add(pid)` for a new PID, a cached object as it is -/
def fineAdd (base : Nat) (pm : PMap) (pid : Nat) (t : FTouch) : Option Ref → Option (PMap × Ref)
  | some r => some (pm, r)
  | none =>
    match t.create with
    | none => none
    | some _ => some (pm.set pid (base + pid), base + pid)

/-- the loop: one touch per to-do entry reached; the touches running out = the consumer closed the
    generator (or dropped it) while it was suspended -/
def fineLoop (invalid hasAttrs : Bool) (base : Nat) :
    PMap → List (Nat × Option Ref) → List FTouch → List (Nat × Ref) → List (Nat × Ref) × PMap × Option String
  | pm, [], _, ys => (ys, pm, none)
  | pm, _ :: _, [], ys => (ys, pm, none)
  | pm, (pid, oref) :: rest, t :: ts, ys =>
    match fineAdd base pm pid t oref with
    | none => fineLoop invalid hasAttrs base (pm.remove pid) rest ts ys
    | some (pm1, r) =>
      if hasAttrs && invalid then (ys, pm1, some "ValueError")
      else if hasAttrs && !t.fill then fineLoop invalid hasAttrs base (pm1.remove pid) rest ts ys
      else fineLoop invalid hasAttrs base pm1 rest ts (ys ++ [(pid, r)])

/-- the whole call as this thread lives it -/
def fineRun (cfg : Cfg) (rd : FReads) (invalid hasAttrs : Bool) (base : Nat) (ts : List FTouch) : FRes :=
  if rd.listing.isEmpty then ⟨[], [], none, some "IndexError"⟩            -- `ret[0]` in `pids()`
  else if rd.popErr && !cfg.popGuarded then ⟨[], [], none, some "KeyError"⟩
  else
    let (pm, todo) := finePrologue cfg rd
    let (ys, pm', e) := fineLoop invalid hasAttrs base pm todo ts []
    ⟨todo, ys, some pm', e⟩

end Psutil.C04
