/-
  Model/C13Re.lean — a small model of Python's `re` (bytes patterns), restricted to what the three
  patterns of `_pslinux.Process._parse_smaps` use:

      br"\nPrivate.*:\s+(\d+)"      br"\nPss\:\s+(\d+)"      br"\nSwap\:\s+(\d+)"

  * literals (also `\n` and an escaped punctuation character such as `\:`),
  * the classes `\s` = [ \t\n\r\f\v], `\d` = [0-9] (bytes patterns: ASCII only) and `.` = any byte
    but `\n` (no DOTALL), each under a GREEDY `*` or `+`,
  * exactly one capture group, of the shape `(\d+)`.

  `compileRe` turns the pattern TEXT (a translator fact) into a list of atoms, or `none` for
  anything outside this fragment. `matchSeq` is the backtracking matcher (greedy quantifiers try
  the longest repetition first and give characters back one at a time, as sre does), `findall`
  is `pattern.findall(data)`: leftmost matches, scanning resumes at the end of a match, the
  captured group of every match is returned. Nothing here knows about lines.
-/
import PsutilModel.Base.Bytes
import PsutilModel.Base.Dec
namespace Psutil.C13.Re

inductive Cls
  | ws | digit | dot
  deriving DecidableEq, Repr

def Cls.test : Cls → Nat → Bool
  | .ws, c => isWs c
  | .digit, c => isDigit c
  | .dot, c => c != 10

inductive Atom
  | lit (c : Nat)
  | star (k : Cls)
  | plus (k : Cls)
  | cap (k : Cls)          -- `(k+)`, the captured group
  deriving DecidableEq, Repr

def lits (b : Bytes) : List Atom := b.map Atom.lit

def isAlnum (c : Nat) : Bool := isDigit c || (65 ≤ c && c ≤ 90) || (97 ≤ c && c ≤ 122)

/-- characters that mean something to `re` when unescaped: `( ) * + . ? [ \ ] ^ $ { | }` -/
def isMeta (c : Nat) : Bool := [40, 41, 42, 43, 46, 63, 91, 92, 93, 94, 36, 123, 124, 125].contains c

/-- the pattern text → atoms; `none`: outside the modelled fragment -/
def compileRe : Bytes → Option (List Atom)
  | [] => some []
  | 40 :: 92 :: 100 :: 43 :: 41 :: r => (compileRe r).map (Atom.cap .digit :: ·)     -- (\d+)
  | 92 :: 115 :: 43 :: r => (compileRe r).map (Atom.plus .ws :: ·)                   -- \s+
  | 92 :: 115 :: 42 :: r => (compileRe r).map (Atom.star .ws :: ·)                   -- \s*
  | 92 :: 100 :: 43 :: r => (compileRe r).map (Atom.plus .digit :: ·)                -- \d+
  | 92 :: 100 :: 42 :: r => (compileRe r).map (Atom.star .digit :: ·)                -- \d*
  | 46 :: 43 :: r => (compileRe r).map (Atom.plus .dot :: ·)                         -- .+
  | 46 :: 42 :: r => (compileRe r).map (Atom.star .dot :: ·)                         -- .*
  | 92 :: 110 :: r => (compileRe r).map (Atom.lit 10 :: ·)                           -- \n
  | 92 :: c :: r => if isAlnum c then none else (compileRe r).map (Atom.lit c :: ·)  -- \: and the like
  | c :: r => if isMeta c then none else (compileRe r).map (Atom.lit c :: ·)

/-- number of capture groups -/
def groups : List Atom → Nat
  | [] => 0
  | .cap _ :: p => groups p + 1
  | _ :: p => groups p

/-- what the model uses: a pattern of the fragment with exactly one group (so that `findall`
    returns the group); anything else becomes the empty pattern, which `cfg_good` rejects -/
def compileOne (src : Bytes) : List Atom :=
  match compileRe src with
  | some p => if groups p = 1 then p else []
  | none => []

/-- a match: (captured group, text after the match) -/
abbrev M := Option (Bytes × Bytes)

/-- greedy `C*` followed by the rest of the pattern `k`: one more repetition first, then give it back -/
def starK (t : Nat → Bool) (k : Bytes → M) : Bytes → M
  | [] => k []
  | c :: cs => if t c then (starK t k cs).orElse (fun _ => k (c :: cs)) else k (c :: cs)

/-- greedy `C+` -/
def plusK (t : Nat → Bool) (k : Bytes → M) : Bytes → M
  | [] => none
  | c :: cs => if t c then starK t k cs else none

/-- the repetitions of a captured `(C+)` after its first character; `acc`: what the group has
    consumed so far, reversed -/
def capStarK (t : Nat → Bool) (k : Bytes → M) : Bytes → Bytes → M
  | acc, [] => (k []).map fun r => (acc.reverse, r.2)
  | acc, c :: cs =>
    if t c then (capStarK t k (c :: acc) cs).orElse (fun _ => (k (c :: cs)).map fun r => (acc.reverse, r.2))
    else (k (c :: cs)).map fun r => (acc.reverse, r.2)

def capPlusK (t : Nat → Bool) (k : Bytes → M) : Bytes → M
  | [] => none
  | c :: cs => if t c then capStarK t k [c] cs else none

/-- match the atoms at the START of `s` -/
def matchSeq : List Atom → Bytes → M
  | [], s => some ([], s)
  | .lit c :: p, s =>
    match s with
    | x :: xs => if x = c then matchSeq p xs else none
    | [] => none
  | .star k :: p, s => starK k.test (matchSeq p) s
  | .plus k :: p, s => plusK k.test (matchSeq p) s
  | .cap k :: p, s => capPlusK k.test (matchSeq p) s

/-- `findall`: `skip` = how many bytes of the current position still belong to the previous match -/
def findallGo (p : List Atom) : Nat → Bytes → List Bytes
  | _, [] => []
  | skip + 1, _ :: cs => findallGo p skip cs
  | 0, c :: cs =>
    match matchSeq p (c :: cs) with
    | some (g, rest) => g :: findallGo p ((c :: cs).length - rest.length - 1) cs
    | none => findallGo p 0 cs

def findall (p : List Atom) (s : Bytes) : List Bytes := findallGo p 0 s

/-- `sum(map(int, …))`; `none` = `int()` raises ValueError (a group that is not a digit string) -/
def sumInts : List Bytes → Option Nat
  | [] => some 0
  | d :: ds =>
    match parseDec? d, sumInts ds with
    | some v, some s => some (v + s)
    | _, _ => none

end Psutil.C13.Re
