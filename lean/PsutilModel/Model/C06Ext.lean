/-
  Model/C06Ext.lean — the parts of C06 that sit AROUND the record parsers:

    _psposix.get_terminal_map (+ its @memoize) and the lookup in Process.terminal(),
    _pslinux.boot_time (the `btime` line of /proc/stat), the BOOT_TIME cache and
    the way Process.create_time() chooses between the cache and a fresh read (`BootSrc`),
    Process.threads(): `os.listdir` order → `thread_ids.sort()` (string sort), threads that
    vanish during the scan (`hit_enoent`) and the final `_raise_if_not_alive()`.

  Same conventions as Model/C06.lean; every literal the translator re-derives is a field of
  `XCfg`. Import-free (Base + Model/C06 only).
-/
import PsutilModel.Model.C06
namespace Psutil.C06

/-- HOW `Process.create_time()` obtains the boot time it adds (translator fact `createBoot`) -/
inductive BootSrc
  /-- `bt = BOOT_TIME or boot_time()`: truthiness — a cached 0.0 counts as "nothing cached" and /proc/stat is re-read -/
  | or
  /-- `bt = BOOT_TIME if BOOT_TIME is not None else boot_time()`: whatever is cached is used, 0.0 included -/
  | isNotNone
  /-- `bt = boot_time()`: the cache is never consulted -/
  | fresh
  /-- a shape the translator does not know (`other:<text>`); the model then re-reads on every call, and the
      obligation `xcfg_good` fails whatever the model does -/
  | other
  deriving DecidableEq, Repr

/-- facts about the surrounding code, extracted by the translator on every run -/
structure XCfg where
  /-- the patterns of the `glob.glob(..) + glob.glob(..)` listing in get_terminal_map -/
  tmapGlobs : List String
  /-- `except FileNotFoundError: pass` around `os.stat(name)` -/
  tmapSkipsVanished : Bool
  /-- only character devices enter the map (`stat.S_ISCHR(st_mode)` test); false = any file's `st_rdev` -/
  tmapChecksChr : Bool
  /-- get_terminal_map is decorated with `@memoize` -/
  tmapMemoized : Bool
  /-- boot_time(): `line.startswith(KEY)` -/
  btimeKey : Bytes
  /-- boot_time(): index into `line.strip().split()` -/
  btimeIdx : Nat
  /-- create_time(): which of the three ways of choosing between BOOT_TIME and `boot_time()` -/
  createBoot : BootSrc
  /-- threads(): `thread_ids.sort()` before the loop -/
  threadsSorts : Bool
  /-- threads(): `except (FileNotFoundError, ProcessLookupError): hit_enoent = True; continue` -/
  threadsSkipsVanished : Bool
  /-- threads(): `if hit_enoent: self._raise_if_not_alive()` -/
  threadsChecksAlive : Bool
  /-- threads(): `ProcessLookupError` (ESRCH: the thread ended between `open` and `read`, or the
      open itself raced) is in the `except (...)` tuple next to FileNotFoundError -/
  threadsSkipsEsrch : Bool
  /-- threads(): the flag starts as `hit_enoent = False` before the loop -/
  threadsHitStartsFalse : Bool
  /-- psutil/__init__.py Process.name(): `len(bname) >= N` — from N bytes on the kernel name counts as truncated -/
  nameExtendMin : Nat
  /-- Process.name(): `name = extended_name` sits under `if os.fsencode(extended_name).startswith(bname):` -/
  nameExtendChecksPrefix : Bool

/-! ## `get_terminal_map()` and `terminal()` -/

/-- outcome of `os.stat(name)` as far as get_terminal_map looks at it -/
inductive StatOut
  | notFound                          -- FileNotFoundError: the entry vanished / dangling symlink
  | node (isChr : Bool) (rdev : Nat)  -- S_ISCHR(st_mode), st_rdev
  deriving DecidableEq, Repr

/-- the dict `ret`; the most recent assignment is at the head, so `lookup` finds the LAST
    assignment to a key, as `ret[k]` does (iteration order of the dict is not observable here) -/
abbrev TMap := List (Nat × Bytes)

/-- the loop over `ls`; `FileNotFoundError` escaping the function reaches the user of
    `terminal()` as NoSuchProcess (wrap_exceptions) -/
def getTerminalMap (x : XCfg) : List (Bytes × StatOut) → TMap → Res TMap
  | [], acc => .ok acc
  | (_, .notFound) :: rest, acc =>
    if x.tmapSkipsVanished then getTerminalMap x rest acc else .error .noSuchProcess
  | (name, .node chr rdev) :: rest, acc =>
    if x.tmapChecksChr && !chr then getTerminalMap x rest acc
    else getTerminalMap x rest ((rdev, name) :: acc)

def tmapToInt (m : TMap) : List (Int × Bytes) := m.map fun p => ((p.1 : Int), p.2)

/-- One `Process.terminal()` call. `cache` = the memoised return value of get_terminal_map (kept
    for the life of the interpreter); `listing` = what `glob('/dev/tty*') + glob('/dev/pts/*')`
    and `os.stat` WOULD give now. Order as in the Python: tty_nr first, then the map. -/
def terminalCall (cfg : Cfg) (x : XCfg) (cache : Option TMap) (listing : List (Bytes × StatOut))
    (data : Bytes) : Res (Option Bytes) × Option TMap :=
  match parseStat cfg data >>= fun v => pyInt v.ttynr with
  | .error e => (.error e, cache)
  | .ok nr =>
    match (if x.tmapMemoized then cache else none) with
    | some m => (.ok ((tmapToInt m).lookup nr), cache)
    | none =>
      match getTerminalMap x listing [] with
      | .error e => (.error e, cache)
      | .ok m => (.ok ((tmapToInt m).lookup nr), if x.tmapMemoized then some m else cache)

/-! ## the public `Process.name()` (psutil/__init__.py) on top of the platform `name()` -/

/-- `os.path.basename(p)` = `p[p.rfind('/') + 1:]` -/
def pyBasename (p : Bytes) : Bytes := pyFrom p (pyRfind 47 p + 1)

/-- The front end's `name()`: `procName` = what `_pslinux.Process.name()` returned (the comm), `arg0` =
    `cmdline()[0]` when the cmdline list is non-empty (the parsing of the cmdline file is C12's, not
    modelled here; AccessDenied/ZombieProcess from `cmdline()` behave like an empty list). -/
def publicName (x : XCfg) (procName : Bytes) (arg0 : Option Bytes) : Bytes :=
  if x.nameExtendMin ≤ procName.length then
    match arg0 with
    | some a =>
      if !x.nameExtendChecksPrefix || procName.isPrefixOf (pyBasename a) then pyBasename a else procName
    | none => procName
  else procName

/-! ## `boot_time()` and `create_time()` -/

/-- `for line in f: if line.startswith(KEY): return float(line.strip().split()[IDX])`, no such
    line → RuntimeError. Lines are given without their terminator (`strip()` removes it and
    `startswith` cannot see it). -/
def bootTimeLines (x : XCfg) : List Bytes → Res Rat
  | [] => .error .runtimeError
  | l :: ls =>
    if startsWith x.btimeKey l then
      getField (splitWs (stripWs l)) x.btimeIdx >>= pyFloat
    else bootTimeLines x ls

/-- `boot_time()` over the text of /proc/stat. (`splitOn 10` gives one more, empty, piece than
    file iteration when the text ends in `\n`; an empty piece starts with no key.) -/
def bootTime (x : XCfg) (procStat : Bytes) : Res Rat := bootTimeLines x (splitOn 10 procStat)

/-- `boot_time()` as a call: parses, and stores the value in BOOT_TIME only if that is still None -/
def bootTimeCall (x : XCfg) (cache : Option Rat) (procStat : Bytes) : Res Rat × Option Rat :=
  match bootTime x procStat with
  | .ok b => (.ok b, match cache with | none => some b | some c => some c)
  | .error e => (.error e, cache)

/-- the cached boot time `create_time()` is willing to use instead of calling `boot_time()`:
    `isNotNone` — whatever is pinned, 0 included; `or` — what is pinned unless it is 0 (falsy); otherwise nothing -/
def cachedBoot (x : XCfg) (cache : Option Rat) : Option Rat :=
  match x.createBoot, cache with
  | .isNotNone, c => c
  | .or, some b => if b ≠ 0 then some b else none
  | _, _ => none

/-- `Process.create_time()` (platform layer) from the text of both files.
    `ctime = float(parse()['create_time'])` first; then `bt` = the cached BOOT_TIME if the code's test accepts
    it (`cachedBoot`), else `boot_time()` — which reads /proc/stat and pins BOOT_TIME if nothing is pinned yet;
    the division by CLOCK_TICKS comes last, after BOOT_TIME was pinned. -/
def createTimeCall (cfg : Cfg) (x : XCfg) (tck : Nat) (cache : Option Rat) (procStat pidStat : Bytes) :
    Res Rat × Option Rat :=
  match parseStat cfg pidStat >>= fun v => pyFloat v.ctime with
  | .error e => (.error e, cache)
  | .ok ctime =>
    match cachedBoot x cache with
    | some b => ((pyDiv ctime tck).map (· + b), cache)
    | none =>
      match bootTimeCall x cache procStat with
      | (.ok bt, c') => ((pyDiv ctime tck).map (· + bt), c')
      | (.error e, c') => (.error e, c')

/-! ## `threads()`: listing order, vanished threads -/

/-- `a <= b` for Python `str`/`bytes` made of ASCII: lexicographic by code point, a proper prefix first -/
def lexLE : Bytes → Bytes → Bool
  | [], _ => true
  | _ :: _, [] => false
  | a :: as, b :: bs => a < b || (a == b && lexLE as bs)

/-- the names in /proc/<pid>/task are the decimal tids; `thread_ids.sort()` sorts them AS STRINGS -/
def tidLE (a b : Nat) : Bool := lexLE (renderDec a) (renderDec b)

def sortTids (x : XCfg) (listing : List Nat) : List Nat :=
  if x.threadsSorts then listing.mergeSort tidLE else listing

/-- what opening `/proc/<pid>/task/<tid>/stat` gives at the moment the loop reaches it -/
inductive TaskFile
  | vanished                -- FileNotFoundError (ENOENT): the thread's directory is gone when its stat file is opened
  | esrch                   -- ProcessLookupError (ESRCH) from `open` or from `f.read()`: the thread ended meanwhile
  | content (b : Bytes)
  deriving DecidableEq, Repr

/-- the loop: the list built so far and `hit_enoent` -/
def threadsScan (cfg : Cfg) (x : XCfg) (tck : Nat) : List (Nat × TaskFile) → Res (List ThreadOut × Bool)
  | [] => .ok ([], false)
  | (_, .vanished) :: rest =>
    if x.threadsSkipsVanished then
      (threadsScan cfg x tck rest).map fun p => (p.1, true)
    else .error .noSuchProcess
  | (_, .esrch) :: rest =>
    if x.threadsSkipsEsrch then
      (threadsScan cfg x tck rest).map fun p => (p.1, true)
    else .error .noSuchProcess
  | (tid, .content c) :: rest => do
    let t ← threadOne cfg tck tid c
    let p ← threadsScan cfg x tck rest
    pure (t :: p.1, p.2)

/-- `threads()`: `listing` = `os.listdir(task)` in whatever order the OS gives, `files tid` = what
    reading that thread's stat file gives, `aliveAtEnd` = `/proc/<pid>` still exists when
    `_raise_if_not_alive()` looks (FileNotFoundError there → NoSuchProcess); it looks only when
    the flag is set, and the flag starts as False (fact `threadsHitStartsFalse`). -/
def threadsCall (cfg : Cfg) (x : XCfg) (tck : Nat) (listing : List Nat) (files : Nat → TaskFile)
    (aliveAtEnd : Bool) : Res (List ThreadOut) :=
  match threadsScan cfg x tck ((sortTids x listing).map fun t => (t, files t)) with
  | .error e => .error e
  | .ok (ts, hit) =>
    if (hit || !x.threadsHitStartsFalse) && x.threadsChecksAlive && !aliveAtEnd then .error .noSuchProcess
    else .ok ts

end Psutil.C06
