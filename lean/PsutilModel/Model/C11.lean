/-
  Model/C11.lean — transcription of `_pslinux.NetConnections` (decode_address, process_inet,
  process_unix, get_proc_inodes, get_all_inodes, retrieve), `_pslinux.net_connections`,
  `_pslinux.Process.net_connections` and the front-end kind validation
  `psutil._check_conn_kind`. Import-free (Base only).

  Conventions
  * text read from procfs is a byte string (`PYTHONUTF8=1` + surrogateescape = identity on
    bytes); `str.split()` is `Base.splitWs` (ASCII whitespace; 0x1c–0x1f and the non-ASCII
    Unicode spaces are outside the claimed domain);
  * a packed IP address is the 4/16 bytes handed to `socket.inet_ntop` (whose text
    formatting is trusted libc);
  * every Python exception that the code can raise on the modelled path is an `Exc`
    constructor — nothing is totalised away.
-/
import PsutilModel.Base.Bytes
import PsutilModel.Base.Dec
namespace Psutil.C11

inductive Exc
  | valueError      -- ValueError (also binascii.Error / UnicodeEncodeError, its subclasses)
  | runtimeError    -- "error while parsing …; malformed line"
  | keyError        -- TCP_STATUSES[status] / tmap[kind]
  | indexError
  | structError     -- struct.unpack('<4I', …) on a string that is not 16 bytes long
  | fileNotFound    -- open()/listdir() of a missing file (FileNotFoundError, ENOENT)
  | ipv6Unsupported -- `_Ipv6UnsupportedError` (internal: caught by process_inet, never leaves it)
  | processLookup   -- ProcessLookupError (ESRCH)
  | permissionError -- PermissionError (EACCES, EPERM)
  | osError (errno : Nat)   -- any other OSError, by errno number
  | accessDenied    -- psutil.AccessDenied (wrap_exceptions: PermissionError)
  | noSuchProcess   -- psutil.NoSuchProcess (wrap_exceptions: ProcessLookupError)
  deriving DecidableEq, Repr

/-- `laddr` / `raddr` of a returned tuple -/
inductive Addr
  | empty                                   -- `()`
  | ip (packed : List Nat) (port : Nat)     -- `addr(inet_ntop(packed), port)`
  | path (p : Bytes)                        -- UNIX: a string (`''` = `path []`)
  deriving DecidableEq, Repr

/-- one returned `sconn` / `pconn` (a `pconn` has no pid field: `pid = none`) -/
structure Row where
  fd : Int
  family : Nat
  type : Nat
  laddr : Addr
  raddr : Addr
  status : String
  pid : Option Nat
  deriving DecidableEq, Repr

/-- one entry of `NetConnections.tmap[kind]`: (file base name, family, type or None) -/
abbrev TEntry := String × Nat × Option Nat

/-- how `process_inet` / `process_unix` get at the holders of `inode` in the dict `inodes` that `retrieve` hands to
    every one of them (translator facts `inetLookup` / `unixLookup`) -/
inductive Lookup
  | guarded      -- `if inode in inodes: … inodes[inode] … else: <default>`: the dict is never touched
  | subscript    -- `inodes[inode]` unconditionally: a `defaultdict(list)` INSERTS the missing key (with `[]`), a
                 -- plain `dict` raises KeyError
  | get          -- `inodes.get(inode, …)`: the dict is never touched
  | setdefault   -- `inodes.setdefault(inode, [])`: the missing key is inserted into any dict
  | unknown      -- a shape the translator cannot name (modelled like `guarded`; `Cfg.LookupGood` fails)
  deriving DecidableEq, Repr

/-- facts re-derived from the source by the translator -/
structure Cfg where
  littleEndian : Bool                          -- `_pslinux.LITTLE_ENDIAN`
  afInet : Nat
  afInet6 : Nat
  afUnix : Nat
  sockStream : Nat
  tcpStatuses : List (Bytes × String)          -- `TCP_STATUSES`
  connNone : String                            -- `_common.CONN_NONE`
  tmap : List (String × List TEntry)           -- `NetConnections().tmap`
  connKinds : List String                      -- `tuple(_common.conn_tmap)`
  inodesExtend : Bool      -- get_all_inodes merges the per-process lists (true) or `dict.update`s (false)
  unixPathRest : Bool      -- process_unix takes the rest of the line as path (true) or
                           -- `tokens[-1] if len(tokens) == 8 else ''` (false)
  -- host facts (like `littleEndian`): the Python the code runs on
  ntop6Fails : Bool := false   -- `socket.inet_ntop(AF_INET6, …)` raises ValueError (Python built without IPv6)
  supportsV6 : Bool := true    -- `_common.supports_ipv6()`
  -- the `except` clauses (translator facts; the defaults are the code the proofs were made on)
  /-- get_proc_inodes: classes of the handlers around `readlink` whose body is `continue` -/
  linkSkipClasses : List String := ["FileNotFoundError", "ProcessLookupError"]
  /-- get_proc_inodes, `except OSError as err`: the `errno.X` whose `if err.errno == errno.X:` ends in
      `continue` (everything else reaches the final `raise`) -/
  linkSkipErrnos : List String := ["EINVAL", "ENAMETOOLONG"]
  /-- get_all_inodes: classes of the `except (...): continue` around `get_proc_inodes(pid)` -/
  allSkipClasses : List String := ["FileNotFoundError", "ProcessLookupError", "PermissionError"]
  /-- decode_address has `except ValueError: if not supports_ipv6(): raise _Ipv6UnsupportedError from None; raise`
      around the AF_INET6 `inet_ntop` (false: the ValueError leaves as it is) -/
  v6RaiseUnsupported : Bool := true
  /-- process_inet has `except _Ipv6UnsupportedError: continue` around both `decode_address` calls
      (false: the exception leaves the generator) -/
  v6SkipLine : Bool := true
  /-- decode_address, the four `inet_ntop` calls (translator fact `ntopCalls`): is the decoded IPv4 string reversed
      (`base64.b16decode(ip)[::-1]`) in the `if LITTLE_ENDIAN:` branch / in its `else:` branch … -/
  v4RevLE : Bool := true
  v4RevBE : Bool := false
  /-- … and are the four 32-bit words of an IPv6 address byte-swapped (`pack('>4I', *unpack('<4I', ip))`) in the
      `if LITTLE_ENDIAN:` branch / in its `else:` branch (`pack('<4I', *unpack('<4I', ip))` = identity) -/
  v6SwapLE : Bool := true
  v6SwapBE : Bool := false
  /-- the four calls sit under exactly the four expected (family, endianness) tests and each argument is one of the
      expressions the two flags above can express -/
  ntopKnown : Bool := true
  /-- the dict `retrieve` passes to every `process_inet` / `process_unix` call of one query is ONE mutable object:
      is it a `defaultdict(list)` (subscripting a missing key creates it) — as built by `get_all_inodes`
      (`inodes = {}`: false) / by `get_proc_inodes` (`inodes = defaultdict(list)`: true) -/
  allInodesDefault : Bool := false
  procInodesDefault : Bool := true
  /-- both creating expressions are ones the two flags above can express (`{}`, `dict()`, `defaultdict(list)`) -/
  inodesInitKnown : Bool := true
  /-- how process_inet / process_unix look the inode up in that dict -/
  inetLookup : Lookup := .guarded
  unixLookup : Lookup := .guarded
  -- `_, laddr, raddr, status, _, _, _, _, _, inode = line.split()[:10]`
  inetN : Nat
  iLaddr : Nat
  iRaddr : Nat
  iStatus : Nat
  iInode : Nat
  -- `_, _, _, _, type_, _, inode = tokens[0:7]`
  unixN : Nat
  uType : Nat
  uInode : Nat

/-- is the decoded IPv4 string reversed on this host (the branch of `if LITTLE_ENDIAN:` that runs)? -/
def Cfg.v4Rev (c : Cfg) : Bool := if c.littleEndian then c.v4RevLE else c.v4RevBE
/-- are the IPv6 words byte-swapped on this host? -/
def Cfg.v6Swap (c : Cfg) : Bool := if c.littleEndian then c.v6SwapLE else c.v6SwapBE

/-! ### `decode_address` -/

/-- digit value as `base64.b16decode` (casefold=False) accepts it: `0-9A-F` only -/
def b16val (c : Nat) : Option Nat :=
  if 48 ≤ c ∧ c ≤ 57 then some (c - 48)
  else if 65 ≤ c ∧ c ≤ 70 then some (c - 55)
  else none

/-- `base64.b16decode(s)`; `none` = binascii.Error (odd length / non-alphabet character) -/
def b16decode : Bytes → Option Bytes
  | [] => some []
  | [_] => none
  | a :: b :: rest =>
    match b16val a, b16val b, b16decode rest with
    | some x, some y, some r => some ((x * 16 + y) :: r)
    | _, _, _ => none

/-- `struct.pack('>4I', *struct.unpack('<4I', ip))`: reverse each group of four bytes -/
def swap32 : Bytes → Bytes
  | a :: b :: c :: d :: rest => d :: c :: b :: a :: swap32 rest
  | rest => rest

/-- `int(s, 16)` on a plain hex-digit string -/
def parseHex? (s : Bytes) : Option Nat := parseRadix? hexUpper s

/-- `NetConnections.decode_address(addr, family)` -/
def decodeAddress (cfg : Cfg) (addr : Bytes) (family : Nat) : Except Exc Addr :=
  match splitOn 58 addr with                       -- ip, port = addr.split(':')
  | [ip, port] =>
    match parseHex? port with                      -- port = int(port, 16)
    | none => .error .valueError
    | some 0 => .ok .empty                         -- if not port: return ()
    | some (p + 1) =>
      match b16decode ip with
      | none => .error .valueError
      | some raw =>
        if family = cfg.afInet then
          let packed := if cfg.v4Rev then raw.reverse else raw
          if packed.length = 4 then .ok (.ip packed (p + 1)) else .error .valueError
        else
          if raw.length = 16 then                  -- struct.unpack('<4I', ip)
            if cfg.ntop6Fails then                 -- inet_ntop raises ValueError:
              -- `if not supports_ipv6(): raise _Ipv6UnsupportedError` else re-raise
              if cfg.v6RaiseUnsupported && !cfg.supportsV6 then .error .ipv6Unsupported else .error .valueError
            else .ok (.ip (if cfg.v6Swap then swap32 raw else raw) (p + 1))
          else .error .structError
  | _ => .error .valueError

/-! ### inode → [(pid, fd)] maps (`defaultdict(list)` / `dict`, insertion ordered) -/

abbrev Inodes := List (Bytes × List (Nat × Nat))

/-- `inodes[k].append(v)` on a `defaultdict(list)` -/
def Inodes.append : Inodes → Bytes → Nat × Nat → Inodes
  | [], k, v => [(k, [v])]
  | (k', l) :: m, k, v => if k' = k then (k', l ++ [v]) :: m else (k', l) :: Inodes.append m k v

/-- `inodes[k] = l` -/
def Inodes.set : Inodes → Bytes → List (Nat × Nat) → Inodes
  | [], k, l => [(k, l)]
  | (k', l') :: m, k, l => if k' = k then (k', l) :: m else (k', l') :: Inodes.set m k l

/-- `inodes.setdefault(k, []).extend(l)` -/
def Inodes.extend : Inodes → Bytes → List (Nat × Nat) → Inodes
  | [], k, l => [(k, l)]
  | (k', l') :: m, k, l => if k' = k then (k', l' ++ l) :: m else (k', l') :: Inodes.extend m k l

def socketPrefix : Bytes := [115, 111, 99, 107, 101, 116, 58, 91]     -- "socket:["

/-- one fd entry of `/proc/<pid>/fd`: the descriptor number and what `readlink` gives
    (`none` = the link vanished: ENOENT/ESRCH/EINVAL/ENAMETOOLONG → `continue`) -/
abbrev FdEntry := Nat × Option Bytes

/-- `NetConnections.get_proc_inodes(pid)` over the directory listing `fds` -/
def getProcInodes (pid : Nat) (fds : List FdEntry) : Inodes :=
  fds.foldl (fun m e =>
    match e.2 with
    | none => m
    | some target =>
      if startsWith socketPrefix target then
        m.append ((target.drop 8).dropLast) (pid, e.1)       -- inode[8:][:-1]
      else m) []

/-- merging one process' map into the system-wide one: `inodes.update(proc_inodes)` or
    `for inode, pairs in proc_inodes.items(): inodes.setdefault(inode, []).extend(pairs)` -/
def mergeProc (cfg : Cfg) (m : Inodes) (procInodes : Inodes) : Inodes :=
  procInodes.foldl (fun m kv => if cfg.inodesExtend then m.extend kv.1 kv.2 else m.set kv.1 kv.2) m

/-- body of the `for pid in pids()` loop (`none` = listdir raised
    FileNotFoundError/ProcessLookupError/PermissionError → `continue`) -/
def allStep (cfg : Cfg) (m : Inodes) (p : Nat × Option (List FdEntry)) : Inodes :=
  match p.2 with
  | none => m
  | some fds => mergeProc cfg m (getProcInodes p.1 fds)

/-- `NetConnections.get_all_inodes()`; `procs` is `pids()` in listing order, each with its fd listing -/
def getAllInodes (cfg : Cfg) (procs : List (Nat × Option (List FdEntry))) : Inodes :=
  procs.foldl (allStep cfg) []

/-! ### `process_inet` -/

/-- tuple yielded by process_inet/process_unix before `retrieve` wraps it -/
abbrev Raw := Row

def pidFd (inodes : Inodes) (inode : Bytes) : Except Exc (Option Nat × Int) :=
  match inodes.lookup inode with
  | some ((pid, fd) :: _) => .ok (some pid, (fd : Int))     -- inodes[inode][0]
  | some [] => .error .indexError
  | none => .ok (none, -1)

/-- `filter_pid is not None and filter_pid != pid` -/
def filteredOut (filterPid : Option Nat) (pid : Option Nat) : Bool :=
  match filterPid with
  | none => false
  | some f => pid != some f

/-- what `_Ipv6UnsupportedError` out of `decode_address` does to the line: `continue`, or (no handler) it leaves -/
def v6Skip (cfg : Cfg) : Except Exc (Option Row) :=
  if cfg.v6SkipLine then .ok none else .error .ipv6Unsupported

/-- body of the `for lineno, line in enumerate(f, 1)` loop; `none` = `continue` -/
def processInetLine (cfg : Cfg) (family type : Nat) (inodes : Inodes) (filterPid : Option Nat)
    (line : Bytes) : Except Exc (Option Raw) :=
  let toks := splitWs line
  if toks.length < cfg.inetN then .error .runtimeError      -- fewer than 10 tokens
  else
  match toks[cfg.iLaddr]?, toks[cfg.iRaddr]?, toks[cfg.iStatus]?, toks[cfg.iInode]? with
  | some laddr, some raddr, some status, some inode =>
    match pidFd inodes inode with
    | .error e => .error e
    | .ok (pid, fd) =>
      if filteredOut filterPid pid then .ok none
      else
        let st : Except Exc String :=
          if type = cfg.sockStream then
            match cfg.tcpStatuses.lookup status with
            | some s => .ok s
            | none => .error .keyError
          else .ok cfg.connNone
        match st with
        | .error e => .error e
        | .ok status =>
          match decodeAddress cfg laddr family with
          | .error .ipv6Unsupported => v6Skip cfg        -- except _Ipv6UnsupportedError: continue
          | .error e => .error e
          | .ok la =>
            match decodeAddress cfg raddr family with
            | .error .ipv6Unsupported => v6Skip cfg
            | .error e => .error e
            | .ok ra => .ok (some ⟨fd, family, type, la, ra, status, pid⟩)
  | _, _, _, _ => .error .indexError      -- not reachable: the indices are below `inetN`

def processInetLines (cfg : Cfg) (family type : Nat) (inodes : Inodes) (filterPid : Option Nat) :
    List Bytes → Except Exc (List Raw)
  | [] => .ok []
  | line :: rest =>
    match processInetLine cfg family type inodes filterPid line with
    | .error e => .error e
    | .ok r =>
      match processInetLines cfg family type inodes filterPid rest with
      | .error e => .error e
      | .ok rs => .ok (r.toList ++ rs)

/-- `NetConnections.process_inet(file, family, type_, inodes, filter_pid)`;
    `content = none` means the file does not exist -/
def processInet (cfg : Cfg) (fileName : String) (content : Option Bytes) (family type : Nat)
    (inodes : Inodes) (filterPid : Option Nat) : Except Exc (List Raw) :=
  match content with
  | none =>
    if fileName.toList.getLast? = some '6' then .ok []      -- file.endswith('6'): IPv6 not supported
    else .error .fileNotFound
  | some c => processInetLines cfg family type inodes filterPid ((linesOf c).drop 1)

/-! ### `process_unix` -/

/-- `s.split(None, k)` -/
def splitWsMax : Nat → Bytes → List Bytes
  | 0, s =>
    let r := lstripWs s
    if r.isEmpty then [] else [r]
  | k + 1, s =>
    let r := lstripWs s
    if r.isEmpty then []
    else
      r.takeWhile (fun c => !isWs c) :: splitWsMax k (r.dropWhile (fun c => !isWs c))

/-- `s.partition(' ')[2]` -/
def afterFirstSpace : Bytes → Bytes
  | [] => []
  | c :: cs => if c = 32 then cs else afterFirstSpace cs

/-- the `path` expression of process_unix -/
def unixPath (cfg : Cfg) (line : Bytes) (tokens : List Bytes) : Except Exc Bytes :=
  if cfg.unixPathRest then
    -- line.split(None, 6)[6].rstrip("\n").partition(" ")[2]
    match (splitWsMax 6 line)[6]? with
    | some rest => .ok (afterFirstSpace rest)
    | none => .error .indexError
  else
    -- tokens[-1] if len(tokens) == 8 else ''
    if tokens.length = 8 then .ok (tokens.getLast?.getD []) else .ok []

/-- the `for pid, fd in pairs` loop -/
def unixPairs (cfg : Cfg) (line : Bytes) (tokens : List Bytes) (typeTok : Bytes)
    (filterPid : Option Nat) : List (Option Nat × Int) → Except Exc (List Raw)
  | [] => .ok []
  | (pid, fd) :: rest =>
    if filteredOut filterPid pid then unixPairs cfg line tokens typeTok filterPid rest
    else
      match unixPath cfg line tokens with
      | .error e => .error e
      | .ok path =>
        match parseDec? typeTok with              -- int(type_)
        | none => .error .valueError
        | some t =>
          match unixPairs cfg line tokens typeTok filterPid rest with
          | .error e => .error e
          | .ok rs => .ok (⟨fd, cfg.afUnix, t, .path path, .path [], cfg.connNone, pid⟩ :: rs)

/-- `pairs = inodes[inode] if inode in inodes else [(None, -1)]` -/
def ownerPairs (inodes : Inodes) (inode : Bytes) : List (Option Nat × Int) :=
  match inodes.lookup inode with
  | some l => l.map (fun pf => (some pf.1, (pf.2 : Int)))
  | none => [(none, -1)]

def processUnixLine (cfg : Cfg) (inodes : Inodes) (filterPid : Option Nat) (line : Bytes) :
    Except Exc (List Raw) :=
  let tokens := splitWs line
  if tokens.length < cfg.unixN then
    if 32 ∉ line then .ok []           -- issue #766: skip
    else .error .runtimeError
  else
  match tokens[cfg.uType]?, tokens[cfg.uInode]? with
  | some typeTok, some inode =>
    unixPairs cfg line tokens typeTok filterPid (ownerPairs inodes inode)
  | _, _ => .error .indexError          -- not reachable: the indices are below `unixN`

def processUnixLines (cfg : Cfg) (inodes : Inodes) (filterPid : Option Nat) :
    List Bytes → Except Exc (List Raw)
  | [] => .ok []
  | line :: rest =>
    match processUnixLine cfg inodes filterPid line with
    | .error e => .error e
    | .ok r =>
      match processUnixLines cfg inodes filterPid rest with
      | .error e => .error e
      | .ok rs => .ok (r ++ rs)

def processUnix (cfg : Cfg) (content : Option Bytes) (inodes : Inodes) (filterPid : Option Nat) :
    Except Exc (List Raw) :=
  match content with
  | none => .error .fileNotFound
  | some c => processUnixLines cfg inodes filterPid ((linesOf c).drop 1)

/-! ### `retrieve` -/

/-- what psutil reads: `net/<name>` contents and the `/proc/<pid>/fd` listings -/
structure ProcFs where
  net : String → Option Bytes
  procs : List (Nat × Option (List FdEntry))

/-- `ret.add(conn)` -/
def setAdd (ret : List Row) (r : Row) : List Row := if r ∈ ret then ret else ret ++ [r]

def entryRows (cfg : Cfg) (fs : ProcFs) (inodes : Inodes) (pid : Option Nat) (e : TEntry) :
    Except Exc (List Raw) :=
  if e.2.1 = cfg.afInet ∨ e.2.1 = cfg.afInet6 then
    match e.2.2 with
    | some t => processInet cfg e.1 (fs.net e.1) e.2.1 t inodes pid
    | none => .error .keyError      -- not reachable with psutil's table (inet entries carry a type)
  else processUnix cfg (fs.net e.1) inodes pid

/-- `if pid:` → pconn (no pid field) else sconn -/
def wrapRow (pid : Option Nat) (r : Raw) : Row :=
  match pid with
  | some (_ + 1) => { r with pid := none }
  | _ => r

def retrieveEntries (cfg : Cfg) (fs : ProcFs) (inodes : Inodes) (pid : Option Nat) :
    List TEntry → List Row → Except Exc (List Row)
  | [], ret => .ok ret
  | e :: es, ret =>
    match entryRows cfg fs inodes pid e with
    | .error x => .error x
    | .ok rows => retrieveEntries cfg fs inodes pid es ((rows.map (wrapRow pid)).foldl setAdd ret)

/-- `NetConnections.retrieve(kind, pid=None)` -/
def retrieve (cfg : Cfg) (fs : ProcFs) (kind : String) (pid : Option Nat) :
    Except Exc (List Row) :=
  let inodes? : Except Exc Inodes :=
    match pid with
    | some p =>
      match fs.procs.lookup p with
      | some (some fds) => .ok (getProcInodes p fds)
      | _ => .error .fileNotFound
    | none => .ok (getAllInodes cfg fs.procs)
  match inodes? with
  | .error e => .error e
  | .ok inodes =>
    if pid.isSome && inodes.isEmpty then .ok []          -- no connections for this process
    else
      match cfg.tmap.lookup kind with
      | none => .error .keyError
      | some entries => retrieveEntries cfg fs inodes pid entries []

/-! ### front end -/

/-- `psutil._check_conn_kind(kind)` then `_psplatform.net_connections(kind)` /
    `Process._proc.net_connections(kind)` -/
def netConnections (cfg : Cfg) (fs : ProcFs) (kind : String) (pid : Option Nat) :
    Except Exc (List Row) :=
  if kind ∉ cfg.connKinds then .error .valueError
  else retrieve cfg fs kind pid

/-! ### descriptor races and errors: `os.listdir` / `os.readlink` may fail

  The functions above are the error-free core (every listed descriptor is either read or silently
  vanished). What follows transcribes the same code with every `OSError` outcome of the two
  system calls explicit. `Proofs/C11Scan.lean` shows that, whenever no error escapes, the result is
  the core's result on the file system with the failing descriptors / processes erased. -/

/-- errno values `os.readlink` / `os.listdir` can fail with, as far as the code tells them apart -/
inductive Errno
  | enoent | esrch | einval | enametoolong | eacces | eperm
  | other (n : Nat)          -- EIO, EMFILE, ENOMEM, … (by number)
  deriving DecidableEq, Repr

/-- the Python exception class `OSError(errno)` is raised as -/
def Exc.ofErrno : Errno → Exc
  | .enoent => .fileNotFound
  | .esrch => .processLookup
  | .eacces => .permissionError
  | .eperm => .permissionError
  | .einval => .osError 22
  | .enametoolong => .osError 36
  | .other n => .osError n

/-- what `readlink(f"{procfs}/{pid}/fd/{fd}")` gives -/
inductive LinkRes
  | ok (target : Bytes)
  | err (e : Errno)
  deriving DecidableEq, Repr

abbrev FdEntryE := Nat × LinkRes
/-- what `os.listdir(f"{procfs}/{pid}/fd")` gives, each name with the outcome of its readlink -/
abbrev ListRes := Except Errno (List FdEntryE)

/-- errno name as the source spells it after `errno.` (`other`: not told apart by name) -/
def Errno.name : Errno → String
  | .enoent => "ENOENT"
  | .esrch => "ESRCH"
  | .einval => "EINVAL"
  | .enametoolong => "ENAMETOOLONG"
  | .eacces => "EACCES"
  | .eperm => "EPERM"
  | .other _ => ""

/-- the Python class of an exception as far as the `except` clauses on this path tell classes apart -/
def Exc.pyClass : Exc → String
  | .fileNotFound => "FileNotFoundError"
  | .processLookup => "ProcessLookupError"
  | .permissionError => "PermissionError"
  | .osError _ => "OSError"
  | .valueError => "ValueError"
  | .runtimeError => "RuntimeError"
  | .keyError => "KeyError"
  | .indexError => "IndexError"
  | .structError => "error"
  | .ipv6Unsupported => "_Ipv6UnsupportedError"
  | .accessDenied => "AccessDenied"
  | .noSuchProcess => "NoSuchProcess"

def Exc.isOSError : Exc → Bool
  | .fileNotFound | .processLookup | .permissionError | .osError _ => true
  | _ => false

/-- does `except cls:` catch `x`? (the class itself, `OSError` for its subclasses, `Exception`/`BaseException`) -/
def catches (cls : String) (x : Exc) : Bool :=
  cls == x.pyClass || (x.isOSError && cls == "OSError") || cls == "Exception" || cls == "BaseException"

/-- get_proc_inodes: does the `try` around `readlink` step over errno `e`?
    `except (<linkSkipClasses>): continue`, then inside `except OSError as err` the `errno.X: … continue` tests -/
def linkSkips (cfg : Cfg) (e : Errno) : Bool :=
  cfg.linkSkipClasses.any (fun c => catches c (Exc.ofErrno e)) || cfg.linkSkipErrnos.contains e.name

/-- the `for fd in os.listdir(...)` loop of `get_proc_inodes`, `m` = the `defaultdict` so far -/
def procLoopE (cfg : Cfg) (pid : Nat) : List FdEntryE → Inodes → Except Exc Inodes
  | [], m => .ok m
  | (fd, r) :: rest, m =>
    match r with
    | .err e =>
      if linkSkips cfg e then procLoopE cfg pid rest m      -- the handler says `continue`
      else .error (Exc.ofErrno e)                           -- raise
    | .ok target =>
      if startsWith socketPrefix target then
        procLoopE cfg pid rest (m.append ((target.drop 8).dropLast) (pid, fd))
      else procLoopE cfg pid rest m

/-- `NetConnections.get_proc_inodes(pid)` with the outcome of `os.listdir` and of every `readlink` -/
def getProcInodesE (cfg : Cfg) (pid : Nat) (l : ListRes) : Except Exc Inodes :=
  match l with
  | .error e => .error (Exc.ofErrno e)               -- os.listdir raised
  | .ok fds => procLoopE cfg pid fds []

/-- `except (<allSkipClasses>): continue` of get_all_inodes -/
def allCaught (cfg : Cfg) (x : Exc) : Bool :=
  cfg.allSkipClasses.any (fun c => catches c x)

/-- `NetConnections.get_all_inodes()`: the loop over `pids()`, `m` = `inodes` so far -/
def allLoopE (cfg : Cfg) : List (Nat × ListRes) → Inodes → Except Exc Inodes
  | [], m => .ok m
  | (pid, l) :: rest, m =>
    match getProcInodesE cfg pid l with
    | .ok pi => allLoopE cfg rest (mergeProc cfg m pi)
    | .error x => if allCaught cfg x then allLoopE cfg rest m else .error x

def getAllInodesE (cfg : Cfg) (procs : List (Nat × ListRes)) : Except Exc Inodes :=
  allLoopE cfg procs []

/-- what psutil reads, with the failures of the two system calls -/
structure ProcFsE where
  net : String → Option Bytes
  procs : List (Nat × ListRes)

/-- `NetConnections.retrieve(kind, pid=None)` -/
def retrieveE (cfg : Cfg) (fs : ProcFsE) (kind : String) (pid : Option Nat) :
    Except Exc (List Row) :=
  let inodes? : Except Exc Inodes :=
    match pid with
    | some p =>
      match fs.procs.lookup p with
      | some l => getProcInodesE cfg p l
      | none => .error .fileNotFound                 -- no `/proc/<pid>/fd` at all
    | none => getAllInodesE cfg fs.procs
  match inodes? with
  | .error e => .error e
  | .ok inodes =>
    if pid.isSome && inodes.isEmpty then .ok []          -- no connections for this process
    else
      match cfg.tmap.lookup kind with
      | none => .error .keyError
      | some entries => retrieveEntries cfg ⟨fs.net, []⟩ inodes pid entries []

/-- `_pslinux.wrap_exceptions` around `Process.net_connections` (the process' own `stat` file is
    there and does not say `Z`: zombie / vanished-process handling is C03's subject) -/
def wrapExceptions : Except Exc (List Row) → Except Exc (List Row)
  | .error .permissionError => .error .accessDenied
  | .error .processLookup => .error .noSuchProcess
  | r => r                    -- FileNotFoundError with `/proc/<pid>/stat` present is re-raised

/-- the public functions: `_check_conn_kind(kind)`, then `_pslinux.net_connections(kind)` or the
    `@wrap_exceptions` method `Process.net_connections(kind)` (whose `_raise_if_not_alive()` finds
    `/proc/<pid>` present) -/
def netConnectionsE (cfg : Cfg) (fs : ProcFsE) (kind : String) (pid : Option Nat) :
    Except Exc (List Row) :=
  if kind ∉ cfg.connKinds then .error .valueError
  else
    match pid with
    | none => retrieveE cfg fs kind none
    | some p => wrapExceptions (retrieveE cfg fs kind (some p))

/-! ### the inode map is ONE dict shared by all the tables of a query

  `retrieve` builds `inodes` once and hands the same object to every `process_inet` / `process_unix` call of
  `tmap[kind]`, in table order (for `all`: tcp, tcp6, udp, udp6, unix). Python dicts are mutable and
  `get_proc_inodes` returns a `defaultdict(list)`: a lookup that creates the key it misses changes what every LATER
  line and every LATER table sees — and the kernel does print the same inode number in different tables (0 for every
  socket without a `struct socket`: TIME_WAIT / SYN_RECV in net/tcp, not yet accepted connections in net/unix).
  The functions above read the map without ever changing it; the functions below (`…S`) thread it through every line
  of every table, with the lookup as the translator finds it in the source (`Cfg.inetLookup`, `Cfg.unixLookup`,
  `Cfg.allInodesDefault`, `Cfg.procInodesDefault`). **This is what the driver runs.** `Proofs/C11Shared.lean`: with
  membership-guarded lookups (the code as it is) nothing is ever inserted and `…S` = the functions above, for EVERY
  file system. -/

/-- the access to `inodes[k]` as the source spells it: the dict afterwards, and the list found
    (`none` = the `else:` branch / the default of `.get`) -/
def lookupS (how : Lookup) (dflt : Bool) (m : Inodes) (k : Bytes) :
    Except Exc (Inodes × Option (List (Nat × Nat))) :=
  match m.lookup k with
  | some l => .ok (m, some l)
  | none =>
    match how with
    | .subscript => if dflt then .ok (m ++ [(k, [])], some []) else .error .keyError
    | .setdefault => .ok (m ++ [(k, [])], some [])
    | _ => .ok (m, none)

/-- what process_inet makes of the list found: `inodes[inode][0]` under the membership test (IndexError on an empty
    list); the unguarded spellings have to cope with the empty list: `holders[0] if holders else (None, -1)` -/
def inetOwner (how : Lookup) : Option (List (Nat × Nat)) → Except Exc (Option Nat × Int)
  | some ((pid, fd) :: _) => .ok (some pid, (fd : Int))
  | some [] =>
    match how with
    | .guarded | .unknown => .error .indexError
    | _ => .ok (none, -1)
  | none => .ok (none, -1)

/-- `pairs = inodes[inode] if inode in inodes else [(None, -1)]`, on the list found -/
def unixOwnerPairs : Option (List (Nat × Nat)) → List (Option Nat × Int)
  | some l => l.map (fun pf => (some pf.1, (pf.2 : Int)))
  | none => [(none, -1)]

/-- body of the `for lineno, line in enumerate(f, 1)` loop of process_inet; the dict comes back with the row -/
def processInetLineS (cfg : Cfg) (family type : Nat) (dflt : Bool) (m : Inodes) (filterPid : Option Nat)
    (line : Bytes) : Except Exc (Inodes × Option Raw) :=
  let toks := splitWs line
  if toks.length < cfg.inetN then .error .runtimeError
  else
  match toks[cfg.iLaddr]?, toks[cfg.iRaddr]?, toks[cfg.iStatus]?, toks[cfg.iInode]? with
  | some laddr, some raddr, some status, some inode =>
    match lookupS cfg.inetLookup dflt m inode with
    | .error e => .error e
    | .ok (m', found) =>
      match inetOwner cfg.inetLookup found with
      | .error e => .error e
      | .ok (pid, fd) =>
        if filteredOut filterPid pid then .ok (m', none)
        else
          let st : Except Exc String :=
            if type = cfg.sockStream then
              match cfg.tcpStatuses.lookup status with
              | some s => .ok s
              | none => .error .keyError
            else .ok cfg.connNone
          match st with
          | .error e => .error e
          | .ok status =>
            match decodeAddress cfg laddr family with
            | .error .ipv6Unsupported => (v6Skip cfg).map fun r => (m', r)
            | .error e => .error e
            | .ok la =>
              match decodeAddress cfg raddr family with
              | .error .ipv6Unsupported => (v6Skip cfg).map fun r => (m', r)
              | .error e => .error e
              | .ok ra => .ok (m', some ⟨fd, family, type, la, ra, status, pid⟩)
  | _, _, _, _ => .error .indexError

def processInetLinesS (cfg : Cfg) (family type : Nat) (dflt : Bool) (filterPid : Option Nat) :
    Inodes → List Bytes → Except Exc (Inodes × List Raw)
  | m, [] => .ok (m, [])
  | m, line :: rest =>
    match processInetLineS cfg family type dflt m filterPid line with
    | .error e => .error e
    | .ok (m', r) =>
      match processInetLinesS cfg family type dflt filterPid m' rest with
      | .error e => .error e
      | .ok (m'', rs) => .ok (m'', r.toList ++ rs)

def processInetS (cfg : Cfg) (fileName : String) (content : Option Bytes) (family type : Nat) (dflt : Bool)
    (m : Inodes) (filterPid : Option Nat) : Except Exc (Inodes × List Raw) :=
  match content with
  | none =>
    if fileName.toList.getLast? = some '6' then .ok (m, [])
    else .error .fileNotFound
  | some c => processInetLinesS cfg family type dflt filterPid m ((linesOf c).drop 1)

def processUnixLineS (cfg : Cfg) (dflt : Bool) (m : Inodes) (filterPid : Option Nat) (line : Bytes) :
    Except Exc (Inodes × List Raw) :=
  let tokens := splitWs line
  if tokens.length < cfg.unixN then
    if 32 ∉ line then .ok (m, [])
    else .error .runtimeError
  else
  match tokens[cfg.uType]?, tokens[cfg.uInode]? with
  | some typeTok, some inode =>
    match lookupS cfg.unixLookup dflt m inode with
    | .error e => .error e
    | .ok (m', found) =>
      match unixPairs cfg line tokens typeTok filterPid (unixOwnerPairs found) with
      | .error e => .error e
      | .ok rs => .ok (m', rs)
  | _, _ => .error .indexError

def processUnixLinesS (cfg : Cfg) (dflt : Bool) (filterPid : Option Nat) :
    Inodes → List Bytes → Except Exc (Inodes × List Raw)
  | m, [] => .ok (m, [])
  | m, line :: rest =>
    match processUnixLineS cfg dflt m filterPid line with
    | .error e => .error e
    | .ok (m', r) =>
      match processUnixLinesS cfg dflt filterPid m' rest with
      | .error e => .error e
      | .ok (m'', rs) => .ok (m'', r ++ rs)

def processUnixS (cfg : Cfg) (content : Option Bytes) (dflt : Bool) (m : Inodes) (filterPid : Option Nat) :
    Except Exc (Inodes × List Raw) :=
  match content with
  | none => .error .fileNotFound
  | some c => processUnixLinesS cfg dflt filterPid m ((linesOf c).drop 1)

def entryRowsS (cfg : Cfg) (net : String → Option Bytes) (dflt : Bool) (m : Inodes) (pid : Option Nat) (e : TEntry) :
    Except Exc (Inodes × List Raw) :=
  if e.2.1 = cfg.afInet ∨ e.2.1 = cfg.afInet6 then
    match e.2.2 with
    | some t => processInetS cfg e.1 (net e.1) e.2.1 t dflt m pid
    | none => .error .keyError
  else processUnixS cfg (net e.1) dflt m pid

/-- the `for proto_name, family, type_ in self.tmap[kind]` loop: the SAME dict goes into every table, as the
    previous tables left it -/
def retrieveEntriesS (cfg : Cfg) (net : String → Option Bytes) (dflt : Bool) (pid : Option Nat) :
    Inodes → List TEntry → List Row → Except Exc (List Row)
  | _, [], ret => .ok ret
  | m, e :: es, ret =>
    match entryRowsS cfg net dflt m pid e with
    | .error x => .error x
    | .ok (m', rows) => retrieveEntriesS cfg net dflt pid m' es ((rows.map (wrapRow pid)).foldl setAdd ret)

/-- `NetConnections.retrieve(kind, pid=None)` with the failures of the two system calls AND the dict threaded through
    the tables; the dict is `get_proc_inodes`' own `defaultdict` in the per-process form -/
def retrieveES (cfg : Cfg) (fs : ProcFsE) (kind : String) (pid : Option Nat) :
    Except Exc (List Row) :=
  let inodes? : Except Exc Inodes :=
    match pid with
    | some p =>
      match fs.procs.lookup p with
      | some l => getProcInodesE cfg p l
      | none => .error .fileNotFound
    | none => getAllInodesE cfg fs.procs
  match inodes? with
  | .error e => .error e
  | .ok inodes =>
    if pid.isSome && inodes.isEmpty then .ok []
    else
      match cfg.tmap.lookup kind with
      | none => .error .keyError
      | some entries =>
        retrieveEntriesS cfg fs.net (if pid.isSome then cfg.procInodesDefault else cfg.allInodesDefault) pid
          inodes entries []

/-- the public functions over the shared dict (what the driver runs) -/
def netConnectionsES (cfg : Cfg) (fs : ProcFsE) (kind : String) (pid : Option Nat) :
    Except Exc (List Row) :=
  if kind ∉ cfg.connKinds then .error .valueError
  else
    match pid with
    | none => retrieveES cfg fs kind none
    | some p => wrapExceptions (retrieveES cfg fs kind (some p))

end Psutil.C11
