/- Model/C08Gen.lean — the C08 model instantiated with the facts the translator extracted. -/
import PsutilModel.Model.C08
import PsutilModel.Generated.C08
namespace Psutil.C08
open Psutil.Gen.C08

/-- `i`-th key the variable `var` is read from (empty = the source no longer has it) -/
def keyOf (tbl : List (String × List (List Nat))) (var : String) (i : Nat) : Bytes :=
  ((tbl.lookup var).getD []).getD i []

def missName (var : String) : String := (missingMap.lookup var).getD ""

def parseCfgOf (l : List Nat) : ParseCfg := ⟨l.getD 0 0, l.getD 1 0, l.getD 2 0⟩

/-- the multiplier of a /proc/vmstat counter as the source writes it: the product of its constant
    factors, times the page size for a factor named `PAGESIZE`; any other non-constant factor is
    not something the model can follow (0: the obligations fail, the correspondence disagrees) -/
def scaleAt (const : Nat) (names : List String) (ps : Nat) : Nat :=
  if names == [] then const
  else if names == ["PAGESIZE"] then const * ps
  else 0

/-- does swap_memory() scale BOTH page counters by the real page size (`* PAGESIZE`)?
    `false` for the code as found (`* 4 * 1024`); `true` once fixes/C08-swap-pagesize.diff is in -/
def swapPages : Bool := sinFactorNames == ["PAGESIZE"] && soutFactorNames == ["PAGESIZE"]

/-- configuration of the model as extracted from the current source, for a process whose
    `PAGESIZE` (module constant of `_pslinux`, `os.sysconf("SC_PAGE_SIZE")`) is `ps` -/
def cfgAt (ps : Nat) : Cfg :=
  { vmParse := parseCfgOf vmParse
    kMemTotal := keyOf vmKeys "total" 0
    kMemFree := keyOf vmKeys "free" 0
    kBuffers := keyOf vmKeys "buffers" 0
    kCached := keyOf vmKeys "cached" 0
    kSReclaimable := keyOf vmKeys "cached" 1
    kShmem := keyOf vmKeys "shared" 0
    kMemShared := keyOf vmKeys "shared" 1
    kActive := keyOf vmKeys "active" 0
    kInactive := keyOf vmKeys "inactive" 0
    kInactDirty := keyOf vmKeys "inactive" 1
    kInactClean := keyOf vmKeys "inactive" 2
    kInactLaundry := keyOf vmKeys "inactive" 3
    kSlab := keyOf vmKeys "slab" 0
    kMemAvailable := keyOf vmKeys "avail" 0
    nBuffers := missName "buffers"
    nCached := missName "cached"
    nShared := missName "shared"
    nActive := missName "active"
    nInactive := missName "inactive"
    nAvailable := missName "avail"
    usedClamp := usedClamp
    zeroAvailFallsBack := zeroAvailFallsBack
    availClampLow := availClampLow
    availClampHigh := availClampHigh
    vmRound := vmRound
    caMemFree := keyOf caKeys "free" 0
    caCached := keyOf caKeys "fallback" 0
    caActiveFile := keyOf caKeys "lru_active_file" 0
    caInactiveFile := keyOf caKeys "lru_inactive_file" 0
    caSReclaimable := keyOf caKeys "slab_reclaimable" 0
    lowPrefix := lowPrefix
    lowIdx := lowIdx
    swParse := parseCfgOf swParse
    kSwapTotal := keyOf swKeys "total" 0
    kSwapFree := keyOf swKeys "free" 0
    swRound := swRound
    sinPrefix := sinPrefix
    sinIdx := sinIdxFactor.getD 0 0
    sinFactor := scaleAt (sinIdxFactor.getD 1 0) sinFactorNames ps
    soutPrefix := soutPrefix
    soutIdx := soutIdxFactor.getD 0 0
    soutFactor := scaleAt (soutIdxFactor.getD 1 0) soutFactorNames ps
    pctScale := pctScale
    svmemLayout := svmemFields.zip svmemArgs
    sswapLayout := sswapFields.zip sswapArgs
    sysCOrder := sysinfoCMembers
    sysUnpack := sysinfoUnpack
    sysTotalTimesUnit := sysinfoTimesUnit.contains "total"
    sysFreeTimesUnit := sysinfoTimesUnit.contains "free"
    primesTotalPhymem := phymemPrimed != ""
    phymemField := phymemPrimed
    memPercentUsesCache := memPercentTotalExpr == "_TOTAL_PHYMEM or virtual_memory().total" }

/-- the configuration on a 4 KiB-page system (what every theorem that does not mention the page
    size of the swap counters is stated for; virtual_memory() takes its page size as an argument) -/
def cfg : Cfg := cfgAt 4096

/-- shape facts that are not parameters of the model: the number of keys per variable (an extra
    or a dropped key changes the algorithm) and `watermark_low *= PAGESIZE` -/
def shapeOk : Bool :=
  (vmKeys.map fun p => (p.1, p.2.length)) ==
      [("total", 1), ("free", 1), ("buffers", 1), ("cached", 2), ("shared", 2), ("active", 1),
       ("inactive", 4), ("slab", 1), ("avail", 1)]
  && (caKeys.map fun p => (p.1, p.2.length)) ==
      [("free", 1), ("fallback", 1), ("lru_active_file", 1), ("lru_inactive_file", 1),
       ("slab_reclaimable", 1)]
  && (swKeys.map fun p => (p.1, p.2.length)) == [("total", 1), ("free", 1)]
  && missingMap.length == 6
  && wmTimesPagesize
  && svmemFields.length == svmemArgs.length && sswapFields.length == sswapArgs.length
  -- every slot of the native tuple is an unsigned C integer (`k` unsigned long, `I` unsigned int)
  && sysinfoCFormat == "(kkkkkkI)" && sysinfoTimesUnit == ["total", "free"]
  -- the two page counters are scaled the same way: by the constant 4096 (code as found) or by
  -- PAGESIZE alone (repaired); both are read from `line.split(b' ')`
  && ((sinFactorNames == [] && soutFactorNames == [] && sinIdxFactor.getD 1 0 == 4096
        && soutIdxFactor.getD 1 0 == 4096)
      || (swapPages && sinIdxFactor.getD 1 0 == 1 && soutIdxFactor.getD 1 0 == 1))
  && sinSplitExpr == "line.split(b' ')" && soutSplitExpr == "line.split(b' ')"

/-- the statements the model transcribes that no structured fact describes, pinned by their
    normalised source text (`ast.unparse`; comments and layout do not count): the two meminfo
    loops, `used`, `cached +=`, the MemAvailable / clamp block, the arguments of usage_percent,
    the warnings (category RuntimeWarning, texts, was/were, `if missing_fields:`), the zoneinfo
    loop + the arithmetic of the estimate (`min`, `/ 2`, `int()`), the vmstat `for … else` loop
    with its `break` condition, the body of usage_percent (`round`), the exception classes caught
    (`except OSError` around both optional files). Obligation: `cfg_text_good`. -/
def textOk : Bool :=
  vmLoopText ==
      ["fields = line.split()", "mems[fields[0]] = int(fields[1]) * 1024"]
  && swLoopText ==
      ["fields = line.split()", "mems[fields[0]] = int(fields[1]) * 1024"]
  && usedText ==
      ["used = total - free - cached - buffers", "if used < 0:\n    used = total - free"]
  && cachedAugText ==
      ["cached += mems.get(b'SReclaimable:', 0)"]
  && availText ==
      ["try:\n    avail = mems[b'MemAvailable:']\nexcept KeyError:\n    avail = calculate_avail_vmem(mems)\nelse:\n    if avail == 0:\n        avail = calculate_avail_vmem(mems)", "if avail < 0:\n    avail = 0\n    missing_fields.append('available')\nelif avail > total:\n    avail = free"]
  && vmPercentText ==
      ["percent = usage_percent(total - avail, total, round_=1)"]
  && vmWarnText ==
      ["if missing_fields:", "msg = \"{} memory stats couldn't be determined and {} set to 0\".format(', '.join(missing_fields), 'was' if len(missing_fields) == 1 else 'were')", "warnings.warn(msg, RuntimeWarning, stacklevel=2)"]
  && estimateText ==
      ["watermark_low = 0", "with f:\n    for line in f:\n        line = line.strip()\n        if line.startswith(b'low'):\n            watermark_low += int(line.split()[1])", "watermark_low *= PAGESIZE", "avail = free - watermark_low", "pagecache = lru_active_file + lru_inactive_file", "pagecache -= min(pagecache / 2, watermark_low)", "avail += pagecache", "avail += slab_reclaimable - min(slab_reclaimable / 2.0, watermark_low)", "return int(avail)"]
  && swUsedText ==
      ["used = total - free"]
  && swPercentText ==
      ["percent = usage_percent(used, total, round_=1)"]
  && swWarnText ==
      ["msg = f\"'sin' and 'sout' swap memory stats couldn't be determined and were set to 0 ({err})\"", "warnings.warn(msg, RuntimeWarning, stacklevel=2)", "msg = \"'sin' and 'sout' swap memory stats couldn't \"", "msg += 'be determined and were set to 0'", "warnings.warn(msg, RuntimeWarning, stacklevel=2)"]
  && vmstatLoopText ==
      "for line in f:\n    if line.startswith(b'pswpin'):\n        sin = int(line.split(b' ')[1]) * FACTOR\n    elif line.startswith(b'pswpout'):\n        sout = int(line.split(b' ')[1]) * FACTOR\n    if sin is not None and sout is not None:\n        break\nelse:\n    msg = \"'sin' and 'sout' swap memory stats couldn't \"\n    msg += 'be determined and were set to 0'\n    warnings.warn(msg, RuntimeWarning, stacklevel=2)\n    sin = sout = 0"
  && usagePercentText ==
      ["try:\n    ret = float(used) / total * 100\nexcept ZeroDivisionError:\n    return 0.0\nelse:\n    if round_ is not None:\n        ret = round(ret, round_)\n    return ret"]
  && handlerTypes ==
      [("calculate_avail_vmem", ["KeyError", "OSError"]), ("virtual_memory", ["KeyError", "KeyError", "KeyError", "KeyError", "KeyError", "KeyError", "KeyError", "KeyError", "KeyError"]), ("swap_memory", ["KeyError", "OSError"])]

end Psutil.C08
