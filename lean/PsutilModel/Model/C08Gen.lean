/- Model/C08Gen.lean — the C08 model instantiated with the facts the translator extracted. -/
import PsutilModel.Model.C08
import PsutilModel.Generated.C08
namespace Psutil.C08
open Psutil.Gen.C08

/-- `i`-th key the variable `var` is read from (empty = the source no longer has it) -/
def keyOf (tbl : List (String × List (List Nat))) (var : String) (i : Nat) : Bytes :=
  ((tbl.lookup var).getD []).getD i []

def missName (var : String) : String := (missingMap.lookup var).getD ""

def parseCfgOf (l : List Nat) : ParseCfg := ⟨l.getD 0 0, l.getD 1 0, l.getD 2 0⟩

/-- configuration of the model as extracted from the current source -/
def cfg : Cfg :=
  { vmParse := parseCfgOf vmParse
    kMemTotal := keyOf vmKeys "total" 0
    kMemFree := keyOf vmKeys "free" 0
    kBuffers := keyOf vmKeys "buffers" 0
    kCached := keyOf vmKeys "cached" 0
    kSReclaimable := keyOf vmKeys "cached" 1
    kShmem := keyOf vmKeys "shared" 0
    kMemShared := keyOf vmKeys "shared" 1
    kActive := keyOf vmKeys "active" 0
    kInactive := keyOf vmKeys "inactive" 0
    kInactDirty := keyOf vmKeys "inactive" 1
    kInactClean := keyOf vmKeys "inactive" 2
    kInactLaundry := keyOf vmKeys "inactive" 3
    kSlab := keyOf vmKeys "slab" 0
    kMemAvailable := keyOf vmKeys "avail" 0
    nBuffers := missName "buffers"
    nCached := missName "cached"
    nShared := missName "shared"
    nActive := missName "active"
    nInactive := missName "inactive"
    nAvailable := missName "avail"
    usedClamp := usedClamp
    zeroAvailFallsBack := zeroAvailFallsBack
    availClampLow := availClampLow
    availClampHigh := availClampHigh
    vmRound := vmRound
    caMemFree := keyOf caKeys "free" 0
    caCached := keyOf caKeys "fallback" 0
    caActiveFile := keyOf caKeys "lru_active_file" 0
    caInactiveFile := keyOf caKeys "lru_inactive_file" 0
    caSReclaimable := keyOf caKeys "slab_reclaimable" 0
    lowPrefix := lowPrefix
    lowIdx := lowIdx
    swParse := parseCfgOf swParse
    kSwapTotal := keyOf swKeys "total" 0
    kSwapFree := keyOf swKeys "free" 0
    swRound := swRound
    sinPrefix := sinPrefix
    sinIdx := sinIdxFactor.getD 0 0
    sinFactor := sinIdxFactor.getD 1 0
    soutPrefix := soutPrefix
    soutIdx := soutIdxFactor.getD 0 0
    soutFactor := soutIdxFactor.getD 1 0
    pctScale := pctScale
    svmemLayout := svmemFields.zip svmemArgs
    sswapLayout := sswapFields.zip sswapArgs
    sysCOrder := sysinfoCMembers
    sysUnpack := sysinfoUnpack
    sysTotalTimesUnit := sysinfoTimesUnit.contains "total"
    sysFreeTimesUnit := sysinfoTimesUnit.contains "free"
    primesTotalPhymem := phymemPrimed != ""
    phymemField := phymemPrimed
    memPercentUsesCache := memPercentTotalExpr == "_TOTAL_PHYMEM or virtual_memory().total" }

/-- shape facts that are not parameters of the model: the number of keys per variable (an extra
    or a dropped key changes the algorithm) and `watermark_low *= PAGESIZE` -/
def shapeOk : Bool :=
  (vmKeys.map fun p => (p.1, p.2.length)) ==
      [("total", 1), ("free", 1), ("buffers", 1), ("cached", 2), ("shared", 2), ("active", 1),
       ("inactive", 4), ("slab", 1), ("avail", 1)]
  && (caKeys.map fun p => (p.1, p.2.length)) ==
      [("free", 1), ("fallback", 1), ("lru_active_file", 1), ("lru_inactive_file", 1),
       ("slab_reclaimable", 1)]
  && (swKeys.map fun p => (p.1, p.2.length)) == [("total", 1), ("free", 1)]
  && missingMap.length == 6
  && wmTimesPagesize
  && svmemFields.length == svmemArgs.length && sswapFields.length == sswapArgs.length
  -- every slot of the native tuple is an unsigned C integer (`k` unsigned long, `I` unsigned int)
  && sysinfoCFormat == "(kkkkkkI)" && sysinfoTimesUnit == ["total", "free"]

end Psutil.C08
