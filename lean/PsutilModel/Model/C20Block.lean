/- Model/C20Block.lean — C20, seeded round 5 (C20-8): a `oneshot()` block as a HISTORY.

  Inside `with p.oneshot():` the platform `Process` object memoises its one-shot record getters
  (`memoize_when_activated`): the FIRST read of the block asks the OS, every later read of the same
  getter hands back that answer. The pid can change state between two calls of the block (alive →
  zombie → gone). The decorator's probe (`is_zombie` / `pid_exists`) that decides ZombieProcess vs
  NoSuchProcess therefore sees either the pid as it is NOW (it asks the OS afresh) or the pid as it
  was at the first record read of the block (it goes through a memoised source). Which one is a
  translator fact per platform module (`Gen.C20.probeStale`). -/
import PsutilModel.Model.C20Gen
namespace Psutil.C20

/-- one earlier call of the block that returned normally -/
structure Earlier where
  /-- it read a memoised one-shot record (measured on the run: a repeated call makes fewer native calls) -/
  readsRecord : Bool
  /-- what the pid was when it ran -/
  state : PidState
  deriving DecidableEq, Repr

/-- what a memoised record getter holds when the failing call runs: the pid as it was at the FIRST record
    read of the block; nothing before any read, nothing once `oneshot_exit()` dropped the caches -/
def cachedState (h : List Earlier) (exited : Bool) : Option PidState :=
  if exited then none else (h.find? (·.readsRecord)).map (·.state)

/-- the pid state the decorator's probe sees -/
def probeState (fresh : Bool) (h : List Earlier) (exited : Bool) (now : PidState) : PidState :=
  if fresh then now else (cachedState h exited).getD now

def blockEnv (fresh : Bool) (h : List Earlier) (exited : Bool) (env : Env) : Env :=
  { env with state := probeState fresh h exited env.state }

/-- outcome of `Process.<m>()` called after the history `h` inside one `oneshot()` block (or just after
    leaving it) when its native call `call` raises `e` and the pid is then in `env.state` -/
def blockFault (cfg : Cfg) (fresh : Family → Bool) (p : Platform) (m : Method) (call : String) (e : Err)
    (h : List Earlier) (exited : Bool) (env : Env) (persistent : Bool) : Outcome × Nat :=
  methodFault cfg p m call e (blockEnv (fresh p.family) h exited env) persistent

/-- process-wide memo the pid-0 LISTING question of OpenBSD `pids()` goes through ("does PID 0 answer?"):
    it is about PID 0, which never exits, not about the pid of the failing call -/
def pid0ListingMemo : List String := ["_pid_0_exists"]

/-- stale sources the module's probe can reach, as extracted -/
def probeStaleOf (f : Family) : List String := (Gen.C20.probeStale.lookup f.key).getD ["?"]

/-- the module's probe asks the OS afresh -/
def probeFreshOf (f : Family) : Bool :=
  (probeStaleOf f).all fun s => pid0ListingMemo.contains s

end Psutil.C20
