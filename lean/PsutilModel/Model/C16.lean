/-
  Model/C16.lean — sequential model of `Process.oneshot()`, `memoize_when_activated`
  (front end: `cpu_times`, `memory_info`, `ppid`, `uids`; Linux platform layer:
  `_parse_stat_file`, `_read_status_file`, `_read_smaps_file`) and `Process.as_dict()`.
  Import-free. Transcribes the code as it is:

    * the front-end object has ONE `_cache` attribute shared by all four decorated methods;
      every `cache_activate` rebinds it to a fresh dict, every `cache_deactivate` deletes it,
      a delete of a missing attribute raises AttributeError which `cache_deactivate` swallows;
    * the platform object has its own `_cache`, same mechanics;
    * `oneshot()` tests `hasattr(self, "_cache")` (front-end attribute) for nesting;
    * a failed read stores nothing;
    * probes that bypass the cache (`_is_zombie()` re-reading `stat`; `_raise_if_pid_reused()`
      building a fresh `Process(pid)` that reads `stat`) are counted separately in `probes`.

  The *content* of a source is abstracted to a version number (what the bytes decode to is the
  business of C06/C13); a returned value is the list of contents it was computed from.
-/
namespace Psutil.C16

/-- per-process sources (files under /proc/<pid>/) -/
inductive Src | stat | status | smaps | statm | cmdline | io | rollup
  deriving DecidableEq, Repr

/-- the front-end methods that carry `@memoize_when_activated` -/
inductive FFun | cpuTimes | memoryInfo | ppid | uids
  deriving DecidableEq, Repr

inductive PState | alive | zombie | gone
  deriving DecidableEq, Repr

/-- what one successful read delivers: the file's content (version `v`) or an empty file
    (smaps / cmdline of a zombie) -/
inductive Content | data (v : Nat) | empty
  deriving DecidableEq, Repr

inductive Exc | accessDenied | noSuchProcess | zombieProcess | notImplemented
  deriving DecidableEq, Repr

abbrev Val := List Content

/-- the simulated kernel side of one process -/
structure World where
  ver : Src → Nat
  denied : Src → Bool       -- open() fails with EACCES for this file
  st : PState
  absent : Src → Bool := fun _ => false
                            -- the file does not exist although the process does (open() fails with ENOENT): only
                            -- `smaps_rollup` (kernels before 4.14 / the "weird" PIDs of `_parse_smaps_rollup`'s comment)

def World.init : World := ⟨fun _ => 1, fun _ => false, .alive, fun _ => false⟩

/-- files that exist but are empty for a zombie (measured on the sandbox kernel, DESIGN A.8) -/
def emptiesOnZombie : Src → Bool
  | .smaps | .cmdline => true
  | _ => false

/-- outcome of opening+reading /proc/<pid>/<s> through a `@wrap_exceptions` method:
    whole directory gone → ENOENT → NoSuchProcess; EACCES → AccessDenied -/
def World.read (w : World) (s : Src) : Except Exc Content :=
  match w.st with
  | .gone => .error .noSuchProcess
  | .zombie =>
    if w.denied s then .error .accessDenied
    else if emptiesOnZombie s then .ok .empty else .ok (.data (w.ver s))
  | .alive => if w.denied s then .error .accessDenied else .ok (.data (w.ver s))

/-- one public method, as extracted by the translator -/
structure Meth where
  name : String
  front : Option FFun     -- goes through this front-end memoised function
  guard : Bool            -- front end calls `_raise_if_pid_reused()` first
  goneCheck : Bool        -- … and that guard raises NoSuchProcess once is_running() has seen the process gone
  srcs : List Src         -- reads of the platform method, in order
  zprobe : Bool           -- `if not data: self._raise_if_zombie()`
  alt : Option Src := none
                          -- `try: <read alt> except (ProcessLookupError, FileNotFoundError): <read srcs[0]>`
                          -- (memory_full_info: smaps_rollup first, smaps as the fallback)
  deriving DecidableEq, Repr

/-- the files the platform method reads in THIS world, in order: the tried-first file replaces the head of `srcs`
    when it can be opened; ENOENT (kernel without the file) and ESRCH (a zombie has no mm; a gone process has no
    directory) send the method to its fallback -/
def Meth.eff (m : Meth) (w : World) : List Src :=
  match m.alt with
  | some a => if w.absent a || w.st != PState.alive then m.srcs else a :: m.srcs.tail
  | none => m.srcs

/-- facts re-derived from the source by the translator -/
structure Cfg where
  meths : List Meth
  memoProc : List Src            -- platform helpers carrying `@memoize_when_activated`
  memoFront : List FFun          -- front-end methods carrying it
  frontActivate : List FFun      -- `cache_activate` calls in oneshot(), in order
  frontDeactivate : List FFun
  procActivate : List Src        -- oneshot_enter()
  procDeactivate : List Src      -- oneshot_exit()
  nestedTest : Bool              -- `if hasattr(self, "_cache"): yield` (nested block is a no-op)
  exitInFinally : Bool           -- the deactivations sit in a `finally`
  delSwallows : Bool             -- cache_deactivate swallows AttributeError
  validNames : List String       -- _as_dict_attrnames
  validatesFirst : Bool          -- as_dict checks type and names before `with self.oneshot()`
  adCatches : List Exc           -- classes as_dict replaces by ad_value
  notImplSkips : Bool            -- NotImplementedError: re-raised only `if attrs`
  emptyMeansAll : Bool           -- `ls = attrs or valid_names`

structure St where
  cache : Option (List (FFun × Val))       -- front-end `_cache` attribute (absent = none)
  pcache : Option (List (Src × Content))   -- platform `_cache` attribute; key = helper ≙ its source
  stack : List Bool                         -- open `with p.oneshot()` levels; true = the activating one
  reads : Src → Nat                         -- successful reads by this object's read routines
  probes : Nat                              -- successful `stat` reads that bypass the cache

def St.init : St := ⟨none, none, [], fun _ => 0, 0⟩

def bump (r : Src → Nat) (s : Src) : Src → Nat := fun x => if x = s then r x + 1 else r x

/-- the body of a platform read routine -/
def rawRead (st : St) (w : World) (s : Src) : St × Except Exc Content :=
  match w.read s with
  | .ok c => ({ st with reads := bump st.reads s }, .ok c)
  | .error e => (st, .error e)

/-- `memoize_when_activated.wrapper` around a platform helper -/
def helper (cfg : Cfg) (st : St) (w : World) (s : Src) : St × Except Exc Content :=
  if cfg.memoProc.contains s then
    match st.pcache with
    | none => rawRead st w s                                   -- case 2 (AttributeError)
    | some d =>
      match d.lookup s with
      | some c => (st, .ok c)                                  -- case 1
      | none =>                                                -- case 3 (KeyError)
        match rawRead st w s with
        | (st', .ok c) => ({ st' with pcache := some ((s, c) :: d) }, .ok c)
        | (st', .error e) => (st', .error e)                   -- nothing stored
  else rawRead st w s

def readAll (cfg : Cfg) (w : World) : St → List Src → St × Except Exc Val
  | st, [] => (st, .ok [])
  | st, s :: rest =>
    match helper cfg st w s with
    | (st1, .ok c) =>
      match readAll cfg w st1 rest with
      | (st2, .ok cs) => (st2, .ok (c :: cs))
      | (st2, .error e) => (st2, .error e)
    | (st1, .error e) => (st1, .error e)

/-- `_is_zombie()`: reads `stat` with `bcat`, never through the cache -/
def zombieProbe (st : St) (w : World) : St × Bool :=
  match w.st with
  | .gone => (st, false)
  | .zombie => ({ st with probes := st.probes + 1 }, true)
  | .alive => ({ st with probes := st.probes + 1 }, false)

/-- the platform method -/
def platCall (cfg : Cfg) (m : Meth) (st : St) (w : World) : St × Except Exc Val :=
  match readAll cfg w st (m.eff w) with
  | (st1, .ok cs) =>
    if m.zprobe && cs.head? == some Content.empty then
      match zombieProbe st1 w with
      | (st2, true) => (st2, .error .zombieProcess)
      | (st2, false) => (st2, .ok cs)
    else (st1, .ok cs)
  | (st1, .error e) => (st1, .error e)

/-- `_raise_if_pid_reused()` → `is_running()` → `Process(self.pid)`: a fresh object reads `stat`
    (PID reuse itself is out of scope here: C01/C02) -/
def guardProbe (st : St) (w : World) : St :=
  match w.st with
  | .gone => st
  | _ => { st with probes := st.probes + 1 }

def frontBody (cfg : Cfg) (m : Meth) (st : St) (w : World) : St × Except Exc Val :=
  platCall cfg m (if m.guard then guardProbe st w else st) w

/-- the body of the front-end method: `_raise_if_pid_reused()` refuses a process that
    `is_running()` has seen gone (`if self._gone: raise NoSuchProcess`), then the platform call -/
def frontGuarded (cfg : Cfg) (m : Meth) (st : St) (w : World) : St × Except Exc Val :=
  if m.goneCheck && w.st == PState.gone then (st, .error .noSuchProcess)
  else frontBody cfg m st w

/-- a public call `p.<m>()` -/
def call (cfg : Cfg) (m : Meth) (st : St) (w : World) : St × Except Exc Val :=
  match m.front with
  | none => frontGuarded cfg m st w
  | some f =>
    if cfg.memoFront.contains f then
      match st.cache with
      | none => frontGuarded cfg m st w                           -- case 2
      | some d =>
        match d.lookup f with
        | some v => (st, .ok v)                                -- case 1
        | none =>                                              -- case 3
          match frontGuarded cfg m st w with
          | (st', .ok v) => ({ st' with cache := some ((f, v) :: d) }, .ok v)
          | (st', .error e) => (st', .error e)
    else frontGuarded cfg m st w

/-- the activation half of `oneshot()` -/
def activate (cfg : Cfg) (st : St) : St :=
  let st := cfg.frontActivate.foldl (fun st _ => { st with cache := some [] }) st
  cfg.procActivate.foldl (fun st _ => { st with pcache := some [] }) st

/-- one `cache_deactivate(obj)`: `del obj._cache`; returns false when an AttributeError escapes -/
def delFront (cfg : Cfg) (acc : St × Bool) : St × Bool :=
  match acc.1.cache with
  | some _ => ({ acc.1 with cache := none }, acc.2)
  | none => (acc.1, acc.2 && cfg.delSwallows)

def delProc (cfg : Cfg) (acc : St × Bool) : St × Bool :=
  match acc.1.pcache with
  | some _ => ({ acc.1 with pcache := none }, acc.2)
  | none => (acc.1, acc.2 && cfg.delSwallows)

def deactivate (cfg : Cfg) (st : St) : St × Bool :=
  let a := cfg.frontDeactivate.foldl (fun a _ => delFront cfg a) (st, true)
  cfg.procDeactivate.foldl (fun a _ => delProc cfg a) a

def enter (cfg : Cfg) (st : St) : St :=
  if cfg.nestedTest && st.cache.isSome then { st with stack := false :: st.stack }
  else { activate cfg st with stack := true :: st.stack }

/-- leaving one `with` level; `byExc` = an exception is propagating out of the body -/
def exit (cfg : Cfg) (st : St) (byExc : Bool) : St × Bool :=
  match st.stack with
  | [] => (st, true)
  | false :: rest => ({ st with stack := rest }, true)
  | true :: rest =>
    if byExc && !cfg.exitInFinally then ({ st with stack := rest }, true)
    else
      let (st', ok) := deactivate cfg st
      ({ st' with stack := rest }, ok)

/- ------------------------------------------------------------------ as_dict -/

inductive AttrsKind | none | nonCollection | names
  deriving DecidableEq, Repr

/-- scripted outcome of a name the model does not interpret (nice, exe, …) -/
inductive EnvOut | ok | ad | zombie | nsp | notimpl
  deriving DecidableEq, Repr

inductive DVal | val (v : Val) | opaque | adValue
  deriving DecidableEq, Repr

inductive DOut
  | typeError | valueError | raised (e : Exc) | dict (kvs : List (String × DVal))
  deriving DecidableEq, Repr

structure AsDictArg where
  kind : AttrsKind
  attrs : List String          -- iteration order of `set(attrs)` (kind = names)
  allOrder : List String       -- iteration order of `_as_dict_attrnames`
  env : List (String × EnvOut) -- scripted outcomes of un-modelled names (default ok)

def envOut (env : List (String × EnvOut)) (n : String) : Except Exc DVal :=
  match env.lookup n with
  | some .ad => .error .accessDenied
  | some .zombie => .error .zombieProcess
  | some .nsp => .error .noSuchProcess
  | some .notimpl => .error .notImplemented
  | _ => .ok .opaque

def findMeth (cfg : Cfg) (n : String) : Option Meth := cfg.meths.find? (fun m => m.name == n)

/-- `ret = self.pid` / `getattr(self, name)()` -/
def evalName (cfg : Cfg) (env : List (String × EnvOut)) (st : St) (w : World) (n : String) :
    St × Except Exc DVal :=
  if n == "pid" then (st, .ok .opaque)
  else match findMeth cfg n with
    | some m =>
      match call cfg m st w with
      | (st', .ok v) => (st', .ok (.val v))
      | (st', .error e) => (st', .error e)
    | none => (st, envOut env n)

def asDictLoop (cfg : Cfg) (env : List (String × EnvOut)) (explicit : Bool) (w : World) :
    St → List String → List (String × DVal) → St × DOut
  | st, [], acc => (st, .dict acc.reverse)
  | st, n :: rest, acc =>
    match evalName cfg env st w n with
    | (st1, .ok v) => asDictLoop cfg env explicit w st1 rest ((n, v) :: acc)
    | (st1, .error e) =>
      if cfg.adCatches.contains e then asDictLoop cfg env explicit w st1 rest ((n, .adValue) :: acc)
      else if e = .notImplemented && cfg.notImplSkips && !explicit then
        asDictLoop cfg env explicit w st1 rest acc
      else (st1, .raised e)

def invalidNames (cfg : Cfg) (a : AsDictArg) : Bool :=
  a.attrs.any fun n => !cfg.validNames.contains n

/-- the oneshot-wrapped loop of as_dict -/
def asDictBody (cfg : Cfg) (a : AsDictArg) (st : St) (w : World) : St × DOut :=
  let explicit := a.kind = .names && !a.attrs.isEmpty      -- truthiness of `attrs`
  let ls := if a.kind = .names && !(cfg.emptyMeansAll && a.attrs.isEmpty) then a.attrs else a.allOrder
  let st1 := enter cfg st
  let (st2, out) := asDictLoop cfg a.env explicit w st1 ls []
  let byExc := match out with | .raised _ => true | _ => false
  ((exit cfg st2 byExc).1, out)

def asDict (cfg : Cfg) (a : AsDictArg) (st : St) (w : World) : St × DOut :=
  if cfg.validatesFirst then
    match a.kind with
    | .nonCollection => (st, .typeError)
    | .names => if invalidNames cfg a then (st, .valueError) else asDictBody cfg a st w
    | .none => asDictBody cfg a st w
  else
    -- validation after the block was entered and the attributes queried (hypothetical reordering)
    let (st', out) := asDictBody cfg { a with attrs := a.attrs.filter cfg.validNames.contains } st w
    match a.kind with
    | .nonCollection => (st', .typeError)
    | .names => if invalidNames cfg a then (st', .valueError) else (st', out)
    | .none => (st', out)

/- ------------------------------------------------------------------ histories -/

inductive Op
  | enter
  | exit (byExc : Bool)
  | call (i : Nat)                 -- index into cfg.meths
  | setVer (s : Src) (v : Nat)
  | setDenied (s : Src) (b : Bool)
  | setState (p : PState)
  | asDict (a : AsDictArg)
  | setAbsent (s : Src) (b : Bool)   -- the kernel offers / does not offer this file (only smaps_rollup)

inductive Out
  | unit
  | ret (r : Except Exc Val)
  | dict (d : DOut)
  | attributeError                 -- AttributeError escaping `oneshot().__exit__`
  | badIndex

structure Sys where
  st : St
  w : World

def Sys.init : Sys := ⟨St.init, World.init⟩

/-- world changes. Assumptions of the world model: `stat` is always readable (mode 0444),
    a gone process never comes back (PID reuse: C01/C02), a zombie never revives; the only file that may be
    missing for a live process is smaps_rollup. -/
def worldStep (w : World) : Op → World
  | .setVer s v => { w with ver := fun x => if x = s then v else w.ver x }
  | .setDenied s b => if s = .stat then w else { w with denied := fun x => if x = s then b else w.denied x }
  | .setState p =>
    match w.st, p with
    | .gone, _ => w
    | .zombie, .alive => w
    | _, p => { w with st := p }
  | .setAbsent s b => if s = .rollup then { w with absent := fun x => if x = s then b else w.absent x } else w
  | _ => w

def step (cfg : Cfg) (y : Sys) : Op → Sys × Out
  | .enter => (⟨enter cfg y.st, y.w⟩, .unit)
  | .exit b =>
    let (st', ok) := exit cfg y.st b
    (⟨st', y.w⟩, if ok then .unit else .attributeError)
  | .call i =>
    match cfg.meths[i]? with
    | none => (y, .badIndex)
    | some m =>
      let (st', r) := call cfg m y.st y.w
      (⟨st', y.w⟩, .ret r)
  | .asDict a =>
    let (st', d) := asDict cfg a y.st y.w
    (⟨st', y.w⟩, .dict d)
  | op => (⟨y.st, worldStep y.w op⟩, .unit)

def runAll (cfg : Cfg) (y : Sys) : List Op → Sys
  | [] => y
  | op :: ops => runAll cfg (step cfg y op).1 ops

end Psutil.C16
