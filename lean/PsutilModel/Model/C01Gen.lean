/- Model/C01Gen.lean — the C01 model instantiated with the facts the translator extracted. -/
import PsutilModel.Model.C01
import PsutilModel.Model.C01Stat
import PsutilModel.Generated.C01
namespace Psutil.C01

/-- the five methods that go through `_send_signal` -/
def signalMethods : List String := ["send_signal", "suspend", "resume", "terminate", "kill"]

/-- configuration of the model as extracted from the current source -/
def cfg : Cfg :=
  { clk := Gen.C01.clockTicks
    goneRaises := Gen.C01.goneRaises
    bootWriteOnce := Gen.C01.bootWriteOnce && Gen.C01.bootStoresElsewhere.isEmpty
    createUsesCache := Gen.C01.createBoot == "or" || Gen.C01.createBoot == "isNotNone"
    createNoneTest := Gen.C01.createBoot == "isNotNone"
    guardSignal := signalMethods.all Gen.C01.guardedMethods.contains
    guardNice := Gen.C01.guardedMethods.contains "nice"
    guardIonice := Gen.C01.guardedMethods.contains "ionice"
    guardRlimit := Gen.C01.guardedMethods.contains "rlimit"
    guardAffinity := Gen.C01.guardedMethods.contains "cpu_affinity"
    guardPpid := Gen.C01.guardedMethods.contains "ppid"
    pid0Refused := Gen.C01.pid0Refused
    negRejected := Gen.C01.negRejectedPy || Gen.C01.negRejectedC
    rlimitPid0Refused := Gen.C01.rlimitPid0Refused
    sigStop := (Gen.C01.signalMap.lookup "suspend").getD 0
    sigCont := (Gen.C01.signalMap.lookup "resume").getD 0
    sigTerm := (Gen.C01.signalMap.lookup "terminate").getD 0
    sigKill := (Gen.C01.signalMap.lookup "kill").getD 0
    ioNoValue := Gen.C01.ioNoValue
    affinityAll := Gen.C01.affinityResetMask }

/-- the reader of `/proc/<pid>/stat` exactly as the translator extracted it (obligation `scfg_good`, Props/C01.lean) -/
def scfgRaw : StatCfg :=
  { search := if Gen.C01.statSearch == "find" then .find else .rfind
    needle := Gen.C01.statNeedle
    skip := Gen.C01.statSkip
    ctimeIdx := Gen.C01.statCtimeIdx
    statusIdx := Gen.C01.statStatusIdx }

/-- the reader every shape fact of which was recognised (`rfind`/`find` of a byte string, whitespace split, the
    stat record's 'create_time' divided by CLOCK_TICKS) -/
def scfgRecognised : Bool :=
  (Gen.C01.statSearch == "rfind" || Gen.C01.statSearch == "find") && Gen.C01.statSplit == "ws"
    && Gen.C01.createReads == "float(create_time)/CLOCK_TICKS"

/-- baseline reader: last `)`, two bytes further, field 19 = starttime, field 0 = state -/
def scfgBaseline : StatCfg := ⟨.rfind, [41], 2, 19, 0⟩

/-- the reader the DRIVER runs: the extracted one; when the translator did not recognise the shape, the baseline
    reader (so that the specification side still follows the objects and a concrete failing input can be named —
    the theorems' obligation `scfg_good` is on the raw facts and fails in that case) -/
def scfg : StatCfg := if scfgRecognised then scfgRaw else scfgBaseline

end Psutil.C01
