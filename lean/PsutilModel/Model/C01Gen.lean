/- Model/C01Gen.lean — the C01 model instantiated with the facts the translator extracted. -/
import PsutilModel.Model.C01
import PsutilModel.Generated.C01
namespace Psutil.C01

/-- the five methods that go through `_send_signal` -/
def signalMethods : List String := ["send_signal", "suspend", "resume", "terminate", "kill"]

/-- configuration of the model as extracted from the current source -/
def cfg : Cfg :=
  { clk := Gen.C01.clockTicks
    goneRaises := Gen.C01.goneRaises
    bootWriteOnce := Gen.C01.bootWriteOnce && Gen.C01.bootStoresElsewhere.isEmpty
    createUsesCache := Gen.C01.createBoot == "or" || Gen.C01.createBoot == "isNotNone"
    createNoneTest := Gen.C01.createBoot == "isNotNone"
    guardSignal := signalMethods.all Gen.C01.guardedMethods.contains
    guardNice := Gen.C01.guardedMethods.contains "nice"
    guardIonice := Gen.C01.guardedMethods.contains "ionice"
    guardRlimit := Gen.C01.guardedMethods.contains "rlimit"
    guardAffinity := Gen.C01.guardedMethods.contains "cpu_affinity"
    guardPpid := Gen.C01.guardedMethods.contains "ppid"
    pid0Refused := Gen.C01.pid0Refused
    negRejected := Gen.C01.negRejectedPy || Gen.C01.negRejectedC
    rlimitPid0Refused := Gen.C01.rlimitPid0Refused
    sigStop := (Gen.C01.signalMap.lookup "suspend").getD 0
    sigCont := (Gen.C01.signalMap.lookup "resume").getD 0
    sigTerm := (Gen.C01.signalMap.lookup "terminate").getD 0
    sigKill := (Gen.C01.signalMap.lookup "kill").getD 0
    ioNoValue := Gen.C01.ioNoValue
    affinityAll := Gen.C01.affinityResetMask }

end Psutil.C01
