/- Model/C16RecGen.lean — the record-object model instantiated with the facts the translator extracted
   (`statParse`, `recConsumers`, `recRoutes`, `helperReturns`). A row the translator could not describe carries a
   token starting with `?`; it is dropped here and the completeness clauses of `rcfgGood` then fail. -/
import PsutilModel.Model.C16Rec
import PsutilModel.Generated.C16
namespace Psutil.C16.Rec

def parseShort (s : String) (d : Nat) : Option Short :=
  if s = "fail" then some .fail else if s = "default" then some (.dflt d) else if s = "omit" then some .omit else none

def parsePField (r : String × Nat × String × Nat) : Option PField :=
  (parseShort r.2.2.1 r.2.2.2).map fun sh => ⟨r.1, r.2.1, sh⟩

def parseUse (u : String × String × Nat) : Option Use :=
  let (kind, k, n) := u
  if kind = "read" then some (.read k) else if kind = "readOr" then some (.readOr k n)
  else if kind = "take" then some (.take k) else if kind = "takeOr" then some (.takeOr k n)
  else if kind = "drop" then some (.drop k) else if kind = "put" then some (.put k n)
  else if kind = "wipe" then some .wipe else none

def parseConsumer (r : String × List (String × String × Nat)) : Option Consumer :=
  (r.2.mapM parseUse).map fun us => ⟨r.1, us⟩

def parseRoute (r : String × String × Bool) : Route := ⟨r.1, r.2.1, r.2.2⟩

/-- the record-object model as extracted from the current source -/
def rcfg : RCfg :=
  { fields := Gen.C16.statParse.filterMap parsePField
    consumers := Gen.C16.recConsumers.filterMap parseConsumer
    routes := Gen.C16.recRoutes.map parseRoute }

/-- the obligation the translator's facts must meet for the theorems about records to speak about the code:
    every row was understood, the only mutable object a memoised helper hands out is the dict of `stat` (bytes are
    immutable), the parser's keys are distinct, every route's platform method is a described consumer, and NO
    consumer changes the dict it is handed -/
def rcfgGood : Bool :=
  (rcfg.fields.length == Gen.C16.statParse.length)
  && (rcfg.consumers.length == Gen.C16.recConsumers.length)
  && Gen.C16.helperReturns.all (fun p => p.2 == "bytes" || (p.2 == "dict" && p.1 == "stat"))
  && Gen.C16.helperReturns.any (fun p => p.1 == "stat" && p.2 == "dict")
  && decide (rcfg.fields.map (·.key)).Nodup
  && rcfg.routes.all (fun r => rcfg.consumers.any (fun x => x.name == r.consumer))
  && !rcfg.routes.isEmpty
  && rcfg.consumers.all (fun x => x.uses.all Use.pure)

end Psutil.C16.Rec
