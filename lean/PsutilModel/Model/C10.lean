/-
  Model/C10.lean — transcription of `_common._WrapNumbers.run/cache_clear` and of the
  `nowrap` handling in `psutil.disk_io_counters()` / `psutil.net_io_counters()`.
  Import-free.
-/
import PsutilModel.Base.Bytes
namespace Psutil.C10

abbrev Key := String
/-- one raw snapshot: device ↦ counter tuple (dict in insertion order) -/
abbrev Raw := List (Key × List Nat)

def tupleAt (t : List Nat) (i : Nat) : Nat := t.getD i 0

/-- per-`name` state of `_WrapNumbers`: `cache[name]` (absent = `none`) and the reminders.
    `reminders[name]` is a `defaultdict(int)` keyed by `(key, i)`; `reminder_keys[name]` only
    records which of its entries to delete for a vanished key, so the pair is modelled as a
    total function (0 = absent). -/
structure WN where
  cache : Option Raw
  rem : Key → Nat → Nat

def WN.init : WN := ⟨none, fun _ _ => 0⟩

/-- configuration facts re-derived from the source by the translator -/
structure Cfg where
  emptyFeedsWrap : Bool
  strictLess : Bool
  namesDistinct : Bool      -- the two front ends use two different `name`s, each clearing its own
  /-- `disk_io_counters(perdisk=True)` passes its own `name` (≠ the one of the system-wide form) -/
  formsSeparate : Bool := false
  /-- `disk_io_counters.cache_clear()` also clears the per-disk `name` -/
  clearPer : Bool := false
  /-- Linux: the front end forwards `perdisk` and the platform layer leaves out every device that
      is not a whole disk when `perdisk=False` -/
  linuxFilter : Bool := true
  /-- `wrap_numbers` calls `_wn.run` inside `with _wn.lock` (and nothing else calls `run`) -/
  lockedRun : Bool := true
  /-- the bodies of `cache_clear` / `cache_info` are entirely inside `with self.lock` -/
  lockedClear : Bool := true
  /-- the only update of `reminder_keys[name][key]` in `run` is `.add(remkey)` next to
      `reminders[name][remkey] += old_value` (used by the concrete-dict model, Model/C10Dict) -/
  rkAccumulate : Bool := true
  /-- when `nowrap` is true the front ends call the platform function AND `wrap_numbers` inside one
      `with <module-level lock>:` (fixes/C10-sample-under-lock): the raw sample is taken under a lock
      (used by the lock model, Model/C10Conc) -/
  sampleUnderLock : Bool := false

def wrapped (cfg : Cfg) (new old : Nat) : Bool :=
  if cfg.strictLess then decide (new < old) else decide (new ≤ old)

/-- `_remove_dead_reminders` followed by the main loop of `run`, when `name` is cached. -/
def remAfter (cfg : Cfg) (old input : Raw) (rem : Key → Nat → Nat) : Key → Nat → Nat :=
  fun k i =>
    match input.lookup k, old.lookup k with
    | some v, some o => if wrapped cfg (tupleAt v i) (tupleAt o i) then rem k i + tupleAt o i else rem k i
    | none, some _ => 0          -- gone key: its reminders are deleted
    | _, none => rem k i

def outOf (old input : Raw) (rem' : Key → Nat → Nat) : Raw :=
  input.map fun kv =>
    match old.lookup kv.1 with
    | none => kv                                         -- new key: raw tuple
    | some _ => (kv.1, kv.2.mapIdx fun i x => x + rem' kv.1 i)

/-- does `old_tuple[i]` raise IndexError for some key (old tuple shorter than the new one)? -/
def widthMismatch (old input : Raw) : Bool :=
  input.any fun kv => match old.lookup kv.1 with
    | none => false
    | some o => decide (o.length < kv.2.length)

/-- `_WrapNumbers.run(input_dict, name)` -/
def run (cfg : Cfg) (wn : WN) (input : Raw) : WN × Raw :=
  match wn.cache with
  | none => (⟨some input, fun _ _ => 0⟩, input)
  | some old =>
    let rem' := remAfter cfg old input wn.rem
    (⟨some input, rem'⟩, outOf old input rem')

/-- cache slot = the `name` handed to `wrap_numbers`. `diskPer` is the separate slot of
    `disk_io_counters(perdisk=True)`; it is used only when `Cfg.formsSeparate` (see Model/C10Front). -/
inductive Name | disk | net | diskPer
  deriving DecidableEq, Repr

inductive Op
  | call (name : Name) (nowrap : Bool) (raw : Raw)
  | clear (name : Name)          -- psutil.<fn>.cache_clear()
  | clearAll                     -- _common.wrap_numbers.cache_clear() (internal)
  deriving DecidableEq

inductive Out
  | none                         -- `{}` (per-device form; at the level of `step`: nothing listed)
  | dict (r : Raw)
  | indexError
  | unit
  | nil                          -- `None` (system-wide form, nothing listed) — produced by Model/C10Front
  | total (fields : List Nat)    -- system-wide namedtuple — produced by Model/C10Front
  deriving DecidableEq, Repr

structure St where
  disk : WN
  net : WN
  diskPer : WN

def St.init : St := ⟨WN.init, WN.init, WN.init⟩

def St.get (s : St) : Name → WN
  | .disk => s.disk
  | .net => s.net
  | .diskPer => s.diskPer

def St.set (s : St) (n : Name) (w : WN) : St :=
  match n with
  | .disk => { s with disk := w }
  | .net => { s with net := w }
  | .diskPer => { s with diskPer := w }

/-- which cache slot a front end really uses: with `namesDistinct = false` both share one -/
def slot (cfg : Cfg) (n : Name) : Name := if cfg.namesDistinct then n else .disk

def step (cfg : Cfg) (s : St) : Op → St × Out
  | .call n nowrap raw =>
    if raw.isEmpty && !(cfg.emptyFeedsWrap && nowrap) then (s, .none)
    else if nowrap then
      let w := s.get (slot cfg n)
      match w.cache with
      | some old =>
        if widthMismatch old raw then (s, .indexError)
        else
          let (w', out) := run cfg w raw
          (s.set (slot cfg n) w', if raw.isEmpty then .none else .dict out)
      | none =>
        let (w', out) := run cfg w raw
        (s.set (slot cfg n) w', if raw.isEmpty then .none else .dict out)
    else (s, .dict raw)
  | .clear n => (s.set (slot cfg n) WN.init, .unit)
  | .clearAll => (St.init, .unit)

def runAll (cfg : Cfg) (s : St) : List Op → St
  | [] => s
  | op :: ops => runAll cfg (step cfg s op).1 ops

end Psutil.C10
