/-
  Model/C06Api.lean — vocabulary shared by the model and the specification of C06 HISTORIES:
  the names of the public getters and the events of a history on ONE `Process` object.
  No algorithm and no values in here (imported by Model/C06Hist.lean and Spec/C06Hist.lean).
-/
import PsutilModel.Base.Bytes
namespace Psutil.C06

/-- the getters of the property whose value comes from `/proc/<pid>/stat` or `/proc/<pid>/status` and may
    change while the process lives (`create_time()` is constant for a process; `threads()` reads other files) -/
inductive Getter
  | name | ppid | status | cpuTimes | cpuNum | terminal | uids | gids | numThreads | numCtxSwitches
  deriving DecidableEq, Repr

/-- One step of a history on one `Process` object. `W` = what the kernel publishes for the process
    (records in the specification, file contents in the model).
    * `publish w` — from now on the kernel publishes `w`;
    * `get g` — the getter is called (observed);
    * `enter` — a `with p.oneshot():` block is entered (blocks nest);
    * `leave exc` — the innermost open block is left, normally (`false`) or by an exception that
      propagates out of the block (`true`: AccessDenied from some other getter, an error of the
      caller's own code, KeyboardInterrupt, …). -/
inductive Ev (W : Type)
  | publish (w : W)
  | get (g : Getter)
  | enter
  | leave (exc : Bool)

def Ev.map {W W' : Type} (f : W → W') : Ev W → Ev W'
  | .publish w => .publish (f w)
  | .get g => .get g
  | .enter => .enter
  | .leave x => .leave x

end Psutil.C06
