/-
  Model/C17R3.lean — round 3 (audit-driven) additions to the C17 model.

    §20 psutil_net_if_addrs when getifaddrs() FAILS   (_psutil_posix.c: `if (getifaddrs(&ifaddr) == -1) { …; goto error; }`,
                                                       `error: if (ifaddr != NULL) freeifaddrs(ifaddr);`)
    §21 messages formatted into fixed char locals      (_psutil_common.c: psutil_PyErr_SetFromOSErrnoWithSyscall / NoSuchProcess /
                                                       AccessDenied: `sprintf(buf, "… %s …", …)`)
    §23 disk_partitions() end to end                   (_pslinux.disk_partitions over cext.disk_partitions over getmntent)

  Conventions as in Model/C17.lean: facts are configuration fields; what C leaves undefined is a constructor.
-/
import PsutilModel.Model.C17Ext
namespace Psutil.C17

/-! ## §20 getifaddrs() failing -/

/-- what `getifaddrs(&ifaddr)` did.  On failure getifaddrs(3) says nothing about `*ifap`: glibc stores NULL
    before anything can fail (`storesNull = true`), musl leaves the caller's variable untouched -/
inductive GiaAns
  | fail (errno : Nat) (storesNull : Bool)
  | ok (es : List IfEntry)
  deriving Repr

inductive NifOut
  | rows (r : List (List Val))
  | osError (errno : Nat)
  /-- `freeifaddrs()` of an indeterminate pointer -/
  | ub
  deriving DecidableEq, Repr

structure NFail where
  /-- `ifaddr` holds NULL when getifaddrs() is called -/
  ifaddrInit : Bool

/-- `psutil_net_if_addrs`: a failing getifaddrs() sets OSError from errno and jumps to `error:`, where
    `ifaddr` is freed unless it is NULL — its value is NULL only if the code or libc put NULL there -/
def netIfAddrsC (f : NFail) (cfg : NCfg) (mac : MCfg) : GiaAns → NifOut
  | .ok es => .rows (ifRows cfg mac es)
  | .fail e storesNull => if f.ifaddrInit || storesNull then .osError e else .ub

/-! ## §21 `sprintf(buf, fmt, …)` with `%s` directives into a fixed char array -/

inductive Piece
  | lit (b : List Char)
  | str
  deriving DecidableEq, Repr

/-- the format split at its `%s` directives; `none` = it contains another `%` directive (then nothing is claimed) -/
def parseFmt : List Char → Option (List Piece)
  | [] => some []
  | '%' :: 's' :: r => (parseFmt r).map (Piece.str :: ·)
  | '%' :: _ => none
  | c :: r =>
    match parseFmt r with
    | none => none
    | some (.lit b :: ps) => some (.lit (c :: b) :: ps)
    | some ps => some (.lit [c] :: ps)

/-- the characters `sprintf` stores before the terminating NUL (a missing argument is undefined in C: the
    obligation requires as many arguments as directives) -/
def renderPieces : List Piece → List (List Char) → List Char
  | [], _ => []
  | .lit b :: ps, as => b ++ renderPieces ps as
  | .str :: ps, a :: as => a ++ renderPieces ps as
  | .str :: ps, [] => renderPieces ps []

def boundPieces : List Piece → List Nat → Nat
  | [], _ => 0
  | .lit b :: ps, bs => b.length + boundPieces ps bs
  | .str :: ps, b :: bs => b + boundPieces ps bs
  | .str :: ps, [] => boundPieces ps []

def countStr (ps : List Piece) : Nat := (ps.filter (· == .str)).length

/-- longest text each argument expression of the helpers can stand for: `strerror(errno)` — the longest
    message of the platform libc (measured); `syscall` — the longest string literal any caller passes -/
def argBound (maxStrerror maxLit : Nat) (a : String) : Option Nat :=
  if a = "strerror(errno)" then some maxStrerror else if a = "syscall" then some maxLit else none

def argBounds (maxStrerror maxLit : Nat) : List String → Option (List Nat)
  | [] => some []
  | a :: r =>
    match argBound maxStrerror maxLit a, argBounds maxStrerror maxLit r with
    | some b, some bs => some (b :: bs)
    | _, _ => none

/-- one `sprintf` into a char local of `size` bytes cannot overflow it (NUL included) -/
def helperFits (maxStrerror maxLit : Nat) (h : String × Nat × String × List String) : Bool :=
  match parseFmt h.2.2.1.toList, argBounds maxStrerror maxLit h.2.2.2 with
  | some ps, some bs => countStr ps == bs.length && decide (boundPieces ps bs + 1 ≤ h.2.1)
  | _, _ => false

/-- a call site of a helper: (caller, callee, argument, is a string literal, its length, call sites of the caller) -/
abbrev MsgSite := String × String × String × Bool × Nat × Nat

def maxLitLen (sites : List MsgSite) : Nat := (sites.map (fun s => if s.2.2.2.1 then s.2.2.2.2.1 else 0)).foldl max 0

/-- the argument is a string literal, or the call is dead code in the Linux build -/
def siteOk (s : MsgSite) : Bool := s.2.2.2.1 || s.2.2.2.2.2 == 0

/-! ## §23 disk_partitions(): /proc/filesystems text + mounts lines → rows -/

inductive PartOut
  | rows (r : List Mnt)
  /-- `line.split("\t")[1]` on a nodev line without TAB -/
  | indexError
  /-- `device, mountpoint, fstype, opts = partition` on a tuple of another arity -/
  | valueError
  deriving DecidableEq, Repr

/-- the 4-tuple unpack of `_pslinux.disk_partitions` -/
def mntOfTuple : List Bytes → Option Mnt
  | [a, b, c, d] => some ⟨a, b, c, d⟩
  | _ => none

def mntsOfTuples : List (List Bytes) → Option (List Mnt)
  | [] => some []
  | t :: r =>
    match mntOfTuple t, mntsOfTuples r with
    | some m, some ms => some (m :: ms)
    | _, _ => none

/-- `psutil.disk_partitions(all)`: `fsText` = content of /proc/filesystems (read only when `all` is false),
    `lines` = the lines of the mounts file as getmntent sees them, `rootDev` = RootFsDeviceFinder's answer -/
def diskPartitionsPy (p : PCfg) (d : DCfg) (all : Bool) (fsText : Bytes) (lines : List Bytes) (lastTerm : Bool)
    (rootDev : Option Bytes) : PartOut :=
  match (if all then some [] else parseFilesystems p fsText) with
  | none => .indexError
  | some ft =>
    match mntsOfTuples (diskPartitionsC d lines lastTerm) with
    | none => .valueError
    | some ms => .rows (partitions p all ft rootDev ms)

end Psutil.C17
