/-
  Model/C13Bind.lean — WHICH procfs tree the memory methods read, over histories in which
  `psutil.PROCFS_PATH` is re-pointed between the construction of a `Process` object and its calls:

    _pslinux.Process.__init__        (`self._procfs_path = get_procfs_path()`: the root is captured)
    _pslinux.Process.memory_info     (`open_binary(f"{self._procfs_path}/{self.pid}/statm")`)
    _pslinux.Process._read_smaps_file (`open_binary(f"{self._procfs_path}/{self.pid}/smaps")`)
    _pslinux.Process._parse_smaps_rollup (`open_binary(f"{self._procfs_path}/{self.pid}/smaps_rollup")`)

  The root expression of every read site is a translator fact (`PathSrc`): the root captured by
  the object (`bound`), the module's root at the time of the call (`current` =
  `get_procfs_path()`), or anything else. The world is a list of procfs trees (one per root the
  history may point psutil at), each holding — or not — the pid's three files.

  Import-free (Model.C13 only).
-/
import PsutilModel.Model.C13
namespace Psutil.C13

/-- the root expression of a read site -/
inductive PathSrc
  | bound          -- `self._procfs_path` (captured by `__init__`)
  | current        -- `get_procfs_path()` (the module global at the time of the call)
  | other          -- anything else (a literal, another attribute, …)
  deriving DecidableEq, Repr

/-- translator facts about the read sites (Generated/C13.lean) -/
structure BCfg where
  /-- `_pslinux.Process.__init__` does `self._procfs_path = get_procfs_path()` -/
  ctorBinds : Bool
  /-- no anchored method (nor `oneshot_enter` / `oneshot_exit`) assigns `self._procfs_path` again -/
  neverRebinds : Bool
  statmSrc : PathSrc
  smapsSrc : PathSrc
  rollupSrc : PathSrc
  deriving DecidableEq, Repr

structure BCfg.Good (b : BCfg) : Prop where
  ctorBinds : b.ctorBinds = true
  neverRebinds : b.neverRebinds = true
  statmSrc : b.statmSrc = .bound
  smapsSrc : b.smapsSrc = .bound
  rollupSrc : b.rollupSrc = .bound

/-- what one procfs tree holds under `<root>/<pid>/` -/
structure Tree where
  statm : Bytes
  smaps : Bytes
  rollup : FileRes
  /-- state `Z` in `<root>/<pid>/stat` -/
  zombie : Bool
  deriving DecidableEq, Repr

/-- one entry per root: the pid's files there, or `none` when that tree has no such pid -/
abbrev World := List (Option Tree)

def treeAt (w : World) (i : Nat) : Option Tree := (w[i]?).join

/-- what the reads of one call see -/
structure View where
  statm : Res Bytes
  smaps : Res Bytes
  rollup : FileRes
  zombie : Bool

def Tree.view (t : Tree) : View := ⟨.ok t.statm, .ok t.smaps, t.rollup, t.zombie⟩

/-- call-time parameters that do not depend on the procfs tree -/
structure Env where
  pagesize : Nat
  /-- `_pslinux.HAS_PROC_SMAPS_ROLLUP` -/
  hasRollup : Bool
  /-- `path_exists_strict` (the real file system, not procfs) -/
  probe : Bytes → Probe

inductive Meth
  | info | full | maps | grouped
  /-- `memory_percent(memtype)` with `psutil._TOTAL_PHYMEM = total` (meminfo of every tree says 0) -/
  | pct (memtype : String) (total : Option Int)
  deriving DecidableEq, Repr

inductive Ans
  | nums (r : Res (List Nat))
  | rows (r : Res (List Row))
  | grows (r : Res (List GRow))
  | rat (r : Res Rat)
  /-- `psutil.Process(pid)` -/
  | ctor (r : Res Unit)
  /-- a call on a handle no successful construction produced -/
  | noObject
  /-- `psutil.PROCFS_PATH = …`, `oneshot().__enter__()` / `__exit__()` -/
  | unit

def memoryInfoR (c : Cfg) (pagesize : Nat) (statm : Res Bytes) : Res (List Nat) :=
  match statm with
  | .ok b => memoryInfo c pagesize b
  | .error e => .error e

def parseSmapsR (c : Cfg) (smaps : Res Bytes) : Res Full :=
  match smaps with
  | .ok b => parseSmaps c b
  | .error e => .error e

/-- `memory_full_info` when the reads of smaps / statm may themselves fail (same branch order as
    `memoryFullInfo`, to which it reduces when both succeed: `memoryFullInfoR_ok`) -/
def memoryFullInfoR (c : Cfg) (hasRollup : Bool) (pagesize : Nat)
    (rollup : FileRes) (smaps statm : Res Bytes) : Res (List Nat) :=
  let ext : Res Full :=
    if hasRollup then
      match rollup with
      | .data b => parseSmapsRollup c b
      | .enoent => if c.fallbackEnoent then parseSmapsR c smaps else .error .fileNotFound
      | .esrch =>
        if c.rollupWrapped then .error .noSuchProcess
        else if c.fallbackEsrch then parseSmapsR c smaps else .error .noSuchProcess
    else parseSmapsR c smaps
  if c.basicFirst then
    match memoryInfoR c pagesize statm with
    | .error e => .error e
    | .ok basic =>
      match ext with
      | .error e => .error e
      | .ok f => .ok (basic ++ [f.uss, f.pss, f.swap])
  else
    match ext with
    | .error e => .error e
    | .ok f =>
      match memoryInfoR c pagesize statm with
      | .error e => .error e
      | .ok basic => .ok (basic ++ [f.uss, f.pss, f.swap])

def memoryMapsR (c : Cfg) (probe : Bytes → Probe) (zombie : Bool) (smaps : Res Bytes) : Res (List Row) :=
  match smaps with
  | .ok b => memoryMaps c probe zombie b
  | .error e => .error e

def groupedR (r : Res (List Row)) : Res (List GRow) :=
  match r with
  | .ok rows => .ok (grouped rows)
  | .error e => .error e

/-- one method call, given what its reads see -/
def answerView (c : Cfg) (e : Env) (v : View) : Meth → Ans
  | .info => .nums (memoryInfoR c e.pagesize v.statm)
  | .full => .nums (memoryFullInfoR c e.hasRollup e.pagesize v.rollup v.smaps v.statm)
  | .maps => .rows (memoryMapsR c e.probe v.zombie v.smaps)
  | .grouped => .grows (groupedR (memoryMapsR c e.probe v.zombie v.smaps))
  | .pct mt total =>
    .rat (memoryPercent c mt (memoryInfoR c e.pagesize v.statm)
      (memoryFullInfoR c e.hasRollup e.pagesize v.rollup v.smaps v.statm) total 0)

/-- the root a read site goes to: `o` = the root the object captured, `cur` = PROCFS_PATH now -/
def rootOf (s : PathSrc) (o cur : Nat) : Option Nat :=
  match s with
  | .bound => some o
  | .current => some cur
  | .other => none

def siteTree (w : World) (s : PathSrc) (o cur : Nat) : Option Tree := (rootOf s o cur).bind (treeAt w)

/-- a read of `<root>/<pid>/<file>`: FileNotFoundError when that tree has no such pid
    (`@wrap_exceptions` re-raises it as it is: `/proc/pid/stat` under the CAPTURED root exists) -/
def readSite (w : World) (s : PathSrc) (o cur : Nat) (f : Tree → Bytes) : Res Bytes :=
  match siteTree w s o cur with
  | some t => .ok (f t)
  | none => .error .fileNotFound

/-- what the reads of a call on an object bound to root `o` see while PROCFS_PATH is root `cur`.
    (`_raise_if_zombie` reads `stat` under `self._procfs_path`: the zombie flag is the captured tree's.) -/
def viewB (b : BCfg) (w : World) (o cur : Nat) : View :=
  { statm := readSite w b.statmSrc o cur (·.statm)
    smaps := readSite w b.smapsSrc o cur (·.smaps)
    rollup := match siteTree w b.rollupSrc o cur with
      | some t => t.rollup
      | none => .enoent
    zombie := match treeAt w o with
      | some t => t.zombie
      | none => false }

/-- state of a history: where PROCFS_PATH points, and for every object (handle = position) the
    root it captured -/
structure BState where
  cur : Nat
  objs : List Nat
  deriving DecidableEq, Repr

inductive BStep
  /-- `psutil.PROCFS_PATH = roots[r]` -/
  | point (r : Nat)
  /-- `psutil.Process(pid)`: NoSuchProcess when the current tree has no such pid -/
  | new
  | call (k : Nat) (m : Meth)
  /-- `objs[k].oneshot()` entered / left (the files of a tree do not change during a history, so
      the block caches are invisible) -/
  | enter (k : Nat)
  | exit (k : Nat)
  deriving DecidableEq, Repr

def stepB (c : Cfg) (b : BCfg) (e : Env) (w : World) (s : BState) : BStep → Ans × BState
  | .point r => (.unit, { s with cur := r })
  | .new =>
    match treeAt w s.cur with
    | some _ => (.ctor (.ok ()), { s with objs := s.objs ++ [s.cur] })
    | none => (.ctor (.error .noSuchProcess), s)
  | .call k m =>
    match s.objs[k]? with
    | none => (.noObject, s)
    | some o => (answerView c e (viewB b w o s.cur) m, s)
  | .enter _ => (.unit, s)
  | .exit _ => (.unit, s)

def runB (c : Cfg) (b : BCfg) (e : Env) (w : World) : List BStep → BState → List Ans
  | [], _ => []
  | st :: rest, s =>
    let (a, s') := stepB c b e w s st
    a :: runB c b e w rest s'

end Psutil.C13
