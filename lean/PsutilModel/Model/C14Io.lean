/-
  Model/C14Io.lean — transcription of `_pslinux.Process.io_counters()` on ARBITRARY file content
  (extension round 2): the values are what CPython's `int(bytes)` gives — a sign and single
  underscores between digits are accepted, so a value may be negative — and a later line
  overrides an earlier one with the same name (`fields[name] = …`).  Import-free (Base + Model/C14).
-/
import PsutilModel.Model.C14
namespace Psutil.C14

/-- the digit part of an `int()` literal: digits with SINGLE underscores between digits
    (PEP 515), scanned as CPython's `PyLong_FromString` does — `pd` = "the previous byte was a
    digit" (an underscore is accepted only then, and the text may not end after one) -/
def pyDigits : Bytes → Bool → Nat → Option Nat
  | [], pd, acc => if pd then some acc else none
  | c :: cs, pd, acc =>
    if isDigit c then pyDigits cs true (acc * 10 + (c - 48))
    else if c == 95 && pd then pyDigits cs false acc
    else none

/-- `int(b)` for a bytes object, base 10: blanks around, an optional sign, the digit part;
    `none` = ValueError.  (Not modelled: CPython's limit of 4300 digits.) -/
def pyIntZ (s : Bytes) : Option Int :=
  match stripWs s with
  | 43 :: r => (pyDigits r false 0).map Int.ofNat
  | 45 :: r => (pyDigits r false 0).map fun n => - Int.ofNat n
  | r => (pyDigits r false 0).map Int.ofNat

namespace Pio

inductive LineStep
  | skip
  | set (name : Bytes) (v : Int)
  | raise (e : Exc)

/-- one iteration of `for line in f:` -/
def ioLine (cfg : Cfg) (line : Bytes) : LineStep :=
  let l := stripWs line
  if l.isEmpty then .skip
  else
    match splitSeq cfg.ioSep l with
    | [name, value] =>
      match pyIntZ value with
      | some v => .set name v
      | none => if cfg.ioIntGuarded then .skip else .raise .valueError
    | _ => .skip                       -- unpacking raised ValueError → `continue`

/-- `fields` after the loop, newest binding first (a later line overrides an earlier one) -/
def ioFields (cfg : Cfg) : List Bytes → List (Bytes × Int) → Except Exc (List (Bytes × Int))
  | [], acc => .ok acc
  | l :: ls, acc =>
    match ioLine cfg l with
    | .raise x => .error x
    | .skip => ioFields cfg ls acc
    | .set k v => ioFields cfg ls ((k, v) :: acc)

def lookupAll (fields : List (Bytes × Int)) : List Bytes → Option (List Int)
  | [] => some []
  | k :: ks =>
    match fields.lookup k, lookupAll fields ks with
    | some v, some vs => some (v :: vs)
    | _, _ => none

/-- body of `io_counters`: the positional arguments of `pio(...)` -/
def ioCountersBody (cfg : Cfg) (file : Res FileErr Bytes) : Outcome (List Int) :=
  match file with
  | .err e => .exc (fileExc e)
  | .ok content =>
    match ioFields cfg (linesOf content) [] with
    | .error x => .exc x
    | .ok fields =>
      if fields.isEmpty then .exc .runtimeError
      else match lookupAll fields cfg.ioKeys with
        | none => .exc .valueError        -- KeyError turned into ValueError by the code
        | some vs => .ok vs

def ioCounters (cfg : Cfg) (alive : Bool) (file : Res FileErr Bytes) (zombie : Bool := false) :
    Outcome (List Int) :=
  wrap cfg alive zombie (ioCountersBody cfg file)

end Pio
end Psutil.C14
