/-
  Model/C16Conc2.lean — small-step model of the TWO cache levels of one `psutil.Process` used by any
  number of threads: the front-end object's `_cache` attribute (keys = the front-end methods that
  carry `@memoize_when_activated`: cpu_times, memory_info, ppid, uids) and the platform object's
  `_cache` (keys = the helpers `_parse_stat_file`, `_read_status_file`, `_read_smaps_file` ≙ their
  source). A public call goes through the front-end wrapper (if its method is decorated), whose
  `fun(self)` goes through the platform wrapper (if the helper is decorated), whose `fun(self)` is
  the read of the source. `oneshot()` takes the lock, tests `hasattr(self, "_cache")` on the
  FRONT-END object, then performs the `cache_activate`s in the order of the source (`actSeq`: the
  level of each, front-end ones first and `_proc.oneshot_enter()` last in today's code), and on
  exit the `cache_deactivate`s in the order `deactSeq`, then releases the lock. Import-free.

  One model step = one bytecode that touches shared state:
    f0  LOAD_ATTR  self._cache      (front-end object;   AttributeError → no front-end store)
    f1  BINARY_SUBSCR cache[fun]    (front-end dict;     KeyError → compute, then store)
    p0  LOAD_ATTR  self._cache      (platform object)
    p1  BINARY_SUBSCR cache[fun]    (platform dict)
    p2  the read of the source      (may raise a psutil error, which propagates through both wrappers)
    p4  STORE_SUBSCR into the platform dict that was looked up
    f4  STORE_SUBSCR into the front-end dict that was looked up
    act STORE_ATTR obj._cache = {}  (fresh dict), deact DELETE_ATTR obj._cache, acquire / test / release
  `self._lock` is an RLock: the thread that holds it may `acquire` again from inside its block (a nested
  `with p.oneshot()`, or `p.as_dict()` inside a block — as_dict is `acquire · test · … calls … · exit`);
  every thread carries the stack of its enclosing open blocks (`true` = the activating one, `false` =
  a no-op level); the nesting test is the SAME `hasattr(self, "_cache")` step on the front-end
  attribute, `release` pops one level and frees the lock only at the outermost one. Another thread's
  `acquire` is disabled while the lock is held (it waits).
  The wrapper is the repaired one (stores into the dict it looked up; Generated fact
  `storeReloads = false` is an obligation of `CCfg2.Good`): the only place an AttributeError can
  escape is a `cache_deactivate` that does not swallow it (`delGuard = false`).

  Ghost data (never read by the transitions): `now`, `hist`, per dict its creation instant `born`
  and the instant `ep` at which the block that created it took the lock, `bstart` = instant of the
  last lock acquisition, per entry the instant it was read, per call its start.
-/
namespace Psutil.C16.Conc2

inductive Lvl | front | proc
  deriving DecidableEq, Repr

/-- keys of the two dicts: a front-end method, a platform helper (≙ its source) -/
inductive Key | fn (f : Nat) | src (g : Nat)
  deriving DecidableEq, Repr

structure Entry where
  val : Nat      -- content (version) of the source that was read
  tr : Nat       -- instant at which it was read
  deriving DecidableEq, Repr

structure CCfg2 where
  actSeq : List Lvl        -- level of each cache_activate of oneshot(), in execution order
  deactSeq : List Lvl      -- level of each cache_deactivate, in execution order
  delGuard : Bool          -- cache_deactivate swallows AttributeError
  fsrc : Nat → Nat         -- source read by front-end memoised method f (through its platform helper)
  pmemo : Nat → Bool       -- the platform helper reading source g carries @memoize_when_activated
  storeKeep : Bool := false -- what-if: case 3 stores with `cache.setdefault(fun, ret)` WITHOUT rebinding `ret`
                            -- (first store wins, the caller still returns its own read); today's code: plain store
  ownerOnly : Bool := false -- translator fact `cacheOwnerOnly`: cache_activate records the activating thread with the
                            -- dict (`proc._cache = (get_ident(), {})`) and the wrapper consults / fills the cache only
                            -- when called by that thread; any other thread takes case 2 (plain `fun(self)`)

def CCfg2.srcOf (c : CCfg2) : Key → Nat
  | .fn f => c.fsrc f
  | .src g => g

/-- how a returned value was obtained -/
inductive How
  | computed                     -- read during this call
  | hitP (d : Nat) (t0 : Nat)    -- found in platform dict `d`, which was `_proc._cache` at instant `t0` of this call
  | hitF (d : Nat) (t0 : Nat)    -- found in front-end dict `d`, which was `self._cache` at instant `t0` of this call
  deriving DecidableEq, Repr

inductive Phase
  | out | test | act (rest : List Lvl) | inBlock | inNoop | deact (rest : List Lvl) | release
  | oerr                          -- an AttributeError escaped `oneshot().__exit__`: spurious
  deriving DecidableEq, Repr

/-- `fd` = the front-end dict the value will be stored into: (f, d, t0) -/
inductive PC
  | idle
  | f0 (f g cs : Nat)
  | f1 (f g cs d t0 : Nat)
  | p0 (g cs : Nat) (fd : Option (Nat × Nat × Nat))
  | p1 (g cs : Nat) (fd : Option (Nat × Nat × Nat)) (pd t0 : Nat)
  | p2 (g cs : Nat) (fd : Option (Nat × Nat × Nat)) (od : Option (Nat × Nat))
  | p4 (g cs : Nat) (fd : Option (Nat × Nat × Nat)) (pd : Nat) (e : Entry)
  | f4 (f g cs d : Nat) (e : Entry) (how : How)
  | ret (g cs : Nat) (e : Entry) (how : How)
  | retErr (g cs : Nat)           -- AccessDenied & co. propagate: a legitimate psutil error
  deriving DecidableEq, Repr

structure Thread where
  ph : Phase
  pc : PC
  stack : List Bool := []         -- enclosing open blocks of this thread, innermost first (true = activating level)
  deriving DecidableEq, Repr

inductive Choice
  | call (ff : Option Nat) (g : Nat)  -- start a public method: front-end memo function (if any), source
  | acquire
  | beginExit
  | step
  deriving DecidableEq, Repr

inductive Action
  | thr (tid : Nat) (c : Choice)
  | setVer (g v : Nat)
  | setDenied (g : Nat) (b : Bool)
  deriving DecidableEq, Repr

structure St where
  now : Nat
  ver : Nat → Nat
  denied : Nat → Bool
  hist : Nat → Nat → Nat               -- ghost
  attrF : Option Nat                    -- front-end object's `_cache`
  attrP : Option Nat                    -- platform object's `_cache`
  nextId : Nat
  born : Nat → Nat                      -- ghost: dict id → creation instant
  ep : Nat → Nat                        -- ghost: dict id → instant its block took the lock
  bstart : Nat                          -- ghost: instant of the last lock acquisition
  ents : Nat → Key → Option Entry       -- heap
  creator : Nat → Nat                   -- dict id → thread that created it (stored WITH the dict when `ownerOnly`; ghost otherwise)
  lock : Option Nat
  thr : Nat → Thread

def St.init : St :=
  { now := 0, ver := fun _ => 0, denied := fun _ => false, hist := fun _ _ => 0, attrF := none,
    attrP := none, nextId := 0, born := fun _ => 0, ep := fun _ => 0, bstart := 0,
    ents := fun _ _ => none, creator := fun _ => 0, lock := none, thr := fun _ => ⟨.out, .idle, []⟩ }

def setPc (s : St) (tid : Nat) (pc : PC) : St :=
  { s with thr := fun i => if i = tid then { s.thr tid with pc := pc } else s.thr i }

def setPh (s : St) (tid : Nat) (ph : Phase) : St :=
  { s with thr := fun i => if i = tid then { s.thr tid with ph := ph } else s.thr i }

/-- leave a nested level: back to phase `ph` of the enclosing block, whose enclosing levels are `rest` -/
def popTo (s : St) (tid : Nat) (ph : Phase) (rest : List Bool) : St :=
  { s with thr := fun i => if i = tid then { s.thr tid with ph := ph, stack := rest } else s.thr i }

/-- re-entrant acquire from inside a block: the current level is pushed -/
def pushTest (s : St) (tid : Nat) (b : Bool) : St :=
  { s with thr := fun i => if i = tid then { s.thr tid with ph := .test, stack := b :: (s.thr tid).stack } else s.thr i }

def attrOf (s : St) : Lvl → Option Nat
  | .front => s.attrF
  | .proc => s.attrP

/-- `obj._cache = {}` on the object of level `l`, executed by thread `tid` -/
def actSt (s : St) (tid : Nat) (l : Lvl) : St :=
  let s1 : St := { s with nextId := s.nextId + 1,
                          creator := fun d => if d = s.nextId then tid else s.creator d,
                          born := fun d => if d = s.nextId then s.now else s.born d,
                          ep := fun d => if d = s.nextId then s.bstart else s.ep d,
                          ents := fun d => if d = s.nextId then (fun _ => none) else s.ents d }
  match l with
  | .front => { s1 with attrF := some s.nextId }
  | .proc => { s1 with attrP := some s.nextId }

/-- `del obj._cache` -/
def delAttr (s : St) : Lvl → St
  | .front => { s with attrF := none }
  | .proc => { s with attrP := none }

/-- `cache[key] = e` on dict `d` -/
def store (s : St) (d : Nat) (key : Key) (e : Entry) : St :=
  { s with ents := fun d' => if d' = d then (fun k => if k = key then some e else s.ents d k) else s.ents d' }

/-- the case-3 store of the wrapper: `cache[fun] = ret`, or (what-if) `cache.setdefault(fun, ret)` -/
def storeM (c : CCfg2) (s : St) (d : Nat) (key : Key) (e : Entry) : St :=
  if c.storeKeep && (s.ents d key).isSome then s else store s d key e

/-- the platform level delivered `e`: store into the front-end dict that was looked up, or return -/
def afterProc (s : St) (tid g cs : Nat) (fd : Option (Nat × Nat × Nat)) (e : Entry) (how : How) : St :=
  match fd with
  | some (f, d, _) => setPc s tid (.f4 f g cs d e how)
  | none => setPc s tid (.ret g cs e how)

/-- one bytecode of a public call -/
def cstep (c : CCfg2) (s : St) (tid : Nat) : PC → Option St
  | .idle => none
  | .f0 f g cs =>
    match s.attrF with
    | some d =>
      if c.ownerOnly && s.creator d != tid then some (setPc s tid (.p0 g cs none))   -- another thread's cache: bypass
      else some (setPc s tid (.f1 f g cs d s.now))
    | none => some (setPc s tid (.p0 g cs none))                       -- AttributeError → case 2
  | .f1 f g cs d t0 =>
    match s.ents d (.fn f) with
    | some e => some (setPc s tid (.ret g cs e (.hitF d t0)))          -- case 1
    | none => some (setPc s tid (.p0 g cs (some (f, d, t0))))          -- KeyError → case 3
  | .p0 g cs fd =>
    if c.pmemo g then
      match s.attrP with
      | some pd =>
        if c.ownerOnly && s.creator pd != tid then some (setPc s tid (.p2 g cs fd none))   -- bypass
        else some (setPc s tid (.p1 g cs fd pd s.now))
      | none => some (setPc s tid (.p2 g cs fd none))
    else some (setPc s tid (.p2 g cs fd none))                          -- helper not decorated
  | .p1 g cs fd pd t0 =>
    match s.ents pd (.src g) with
    | some e => some (afterProc s tid g cs fd e (.hitP pd t0))
    | none => some (setPc s tid (.p2 g cs fd (some (pd, t0))))
  | .p2 g cs fd od =>
    if s.denied g then some (setPc s tid (.retErr g cs))                -- nothing stored at either level
    else
      let e : Entry := ⟨s.ver g, s.now⟩
      match od with
      | some (pd, _) => some (setPc s tid (.p4 g cs fd pd e))
      | none => some (afterProc s tid g cs fd e .computed)
  | .p4 g cs fd pd e => some (afterProc (storeM c s pd (.src g) e) tid g cs fd e .computed)
  | .f4 f g cs d e how => some (setPc (storeM c s d (.fn f) e) tid (.ret g cs e how))
  | .ret _ _ _ _ => some (setPc s tid .idle)
  | .retErr _ _ => some (setPc s tid .idle)

/-- one bytecode of `oneshot().__enter__/__exit__` -/
def ostep (c : CCfg2) (s : St) (tid : Nat) : Phase → Option St
  | .test =>
    match s.attrF with
    | some _ => some (setPh s tid .inNoop)                               -- "already inside": no-op block
    | none => some (setPh s tid (.act c.actSeq))
  | .act (l :: rest) => some (setPh (actSt s tid l) tid (.act rest))
  | .act [] => some (setPh s tid .inBlock)
  | .deact (l :: rest) =>
    match attrOf s l with
    | some _ => some (setPh (delAttr s l) tid (.deact rest))
    | none => some (setPh s tid (if c.delGuard then .deact rest else .oerr))
  | .deact [] => some (setPh s tid .release)
  | .release =>
    match (s.thr tid).stack with
    | [] => some (setPh { s with lock := none } tid .out)                -- outermost level: the RLock is freed
    | b :: rest => some (popTo s tid (if b then .inBlock else .inNoop) rest)   -- back in the enclosing block
  | _ => none

def callable : Phase → Bool
  | .out | .inBlock | .inNoop => true
  | _ => false

def tstep (c : CCfg2) (s : St) (tid : Nat) : Choice → Option St
  | .call ff g =>
    if (s.thr tid).pc = .idle ∧ callable (s.thr tid).ph = true then
      match ff with
      | some f => if c.fsrc f = g then some (setPc s tid (.f0 f g s.now)) else none
      | none => some (setPc s tid (.p0 g s.now none))
    else none
  | .acquire =>
    if (s.thr tid).pc = .idle ∧ (s.thr tid).ph = .out ∧ s.lock = none
    then some (setPh { s with lock := some tid, bstart := s.now } tid .test)
    else if (s.thr tid).pc = .idle ∧ s.lock = some tid ∧ (s.thr tid).ph = .inBlock then some (pushTest s tid true)
    else if (s.thr tid).pc = .idle ∧ s.lock = some tid ∧ (s.thr tid).ph = .inNoop then some (pushTest s tid false)
    else none
  | .beginExit =>
    if (s.thr tid).pc = .idle then
      match (s.thr tid).ph with
      | .inBlock => some (setPh s tid (.deact c.deactSeq))
      | .inNoop => some (setPh s tid .release)
      | _ => none
    else none
  | .step =>
    if (s.thr tid).pc = .idle then ostep c s tid (s.thr tid).ph else cstep c s tid (s.thr tid).pc

def tick (s : St) : St :=
  { s with now := s.now + 1, hist := fun t => if t = s.now + 1 then s.ver else s.hist t }

def step (c : CCfg2) (s : St) : Action → Option St
  | .thr tid ch => (tstep c s tid ch).map tick
  | .setVer g v => some (tick { s with ver := fun x => if x = g then v else s.ver x })
  | .setDenied g b => some (tick { s with denied := fun x => if x = g then b else s.denied x })

/-- states reachable under ANY interleaving of any number of threads and world changes -/
inductive Reach (c : CCfg2) : St → Prop
  | init : Reach c St.init
  | step {s s' : St} (a : Action) : Reach c s → step c s a = some s' → Reach c s'

/-- total run: a disabled action is skipped -/
def runD (c : CCfg2) : St → List Action → St
  | s, [] => s
  | s, a :: as => match step c s a with
    | some s' => runD c s' as
    | none => runD c s as

/-- executable check of the interval form for a thread standing at `ret` -/
def intervalOK (s : St) (g cs : Nat) (e : Entry) (how : How) : Bool :=
  (List.range (s.now + 1)).any fun t =>
    s.hist t g == e.val &&
      (decide (cs ≤ t) ||
        match how with
        | .hitP d t0 | .hitF d t0 =>
          decide (cs ≤ t0) && decide (t0 ≤ s.now) && decide (s.born d ≤ t0) && decide (s.ep d ≤ t)
        | .computed => false)

def literalOK (s : St) (g cs : Nat) (e : Entry) : Bool :=
  (List.range (s.now + 1)).any fun t => decide (cs ≤ t) && s.hist t g == e.val

end Psutil.C16.Conc2
