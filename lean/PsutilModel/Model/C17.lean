/-
  Model/C17.lean — byte-level models of the decoders and of the bounds arithmetic of psutil's
  C extension (Linux), plus the Python-side filters that sit on top of them.

    §1 users()            psutil/arch/linux/users.c  +  _pslinux.users()
    §2 disk_partitions()  _pslinux.disk_partitions() over getmntent's output records
    §3 PSUTIL_STRNCPY     psutil/_psutil_common.h
    §4 MAC formatting     psutil/_psutil_posix.c  psutil_convert_ipaddr (AF_PACKET branch)
    §5 cpu_affinity_get   the doubling loop of psutil/arch/linux/proc.c
    §6 CPU_SET / cpu_affinity_set argument handling
    §7 check_pid_range    psutil/_psutil_common.c
    §8 ioprio packing     psutil/arch/linux/proc.c  +  _pslinux.Process.ionice_set
    §9 net_if_flags       bit -> name table of psutil/_psutil_posix.c

  Everything that the translator re-derives from the source is a field of a `…Cfg` structure;
  Model/C17Gen.lean instantiates them from Generated/C17.lean.  A byte is a `Nat`
  (`Psutil.Bytes`); C `int`/`long` values are `Int` with explicit range side conditions, and
  every behaviour the C standard leaves undefined is an explicit constructor (`ub`, a read
  extent beyond the object) — never a default value.  Import-free apart from Base.Bytes.
-/
import PsutilModel.Base.Bytes
namespace Psutil.C17

def INT_MAX : Int := 2147483647
def INT_MIN : Int := -2147483648
def LONG_MAX : Int := 9223372036854775807
def LONG_MIN : Int := -9223372036854775808

/-- values that cross the C/Python boundary -/
inductive Val
  | str (b : Bytes)
  | int (i : Int)
  | none
  deriving DecidableEq, Repr

/-! ## §1 users(): `struct utmp` (glibc, x86-64: 384 bytes)

    offset  0  short  ut_type   (+2 bytes padding)
            4  int32  ut_pid
            8  char   ut_line[32]
           40  char   ut_id[4]
           44  char   ut_user[32]
           76  char   ut_host[256]
          332  struct exit_status ut_exit (2 × short)
          336  int32  ut_session
          340  int32  ut_tv.tv_sec      344  int32 ut_tv.tv_usec
          348  int32  ut_addr_v6[4]     364  char  __unused[20]                                -/

/-- little-endian unsigned value of a byte string -/
def leNat : Bytes → Nat
  | [] => 0
  | b :: bs => b + 256 * leNat bs

/-- two's complement reading of `n` as a `bits`-bit signed integer -/
def toSigned (bits : Nat) (n : Nat) : Int :=
  if n < 2 ^ (bits - 1) then (n : Int) else (n : Int) - (2 ^ bits : Nat)

def sle16 (bs : Bytes) : Int := toSigned 16 (leNat (bs.take 2))
def sle32 (bs : Bytes) : Int := toSigned 32 (leNat (bs.take 4))

/-- one C-string read: the bytes obtained, and `stop` = one past the last index (relative to the
    start of the record) that the read touched (the terminating NUL is touched too) -/
structure StrRead where
  val : Bytes
  stop : Nat
  deriving DecidableEq, Repr

/-- Read a C string that starts at `off` in `mem`.
    * `bounded = false`: `PyUnicode_DecodeFSDefault(p)` = `strlen`: up to the first NUL **in
      memory** after the pointer, however far that is;
    * `bounded = true`: `PyUnicode_DecodeFSDefaultAndSize(p, strnlen(p, w))`: at most `w` bytes. -/
def readStr (bounded : Bool) (mem : Bytes) (off w : Nat) : StrRead :=
  if bounded then
    let v := ((mem.drop off).take w).takeWhile (fun c => c != 0)
    ⟨v, off + min (v.length + 1) w⟩
  else
    let v := (mem.drop off).takeWhile (fun c => c != 0)
    ⟨v, off + v.length + 1⟩

/-- `strcmp(mem + off, lit) == 0` for a NUL-free literal: the first `|lit|+1` bytes are `lit`
    followed by NUL (the comparison stops at the first difference, so it never reads further) -/
def strcmpEq (mem : Bytes) (off : Nat) (lit : Bytes) : Bool :=
  decide ((mem.drop off).take (lit.length + 1) = lit ++ [0])

structure UCfg where
  userBounded : Bool
  lineBounded : Bool
  hostBounded : Bool
  /-- `if (ut->ut_type != USER_PROCESS) continue;` is present -/
  filterUserProcess : Bool
  /-- the literals `ut_host` is `strcmp`ed with -/
  localLits : List Bytes
  /-- what is shown instead -/
  localName : Bytes
  /-- the C sources of the five tuple slots, in `Py_BuildValue` order -/
  tupleOrder : List String
  /-- `_pslinux.users()`: output slot k takes tuple index `pyPerm[k]` -/
  pyPerm : List Nat
  /-- output slots written as `x or None` -/
  pyOrNone : List Nat

def USER_PROCESS : Int := 7
def UT_SIZE : Nat := 384

/-- value of one tuple slot, by the name of its C source -/
def slotVal (cfg : UCfg) (mem : Bytes) (src : String) : Val :=
  if src == "ut_user" then .str (readStr cfg.userBounded mem 44 32).val
  else if src == "ut_line" then .str (readStr cfg.lineBounded mem 8 32).val
  else if src == "ut_host" then
    .str (if cfg.localLits.any (strcmpEq mem 76) then cfg.localName
          else (readStr cfg.hostBounded mem 76 256).val)
  else if src == "ut_tv.tv_sec" then .int (sle32 (mem.drop 340))
  else if src == "ut_pid" then .int (sle32 (mem.drop 4))
  else .none

/-- one iteration of the `getutent()` loop: `mem` = the 384-byte record followed by whatever
    lies behind glibc's static buffer -/
def decodeRec (cfg : UCfg) (mem : Bytes) : Option (List Val) :=
  if cfg.filterUserProcess && sle16 mem != USER_PROCESS then none
  else some (cfg.tupleOrder.map (slotVal cfg mem))

/-- `stop` indices of every string access of one iteration (three decodes + the `strcmp`s) -/
def recReads (cfg : UCfg) (mem : Bytes) : List Nat :=
  if cfg.filterUserProcess && sle16 mem != USER_PROCESS then []
  else
    [(readStr cfg.userBounded mem 44 32).stop, (readStr cfg.lineBounded mem 8 32).stop]
    ++ cfg.localLits.map (fun l => 76 + (l.length + 1))
    ++ (if cfg.localLits.any (strcmpEq mem 76) then [] else [(readStr cfg.hostBounded mem 76 256).stop])

/-- `getutent()`: whole 384-byte records; a trailing partial record ends the iteration -/
def recordsAux : Nat → Bytes → List Bytes
  | 0, _ => []
  | k + 1, f => f.take 384 :: recordsAux k (f.drop 384)

def records (file : Bytes) : List Bytes := recordsAux (file.length / 384) file

/-- `cext.users()` on a utmp file; `beyond` = the memory behind the record buffer -/
def usersC (cfg : UCfg) (file beyond : Bytes) : List (List Val) :=
  (records file).filterMap (fun r => decodeRec cfg (r ++ beyond))

def usersReads (cfg : UCfg) (file beyond : Bytes) : List Nat :=
  (records file).flatMap (fun r => recReads cfg (r ++ beyond))

def falsy : Val → Bool
  | .str b => b.isEmpty
  | .int i => i == 0
  | .none => true

/-- `_pslinux.users()`: unpack the 5-tuple, rebuild `suser(user, tty or None, hostname, tstamp, pid)` -/
def usersPyRow (cfg : UCfg) (t : List Val) : List Val :=
  cfg.pyPerm.mapIdx fun k i =>
    let v := t.getD i .none
    if cfg.pyOrNone.contains k && falsy v then .none else v

def users (cfg : UCfg) (file beyond : Bytes) : List (List Val) :=
  (usersC cfg file beyond).map (usersPyRow cfg)

/-! ## §2 disk_partitions() (Python side) -/

structure Mnt where
  dev : Bytes
  dir : Bytes
  typ : Bytes
  opts : Bytes
  deriving DecidableEq, Repr

structure PCfg where
  /-- prefix that marks a pseudo file system line of /proc/filesystems -/
  nodevPrefix : Bytes
  /-- the `nodev` types kept nevertheless -/
  nodevKept : List Bytes
  /-- index taken from `line.split("\t")` on a nodev line -/
  nodevSplitIdx : Nat
  /-- device spelling replaced by '' -/
  noneDevice : Bytes
  /-- device spellings resolved through `RootFsDeviceFinder` -/
  rootAliases : List Bytes
  /-- `if not device or fstype not in fstypes: continue` is present under `if not all` -/
  filterDevice : Bool
  filterFstype : Bool

/-- one line of /proc/filesystems; `none` = IndexError from `line.split("\t")[1]` -/
def fsLine (cfg : PCfg) (acc : List Bytes) (line : Bytes) : Option (List Bytes) :=
  let l := stripWs line
  if !(startsWith cfg.nodevPrefix l) then some (acc ++ [stripWs l])
  else
    match (splitOn 9 l)[cfg.nodevSplitIdx]? with
    | none => none
    | some t => if cfg.nodevKept.contains t then some (acc ++ [t]) else some acc

def fsLines (cfg : PCfg) : List Bytes → List Bytes → Option (List Bytes)
  | acc, [] => some acc
  | acc, l :: ls =>
    match fsLine cfg acc l with
    | none => none
    | some acc' => fsLines cfg acc' ls

/-- the `fstypes` set built from the text of /proc/filesystems -/
def parseFilesystems (cfg : PCfg) (text : Bytes) : Option (List Bytes) :=
  fsLines cfg [] (linesOf text)

/-- device shown for one mount entry; `rootDev` = result of `RootFsDeviceFinder().find()` -/
def viewDev (cfg : PCfg) (rootDev : Option Bytes) (dev : Bytes) : Bytes :=
  let d := if dev = cfg.noneDevice then [] else dev
  if cfg.rootAliases.contains d then
    match rootDev with
    | some r => if r.isEmpty then d else r
    | none => d
  else d

def viewMnt (cfg : PCfg) (rootDev : Option Bytes) (m : Mnt) : Mnt :=
  { m with dev := viewDev cfg rootDev m.dev }

def keepMnt (cfg : PCfg) (fstypes : List Bytes) (m : Mnt) : Bool :=
  !((cfg.filterDevice && m.dev.isEmpty) || (cfg.filterFstype && !(fstypes.contains m.typ)))

/-- `_pslinux.disk_partitions(all)` given the parsed `fstypes` (unused when `all`) and the
    records `cext.disk_partitions()` returned -/
def partitions (cfg : PCfg) (all : Bool) (fstypes : List Bytes) (rootDev : Option Bytes)
    (ms : List Mnt) : List Mnt :=
  let vs := ms.map (viewMnt cfg rootDev)
  if all then vs else vs.filter (keepMnt cfg fstypes)

/-! ## §3 PSUTIL_STRNCPY(dst, src, n) -/

structure SCfg where
  /-- `strncpy(dst, src, n - copyMinus)` -/
  copyMinus : Nat
  /-- `dst[n - termMinus] = '\0'` -/
  termMinus : Nat
  hasTerm : Bool
  /-- every call site passes `sizeof(<dst>)` of the very array it copies into -/
  sitesSizeofDst : Bool

/-- the `k` bytes C `strncpy(dst, src, k)` stores at `dst[0..k)`: the string, then NUL padding -/
def strncpyBytes (src : Bytes) (k : Nat) : Bytes :=
  let s := (src.takeWhile (fun c => c != 0)).take k
  s ++ List.replicate (k - s.length) 0

/-- every store of the macro, in order: (index into `dst`, byte) -/
def strncpyWrites (cfg : SCfg) (src : Bytes) (n : Nat) : List (Nat × Nat) :=
  (strncpyBytes src (n - cfg.copyMinus)).zipIdx.map (fun p => (p.2, p.1))
  ++ (if cfg.hasTerm then [(n - cfg.termMinus, 0)] else [])

/-- `dst` after the stores that fall inside it (`dst.length` = capacity of the array) -/
def applyWrites (dst : Bytes) (ws : List (Nat × Nat)) : Bytes :=
  ws.foldl (fun d w => d.set w.1 w.2) dst

/-! ## §4 MAC address formatting into `char buf[NI_MAXHOST]` -/

structure MCfg where
  bufSize : Nat       -- NI_MAXHOST
  step : Nat          -- `ptr += 3`
  masked : Bool       -- `data[n] & 0xff`
  lowerHex : Bool     -- "%02x" (true) / "%02X"
  sepChar : Nat       -- ':'

def hexDigit (lower : Bool) (n : Nat) : Nat :=
  if n < 10 then 48 + n else (if lower then 87 else 55) + n

def hex2 (lower : Bool) (b : Nat) : Bytes := [hexDigit lower (b / 16 % 16), hexDigit lower (b % 16)]

/-- what `sprintf(ptr, "%02x:", data[n] & 0xff)` prints for one byte (`data` is `const char *`:
    without the mask a byte ≥ 0x80 is sign-extended to 32 bits) -/
def macPiece (cfg : MCfg) (b : Nat) : Bytes :=
  (if cfg.masked || b < 128 then hex2 cfg.lowerHex b
   else List.replicate 6 (hexDigit cfg.lowerHex 15) ++ hex2 cfg.lowerHex b) ++ [cfg.sepChar]

/-- buffer content as the sequence of `sprintf`s leaves it: piece n is written at `step·n`,
    each followed by its NUL; finally `*--ptr = 0` at `step·len − 1`.  Returned: the stores as
    (index, byte). -/
def macWrites (cfg : MCfg) (data : Bytes) : List (Nat × Nat) :=
  (data.zipIdx.flatMap fun (p : Nat × Nat) =>
      ((macPiece cfg p.1 ++ [0]).zipIdx.map fun (q : Nat × Nat) => (cfg.step * p.2 + q.2, q.1)))
  ++ [(cfg.step * data.length - 1, 0)]

/-- the Python string built from `buf` (C string at index 0) for `len > 0`; `none` = `None` -/
def macFormat (cfg : MCfg) (data : Bytes) : Option Bytes :=
  if data.isEmpty then none
  else
    let buf := applyWrites (List.replicate cfg.bufSize 1) (macWrites cfg data)
    some (buf.takeWhile (fun c => c != 0))

/-! ## §5 cpu_affinity_get: the doubling loop -/

structure ACfg where
  initBits : Nat            -- sizeof(unsigned long) * CHAR_BIT
  guard : Option Int        -- `if (ncpus > G) → OverflowError` evaluated before the multiplication
  factor : Int              -- `ncpus = ncpus * 2`

inductive AffOut
  | ok (ncpus : Int)
  | overflowError
  | ub (ncpus : Int)        -- `ncpus * factor` evaluated although it is not representable in `int`
  | fuelOut
  deriving DecidableEq, Repr

/-- `need = some k`: the kernel answers EINVAL while the set has fewer than `k` bits;
    `need = none`: it always answers EINVAL -/
def kernelOk (need : Option Nat) (ncpus : Int) : Bool :=
  match need with
  | some k => decide ((k : Int) ≤ ncpus)
  | none => false

/-- `if (ncpus > G)` (absent guard = never) -/
def guardHit (g : Option Int) (n : Int) : Bool :=
  match g with
  | some g => decide (n > g)
  | none => false

def affLoop (cfg : ACfg) (need : Option Nat) : Nat → Int → AffOut
  | 0, _ => .fuelOut
  | fuel + 1, n =>
    if kernelOk need n then .ok n
    else if guardHit cfg.guard n then .overflowError
    else if n * cfg.factor > INT_MAX ∨ n * cfg.factor < INT_MIN then .ub n
    else affLoop cfg need fuel (n * cfg.factor)

def affGet (cfg : ACfg) (need : Option Nat) : AffOut := affLoop cfg need 64 cfg.initBits

/-! ## §6 CPU_SET on an arbitrary C `long`; argument handling of cpu_affinity_set -/

structure CCfg where
  setBytes : Nat            -- sizeof(cpu_set_t)
  checkedMacro : Bool       -- glibc's `CPU_SET` (bounds-checked) on a `cpu_set_t` local
  minusOneRejected : Bool   -- `value == -1` → ValueError

/-- index of the 8-byte word `CPU_SET(v, &set)` read-modify-writes; `none` = no access.
    glibc: `size_t __cpu = (cpu); __cpu / 8 < setsize ? bits[__cpu / 64] |= 1UL << (__cpu % 64) : 0` -/
def cpuSetWord (cfg : CCfg) (v : Int) : Option Nat :=
  let u := (v % 18446744073709551616).toNat
  if cfg.checkedMacro then (if u / 8 < cfg.setBytes then some (u / 64) else none)
  else some (u / 64)

inductive Item
  | int (v : Int)
  | other                   -- not an int (and no `__index__`): TypeError from PyLong_AsLong
  deriving DecidableEq, Repr

inductive AffSetOut
  | typeError
  | overflowError
  | valueError
  | oob (word : Nat)        -- a store outside the cpu_set_t
  | mask (cpus : List Nat)  -- the bits set, in argument order; then `sched_setaffinity`
  deriving DecidableEq, Repr

def affSetGo (cfg : CCfg) : List Item → List Nat → AffSetOut
  | [], acc => .mask acc.reverse
  | .other :: _, _ => .typeError
  | .int v :: rest, acc =>
    if v > LONG_MAX ∨ v < LONG_MIN then .overflowError
    else if cfg.minusOneRejected && v == -1 then .valueError
    else match cpuSetWord cfg v with
      | none => affSetGo cfg rest acc
      | some w =>
        if 8 * w + 8 ≤ cfg.setBytes then affSetGo cfg rest ((v % 18446744073709551616).toNat :: acc)
        else .oob w

def affSet (cfg : CCfg) (items : List Item) : AffSetOut := affSetGo cfg items []

/-! ## §7 check_pid_range -/

/-- a Python argument as `PyArg_ParseTuple` sees it -/
inductive Arg
  | int (v : Int)
  | other
  deriving DecidableEq, Repr

inductive PyOut
  | none                    -- returns None
  | typeError
  | overflowError
  | valueError
  | osError                 -- OSError raised by the extension itself (errno set by hand)
  | ub                      -- undefined behaviour reached in C
  | syscall (packed : Int)  -- the value handed to the kernel
  deriving DecidableEq, Repr

structure RCfg where
  pidBits : Nat             -- `_Py_PARSE_PID` = "i" → 32, "l" → 64
  negGuard : Bool           -- `if (pid < 0) → ValueError`

/-- format unit "i"/"l": an int that fits, else OverflowError; not an int → TypeError -/
def parseCInt (bits : Nat) (a : Arg) : Except PyOut Int :=
  match a with
  | .other => .error .typeError
  | .int v => if v ≥ 2 ^ (bits - 1) ∨ v < -(2 ^ (bits - 1)) then .error .overflowError else .ok v

def checkPidRange (cfg : RCfg) (a : Arg) : PyOut :=
  match parseCInt cfg.pidBits a with
  | .error e => e
  | .ok pid => if cfg.negGuard && pid < 0 then .valueError else .none

/-! ## §8 ioprio: `(ioclass << SHIFT) | iodata` in C `int` -/

structure ICfg where
  shift : Nat
  /-- C-side range check on `ioclass` before the shift: `lo ≤ ioclass ≤ hi` else ValueError -/
  cGuard : Option (Int × Int)
  /-- C-side range check on `iodata` -/
  cDataGuard : Option (Int × Int)
  /-- the C-side check raises OSError(EINVAL) (true) or ValueError (false) -/
  cGuardOSError : Bool
  /-- Python-side (`ionice_set`) restriction of `ioclass` to an interval, else ValueError -/
  pyClassGuard : Option (Int × Int)
  /-- Python-side `value < lo or value > hi` → ValueError -/
  pyValueRange : Int × Int
  /-- classes for which a non-zero value is refused -/
  pyNoValueClasses : List Int
  /-- PyArg_ParseTuple format units of (pid, ioclass, iodata) in psutil_proc_ioprio_set -/
  units : List Char := ['i', 'i', 'i']

/-- C11 6.5.7: `E1 << E2` on a signed `E1` is undefined when `E1 < 0` or `E1·2^E2` is not
    representable -/
def shlInt (c : Int) (s : Nat) : Option Int :=
  if c < 0 then none else if c * 2 ^ s > INT_MAX then none else some (c * 2 ^ s)

/-- `x | y` for non-negative `int`s -/
def orNat (x y : Int) : Int := ((x.toNat ||| y.toNat : Nat) : Int)

def inRange (g : Option (Int × Int)) (v : Int) : Bool :=
  match g with
  | none => true
  | some (lo, hi) => decide (lo ≤ v) && decide (v ≤ hi)

/-- `psutil_proc_ioprio_set` after a successful "iii" parse.  A negative `iodata` makes the
    `|` implementation-defined (not undefined); the packed value is then not claimed. -/
def ioprioSetC (cfg : ICfg) (cls data : Int) : PyOut :=
  if !(inRange cfg.cGuard cls) || !(inRange cfg.cDataGuard data) then
    (if cfg.cGuardOSError then .osError else .valueError)
  else match shlInt cls cfg.shift with
    | none => .ub
    | some x => if data < 0 then .syscall (-1) else .syscall (orNat x data)

/-- one integer format unit of PyArg_ParseTuple applied to a Python argument.  `i` / `l` are the
    CHECKED converters (OverflowError outside C `int` / `long`); `I` / `k` are the UNCHECKED ones
    (CPython: "without overflow checking" — the Python int is reduced modulo 2³² / 2⁶⁴, negative
    values included); any other unit is not an integer unit here (TypeError) -/
def parseUnit (u : Char) (a : Arg) : Except PyOut Int :=
  if u = 'i' then parseCInt 32 a
  else if u = 'l' then parseCInt 64 a
  else match a with
    | .other => .error .typeError
    | .int v =>
      if u = 'I' then .ok (v % 4294967296)
      else if u = 'k' then .ok (v % 18446744073709551616)
      else .error .typeError

/-- the entry point with all three units checked 32-bit (`"iii"`) -/
def ioprioSetExtChecked (cfg : ICfg) (pid cls data : Arg) : PyOut :=
  match parseCInt 32 pid, parseCInt 32 cls, parseCInt 32 data with
  | .error e, _, _ => e
  | .ok _, .error e, _ => e
  | .ok _, .ok _, .error e => e
  | .ok _, .ok c, .ok d => ioprioSetC cfg c d

/-- `cext.proc_ioprio_set(pid, ioclass, iodata)` called directly, with the format units the source has -/
def ioprioSetExt (cfg : ICfg) (pid cls data : Arg) : PyOut :=
  match parseUnit (cfg.units.getD 0 'i') pid, parseUnit (cfg.units.getD 1 'i') cls, parseUnit (cfg.units.getD 2 'i') data with
  | .error e, _, _ => e
  | .ok _, .error e, _ => e
  | .ok _, .ok _, .error e => e
  | .ok _, .ok c, .ok d => ioprioSetC cfg c d

/-- `_pslinux.Process.ionice_set(ioclass, value)` with int arguments (`value = none` ↔ None) -/
def ioniceSetPy (cfg : ICfg) (cls : Int) (value : Option Int) : PyOut :=
  let v := value.getD 0
  if v != 0 && cfg.pyNoValueClasses.contains cls then .valueError
  else if v < cfg.pyValueRange.1 ∨ v > cfg.pyValueRange.2 then .valueError
  else if !(inRange cfg.pyClassGuard cls) then .valueError
  else ioprioSetExt cfg (.int 1) (.int cls) (.int v)

/-! ## §10 NIC speed: `(ecmd->speed_hi << 16) | ecmd->speed` (psutil/arch/linux/net.c) -/

structure ECfg where
  /-- `speed_hi` (a `__u16`, promoted to `int`) is converted to a 32-bit unsigned type before the shift -/
  castUnsigned : Bool

inductive SpeedOut
  | ub                       -- `speed_hi << 16` not representable in `int`
  | speed (mbps : Int)       -- the `speed` slot of net_if_duplex_speed()
  deriving DecidableEq, Repr

/-- `psutil_ethtool_cmd_speed` followed by the `SPEED_UNKNOWN` / `> INT_MAX` test, for the two
    16-bit halves the driver reported -/
def ethSpeed (cfg : ECfg) (hi lo : Nat) : SpeedOut :=
  if !cfg.castUnsigned && decide ((hi : Int) * 65536 > INT_MAX) then .ub
  else
    let u := (hi * 65536 ||| lo) % 4294967296
    if u = 4294967295 ∨ (u : Int) > INT_MAX then .speed 0 else .speed u

/-! ## §9 net_if_flags: bit → name -/

/-- names of the bits of `flags` that are set, in table order (`ifr_flags & mask`) -/
def iffNames (table : List (Nat × String)) (mask flags : Nat) : List String :=
  (table.filter (fun e => (flags &&& mask) &&& e.1 != 0)).map (·.2)

end Psutil.C17
