/-
  Model/C10Dict.lean — `_WrapNumbers` with its three dicts as they are in the code (round 2):

      self.cache[name]          last raw dict                                   `CWN.cache`
      self.reminders[name]      defaultdict(int)  keyed by remkey = (key, i)    `CWN.rems`
      self.reminder_keys[name]  defaultdict(set)  key ↦ {remkey, …}             `CWN.remKeys`

  Dicts are association lists in insertion order (`dset` = `d[k] = v`: in place when present,
  appended otherwise; `ddel` = `del d[k]`), sets are duplicate-free lists in insertion order. The
  `defaultdict` reads that insert a missing key are transcribed (`bits.append(… + reminders[remkey])`
  leaves a 0 entry behind; `reminder_keys[gone_key]` in `_remove_dead_reminders` makes an empty set
  that is deleted two lines later). Error branches are explicit: `KeyError` of
  `del self.reminders[name][remkey]`, `AssertionError` of `_add_dict`, `IndexError` of
  `old_tuple[i]` (raised in the middle of the loop: the reminders updated so far stay updated, the
  cache keeps the OLD dict). `cacheInfo` is the value of `cache_info()`.

  Proofs/C10Dict.lean proves that this model, abstracted by `absW`, is the model of Model/C10.lean
  on every history of uniform-width, duplicate-free snapshots. Import-free.
-/
import PsutilModel.Model.C10
namespace Psutil.C10

abbrev RemKey := Key × Nat
abbrev RemD := List (RemKey × Nat)
abbrev RemK := List (Key × List RemKey)

/-- `d[k] = v` -/
def dset {α β : Type} [BEq α] : List (α × β) → α → β → List (α × β)
  | [], k, v => [(k, v)]
  | (a, b) :: rest, k, v => if k == a then (a, v) :: rest else (a, b) :: dset rest k v

/-- `del d[k]` (the caller checks that `k` is there: KeyError otherwise) -/
def ddel {α β : Type} [BEq α] (d : List (α × β)) (k : α) : List (α × β) :=
  d.filter fun e => !(k == e.1)

/-- `reminders[remkey]` read as a number (missing = 0) -/
def remGet (d : RemD) (p : RemKey) : Nat := (d.lookup p).getD 0

/-- the state a `defaultdict(int)` is in after `d[p]` has been read -/
def ddTouch (d : RemD) (p : RemKey) : RemD :=
  match d.lookup p with
  | some _ => d
  | none => d ++ [(p, 0)]

/-- is `p` in the set `reminder_keys[k]` (no entry = no) -/
def rkMem (rk : RemK) (k : Key) (p : RemKey) : Bool :=
  match rk.lookup k with
  | some ps => ps.contains p
  | none => false

/-- `self.reminder_keys[name][key].add(remkey)`. What-if `rkAccumulate = false`: the set is
    assigned afresh instead (`… [key] = {remkey}`), as in the seeded change C10-3. -/
def rkAdd (cfg : Cfg) (rk : RemK) (k : Key) (p : RemKey) : RemK :=
  if cfg.rkAccumulate then
    match rk.lookup k with
    | some ps => if ps.contains p then rk else dset rk k (ps ++ [p])
    | none => dset rk k [p]
  else dset rk k [p]

/-- per-`name` state: the entries `cache[name]`, `reminders[name]`, `reminder_keys[name]` -/
structure CWN where
  cache : Option Raw := none
  rems : Option RemD := none
  remKeys : Option RemK := none
  deriving DecidableEq, Repr

inductive COut
  | out (o : Out)
  | keyError
  | assertionError
  deriving DecidableEq, Repr

/-- `for remkey in reminder_keys[name][gone_key]: del reminders[name][remkey]`; `none` = KeyError -/
def delAll : RemD → List RemKey → Option RemD
  | d, [] => some d
  | d, p :: ps =>
    match d.lookup p with
    | none => none
    | some _ => delAll (ddel d p) ps

/-- the loop of `_remove_dead_reminders` over the gone keys; `none` = KeyError -/
def removeDead : RemD → RemK → List Key → Option (RemD × RemK)
  | d, rk, [] => some (d, rk)
  | d, rk, g :: gs =>
    match rk.lookup g with
    | none => removeDead d rk gs      -- the defaultdict read makes an empty set; `del` removes it again
    | some ps =>
      match delAll d ps with
      | none => none
      | some d' => removeDead d' (ddel rk g) gs

/-- `for i in range(len(input_tuple))` for a key present in both dicts, from index `i` on.
    Third component `none` = IndexError at `old_tuple[i]`. -/
def fieldsLoop (cfg : Cfg) (k : Key) (o : List Nat) :
    Nat → List Nat → RemD → RemK → RemD × RemK × Option (List Nat)
  | _, [], d, rk => (d, rk, some [])
  | i, x :: xs, d, rk =>
    match o[i]? with
    | none => (d, rk, none)
    | some ov =>
      -- if input_value < old_value: reminders[remkey] += old_value; reminder_keys[key].add(remkey)
      let d1 := if wrapped cfg x ov then dset d (k, i) (remGet d (k, i) + ov) else d
      let rk1 := if wrapped cfg x ov then rkAdd cfg rk k (k, i) else rk
      -- bits.append(input_value + reminders[remkey])
      match fieldsLoop cfg k o (i + 1) xs (ddTouch d1 (k, i)) rk1 with
      | (d', rk', some bits) => (d', rk', some ((x + remGet d1 (k, i)) :: bits))
      | (d', rk', none) => (d', rk', none)

/-- `for key in input_dict` -/
def keysLoop (cfg : Cfg) (old : Raw) : Raw → RemD → RemK → RemD × RemK × Option Raw
  | [], d, rk => (d, rk, some [])
  | (k, v) :: rest, d, rk =>
    match old.lookup k with
    | none =>
      match keysLoop cfg old rest d rk with
      | (d', rk', some out) => (d', rk', some ((k, v) :: out))
      | (d', rk', none) => (d', rk', none)
    | some o =>
      match fieldsLoop cfg k o 0 v d rk with
      | (d1, rk1, none) => (d1, rk1, none)
      | (d1, rk1, some bits) =>
        match keysLoop cfg old rest d1 rk1 with
        | (d', rk', some out) => (d', rk', some ((k, bits) :: out))
        | (d', rk', none) => (d', rk', none)

/-- `gone_keys = set(old_dict.keys()) - set(input_dict.keys())` (in the old dict's order; the
    order of a Python set is arbitrary and has no effect on the result) -/
def goneKeys (old input : Raw) : List Key :=
  (old.map (·.1)).filter fun k => (input.lookup k).isNone

/-- `_WrapNumbers.run(input_dict, name)` on the three dict entries of `name` -/
def crun (cfg : Cfg) (w : CWN) (input : Raw) : CWN × COut :=
  match w.cache with
  | none =>
    -- _add_dict: assert name not in self.reminders / self.reminder_keys
    if w.rems.isSome || w.remKeys.isSome then (w, .assertionError)
    else (⟨some input, some [], some []⟩, .out (.dict input))
  | some old =>
    match w.rems, w.remKeys with
    | some d, some rk =>
      match removeDead d rk (goneKeys old input) with
      | none => (w, .keyError)       -- unreachable (C10_concrete_refines); the half-deleted state is not modelled
      | some (d0, rk0) =>
        match keysLoop cfg old input d0 rk0 with
        | (d1, rk1, some out) => (⟨some input, some d1, some rk1⟩, .out (.dict out))
        | (d1, rk1, none) => (⟨some old, some d1, some rk1⟩, .out .indexError)
    | _, _ => (w, .keyError)           -- self.reminder_keys[name] / self.reminders[name]

structure CSt where
  disk : CWN := {}
  net : CWN := {}
  diskPer : CWN := {}
  deriving DecidableEq, Repr

def CSt.init : CSt := {}

def CSt.get (s : CSt) : Name → CWN
  | .disk => s.disk
  | .net => s.net
  | .diskPer => s.diskPer

def CSt.set (s : CSt) (n : Name) (w : CWN) : CSt :=
  match n with
  | .disk => { s with disk := w }
  | .net => { s with net := w }
  | .diskPer => { s with diskPer := w }

/-- what the front end makes of `run`'s result (`{}` for an empty raw dict) -/
def cshapeEmpty (raw : Raw) : COut → COut
  | .out (.dict r) => if raw.isEmpty then .out .none else .out (.dict r)
  | o => o

/-- `Model/C10.step` on the concrete dicts -/
def cstep (cfg : Cfg) (s : CSt) : Op → CSt × COut
  | .call n nowrap raw =>
    if raw.isEmpty && !(cfg.emptyFeedsWrap && nowrap) then (s, .out .none)
    else if nowrap then
      let r := crun cfg (s.get (slot cfg n)) raw
      (s.set (slot cfg n) r.1, cshapeEmpty raw r.2)
    else (s, .out (.dict raw))
  | .clear n => (s.set (slot cfg n) {}, .out .unit)       -- three `pop(name, None)`
  | .clearAll => (CSt.init, .out .unit)                  -- three `.clear()`

def crunAll (cfg : Cfg) (s : CSt) : List Op → CSt
  | [] => s
  | op :: ops => crunAll cfg (cstep cfg s op).1 ops

/-- value of `cache_info()`: `(self.cache, self.reminders, self.reminder_keys)`, each restricted
    to the names it holds -/
structure CacheInfo where
  cache : List (Name × Raw)
  reminders : List (Name × RemD)
  reminderKeys : List (Name × RemK)
  deriving DecidableEq, Repr

def allNames : List Name := [.disk, .net, .diskPer]

def cacheInfo (s : CSt) : CacheInfo :=
  { cache := allNames.filterMap fun n => (s.get n).cache.map (n, ·)
    reminders := allNames.filterMap fun n => (s.get n).rems.map (n, ·)
    reminderKeys := allNames.filterMap fun n => (s.get n).remKeys.map (n, ·) }

/-- abstraction to the state of Model/C10.lean -/
def absW (w : CWN) : WN :=
  ⟨w.cache, fun k i => match w.rems with | some d => remGet d (k, i) | none => 0⟩

def absSt (s : CSt) : St := ⟨absW s.disk, absW s.net, absW s.diskPer⟩

end Psutil.C10
