/-
  Model/C19Dir.lean — the thermal-zone and hwmon directories at FILE-NAME level.

  `Model/C19.lean` abstracts a zone to a list of trip points and a chip to a list of sensors; the
  step from the directory listing to those lists is psutil's own string processing:

      trip_paths  = glob.glob(base + '/trip_point*')
      trip_points = {'_'.join(os.path.basename(p).split('_')[0:3]) for p in trip_paths}
      for trip_point in trip_points:                       # set order
          cat(join(base, trip_point + "_type")) … bcat(join(base, trip_point + "_temp"))

      basenames = glob('/sys/class/hwmon/hwmon*/temp*_*') (+ the device/ level)
      basenames = sorted({x.split('_')[0] for x in basenames})
      … bcat(base + '_input') … bcat(base + '_max') … bcat(base + '_crit') … cat(base + '_label')

  Here a directory is the list of its (existing) files by NAME; the model derives the trip-point
  names / sensor bases from the names exactly as the code does and looks the files up by name.
  The iteration order of the Python set is an input (any list without repetitions that has
  exactly the derived names as members: `isSetOrder`).
-/
import PsutilModel.Model.C19
namespace Psutil.C19

/-- a directory listing: the existing files; `none` = exists but `open()` raises -/
abbrev Dir := List (Bytes × Option Bytes)

def Dir.names (d : Dir) : List Bytes := d.map (·.1)

/-- the state of `dir/name` (absent when the listing has no such name) -/
def Dir.file (d : Dir) (name : Bytes) : FileState :=
  match d.lookup name with
  | none => .absent
  | some none => .unreadable
  | some (some b) => .content b

def bTripPoint : Bytes := [116, 114, 105, 112, 95, 112, 111, 105, 110, 116]     -- "trip_point"
def bSufType : Bytes := [95, 116, 121, 112, 101]                                 -- "_type"
def bSufTemp : Bytes := [95, 116, 101, 109, 112]                                 -- "_temp"
def bSufHyst : Bytes := [95, 104, 121, 115, 116]                                 -- "_hyst"
def bNameTemp : Bytes := [116, 101, 109, 112]                                    -- "temp"
def bNameType : Bytes := [116, 121, 112, 101]                                    -- "type"

/-- `'_'.join(name.split('_')[0:3])` -/
def tripName (fname : Bytes) : Bytes := joinWith [95] ((splitOn 95 fname).take 3)

/-- the names matched by `glob(base + '/trip_point*')` -/
def tripFiles (d : Dir) : List Bytes := d.names.filter (bTripPoint.isPrefixOf ·)

/-- the elements of the Python set `trip_points` (with repetitions; the set removes them) -/
def tripNames (d : Dir) : List Bytes := (tripFiles d).map tripName

/-- `order` is an iteration order of the set built from `names`: no repetition, same members -/
def isSetOrder (order names : List Bytes) : Bool :=
  decide order.Nodup && order.all (names.contains ·) && names.all (order.contains ·)

/-- loop body: the two files looked up for one element of the set -/
def tripOfName (d : Dir) (tp : Bytes) : Trip :=
  { typ := d.file (tp ++ bSufType), temp := d.file (tp ++ bSufTemp), hyst := true }

/-- the abstract zone the walker sees in directory `d` when the set iterates in `order` -/
def zoneOfDir (d : Dir) (order : List Bytes) : Zone :=
  { temp := d.file bNameTemp, typ := d.file bNameType, trips := order.map (tripOfName d) }

/-! ### hwmon: sensor bases from the names of one chip directory -/

/-- the names matched by `<prefix>*_*` (`temp*_*`, `fan*_*`) inside one directory -/
def globPrefixUnderscore (pre : Bytes) (name : Bytes) : Bool :=
  pre.isPrefixOf name && (name.drop pre.length).contains 95

/-- `x.split('_')[0]` on the name part (the directory part of a hwmon path holds no `_`) -/
def baseOf (fname : Bytes) : Bytes := fname.takeWhile (· ≠ 95)

/-- the elements of the set `{x.split('_')[0] for x in basenames}` for one directory -/
def sensorBases (pre : Bytes) (d : Dir) : List Bytes :=
  (d.names.filter (globPrefixUnderscore pre)).map baseOf

def bSufInput : Bytes := [95, 105, 110, 112, 117, 116]      -- "_input"
def bSufLabel : Bytes := [95, 108, 97, 98, 101, 108]        -- "_label"
def bSufMax : Bytes := [95, 109, 97, 120]                   -- "_max"
def bSufCrit : Bytes := [95, 99, 114, 105, 116]             -- "_crit"
def bFan : Bytes := [102, 97, 110]                          -- "fan"

/-- the abstract sensor for one base (it is in the list because one of its files exists: `other`) -/
def sensorOfBase (d : Dir) (base : Bytes) : Sensor :=
  { input := d.file (base ++ bSufInput), label := d.file (base ++ bSufLabel)
    max := d.file (base ++ bSufMax), crit := d.file (base ++ bSufCrit), other := true }

def fanOfBase (d : Dir) (base : Bytes) : Fan :=
  { input := d.file (base ++ bSufInput), label := d.file (base ++ bSufLabel), other := true }

def bName : Bytes := [110, 97, 109, 101]                    -- "name"

/-- the abstract chip for one hwmon directory; `tbases` / `fbases` = the de-duplicated bases (any
    order: rows are grouped by unit name, their order is not part of the property) -/
def chipOfDir (nested : Bool) (d : Dir) (tbases fbases : List Bytes) : Chip :=
  { nested := nested, name := d.file bName
    temps := tbases.map (sensorOfBase d), fans := fbases.map (fanOfBase d) }

end Psutil.C19
