/- Model/C01KillGen.lean — the kill(2) call graph of Model/C01Kill.lean instantiated with the extracted facts. -/
import PsutilModel.Model.C01Kill
import PsutilModel.Generated.C01
namespace Psutil.C01.Kill

/-- unknown class names are read as `neg` (the obligation then fails rather than passes) -/
def clsOfName (s : String) : Cls := if s == "pos" then .pos else if s == "zero" then .zero else .neg

/-- classes a public entry point's PID can take: any integer for a caller-chosen argument; never negative for the PID
    of a Process object when the constructor refuses negative numbers -/
def rootClasses (kind : String) : List Cls :=
  if kind == "self.pid" && (Gen.C01.negRejectedPy || Gen.C01.negRejectedC) then [.zero, .pos] else Cls.all

/-- the call graph as extracted from the current source -/
def kcfg : KCfg :=
  { sites := Gen.C01.killSites.map fun (f, c, a, r) => { fn := f, callee := c, arg := a, reach := r.map clsOfName }
    roots := Gen.C01.killRoots.map fun (f, k) => (f, rootClasses k) }

end Psutil.C01.Kill
