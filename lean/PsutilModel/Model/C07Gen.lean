/- Model/C07Gen.lean — the C07 model instantiated with the facts the translator extracted. -/
import PsutilModel.Model.C07
import PsutilModel.Generated.C07
namespace Psutil.C07

/-- field names → columns; an unknown name yields `none` (and `Cfg.Good` fails) -/
def fldsOf (l : List String) : Option (List Fld) := l.mapM Fld.ofName?

def optOf (l : List (Nat × String)) : Option (List (Nat × Fld)) :=
  l.mapM fun p => (Fld.ofName? p.2).map fun f => (p.1, f)

/-- configuration of the model as extracted from the current source -/
def cfg : Cfg :=
  { base := (fldsOf Gen.C07.baseFields).getD []
    opt := (optOf Gen.C07.optFields).getD []
    sliceFrom := Gen.C07.cpuTimesSlice.1
    sliceExtra := Gen.C07.cpuTimesSlice.2
    pcSliceFrom := Gen.C07.perCpuSlice.1
    pcSliceExtra := Gen.C07.perCpuSlice.2
    divTicks := Gen.C07.divTicks
    perCpuPrefix := Gen.C07.perCpuPrefix
    clipZero := Gen.C07.clipZero
    totSub := (fldsOf Gen.C07.totSub).getD []
    busySubReq := (fldsOf Gen.C07.busySubReq).getD []
    busySubOpt := (fldsOf Gen.C07.busySubOpt).getD []
    pctFactor := Gen.C07.pctFactor
    pctDigits := Gen.C07.pctDigits
    tpNumer := Gen.C07.tpNumer
    tpMaxOne := Gen.C07.tpMaxOne
    tpDigits := Gen.C07.tpDigits
    tpLo := Gen.C07.tpClamp.1
    tpHi := Gen.C07.tpClamp.2
    dictsDistinct := Gen.C07.dictsDistinct
    procFactor := Gen.C07.procFactor
    procDigits := Gen.C07.procDigits
    procScaleDelta := Gen.C07.procScaleDelta
    storeBound := Gen.C07.lastStoreBound
    shapeOk := Gen.C07.shapeOk
      && (fldsOf Gen.C07.baseFields).isSome && (optOf Gen.C07.optFields).isSome
      && (fldsOf Gen.C07.totSub).isSome && (fldsOf Gen.C07.busySubReq).isSome
      && (fldsOf Gen.C07.busySubOpt).isSome }

end Psutil.C07
