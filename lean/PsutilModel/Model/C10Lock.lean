/-
  Model/C10Lock.lean — the front ends' sampling lock as an OBJECT (seeded round 5, C10-5).

  `Model/C10Conc.lean` has the sampling lock as a flag (`Cfg.sampleUnderLock`) and its holder as a
  field (`Sys.outer`): taking it is merged with the platform call. That says nothing about HOW a
  caller comes by the lock object it takes, nor about thread switches between the start of a public
  call and the moment the lock is held. Here both are explicit. One `nowrap=True` call of thread `t`
  on history `n` is

      lookup t n     the expression after `with` is evaluated. Policy `static lockOf`: a lock object
                     that existed before any call (a module-level `threading.Lock()`, never rebound);
                     which one may depend on the history (`lockOf n`: one shared lock, or one per
                     name). Policy `lazy`: looked up in a table; a miss makes the caller …
      create t       … create a fresh lock object and store it in the table (check-then-act: another
                     thread may have missed, or stored its own object, in between)
      enter t        the lock object in hand is acquired (only if nobody holds THAT object)
      sample t raw   the platform function returns `raw`
      inner a        `wrap_numbers`: acquire / load / store / release of `_wn.lock` (Model/C10Conc)
      leave t        the `with` block is left: the object is released

  `cache_clear` (`inner (wantClear …)` + the same four inner actions) never takes a sampling lock.

  `Sys.outer` is a GHOST here: `sample` records the sampler in it and the release of `_wn.lock`
  clears it, but nothing is enabled or disabled by it (`sampleFree` has no guard) — mutual exclusion
  comes from the lock objects (`holder`) alone. `Proofs/C10Lock.lean` proves that under the policy
  `static (fun _ => l0)` the ghost is always `none` when a thread samples, i.e. every run is a run
  of `Model/C10Conc` with `sampleUnderLock = true`; under `lazy` it is not (Props:
  `C10_lazy_lock_created_twice`). Import-free.
-/
import PsutilModel.Model.C10Conc
namespace Psutil.C10

inductive LockPolicy
  | static (lockOf : Name → Nat)
  | lazy

inductive LPC
  | out                          -- not inside the sampling section
  | missed (n : Name)            -- looked the lock of history `n` up in the table: not there
  | got (n : Name) (l : Nat)     -- has a lock object in hand, not yet acquired
  | crit (n : Name) (l : Nat)    -- holds it; has not read the kernel yet
  | fed (n : Name) (l : Nat)     -- holds it; has read the kernel, `wrap_numbers` not yet returned
  | done (n : Name) (l : Nat)    -- holds it; `wrap_numbers` has returned
  deriving DecidableEq

inductive LAct
  | lookup (t : Nat) (n : Name)
  | create (t : Nat)
  | enter (t : Nat)
  | sample (t : Nat) (raw : Raw)
  | leave (t : Nat)
  | inner (a : Act)

structure LSys where
  sys : Sys
  table : Name → Option Nat      -- lazy policy: the lock object stored for each history, if any
  holder : Nat → Option Nat      -- lock object ↦ thread that holds it
  lpc : Nat → LPC
  fresh : Nat                    -- next lock object

def LSys.init : LSys := ⟨Sys.init, fun _ => none, fun _ => none, fun _ => .out, 0⟩

def setL (f : Nat → LPC) (t : Nat) (v : LPC) : Nat → LPC := fun u => if u = t then v else f u
def setH (f : Nat → Option Nat) (l : Nat) (v : Option Nat) : Nat → Option Nat :=
  fun k => if k = l then v else f k
def setT (f : Name → Option Nat) (n : Name) (v : Option Nat) : Name → Option Nat :=
  fun m => if m = n then v else f m

/-- the configuration whose lock model (`stepC`) takes the sample under a lock -/
def Cfg.inside (c : Cfg) : Cfg := { c with sampleUnderLock := true }

/-- the platform call, with NO guard on the ghost `outer` -/
def sampleFree (s : Sys) (t : Nat) (n : Name) (raw : Raw) : Option Sys :=
  match s.pc t with
  | .idle => some { s with pc := setPc s.pc t (.want (.call n true raw))
                           outer := some t
                           samples := s.samples ++ [(t, .call n true raw)] }
  | _ => none

/-- an action of `Model/C10Conc` on the embedded `Sys` -/
def plainInner (c : Cfg) (s : LSys) (a : Act) : Option LSys :=
  match stepC c.inside s.sys a with
  | some sys' => some { s with sys := sys' }
  | none => none

def afterWrap : LPC → LPC
  | .fed n l => .done n l
  | p => p

def stepL (c : Cfg) (pol : LockPolicy) (s : LSys) : LAct → Option LSys
  | .lookup t n =>
    match s.lpc t, s.sys.pc t with
    | .out, .idle =>
      match pol with
      | .static lockOf => some { s with lpc := setL s.lpc t (.got n (lockOf n)) }
      | .lazy =>
        match s.table n with
        | some l => some { s with lpc := setL s.lpc t (.got n l) }
        | none => some { s with lpc := setL s.lpc t (.missed n) }
    | _, _ => none
  | .create t =>
    match s.lpc t with
    | .missed n => some { s with table := setT s.table n (some s.fresh)
                                 lpc := setL s.lpc t (.got n s.fresh)
                                 fresh := s.fresh + 1 }
    | _ => none
  | .enter t =>
    match s.lpc t with
    | .got n l =>
      match s.holder l with
      | none => some { s with holder := setH s.holder l (some t), lpc := setL s.lpc t (.crit n l) }
      | some _ => none
    | _ => none
  | .sample t raw =>
    match s.lpc t with
    | .crit n l =>
      match sampleFree s.sys t n raw with
      | some sys' => some { s with sys := sys', lpc := setL s.lpc t (.fed n l) }
      | none => none
    | _ => none
  | .leave t =>
    match s.lpc t with
    | .done _ l => some { s with holder := setH s.holder l none, lpc := setL s.lpc t .out }
    | _ => none
  | .inner (.sample _ _ _) => none              -- only through the sampling section
  | .inner (.wantClear t n) =>
    match s.lpc t with
    | .out => plainInner c s (.wantClear t n)
    | _ => none
  | .inner (.acquire t) => plainInner c s (.acquire t)
  | .inner (.load t) => plainInner c s (.load t)
  | .inner (.store t) => plainInner c s (.store t)
  | .inner (.release t) =>
    -- `wrap_numbers` returns to the front end
    match plainInner c s (.release t) with
    | some s' => some { s' with lpc := setL s.lpc t (afterWrap (s.lpc t)) }
    | none => none

def runL (c : Cfg) (pol : LockPolicy) (s : LSys) : List LAct → Option LSys
  | [] => some s
  | a :: as => match stepL c pol s a with
    | none => none
    | some s' => runL c pol s' as

/-- the lock object a thread holds for its sampling section, if it is inside one -/
def secLock : LPC → Option Nat
  | .crit _ l => some l
  | .fed _ l => some l
  | .done _ l => some l
  | _ => none

/-- the history a thread's sampling section is for -/
def secName : LPC → Option Name
  | .crit n _ => some n
  | .fed n _ => some n
  | .done n _ => some n
  | _ => none

end Psutil.C10
