/-
  Model/C19Boot.lean — HISTORIES of calls around the module global `BOOT_TIME` of `_pslinux.py`
  (seeded round 5). One interpreter, the global starts unset (`none`); at every step the kernel's
  tables are what they are at THAT moment (the clock may have been stepped in between, by any amount,
  in particular by one second) and one public call is made:

    * `psutil.boot_time()`            — reads `<procfs>/stat`, writes the global when it is unset,
                                         returns what its RETURN RULE makes of (global, value read);
    * `Process.create_time()`         — `bt = BOOT_TIME if BOOT_TIME is not None else boot_time()`,
                                         returns `starttime / CLOCK_TICKS + bt`: it READS the global
                                         and, through `boot_time()`, is the other call that SETS it;
    * `psutil.cpu_stats()`            — another reader of the same file, never touches the global.

  The return rule is a function (`BootRule`): the code as it is has `ruleFresh` (`return ret`);
  `ruleCached` (`return BOOT_TIME`) and `ruleWithin tol` (the remembered value while the fresh one is
  within `tol` seconds of it) are the what-if shapes the theorems of Props/C19.lean refute.
  Import-free apart from Model/C19.lean.
-/
import PsutilModel.Model.C19
namespace Psutil.C19

/-- what `boot_time()` hands back after reading `v`, the module global being `g` BEFORE the call -/
abbrev BootRule := Option Rat → Rat → Rat

/-- `return ret` -/
def ruleFresh : BootRule := fun _ v => v

/-- `return BOOT_TIME` (after `if BOOT_TIME is None: BOOT_TIME = ret`) -/
def ruleCached : BootRule := fun g v => g.getD v

/-- the remembered value while the value just read is within `tol` of it, else the value just read -/
def ruleWithin (tol : Rat) : BootRule := fun g v =>
  match g with
  | some x => if v - x ≤ tol ∧ x - v ≤ tol then x else v
  | none => v

/-- the rule of the two shapes the translator tells apart (fact `bootTimeReturn`) -/
def ruleOf (returnsFresh : Bool) : BootRule := if returnsFresh then ruleFresh else ruleCached

/-- one `boot_time()` call: (returned, new global). The global is written by the first successful
    call only — whatever the rule returns. -/
def bootCall (rule : BootRule) (g : Option Rat) (stat : FileState) : Res Rat × Option Rat :=
  match bootTime stat with
  | .error e => (.error e, g)
  | .ok v => (.ok (rule g v), match g with | some x => some x | none => some v)

/-- one `Process.create_time()` call of a process whose `/proc/<pid>/stat` shows `start` clock ticks
    since boot: `bt = BOOT_TIME if BOOT_TIME is not None else boot_time()`; `start / CLOCK_TICKS + bt` -/
def createTimeCall (rule : BootRule) (ticks : Nat) (g : Option Rat) (stat : FileState) (start : Nat) :
    Res Rat × Option Rat :=
  match g with
  | some bt => (.ok ((start : Rat) / (ticks : Rat) + bt), g)
  | none =>
    match bootCall rule none stat with
    | (.error e, g') => (.error e, g')
    | (.ok bt, g') => (.ok ((start : Rat) / (ticks : Rat) + bt), g')

/-- the public call made at one moment of a history -/
inductive HCall
  | bootTime
  | createTime (start : Nat)
  | cpuStats
  deriving DecidableEq, Repr

/-- one moment: the `<procfs>/stat` of that moment and the call made -/
structure HStep where
  stat : FileState
  call : HCall
  deriving Repr

/-- what the call hands back -/
inductive HOut
  | time (r : Res Rat)
  | stats (r : Res StatAcc)

def histStep (rule : BootRule) (ticks : Nat) (g : Option Rat) (s : HStep) : HOut × Option Rat :=
  match s.call with
  | .bootTime => let r := bootCall rule g s.stat; (.time r.1, r.2)
  | .createTime start => let r := createTimeCall rule ticks g s.stat start; (.time r.1, r.2)
  | .cpuStats => (.stats (cpuStats s.stat), g)

/-- the results of a history of calls, the module global threaded through -/
def histRun (rule : BootRule) (ticks : Nat) : Option Rat → List HStep → List HOut
  | _, [] => []
  | g, s :: ss => let r := histStep rule ticks g s; r.1 :: histRun rule ticks r.2 ss

/-- the module global after the history -/
def histGlobal (rule : BootRule) (ticks : Nat) : Option Rat → List HStep → Option Rat
  | g, [] => g
  | g, s :: ss => histGlobal rule ticks (histStep rule ticks g s).2 ss

end Psutil.C19
