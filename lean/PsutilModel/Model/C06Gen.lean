/- Model/C06Gen.lean — the C06 model instantiated with the facts the translator extracted. -/
import PsutilModel.Model.C06
import PsutilModel.Model.C06Ext
import PsutilModel.Generated.C06
namespace Psutil.C06

/-- configuration of the model as extracted from the current source -/
def cfg : Cfg :=
  { statUsesRfind := Gen.C06.statUsesRfind
    nameFromFirstLpar := Gen.C06.nameFromFirstLpar && Gen.C06.nameKeyIsName
    statSkip := Gen.C06.statSkip
    iStatus := Gen.C06.iStatus
    iPpid := Gen.C06.iPpid
    iTty := Gen.C06.iTty
    iUtime := Gen.C06.iUtime
    iStime := Gen.C06.iStime
    iCutime := Gen.C06.iCutime
    iCstime := Gen.C06.iCstime
    iStart := Gen.C06.iStart
    iCpu := Gen.C06.iCpu
    iBlkio := Gen.C06.iBlkio
    blkioFallback := Gen.C06.blkioFallback
    threadsUsesRfind := Gen.C06.threadsUsesRfind
    threadsSkip := Gen.C06.threadsSkip
    tUtime := Gen.C06.tUtime
    tStime := Gen.C06.tStime
    statusBinary := Gen.C06.statusBinary
    uidKey := Gen.C06.uidKey
    uidAnchored := Gen.C06.uidAnchored
    uidSep := ⟨Gen.C06.uidSep.1, Gen.C06.uidSep.2.1, Gen.C06.uidSep.2.2⟩
    gidKey := Gen.C06.gidKey
    gidAnchored := Gen.C06.gidAnchored
    gidSep := ⟨Gen.C06.gidSep.1, Gen.C06.gidSep.2.1, Gen.C06.gidSep.2.2⟩
    thrKey := Gen.C06.thrKey
    thrAnchored := Gen.C06.thrAnchored
    thrSep := ⟨Gen.C06.thrSep.1, Gen.C06.thrSep.2.1, Gen.C06.thrSep.2.2⟩
    ctxKey := Gen.C06.ctxKey
    ctxAnchored := Gen.C06.ctxAnchored
    ctxSep := ⟨Gen.C06.ctxSep.1, Gen.C06.ctxSep.2.1, Gen.C06.ctxSep.2.2⟩
    statuses := Gen.C06.statuses }

/-- configuration of the code around the parsers (Model/C06Ext.lean) -/
def xcfg : XCfg :=
  { tmapGlobs := Gen.C06.tmapGlobs
    tmapSkipsVanished := Gen.C06.tmapSkipsVanished
    tmapChecksChr := Gen.C06.tmapChecksChr
    tmapMemoized := Gen.C06.tmapMemoized
    btimeKey := Gen.C06.btimeKey
    btimeIdx := Gen.C06.btimeIdx
    createUsesCachedBoot := Gen.C06.createUsesCachedBoot
    threadsSorts := Gen.C06.threadsSorts
    threadsSkipsVanished := Gen.C06.threadsSkipsVanished
    threadsChecksAlive := Gen.C06.threadsChecksAlive
    threadsSkipsEsrch := Gen.C06.threadsSkipsEsrch
    threadsHitStartsFalse := Gen.C06.threadsHitStartsFalse
    nameExtendMin := Gen.C06.nameExtendMin
    nameExtendChecksPrefix := Gen.C06.nameExtendGuards.contains "os.fsencode(extended_name).startswith(bname)" }

end Psutil.C06
