/- Model/C06Gen.lean — the C06 model instantiated with the facts the translator extracted. -/
import PsutilModel.Model.C06
import PsutilModel.Model.C06Ext
import PsutilModel.Model.C06Hist
import PsutilModel.Generated.C06
namespace Psutil.C06

/-- configuration of the model as extracted from the current source -/
def cfg : Cfg :=
  { statUsesRfind := Gen.C06.statUsesRfind
    nameFromFirstLpar := Gen.C06.nameFromFirstLpar && Gen.C06.nameKeyIsName
    statSkip := Gen.C06.statSkip
    iStatus := Gen.C06.iStatus
    iPpid := Gen.C06.iPpid
    iTty := Gen.C06.iTty
    iUtime := Gen.C06.iUtime
    iStime := Gen.C06.iStime
    iCutime := Gen.C06.iCutime
    iCstime := Gen.C06.iCstime
    iStart := Gen.C06.iStart
    iCpu := Gen.C06.iCpu
    iBlkio := Gen.C06.iBlkio
    blkioFallback := Gen.C06.blkioFallback
    threadsUsesRfind := Gen.C06.threadsUsesRfind
    threadsSkip := Gen.C06.threadsSkip
    tUtime := Gen.C06.tUtime
    tStime := Gen.C06.tStime
    statusBinary := Gen.C06.statusBinary
    uidKey := Gen.C06.uidKey
    uidAnchored := Gen.C06.uidAnchored
    uidSep := ⟨Gen.C06.uidSep.1, Gen.C06.uidSep.2.1, Gen.C06.uidSep.2.2⟩
    gidKey := Gen.C06.gidKey
    gidAnchored := Gen.C06.gidAnchored
    gidSep := ⟨Gen.C06.gidSep.1, Gen.C06.gidSep.2.1, Gen.C06.gidSep.2.2⟩
    thrKey := Gen.C06.thrKey
    thrAnchored := Gen.C06.thrAnchored
    thrSep := ⟨Gen.C06.thrSep.1, Gen.C06.thrSep.2.1, Gen.C06.thrSep.2.2⟩
    ctxKey := Gen.C06.ctxKey
    ctxAnchored := Gen.C06.ctxAnchored
    ctxSep := ⟨Gen.C06.ctxSep.1, Gen.C06.ctxSep.2.1, Gen.C06.ctxSep.2.2⟩
    statuses := Gen.C06.statuses }

/-- the translator's description of `bt = …` in create_time() → the model's three-valued setting -/
def bootSrcOf (s : String) : BootSrc :=
  if s == "or" then .or else if s == "isNotNone" then .isNotNone else if s == "fresh" then .fresh else .other

/-- configuration of the code around the parsers (Model/C06Ext.lean) -/
def xcfg : XCfg :=
  { tmapGlobs := Gen.C06.tmapGlobs
    tmapSkipsVanished := Gen.C06.tmapSkipsVanished
    tmapChecksChr := Gen.C06.tmapChecksChr
    tmapMemoized := Gen.C06.tmapMemoized
    btimeKey := Gen.C06.btimeKey
    btimeIdx := Gen.C06.btimeIdx
    createBoot := bootSrcOf Gen.C06.createBoot
    threadsSorts := Gen.C06.threadsSorts
    threadsSkipsVanished := Gen.C06.threadsSkipsVanished
    threadsChecksAlive := Gen.C06.threadsChecksAlive
    threadsSkipsEsrch := Gen.C06.threadsSkipsEsrch
    threadsHitStartsFalse := Gen.C06.threadsHitStartsFalse
    nameExtendMin := Gen.C06.nameExtendMin
    nameExtendChecksPrefix := Gen.C06.nameExtendGuards.contains "os.fsencode(extended_name).startswith(bname)" }

/-! ### histories: `oneshot()` and the `memoize_when_activated` caches (Model/C06Hist.lean) -/

/-- `self.<m>` for a front-end method decorated with `@memoize_when_activated` -/
def isFeMemoRecv (recv : String) : Bool := Gen.C06.feMemoized.any fun m => recv == "self." ++ m

/-- `self.<m>` for a decorated method of the platform class -/
def isPlMemoRecv (recv : String) : Bool := Gen.C06.plMemoized.any fun m => recv == "self." ++ m

/-- the last (de)activation of a decorated platform function among the calls of `oneshot_enter` / `oneshot_exit`
    (all decorated functions of one object share the one `_cache` slot) -/
def lastSlotCall : List (String × String) → Option Bool
  | [] => none
  | c :: rest =>
    match lastSlotCall rest with
    | some b => some b
    | none =>
      if isPlMemoRecv c.1 && c.2 == "cache_activate" then some true
      else if isPlMemoRecv c.1 && c.2 == "cache_deactivate" then some false
      else none

/-- what one call of `Process.oneshot()` does to the two `_cache` slots -/
def actOf (c : String × String) : Act :=
  if isFeMemoRecv c.1 && c.2 == "cache_activate" then .feOn
  else if isFeMemoRecv c.1 && c.2 == "cache_deactivate" then .feOff
  else if c.1 == "self._proc" && c.2 == "oneshot_enter" then
    (match lastSlotCall Gen.C06.plEnterCalls with
     | some true => .plOn
     | some false => .plOff
     | none => .other)
  else if c.1 == "self._proc" && c.2 == "oneshot_exit" then
    (match lastSlotCall Gen.C06.plExitCalls with
     | some true => .plOn
     | some false => .plOff
     | none => .other)
  else .other

/-- the Python name of a getter -/
def Getter.pyName : Getter → String
  | .name => "name" | .ppid => "ppid" | .status => "status" | .cpuTimes => "cpu_times" | .cpuNum => "cpu_num"
  | .terminal => "terminal" | .uids => "uids" | .gids => "gids" | .numThreads => "num_threads"
  | .numCtxSwitches => "num_ctx_switches"

def allGetters : List Getter :=
  [.name, .ppid, .status, .cpuTimes, .cpuNum, .terminal, .uids, .gids, .numThreads, .numCtxSwitches]

/-- configuration of the caching machinery as extracted from the current source -/
def hcfg : HCfg :=
  { enterActs := Gen.C06.oneshotEnter.map actOf
    leaveActs := Gen.C06.oneshotLeave.map actOf
    leaveExcActs := Gen.C06.oneshotLeaveExc.map actOf
    nestedNoop := Gen.C06.oneshotIsContextManager && Gen.C06.oneshotNestedTest == "hasattr(self, '_cache')"
      && Gen.C06.oneshotNestedBody == ["yield"]
    feMemo := allGetters.filter fun g => Gen.C06.feMemoized.contains g.pyName
    plMemoStat := Gen.C06.plMemoized.contains "_parse_stat_file"
    plMemoStatus := Gen.C06.plMemoized.contains "_read_status_file" }

end Psutil.C06
