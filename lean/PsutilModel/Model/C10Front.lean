/-
  Model/C10Front.lean — the two public front ends `psutil.disk_io_counters(perdisk, nowrap)` /
  `psutil.net_io_counters(pernic, nowrap)` around `Model/C10.step`:

    kwargs  = dict(perdisk=perdisk) if LINUX else {}
    rawdict = _psplatform.disk_io_counters(**kwargs)         -- `platRaw`
    if not rawdict: (feed wrap_numbers if nowrap); return {} if perdisk else None
    if nowrap: rawdict = _wrap_numbers(rawdict, <name>)      -- `step` on slot `slotOf`
    perdisk:  {disk: nt(*fields)}                            -- `shape true`
    else:     nt(*(sum(x) for x in zip(*rawdict.values())))  -- `shape false` = `colSums`

  The kernel's listing is the input: every device with its counters and whether it is a whole
  disk (`_pslinux.is_storage_device`). Import-free.
-/
import PsutilModel.Model.C10
namespace Psutil.C10

/-- public function -/
inductive Fn | disk | net
  deriving DecidableEq, Repr

/-- what the kernel lists at the moment of the call: name, `is_storage_device(name)`, counters -/
abbrev Listing := List (Key × Bool × List Nat)

structure Call where
  fn : Fn
  nowrap : Bool
  perdev : Bool            -- `perdisk` / `pernic`
  listing : Listing

/-- `_psplatform.<fn>(**kwargs)`: on Linux `disk_io_counters(perdisk=False)` skips every device
    that is not a whole disk; everything else is handed on unchanged. -/
def platRaw (cfg : Cfg) (fn : Fn) (perdev : Bool) (l : Listing) : Raw :=
  (l.filter fun e => perdev || e.2.1 || !(cfg.linuxFilter && decide (fn = .disk))).map
    fun e => (e.1, e.2.2)

/-- the `name` literal the front end passes to `wrap_numbers` -/
def slotOf (cfg : Cfg) (fn : Fn) (perdev : Bool) : Name :=
  match fn with
  | .net => .net
  | .disk => if cfg.formsSeparate && perdev then .diskPer else .disk

/-- `zip(*values)` then `sum` of every column: zip stops at the shortest tuple -/
def colSums : List (List Nat) → List Nat
  | [] => []
  | v :: rest => rest.foldl (fun acc t => List.zipWith (· + ·) acc t) v

/-- last lines of the front end: per-device dict of namedtuples, or the field-wise sum -/
def shape (perdev : Bool) : Out → Out
  | .none => if perdev then .none else .nil
  | .dict r => if perdev then .dict r else .total (colSums (r.map (·.2)))
  | o => o

inductive FOp
  | call (c : Call)
  | clear (fn : Fn)        -- psutil.<fn>.cache_clear()
  | clearAll               -- _common.wrap_numbers.cache_clear()

/-- the `_WrapNumbers`-level operations one public operation performs -/
def lower (cfg : Cfg) : FOp → List Op
  | .call c => [.call (slotOf cfg c.fn c.perdev) c.nowrap (platRaw cfg c.fn c.perdev c.listing)]
  | .clear .net => [.clear .net]
  | .clear .disk => .clear .disk :: (if cfg.clearPer then [.clear .diskPer] else [])
  | .clearAll => [.clearAll]

def lowerAll (cfg : Cfg) (fh : List FOp) : List Op := fh.flatMap (lower cfg)

def fstep (cfg : Cfg) (s : St) : FOp → St × Out
  | .call c =>
    let r := step cfg s (.call (slotOf cfg c.fn c.perdev) c.nowrap (platRaw cfg c.fn c.perdev c.listing))
    (r.1, shape c.perdev r.2)
  | op => (runAll cfg s (lower cfg op), .unit)

def frun (cfg : Cfg) (s : St) : List FOp → St
  | [] => s
  | op :: ops => frun cfg (fstep cfg s op).1 ops

end Psutil.C10
