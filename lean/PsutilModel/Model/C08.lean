/-
  Model/C08.lean — transcription of `_pslinux.virtual_memory()`, `calculate_avail_vmem()`,
  `_pslinux.swap_memory()` and `_common.usage_percent()`, from the text of /proc/meminfo,
  /proc/zoneinfo and /proc/vmstat to the returned named tuples and the warnings.
  Import-free (Base.Bytes / Base.Dec only). Same branch order and names as the Python.

  Every literal the Python uses (dictionary keys, `* 1024`, `* 4 * 1024`, the `low` prefix,
  `round_=1`, the guards) is a field of `Cfg`; Model/C08Gen.lean fills it from the facts the
  translator re-derives from the source on every run.
-/
import PsutilModel.Base.Bytes
import PsutilModel.Base.Dec
import PsutilModel.Model.C08Int
namespace Psutil.C08

/-- the exceptions the parsers can raise (explicit, never totalised away) -/
inductive Err
  | indexError                 -- `fields[1]` / `line.split()[1]` on a short line
  | valueError                 -- `int()` on a non-number
  | keyError (k : Bytes)       -- `mems[b'MemTotal:']` …
  | negLiteral                 -- NOT an exception: `int()` returned a negative number and the
                               -- implementation carries on with it; the model's figures are naturals
                               -- (the kernel prints `%lu`), so it stops here — explicitly, no claim
  deriving DecidableEq, Repr

/-- `mems[fields[keyIdx]] = int(fields[valIdx]) * factor` -/
structure ParseCfg where
  keyIdx : Nat
  valIdx : Nat
  factor : Nat
  deriving DecidableEq, Repr

structure Cfg where
  -- virtual_memory()
  vmParse : ParseCfg
  kMemTotal : Bytes
  kMemFree : Bytes
  kBuffers : Bytes
  kCached : Bytes
  kSReclaimable : Bytes
  kShmem : Bytes
  kMemShared : Bytes
  kActive : Bytes
  kInactive : Bytes
  kInactDirty : Bytes
  kInactClean : Bytes
  kInactLaundry : Bytes
  kSlab : Bytes
  kMemAvailable : Bytes
  nBuffers : String            -- names appended to `missing_fields`
  nCached : String
  nShared : String
  nActive : String
  nInactive : String
  nAvailable : String
  usedClamp : Bool             -- `if used < 0: used = total - free`
  zeroAvailFallsBack : Bool    -- `if avail == 0: avail = calculate_avail_vmem(mems)`
  availClampLow : Bool         -- `if avail < 0: avail = 0; missing_fields.append('available')`
  availClampHigh : Bool        -- `elif avail > total: avail = free`
  vmRound : Nat                -- `round_=1`
  -- calculate_avail_vmem()
  caMemFree : Bytes
  caCached : Bytes
  caActiveFile : Bytes
  caInactiveFile : Bytes
  caSReclaimable : Bytes
  lowPrefix : Bytes            -- `line.startswith(b'low')`
  lowIdx : Nat                 -- `line.split()[1]`
  -- swap_memory()
  swParse : ParseCfg
  kSwapTotal : Bytes
  kSwapFree : Bytes
  swRound : Nat
  sinPrefix : Bytes
  sinIdx : Nat
  sinFactor : Nat              -- `* 4 * 1024`
  soutPrefix : Bytes
  soutIdx : Nat
  soutFactor : Nat
  -- usage_percent(): `(float(used) / total) * pctScale`
  pctScale : Nat
  -- positional layout of the returned records: (field name, local variable passed there)
  svmemLayout : List (String × String)
  sswapLayout : List (String × String)
  -- the native record behind the swap fallback: members of `struct sysinfo` in the order
  -- `Py_BuildValue` lays them out (arch/linux/mem.c) and the names the Python unpacks them into
  sysCOrder : List String
  sysUnpack : List String
  sysTotalTimesUnit : Bool     -- `total *= unit_multiplier`
  sysFreeTimesUnit : Bool      -- `free *= unit_multiplier`
  -- psutil/__init__.py: `_TOTAL_PHYMEM = ret.total` in virtual_memory(), and
  -- `_TOTAL_PHYMEM or virtual_memory().total` in Process.memory_percent()
  primesTotalPhymem : Bool
  phymemField : String         -- the field of the record that is cached (`total`)
  memPercentUsesCache : Bool
  deriving DecidableEq, Repr

/-! ### parsing /proc/meminfo -/

/-- the dict `mems`; newest assignment first, so `lookup` = "last assignment wins" -/
abbrev Mems := List (Bytes × Nat)

def parseLine (p : ParseCfg) (line : Bytes) : Except Err (Bytes × Nat) :=
  let fields := splitWs line
  match fields[p.valIdx]? with
  | none => .error .indexError
  | some v =>
    match pyIntLit v with
    | .invalid => .error .valueError
    | .neg _ => .error .negLiteral
    | .nat n =>
      match fields[p.keyIdx]? with
      | none => .error .indexError
      | some k => .ok (k, n * p.factor)

def parseLines (p : ParseCfg) : List Bytes → Mems → Except Err Mems
  | [], acc => .ok acc
  | line :: rest, acc =>
    match parseLine p line with
    | .error e => .error e
    | .ok kv => parseLines p rest (kv :: acc)

/-- `for line in f: fields = line.split(); mems[fields[0]] = int(fields[1]) * 1024` -/
def parseMeminfo (p : ParseCfg) (content : Bytes) : Except Err Mems :=
  parseLines p (linesOf content) []

/-! ### calculate_avail_vmem -/

/-- the loop over /proc/zoneinfo: sum of the `low` watermarks, in pages -/
def watermarkLow (c : Cfg) : List Bytes → Except Err Nat
  | [] => .ok 0
  | line :: rest =>
    let l := stripWs line
    if startsWith c.lowPrefix l then
      match (splitWs l)[c.lowIdx]? with
      | none => .error .indexError
      | some t =>
        match pyIntLit t with
        | .invalid => .error .valueError
        | .neg _ => .error .negLiteral
        | .nat n =>
          match watermarkLow c rest with
          | .error e => .error e
          | .ok s => .ok (n + s)
    else watermarkLow c rest

/-- the float arithmetic of the fallback, done exactly in half-byte units:
    `avail2 = 2 * avail`; `int(avail)` truncates toward zero. -/
def availHalves (free wm pagecache slabRecl : Nat) : Int :=
  (2 * (free : Int) - 2 * (wm : Int))
    + (2 * (pagecache : Int) - ((min pagecache (2 * wm) : Nat) : Int))
    + (2 * (slabRecl : Int) - ((min slabRecl (2 * wm) : Nat) : Int))

def calcAvail (c : Cfg) (pagesize : Nat) (lk : Bytes → Option Nat) (zoneinfo : Option Bytes) :
    Except Err Int :=
  match lk c.caMemFree with
  | none => .error (.keyError c.caMemFree)
  | some free =>
    let fallback : Int := ((free + (lk c.caCached).getD 0 : Nat) : Int)
    match lk c.caActiveFile, lk c.caInactiveFile, lk c.caSReclaimable with
    | some lruActiveFile, some lruInactiveFile, some slabReclaimable =>
      match zoneinfo with
      | none => .ok fallback                       -- `except OSError: return fallback`
      | some z =>
        match watermarkLow c (linesOf z) with
        | .error e => .error e
        | .ok pages =>
          let watermarkLow := pages * pagesize
          .ok (Int.tdiv (availHalves free watermarkLow (lruActiveFile + lruInactiveFile)
                  slabReclaimable) 2)
    | _, _, _ => .ok fallback                      -- `except KeyError: return fallback`

/-! ### usage_percent -/

/-- `round(n / d, 0)` for `d > 0`: nearest integer, ties to even (what `round()` does on the
    exact quotient) -/
def roundHalfEvenDiv (n : Int) (d : Nat) : Int :=
  let q := n / (d : Int)
  let r := n % (d : Int)
  if 2 * r < d then q
  else if 2 * r > d then q + 1
  else if q % 2 = 0 then q else q + 1

/-- `usage_percent(used, total, round_=digits)`, scaled by `10 ^ digits` (an integer) -/
def usagePercentScaled (scale : Nat) (used : Int) (total : Nat) (digits : Nat) : Int :=
  if total = 0 then 0                              -- ZeroDivisionError → 0.0
  else roundHalfEvenDiv (used * scale * 10 ^ digits) total

/-! ### virtual_memory -/

structure VmOut where
  total : Nat
  avail : Int
  percent : Int        -- scaled by 10 ^ vmRound
  used : Int
  free : Nat
  active : Nat
  inactive : Nat
  buffers : Nat
  cached : Nat
  shared : Nat
  slab : Nat
  missing : List String   -- `missing_fields`, in append order; non-empty ⇒ one RuntimeWarning
  deriving DecidableEq, Repr

def getBuffers (c : Cfg) (lk : Bytes → Option Nat) : Nat × List String :=
  match lk c.kBuffers with
  | some b => (b, [])
  | none => (0, [c.nBuffers])

def getCached (c : Cfg) (lk : Bytes → Option Nat) : Nat × List String :=
  match lk c.kCached with
  | none => (0, [c.nCached])
  | some cached => (cached + (lk c.kSReclaimable).getD 0, [])

def getShared (c : Cfg) (lk : Bytes → Option Nat) : Nat × List String :=
  match lk c.kShmem with
  | some s => (s, [])
  | none =>
    match lk c.kMemShared with
    | some s => (s, [])
    | none => (0, [c.nShared])

def getActive (c : Cfg) (lk : Bytes → Option Nat) : Nat × List String :=
  match lk c.kActive with
  | some a => (a, [])
  | none => (0, [c.nActive])

def getInactive (c : Cfg) (lk : Bytes → Option Nat) : Nat × List String :=
  match lk c.kInactive with
  | some i => (i, [])
  | none =>
    match lk c.kInactDirty, lk c.kInactClean, lk c.kInactLaundry with
    | some a, some b, some d => (a + b + d, [])
    | _, _, _ => (0, [c.nInactive])

def getSlab (c : Cfg) (lk : Bytes → Option Nat) : Nat := (lk c.kSlab).getD 0

def usedOf (c : Cfg) (total free cached buffers : Nat) : Int :=
  let used : Int := (total : Int) - free - cached - buffers
  if c.usedClamp && decide (used < 0) then (total : Int) - free else used

def availRaw (c : Cfg) (pagesize : Nat) (lk : Bytes → Option Nat) (zoneinfo : Option Bytes) :
    Except Err Int :=
  match lk c.kMemAvailable with
  | none => calcAvail c pagesize lk zoneinfo
  | some avail =>
    if c.zeroAvailFallsBack && avail == 0 then calcAvail c pagesize lk zoneinfo
    else .ok (avail : Int)

def clampAvail (c : Cfg) (avail : Int) (total free : Nat) : Int × List String :=
  if c.availClampLow && decide (avail < 0) then (0, [c.nAvailable])
  else if c.availClampHigh && decide (avail > (total : Int)) then ((free : Int), [])
  else (avail, [])

/-- the body of `virtual_memory()` after the parsing loop; `lk k` is `mems.get(k)` -/
def vmCore (c : Cfg) (pagesize : Nat) (lk : Bytes → Option Nat) (zoneinfo : Option Bytes) :
    Except Err VmOut :=
  match lk c.kMemTotal with
  | none => .error (.keyError c.kMemTotal)
  | some total =>
    match lk c.kMemFree with
    | none => .error (.keyError c.kMemFree)
    | some free =>
      let (buffers, m1) := getBuffers c lk
      let (cached, m2) := getCached c lk
      let (shared, m3) := getShared c lk
      let (active, m4) := getActive c lk
      let (inactive, m5) := getInactive c lk
      let slab := getSlab c lk
      let used := usedOf c total free cached buffers
      match availRaw c pagesize lk zoneinfo with
      | .error e => .error e
      | .ok avail0 =>
        let (avail, m6) := clampAvail c avail0 total free
        let percent := usagePercentScaled c.pctScale ((total : Int) - avail) total c.vmRound
        .ok { total := total, avail := avail, percent := percent, used := used, free := free,
              active := active, inactive := inactive, buffers := buffers, cached := cached,
              shared := shared, slab := slab, missing := m1 ++ m2 ++ m3 ++ m4 ++ m5 ++ m6 }

/-- `psutil.virtual_memory()` over the text of /proc/meminfo and (if readable) /proc/zoneinfo -/
def virtualMemory (c : Cfg) (pagesize : Nat) (meminfo : Bytes) (zoneinfo : Option Bytes) :
    Except Err VmOut :=
  match parseMeminfo c.vmParse meminfo with
  | .error e => .error e
  | .ok mems => vmCore c pagesize (fun k => mems.lookup k) zoneinfo

/-- value of the local variable that `svmem(...)` receives at some position -/
def VmOut.var (o : VmOut) : String → Option Int
  | "total" => some o.total
  | "avail" => some o.avail
  | "percent" => some o.percent
  | "used" => some o.used
  | "free" => some o.free
  | "active" => some o.active
  | "inactive" => some o.inactive
  | "buffers" => some o.buffers
  | "cached" => some o.cached
  | "shared" => some o.shared
  | "slab" => some o.slab
  | _ => none

/-! ### swap_memory -/

/-- the three slots of `cext.linux_sysinfo()` that `swap_memory` uses: `[4]`, `[5]`, `[6]` -/
structure Sysinfo where
  total : Nat
  free : Nat
  unit : Nat
  deriving DecidableEq, Repr

structure SwapOut where
  total : Nat
  used : Int
  free : Nat
  percent : Int        -- scaled by 10 ^ swRound
  sin : Nat
  sout : Nat
  warned : Bool        -- the "'sin' and 'sout' … were set to 0" RuntimeWarning
  usedSysinfo : Bool   -- ghost: the fallback branch ran (the harness observes the call)
  deriving DecidableEq, Repr

/-- `int(line.split(b' ')[idx]) * factor` -/
def vmstatField (idx factor : Nat) (line : Bytes) : Except Err Nat :=
  match (splitOn 32 line)[idx]? with
  | none => .error .indexError
  | some t =>
    match pyIntLit t with                 -- `int()` strips the blanks (`b"12\n"`) itself
    | .invalid => .error .valueError
    | .neg _ => .error .negLiteral
    | .nat n => .ok (n * factor)

/-- the `for line in f: … else:` loop; `none` = loop ended without `break` -/
def vmstatLoop (c : Cfg) : List Bytes → Option Nat → Option Nat → Except Err (Option (Nat × Nat))
  | [], _, _ => .ok none
  | line :: rest, sin, sout =>
    let st : Except Err (Option Nat × Option Nat) :=
      if startsWith c.sinPrefix line then
        match vmstatField c.sinIdx c.sinFactor line with
        | .error e => .error e
        | .ok v => .ok (some v, sout)
      else if startsWith c.soutPrefix line then
        match vmstatField c.soutIdx c.soutFactor line with
        | .error e => .error e
        | .ok v => .ok (sin, some v)
      else .ok (sin, sout)
    match st with
    | .error e => .error e
    | .ok (some a, some b) => .ok (some (a, b))          -- `break`
    | .ok (s, t) => vmstatLoop c rest s t

def swapTotals (c : Cfg) (lk : Bytes → Option Nat) (sys : Sysinfo) : Nat × Nat × Bool :=
  match lk c.kSwapTotal, lk c.kSwapFree with
  | some total, some free => (total, free, false)
  | _, _ => (if c.sysTotalTimesUnit then sys.total * sys.unit else sys.total,
             if c.sysFreeTimesUnit then sys.free * sys.unit else sys.free, true)

def swapCore (c : Cfg) (lk : Bytes → Option Nat) (sys : Sysinfo) (vmstat : Option Bytes) :
    Except Err SwapOut :=
  let (total, free, viaSys) := swapTotals c lk sys
  let used : Int := (total : Int) - free
  let percent := usagePercentScaled c.pctScale used total c.swRound
  match vmstat with
  | none =>                                              -- `except OSError`: warn, sin = sout = 0
    .ok { total := total, used := used, free := free, percent := percent, sin := 0, sout := 0,
          warned := true, usedSysinfo := viaSys }
  | some v =>
    match vmstatLoop c (linesOf v) none none with
    | .error e => .error e
    | .ok none =>
      .ok { total := total, used := used, free := free, percent := percent, sin := 0, sout := 0,
            warned := true, usedSysinfo := viaSys }
    | .ok (some (sin, sout)) =>
      .ok { total := total, used := used, free := free, percent := percent, sin := sin,
            sout := sout, warned := false, usedSysinfo := viaSys }

/-- `psutil.swap_memory()` -/
def swapMemory (c : Cfg) (meminfo : Bytes) (sys : Sysinfo) (vmstat : Option Bytes) :
    Except Err SwapOut :=
  match parseMeminfo c.swParse meminfo with
  | .error e => .error e
  | .ok mems => swapCore c (fun k => mems.lookup k) sys vmstat

/-! ### the native record behind the fallback: `psutil_linux_sysinfo()` (arch/linux/mem.c) -/

/-- `struct sysinfo` as sysinfo(2) fills it (sizes in units of `mem_unit` bytes) -/
structure SysinfoC where
  totalram : Nat
  freeram : Nat
  bufferram : Nat
  sharedram : Nat
  totalswap : Nat
  freeswap : Nat
  mem_unit : Nat
  deriving DecidableEq, Repr

def SysinfoC.get (s : SysinfoC) : String → Option Nat
  | "totalram" => some s.totalram
  | "freeram" => some s.freeram
  | "bufferram" => some s.bufferram
  | "sharedram" => some s.sharedram
  | "totalswap" => some s.totalswap
  | "freeswap" => some s.freeswap
  | "mem_unit" => some s.mem_unit
  | _ => none

/-- the tuple `Py_BuildValue("(kkkkkkI)", info.totalram, …)` returns -/
def SysinfoC.tuple (order : List String) (s : SysinfoC) : List Nat := order.filterMap s.get

/-- `_, _, _, _, total, free, unit_multiplier = cext.linux_sysinfo()`: the three values the
    Python keeps (`none`: the tuple does not have the unpacked arity — a ValueError in Python) -/
def sysView (c : Cfg) (t : List Nat) : Option Sysinfo :=
  if t.length ≠ c.sysUnpack.length then none
  else
    match (c.sysUnpack.zip t).lookup "total", (c.sysUnpack.zip t).lookup "free",
          (c.sysUnpack.zip t).lookup "unit_multiplier" with
    | some a, some b, some u => some ⟨a, b, u⟩
    | _, _, _ => none

/-! ### psutil/__init__.py: the cached total used by `Process.memory_percent()` -/

/-- `psutil.virtual_memory()` (front end): returns the platform result and primes
    `_TOTAL_PHYMEM` (the state component) with the record's `total`; an exception leaves it -/
def frontVm (c : Cfg) (st : Option Int) (r : Except Err VmOut) : Option Int × Except Err VmOut :=
  match r with
  | .error e => (st, .error e)
  | .ok o => (if c.primesTotalPhymem then
                (match (c.svmemLayout.lookup c.phymemField) with
                 | some v => o.var v
                 | none => none)
              else st, .ok o)

/-- `_TOTAL_PHYMEM or virtual_memory().total` in `Process.memory_percent()`: the cached figure
    when it is truthy (neither `None` nor 0), else a fresh call (which primes the cache again).
    Returns the new state and the total used (`none`: the fresh call raised). -/
def memPercentTotal (c : Cfg) (st : Option Int) (fresh : Except Err VmOut) :
    Option Int × Option Int :=
  match (if c.memPercentUsesCache then st else none) with
  | some t => if t ≠ 0 then (st, some t) else
      match frontVm c st fresh with
      | (st', .ok o) => (st', some o.total)
      | (st', .error _) => (st', none)
  | none =>
      match frontVm c st fresh with
      | (st', .ok o) => (st', some o.total)
      | (st', .error _) => (st', none)

def SwapOut.var (o : SwapOut) : String → Option Int
  | "total" => some o.total
  | "used" => some o.used
  | "free" => some o.free
  | "percent" => some o.percent
  | "sin" => some o.sin
  | "sout" => some o.sout
  | _ => none

end Psutil.C08
