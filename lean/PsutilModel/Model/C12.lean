/-
  Model/C12.lean — transcription of
    * `_pslinux.Process.cmdline()`  (separator heuristics, zombie rule),
    * `_common.parse_environ_block` + `_pslinux.Process.environ()`,
    * `_pslinux.readlink` / `Process._readlink` / `Process.exe()` / `Process.cwd()`,
    * `_pslinux.wrap_exceptions`, `_is_zombie`,
    * the front end `psutil.Process.exe()` (guess from cmdline, memoisation) and
      `psutil.Process.name()` (extension rule),
  over a world that says what the kernel exposes for one PID. Imports only Base.Bytes / Base.Dec (no
  Mathlib, no other model).

  Strings. psutil works on `str` obtained by UTF-8 + surrogateescape decoding (PYTHONUTF8=1
  is pinned by ./check), a bijection between byte strings and the strings psutil sees.
  Every literal the modelled code searches for / splits on is ASCII, so those operations
  commute with the decoding and are modelled directly on bytes. Two places are *not*
  byte-transparent in the code as found, and are modelled explicitly:
    * `open_text` opens in universal-newlines mode: `\r\n` and `\r` read back as `\n`
      (`nlTranslate`, switched by the translator fact `Cfg.textRaw`);
    * `name()` measures `len(name)` and tests `startswith` on decoded strings, i.e. on
      code points (`chars`, switched by the translator fact `Cfg.nameTestOnBytes`).
-/
import PsutilModel.Base.Bytes
import PsutilModel.Base.Dec
namespace Psutil.C12

/-! ## exceptions, and the `except` clauses of the front end as the translator finds them -/

/-- the exceptions a caller can see -/
inductive Exc | noSuchProcess | zombieProcess | accessDenied | fileNotFound
  /-- an `OSError` that no layer translates (seeded round 5: `os.stat` failing inside `path_exists_strict` with an
      errno that its `except` clauses let through); `en` = its errno -/
  | osError (en : Nat)
  deriving DecidableEq, Repr

/-- `except (A, B): <body>` clauses of one `try`, in source order: (class names, tag of the body) -/
abbrev Clauses := List (List String × String)

/-- does `except cls` catch `e`? psutil's hierarchy: ZombieProcess ⊂ NoSuchProcess ⊂ Error ⊂ Exception,
    AccessDenied ⊂ Error; the bare FileNotFoundError ⊂ OSError ⊂ Exception. An unknown name catches
    nothing (the translator refuses names it does not know). -/
def catches (cls : String) : Exc → Bool
  | .zombieProcess => cls == "ZombieProcess" || cls == "NoSuchProcess" || cls == "Error"
      || cls == "Exception" || cls == "BaseException"
  | .noSuchProcess => cls == "NoSuchProcess" || cls == "Error" || cls == "Exception" || cls == "BaseException"
  | .accessDenied => cls == "AccessDenied" || cls == "Error" || cls == "Exception" || cls == "BaseException"
  | .fileNotFound => cls == "FileNotFoundError" || cls == "OSError" || cls == "Exception"
      || cls == "BaseException"
  | .osError _ => cls == "OSError" || cls == "Exception" || cls == "BaseException"

/-- Python tries the clauses in order: the tag of the FIRST clause naming a class of `e` -/
def dispatch : Clauses → Exc → Option String
  | [], _ => none
  | (cls, tag) :: rest, e => if cls.any (catches · e) then some tag else dispatch rest e

def allExc : List Exc := [.noSuchProcess, .zombieProcess, .accessDenied, .fileNotFound]

/-- the exceptions which a clause list handles with a body tagged `tag` -/
def handledWith (cl : Clauses) (tag : String) : List Exc :=
  allExc.filter fun e => dispatch cl e == some tag

/-! ## `OSError` subclasses (PEP 3151) and the `except` clauses of `path_exists_strict` (seeded round 5) -/

/-- the class CPython raises an `OSError` as, chosen from its errno (`OSError.__new__`'s errnomap): the plain
    `OSError` (ELOOP, ENAMETOOLONG, ESTALE, EIO, ENOTCONN, EOVERFLOW, …) or one of its subclasses -/
inductive OsCls
  | osError | fileNotFound | permission | processLookup | notADirectory | isADirectory | fileExists
  | interrupted | childProcess | timeout | blockingIO | brokenPipe | connAborted | connRefused | connReset
  deriving DecidableEq, Repr

def OsCls.all : List OsCls :=
  [.osError, .fileNotFound, .permission, .processLookup, .notADirectory, .isADirectory, .fileExists,
   .interrupted, .childProcess, .timeout, .blockingIO, .brokenPipe, .connAborted, .connRefused, .connReset]

def OsCls.name : OsCls → String
  | .osError => "OSError" | .fileNotFound => "FileNotFoundError" | .permission => "PermissionError"
  | .processLookup => "ProcessLookupError" | .notADirectory => "NotADirectoryError"
  | .isADirectory => "IsADirectoryError" | .fileExists => "FileExistsError"
  | .interrupted => "InterruptedError" | .childProcess => "ChildProcessError" | .timeout => "TimeoutError"
  | .blockingIO => "BlockingIOError" | .brokenPipe => "BrokenPipeError"
  | .connAborted => "ConnectionAbortedError" | .connRefused => "ConnectionRefusedError"
  | .connReset => "ConnectionResetError"

/-- the four subclasses of `ConnectionError` -/
def OsCls.isConnection : OsCls → Bool
  | .brokenPipe | .connAborted | .connRefused | .connReset => true
  | _ => false

/-- does `except cls` catch an `OSError` raised as class `c`? (`EnvironmentError` and `IOError` are aliases of
    `OSError`; an unknown name catches nothing) -/
def osCatches (cls : String) (c : OsCls) : Bool :=
  cls == c.name || (c.isConnection && cls == "ConnectionError")
    || cls == "OSError" || cls == "EnvironmentError" || cls == "IOError" || cls == "Exception"
    || cls == "BaseException"

/-- first clause naming a class of the raised `OSError`: its tag (`"false"` = `return False`, `"true"` =
    `return True`, `"raise"` = re-raise, `"other"`); `none` = no clause catches it, it propagates -/
def osDispatch : Clauses → OsCls → Option String
  | [], _ => none
  | (cls, tag) :: rest, c => if cls.any (osCatches · c) then some tag else osDispatch rest c

/-- the classes which a clause list handles with a body tagged `tag` -/
def osHandledWith (cl : Clauses) (tag : String) : List OsCls :=
  OsCls.all.filter fun c => osDispatch cl c == some tag

/-! ## configuration: literals and shape facts re-derived from the source by the translator -/

structure Cfg where
  /-- `data.endswith('\x00')` in `sep = … if … else …` -/
  sepTest : Nat
  /-- the separator chosen when the test holds -/
  sepNul : Nat
  /-- the separator chosen otherwise -/
  sepSpace : Nat
  /-- `sep == '\x00'` in the second rule -/
  rule2Sep : Nat
  /-- `' ' in data` in the second rule -/
  rule2In : Nat
  /-- `data.split(' ')` in the second rule -/
  rule2Split : Nat
  /-- is exactly ONE trailing separator removed (`if data.endswith(sep): data = data[:-1]`; true) or all of
      them (`data = data.rstrip(sep)`; false)? -/
  stripOne : Bool
  /-- `data.find("\0", pos)` in parse_environ_block -/
  envNul : Nat
  /-- `data.find("=", pos, next_pos)` -/
  envEq : Nat
  /-- `path.split('\x00')[0]` in readlink -/
  rlNul : Nat
  /-- `' (deleted)'` -/
  deletedSuffix : Bytes
  /-- `path[:-10]` -/
  deletedCut : Nat
  /-- `len(name) >= 15` -/
  nameMinLen : Nat
  /-- are the length and prefix tests of `name()` made on the encoded bytes? -/
  nameTestOnBytes : Bool
  /-- does `open_text` read without newline translation? -/
  textRaw : Bool
  /-- `name()`: the errors of `self.cmdline()` whose `except` clause is `pass` (the kernel's name is kept);
      every other error propagates (no clause, or a clause that re-raises) -/
  nameSwallows : List Exc
  /-- `exe()`: the errors of `self._proc.exe()` whose clause is `return guess_it(fallback=err)` -/
  exeGuessOn : List Exc
  /-- `exe()`: the errors of `guess_it(fallback=exe)` (native answer `''`) whose clause is `pass` -/
  exeGuessSwallows : List Exc
  /-- `guess_it`: the fallbacks that are raised (`isinstance(fallback, …)`) instead of returned. NOT read by
      the model's `guessIt` (which raises every error fallback, see there): the field exists so that `cfg_good`
      pins the fact — an obligation, not semantics. -/
  guessReraises : List Exc
  /-- `path_exists_strict`: the classes of a failing `os.stat(path)` whose `except` clause is `return False`
      ("nothing of that name exists") -/
  existsFalseOn : List OsCls
  /-- `path_exists_strict`: the classes whose clause is `return True`; every class in neither list leaves the
      helper (no clause, or a clause that re-raises) -/
  existsTrueOn : List OsCls

/-! ## text-mode reading -/

/-- first pass of universal-newlines translation: drop the `\n` of every `\r\n` -/
def dropLfAfterCr : Bool → Bytes → Bytes
  | _, [] => []
  | prevCR, c :: cs =>
    if prevCR && c == 10 then dropLfAfterCr false cs
    else c :: dropLfAfterCr (c == 13) cs

/-- `io.TextIOWrapper(newline=None)` on read: `\r\n` → `\n`, `\r` → `\n` -/
def nlTranslate (s : Bytes) : Bytes :=
  (dropLfAfterCr false s).map fun c => if c = 13 then 10 else c

/-- what `open_text(path).read()` hands to the parser, as bytes -/
def textRead (cfg : Cfg) (raw : Bytes) : Bytes :=
  if cfg.textRaw then raw else nlTranslate raw

/-! ## code points of a surrogateescape-decoded string, as byte chunks

  `chars b` cuts `b` into the pieces that become one code point each: a well-formed UTF-8
  sequence (Unicode table 3-7, as CPython's decoder accepts) or a single undecodable byte
  (which `surrogateescape` turns into one lone surrogate). Distinct chunks give distinct
  code points, so `len`, `==` and `startswith` on the decoded strings are `length`, `=`
  and `isPrefixOf` on chunk lists. -/

def isCont (b : Nat) : Bool := 128 ≤ b && b ≤ 191

/-- length of the well-formed UTF-8 sequence at the head, 0 if there is none -/
def utf8Len : Bytes → Nat
  | [] => 0
  | b0 :: rest =>
    if b0 < 128 then 1
    else if 194 ≤ b0 && b0 ≤ 223 then
      match rest with
      | b1 :: _ => if isCont b1 then 2 else 0
      | _ => 0
    else if 224 ≤ b0 && b0 ≤ 239 then
      match rest with
      | b1 :: b2 :: _ =>
        let lo := if b0 = 224 then 160 else 128
        let hi := if b0 = 237 then 159 else 191
        if lo ≤ b1 && b1 ≤ hi && isCont b2 then 3 else 0
      | _ => 0
    else if 240 ≤ b0 && b0 ≤ 244 then
      match rest with
      | b1 :: b2 :: b3 :: _ =>
        let lo := if b0 = 240 then 144 else 128
        let hi := if b0 = 244 then 143 else 191
        if lo ≤ b1 && b1 ≤ hi && isCont b2 && isCont b3 then 4 else 0
      | _ => 0
    else 0

def charsAux : Nat → Bytes → List Bytes
  | 0, _ => []
  | _, [] => []
  | fuel + 1, s =>
    let n := if utf8Len s = 0 then 1 else utf8Len s
    s.take n :: charsAux fuel (s.drop n)

def chars (s : Bytes) : List Bytes := charsAux s.length s

/-! ## the world: what the kernel exposes for one PID -/

inductive Err | enoent | esrch | eacces
  deriving DecidableEq, Repr

inductive FileSt
  | data (b : Bytes)
  | err (e : Err)
  deriving DecidableEq, Repr

inductive LinkSt
  | target (t : Bytes)
  | err (e : Err)
  deriving DecidableEq, Repr

/-- what `os.stat` / `os.access` say about a path outside procfs -/
inductive FsEnt
  | absent
  | denied                 -- os.stat raises PermissionError
  | dir
  | file (xok : Bool)      -- regular file; `os.access(p, X_OK)`
  /-- `os.stat` fails with errno `en`, raised by CPython as class `cls` — ENOTDIR (a parent directory was
      replaced by a file), ELOOP, ENAMETOOLONG, ESTALE / EIO / ENOTCONN (a dead network or FUSE mount), …
      (`absent` = ENOENT and `denied` = EACCES are the two errnos with a constructor of their own) -/
  | unstatable (en : Nat) (cls : OsCls)
  deriving DecidableEq, Repr

/-- the examination of the path is refused (`PermissionError`: EACCES / EPERM) -/
def FsEnt.isDenied : FsEnt → Bool
  | .denied => true
  | .unstatable _ .permission => true
  | _ => false

structure World where
  /-- `/proc/<pid>` still exists (`os.path.lexists(f"{procfs}/{pid}")`; the files below it can be opened) -/
  dirExists : Bool
  /-- `/proc/<pid>/stat` exists (`os.path.exists(f"{procfs}/{pid}/stat")`). A vanishing process may keep its
      directory a little longer than the files in it (psutil #2418): `dirExists ∧ ¬ statExists`. -/
  statExists : Bool := dirExists
  /-- `/proc/<pid>/stat` can be opened and read (otherwise `open` answers EACCES) -/
  statReadable : Bool := statExists
  /-- state letter in `/proc/<pid>/stat` is `Z` -/
  zombie : Bool
  /-- the name between the parentheses of `/proc/<pid>/stat` -/
  comm : Bytes
  cmdline : FileSt
  environ : FileSt
  exe : LinkSt
  cwd : LinkSt
  fs : Bytes → FsEnt
  /-- real uid of the `Uid:` line of `/proc/<pid>/status` (kept by a zombie) -/
  uid : Nat := 0
  /-- `tty_nr` of `/proc/<pid>/stat` (kept by a zombie) -/
  tty : Nat := 0
  /-- the user database: `pwd.getpwuid(uid).pw_name`, `none` = KeyError -/
  users : Nat → Option Bytes := fun _ => none
  /-- `_psposix.get_terminal_map()`: device number → path of a `/dev/tty*`, `/dev/pts/*` -/
  ttys : Nat → Option Bytes := fun _ => none

/-- what is raised inside a `@wrap_exceptions` body -/
inductive RawErr
  | os (e : Err)
  | ps (e : Exc)
  /-- an `OSError` of another class than FileNotFoundError / ProcessLookupError / PermissionError, errno `en` -/
  | other (en : Nat)
  deriving DecidableEq, Repr

deriving instance DecidableEq for Except

abbrev Raw (α : Type) := Except RawErr α
abbrev Res (α : Type) := Except Exc α

/-- `os.path.exists(f"{procfs}/{pid}/stat")` -/
def statThere (w : World) : Bool := w.dirExists && w.statExists

/-- `bcat(f"{procfs}/{pid}/stat")` succeeds -/
def statOk (w : World) : Bool := statThere w && w.statReadable

/-- `Process._is_zombie`: reads `stat` with its own parser (state letter after the LAST `)`); `OSError` → False -/
def isZombie (w : World) : Bool := statOk w && w.zombie

/-- `wrap_exceptions` -/
def wrap (w : World) : Raw α → Res α
  | .ok v => .ok v
  | .error (.ps e) => .error e
  | .error (.other en) => .error (.osError en)          -- no `except` clause of `wrap_exceptions` names its class
  | .error (.os .eacces) => .error .accessDenied
  | .error (.os .esrch) =>
    if isZombie w then .error .zombieProcess else .error .noSuchProcess
  | .error (.os .enoent) =>
    if isZombie w then .error .zombieProcess
    else if !statThere w then .error .noSuchProcess     -- `not os.path.exists(f"{procfs}/{pid}/stat")` (#2418)
    else .error .fileNotFound                           -- bare re-raise

/-- opening+reading a file below `/proc/<pid>` -/
def readFile (w : World) (f : FileSt) : Raw Bytes :=
  if w.dirExists then
    match f with
    | .data b => .ok b
    | .err e => .error (.os e)
  else .error (.os .enoent)

/-! ## cmdline -/

def lastIs (c : Nat) (s : Bytes) : Bool := s.getLast? == some c

/-- the body of `cmdline()` after the emptiness test (`data` non-empty) -/
def rstripAll (c : Nat) (s : Bytes) : Bytes := (s.reverse.dropWhile (· == c)).reverse

def cmdlineSplit (cfg : Cfg) (data : Bytes) : List Bytes :=
  let sep := if lastIs cfg.sepTest data then cfg.sepNul else cfg.sepSpace
  let data :=
    if cfg.stripOne then (if lastIs sep data then data.dropLast else data) else rstripAll sep data
  let cmdline := splitOn sep data
  if sep == cfg.rule2Sep && cmdline.length == 1 && data.contains cfg.rule2In then
    splitOn cfg.rule2Split data
  else cmdline

def cmdlineRaw (cfg : Cfg) (w : World) : Raw (List Bytes) := do
  let raw ← readFile w w.cmdline
  let data := textRead cfg raw
  if data.isEmpty then
    if isZombie w then .error (.ps .zombieProcess) else .ok []
  else .ok (cmdlineSplit cfg data)

/-- `_pslinux.Process.cmdline()` = `psutil.Process.cmdline()` -/
def cmdline (cfg : Cfg) (w : World) : Res (List Bytes) := wrap w (cmdlineRaw cfg w)

/-! ## environ -/

/-- `data.find(c, start, stop)` (`stop` clipped to the length); index in the whole string -/
def findFrom (c : Nat) (data : Bytes) (start stop : Nat) : Option Nat :=
  (findIdx? c ((data.take stop).drop start)).map (· + start)

/-- `data[a:b]` -/
def slice (data : Bytes) (a b : Nat) : Bytes := (data.take b).drop a

abbrev Dict := List (Bytes × Bytes)

/-- `ret[key] = value` on an insertion-ordered dict -/
def dictSet (k v : Bytes) : Dict → Dict
  | [] => [(k, v)]
  | (k', v') :: rest => if k' = k then (k, v) :: rest else (k', v') :: dictSet k v rest

/-- the `while True:` loop of `parse_environ_block`; `fuel` bounds the number of iterations
    (`pos` strictly grows, so `len(data) + 1` iterations always suffice) -/
def envLoop (cfg : Cfg) (data : Bytes) : Nat → Nat → Dict → Dict
  | 0, _, ret => ret
  | fuel + 1, pos, ret =>
    match findFrom cfg.envNul data pos data.length with
    | none => ret                                    -- -1 <= pos
    | some nextPos =>
      if nextPos ≤ pos then ret
      else
        let ret :=
          match findFrom cfg.envEq data pos nextPos with
          | some equalPos =>
            if equalPos > pos then
              dictSet (slice data pos equalPos) (slice data (equalPos + 1) nextPos) ret
            else ret
          | none => ret
        envLoop cfg data fuel (nextPos + 1) ret

def parseEnvironBlock (cfg : Cfg) (data : Bytes) : Dict :=
  envLoop cfg data (data.length + 1) 0 []

def environRaw (cfg : Cfg) (w : World) : Raw Dict := do
  let raw ← readFile w w.environ
  .ok (parseEnvironBlock cfg (textRead cfg raw))

def environ (cfg : Cfg) (w : World) : Res Dict := wrap w (environRaw cfg w)

/-! ## exe / cwd -/

/-- what `os.stat(p)` raises, if it fails: (class, errno) -/
def statFailure : FsEnt → Option (OsCls × Nat)
  | .absent => some (.fileNotFound, 2)
  | .denied => some (.permission, 13)
  | .unstatable en cls => some (cls, en)
  | .dir => none
  | .file _ => none

inductive StatAns
  | yes
  | no
  | raises (cls : OsCls) (en : Nat)
  deriving DecidableEq, Repr

/-- `path_exists_strict`: `try: os.stat(path)` / the `except` clauses in order / `else: return True` -/
def existsStrict (cfg : Cfg) (fs : Bytes → FsEnt) (p : Bytes) : StatAns :=
  match statFailure (fs p) with
  | none => .yes
  | some (cls, en) =>
    if cls ∈ cfg.existsFalseOn then .no
    else if cls ∈ cfg.existsTrueOn then .yes
    else .raises cls en

/-- an `OSError` on its way out of `readlink()`, as the `except` clauses above it classify it (by class) -/
def escapeOf (cls : OsCls) (en : Nat) : RawErr :=
  match cls with
  | .permission => .os .eacces
  | .fileNotFound => .os .enoent
  | .processLookup => .os .esrch
  | _ => .other en

/-- `_pslinux.readlink(path)` applied to what `os.readlink` returned -/
def readlinkClean (cfg : Cfg) (fs : Bytes → FsEnt) (t : Bytes) : Raw Bytes :=
  let path := (splitOn cfg.rlNul t).headD []
  if endsWith cfg.deletedSuffix path then
    match existsStrict cfg fs path with
    | .raises cls en => .error (escapeOf cls en)
    | .yes => .ok path
    | .no => .ok (path.take (path.length - cfg.deletedCut))
  else .ok path

def effLink (w : World) (l : LinkSt) : LinkSt := if w.dirExists then l else .err .enoent

/-- the `except (FileNotFoundError, ProcessLookupError)` clause of `Process._readlink(path, fallback="")` -/
def linkGone (w : World) (e : Err) : Raw Bytes :=
  if w.dirExists then                                  -- os.path.lexists(f"{procfs}/{pid}")
    if isZombie w then .error (.ps .zombieProcess) else .ok []
  else .error (.os e)

/-- `Process._readlink(path, fallback="")`: the clause guards the whole of `readlink(path)`, the existence test
    of the ` (deleted)` name included -/
def readlinkRaw (cfg : Cfg) (w : World) (l : LinkSt) : Raw Bytes :=
  match effLink w l with
  | .target t =>
    match readlinkClean cfg w.fs t with
    | .error (.os .enoent) => linkGone w .enoent
    | .error (.os .esrch) => linkGone w .esrch
    | r => r
  | .err .eacces => .error (.os .eacces)
  | .err e => linkGone w e

def procExe (cfg : Cfg) (w : World) : Res Bytes := wrap w (readlinkRaw cfg w w.exe)
def cwd (cfg : Cfg) (w : World) : Res Bytes := wrap w (readlinkRaw cfg w w.cwd)

/-! ## front end: exe() -/

def isAbs (p : Bytes) : Bool := startsWith [47] p

/-- `os.path.isfile`: False on any OSError and on an embedded NUL (ValueError) -/
def isFile (fs : Bytes → FsEnt) (p : Bytes) : Bool :=
  !p.contains 0 && (match fs p with | .file _ => true | _ => false)

def xOk (fs : Bytes → FsEnt) (p : Bytes) : Bool :=
  match fs p with | .file x => x | _ => false

/-- `guess_it(fallback)`; an `AccessDenied` fallback is raised, a string returned. (An exception
    object that `isinstance` does not select would be RETURNED as a value; that needs
    `exeGuessOn ⊈ guessReraises`, which `cfg_good` excludes: the model raises it in that case too.) -/
def guessIt (cfg : Cfg) (w : World) (fallback : Res Bytes) : Res Bytes :=
  match cmdline cfg w with
  | .error e => .error e
  | .ok [] => fallback
  | .ok (a0 :: _) =>
    if isAbs a0 && isFile w.fs a0 && xOk w.fs a0 then .ok a0 else fallback

/-- state of one `psutil.Process` object relevant here -/
structure St where
  exeCache : Option Bytes
  deriving DecidableEq, Repr

def St.init : St := ⟨none⟩

/-- `psutil.Process.exe()` -/
def exe (cfg : Cfg) (w : World) (st : St) : St × Res Bytes :=
  match st.exeCache with
  | some e => (st, .ok e)
  | none =>
    match procExe cfg w with
    | .error e =>
      if e ∈ cfg.exeGuessOn then (st, guessIt cfg w (.error e))     -- `except …: return guess_it(fallback=err)`
      else (st, .error e)
    | .ok e =>
      if e.isEmpty then
        match guessIt cfg w (.ok e) with
        | .error x =>
          if x ∈ cfg.exeGuessSwallows then (⟨some e⟩, .ok e)        -- `except …: pass`, then `self._exe = exe`
          else (st, .error x)
        | .ok g => (⟨some g⟩, .ok g)
      else (⟨some e⟩, .ok e)

/-! ## front end: name() -/

/-- `os.path.basename` -/
def basename (p : Bytes) : Bytes :=
  match rfindIdx? 47 p with
  | some i => p.drop (i + 1)
  | none => p

/-- opening and reading `/proc/<pid>/stat` (`_parse_stat_file`, under `wrap_exceptions`) -/
def readStat (w : World) : Raw Unit :=
  if !statThere w then .error (.os .enoent)
  else if !w.statReadable then .error (.os .eacces)
  else .ok ()

/-- `_pslinux.Process.name()`: the name field of `stat` -/
def procName (w : World) : Res Bytes :=
  wrap w (match readStat w with | .ok _ => .ok w.comm | .error e => .error e)

def nameLen (cfg : Cfg) (n : Bytes) : Nat :=
  if cfg.nameTestOnBytes then n.length else (chars n).length

def namePrefix (cfg : Cfg) (n ext : Bytes) : Bool :=
  if cfg.nameTestOnBytes then startsWith n ext else (chars n).isPrefixOf (chars ext)

/-- `psutil.Process.name()` -/
def name (cfg : Cfg) (w : World) : Res Bytes :=
  match procName w with
  | .error e => .error e
  | .ok n =>
    if cfg.nameMinLen ≤ nameLen cfg n then
      match cmdline cfg w with
      | .error e => if e ∈ cfg.nameSwallows then .ok n else .error e   -- first matching `except` clause
      | .ok [] => .ok n
      | .ok (a0 :: _) =>
        let ext := basename a0
        if namePrefix cfg n ext then .ok ext else .ok n
    else .ok n

/-! ## identity of a (possibly zombie) process: username(), terminal()

  Both are answered from `/proc/<pid>/status` / `/proc/<pid>/stat`, which a zombie keeps. -/

/-- `_pslinux.Process.uids().real` (the `Uid:` line of `status`) -/
def procUid (w : World) : Res Nat :=
  if w.dirExists then .ok w.uid else .error .noSuchProcess

/-- `psutil.Process.username()`: `pwd.getpwuid(real_uid).pw_name`, `str(real_uid)` on KeyError -/
def username (w : World) : Res Bytes :=
  match procUid w with
  | .error e => .error e
  | .ok u =>
    match w.users u with
    | some n => .ok n
    | none => .ok (renderDec u)

/-- `int(self._parse_stat_file()['ttynr'])` -/
def procTty (w : World) : Res Nat :=
  wrap w (match readStat w with | .ok _ => .ok w.tty | .error e => .error e)

/-- `_pslinux.Process.terminal()`: `tmap[tty_nr]`, `None` on KeyError -/
def terminal (w : World) : Res (Option Bytes) :=
  match procTty w with
  | .error e => .error e
  | .ok t => .ok (w.ttys t)

/-! ## one call on one Process object -/

inductive Call | cmdline | environ | exe | cwd | name | username | terminal
  deriving DecidableEq, Repr

inductive Out
  | args (r : Res (List Bytes))
  | dict (r : Res Dict)
  | str (r : Res Bytes)
  | opt (r : Res (Option Bytes))
  deriving DecidableEq, Repr

def step (cfg : Cfg) (st : St) (w : World) : Call → St × Out
  | .cmdline => (st, .args (cmdline cfg w))
  | .environ => (st, .dict (environ cfg w))
  | .exe => let (st', r) := exe cfg w st; (st', .str r)
  | .cwd => (st, .str (cwd cfg w))
  | .name => (st, .str (name cfg w))
  | .username => (st, .str (username w))
  | .terminal => (st, .opt (terminal w))

/-! ## the same calls inside a `oneshot()` block

  `_parse_stat_file`, `_read_status_file` (and the front end's `uids`) are
  `memoize_when_activated`: inside a block their first successful result is reused. Everything
  else (`cmdline`, `environ`, the links, `_is_zombie`'s own read of `stat`) is read afresh. -/

/-- what the block has cached so far -/
structure Block where
  /-- `(name, tty_nr)` of the first `_parse_stat_file()` of the block -/
  stat : Option (Bytes × Nat)
  /-- real uid of the first `uids()` / `_read_status_file()` of the block -/
  uid : Option Nat

def Block.empty : Block := ⟨none, none⟩

def procNameIn (b : Block) (w : World) : Res Bytes :=
  match b.stat with
  | some (n, _) => .ok n
  | none => procName w

def nameIn (cfg : Cfg) (b : Block) (w : World) : Res Bytes :=
  match procNameIn b w with
  | .error e => .error e
  | .ok n =>
    if cfg.nameMinLen ≤ nameLen cfg n then
      match cmdline cfg w with
      | .error e => if e ∈ cfg.nameSwallows then .ok n else .error e   -- first matching `except` clause
      | .ok [] => .ok n
      | .ok (a0 :: _) =>
        let ext := basename a0
        if namePrefix cfg n ext then .ok ext else .ok n
    else .ok n

def procUidIn (b : Block) (w : World) : Res Nat :=
  match b.uid with
  | some u => .ok u
  | none => procUid w

def procTtyIn (b : Block) (w : World) : Res Nat :=
  match b.stat with
  | some (_, t) => .ok t
  | none => procTty w

def usernameIn (b : Block) (w : World) : Res Bytes :=
  match procUidIn b w with
  | .error e => .error e
  | .ok u =>
    match w.users u with
    | some n => .ok n
    | none => .ok (renderDec u)

def terminalIn (b : Block) (w : World) : Res (Option Bytes) :=
  match procTtyIn b w with
  | .error e => .error e
  | .ok t => .ok (w.ttys t)

def stepIn (cfg : Cfg) (b : Block) (st : St) (w : World) : Call → St × Out
  | .name => (st, .str (nameIn cfg b w))
  | .username => (st, .str (usernameIn b w))
  | .terminal => (st, .opt (terminalIn b w))
  | c => step cfg st w c

/-- the world as the block sees it: cached parts from the first read, the rest current -/
def Block.view (b : Block) (w : World) : World :=
  { w with
    comm := match b.stat with | some (n, _) => n | none => w.comm
    tty := match b.stat with | some (_, t) => t | none => w.tty
    uid := match b.uid with | some u => u | none => w.uid }

/-- run a history of calls on one object; outputs in order -/
def runAll (cfg : Cfg) : St → List (World × Call) → St × List Out
  | st, [] => (st, [])
  | st, (w, c) :: rest =>
    let (st', o) := step cfg st w c
    let (st'', os) := runAll cfg st' rest
    (st'', o :: os)

end Psutil.C12
