/- Model/C19Gen.lean — the C19 model instantiated with the facts the translator extracted. -/
import PsutilModel.Model.C19
import PsutilModel.Generated.C19
namespace Psutil.C19

/-- Python exception class name → the model classes an `except <name>` catches -/
def excOfName (s : String) : List Exc :=
  if s == "OSError" || s == "IOError" || s == "EnvironmentError" then [.osError]
  else if s == "ValueError" then [.valueError]
  else if s == "TypeError" then [.typeError]
  else if s == "IndexError" || s == "LookupError" then [.indexError]
  else if s == "NotImplementedError" then [.notImplemented]
  else if s == "RuntimeError" then [.runtimeError, .notImplemented]
  else if s == "Exception" || s == "BaseException" then
    [.osError, .valueError, .typeError, .indexError, .notImplemented, .runtimeError]
  else []

/-- configuration of the model as extracted from the current source -/
def cfg : Cfg :=
  { tempCaught := Gen.C19.tempCaught.flatMap excOfName
    zoneCaught := Gen.C19.zoneCaught.flatMap excOfName
    fanCaught := Gen.C19.fanCaught.flatMap excOfName
    zoneConvInsideLoop := Gen.C19.zoneConvInsideLoop
    milli := Gen.C19.tempMilli
    backfillTruthiness := Gen.C19.backfillTruthiness
    fMul := Gen.C19.fahrenheit.1
    fDiv := Gen.C19.fahrenheit.2.1
    fAdd := Gen.C19.fahrenheit.2.2
    khz := Gen.C19.khz
    pct := Gen.C19.batteryConsts.1
    hourSecs := Gen.C19.batteryConsts.2.1
    minSecs := Gen.C19.batteryConsts.2.2
    powerTimeUnknown := Gen.C19.powerTimeUnknown
    powerTimeUnlimited := Gen.C19.powerTimeUnlimited
    energyNowFirst := Gen.C19.energyNowAlts == ["energy_now", "charge_now"]
    powerNowFirst := Gen.C19.powerNowAlts == ["power_now", "current_now"]
    energyFullFirst := Gen.C19.energyFullAlts == ["energy_full", "charge_full"]
    ac0First := Gen.C19.onlineAlts == ["AC0/online", "AC/online"]
    batPrefix := Gen.C19.batPrefix
    batInfix := Gen.C19.batInfix }

/-- the file-name facts the model hard-codes (names of the alternatives, keys of /proc/stat);
    `cfg_good` in Props/C19.lean proves this of the generated facts -/
def namesAsModelled : Bool :=
  (Gen.C19.energyNowAlts == ["energy_now", "charge_now"] || Gen.C19.energyNowAlts == ["charge_now", "energy_now"])
  && (Gen.C19.powerNowAlts == ["power_now", "current_now"] || Gen.C19.powerNowAlts == ["current_now", "power_now"])
  && (Gen.C19.energyFullAlts == ["energy_full", "charge_full"] || Gen.C19.energyFullAlts == ["charge_full", "energy_full"])
  && (Gen.C19.onlineAlts == ["AC0/online", "AC/online"] || Gen.C19.onlineAlts == ["AC/online", "AC0/online"])
  && Gen.C19.timeToEmptyAlts == ["time_to_empty_now"]
  && Gen.C19.statKeys == ["ctxt", "intr", "softirq"]
  && Gen.C19.btimeKey == "btime"
  -- cpu_count_cores: `core_cpus_list` first, the deprecated `thread_siblings_list` second (`CountTree.coreCpus`
  -- / `.siblings`), `{physical id: cpu cores}` (`kPhysicalId`, `kCpuCores` in `coresScan`)
  && Gen.C19.topologyGlobs == ["/sys/devices/system/cpu/cpu[0-9]*/topology/core_cpus_list",
                               "/sys/devices/system/cpu/cpu[0-9]*/topology/thread_siblings_list"]
  && Gen.C19.coresMapping == ["physical id", "cpu cores", "physical id", "cpu cores"]
  -- thermal zone at file-name level (Model/C19Dir.lean): glob `base + '/trip_point*'` (`tripFiles`),
  -- `'_'.join(basename(p).split('_')[0:3])` (`tripName`), `trip_point + '_type'` / `+ '_temp'` (`tripOfName`),
  -- `== 'critical'` → critical, `== 'high'` → high (`tripAssign`)
  && Gen.C19.tripNameRule == ["/trip_point*", "_", "0", "3", "_type", "_temp"]
  && Gen.C19.tripKinds == ["critical", "critical", "high", "high"]

end Psutil.C19
