/- Model/C19Gen.lean — the C19 model instantiated with the facts the translator extracted. -/
import PsutilModel.Model.C19
import PsutilModel.Model.C19Dir
import PsutilModel.Model.C19Boot
import PsutilModel.Generated.C19
namespace Psutil.C19

/-- Python exception class name → the model classes an `except <name>` catches -/
def excOfName (s : String) : List Exc :=
  if s == "OSError" || s == "IOError" || s == "EnvironmentError" then [.osError]
  else if s == "ValueError" then [.valueError]
  else if s == "TypeError" then [.typeError]
  else if s == "IndexError" || s == "LookupError" then [.indexError]
  else if s == "NotImplementedError" then [.notImplemented]
  else if s == "RuntimeError" then [.runtimeError, .notImplemented]
  else if s == "Exception" || s == "BaseException" then
    [.osError, .valueError, .typeError, .indexError, .notImplemented, .runtimeError]
  else []

/-- configuration of the model as extracted from the current source -/
def cfg : Cfg :=
  { tempCaught := Gen.C19.tempCaught.flatMap excOfName
    zoneCaught := Gen.C19.zoneCaught.flatMap excOfName
    fanCaught := Gen.C19.fanCaught.flatMap excOfName
    zoneConvInsideLoop := Gen.C19.zoneConvInsideLoop
    milli := Gen.C19.tempMilli
    backfillTruthiness := Gen.C19.backfillTruthiness
    fMul := Gen.C19.fahrenheit.1
    fDiv := Gen.C19.fahrenheit.2.1
    fAdd := Gen.C19.fahrenheit.2.2
    khz := Gen.C19.khz
    pct := Gen.C19.batteryConsts.1
    hourSecs := Gen.C19.batteryConsts.2.1
    minSecs := Gen.C19.batteryConsts.2.2
    powerTimeUnknown := Gen.C19.powerTimeUnknown
    powerTimeUnlimited := Gen.C19.powerTimeUnlimited
    energyNowFirst := Gen.C19.energyNowAlts == ["energy_now", "charge_now"]
    powerNowFirst := Gen.C19.powerNowAlts == ["power_now", "current_now"]
    energyFullFirst := Gen.C19.energyFullAlts == ["energy_full", "charge_full"]
    ac0First := Gen.C19.onlineAlts == ["AC0/online", "AC/online"]
    batPrefix := Gen.C19.batPrefix
    batInfix := Gen.C19.batInfix
    noDirNone := Gen.C19.batteryNoDirNone
    probeByPosition := Gen.C19.onlineProbe == "f'/sys/devices/system/cpu/cpu{i}/online'" }

/-- the dead coretemp platform glob: still in the source? (NOT an obligation: the specification is silent
    about it; the driver hands the model the coretemp files only while the source looks at them) -/
def coretempGlob : String := "/sys/devices/platform/coretemp.*/hwmon/hwmon*/temp*_*"
def coretempConsulted : Bool := Gen.C19.tempGlobs.contains coretempGlob

/-- `boot_time()` returns the value it has just read (`return ret`, `ret = float(line.strip().split()[1])`),
    not the remembered module global -/
def bootReturnsFresh : Bool := Gen.C19.bootTimeReturn == ["ret", "float(line.strip().split()[1])"]

/-- the return rule of `boot_time()` the histories of Model/C19Boot.lean run with -/
def bootRule : BootRule := ruleOf bootReturnsFresh

/-- the frame of the history model (Model/C19Boot.lean): BOOT_TIME is named nowhere but in `boot_time()` (tested,
    written once) and in `Process.create_time()` (read: `BOOT_TIME if BOOT_TIME is not None else boot_time()`,
    added to `ctime / CLOCK_TICKS`), and the front end `psutil.boot_time()` is a plain delegation (no state of
    its own). Obligation `cfg_boot_hist` in Props/C19.lean. -/
def bootHistAsModelled : Bool :=
  Gen.C19.bootGlobalUses == ["_pslinux/<module>:store", "_pslinux/boot_time:global", "_pslinux/boot_time:load",
                             "_pslinux/boot_time:store", "_pslinux/Process.create_time:load",
                             "_pslinux/Process.create_time:load"]
  && Gen.C19.bootTimeFront == ["return _psplatform.boot_time()"]
  && Gen.C19.createTimeBody == ["ctime = float(self._parse_stat_file()['create_time'])",
                                "bt = BOOT_TIME if BOOT_TIME is not None else boot_time()",
                                "return ctime / CLOCK_TICKS + bt"]

/-- `_common.cat/bcat(path, fallback=…)` turn EVERY OSError — raised by `open()` or by `read()` — into the
    fallback: what the model's single `unreadable` file state (`FileState.readOpt = none`) stands on.
    Obligation `cfg_cat` in Props/C19.lean. -/
def catAsModelled : Bool :=
  (Gen.C19.catCaught.flatMap excOfName).contains .osError && Gen.C19.catTryCoversRead

/-- ASCII string → bytes, for tying the generated strings to the byte constants the model is written with -/
def asciiBytes (s : String) : Bytes := s.toList.map (·.toNat)

/-- the file-name facts the model hard-codes (names of the alternatives, keys of /proc/stat, glob patterns);
    `cfg_names` in Props/C19.lean proves this of the generated facts. Where the model is written with a byte
    constant (`kBtime`, `bSufType`, …) the generated string is compared with THAT constant (`asciiBytes`), so
    a misspelt model constant breaks the obligation just as a changed source does. -/
def namesAsModelled : Bool :=
  (Gen.C19.energyNowAlts == ["energy_now", "charge_now"] || Gen.C19.energyNowAlts == ["charge_now", "energy_now"])
  && (Gen.C19.powerNowAlts == ["power_now", "current_now"] || Gen.C19.powerNowAlts == ["current_now", "power_now"])
  && (Gen.C19.energyFullAlts == ["energy_full", "charge_full"] || Gen.C19.energyFullAlts == ["charge_full", "energy_full"])
  && (Gen.C19.onlineAlts == ["AC0/online", "AC/online"] || Gen.C19.onlineAlts == ["AC/online", "AC0/online"])
  && Gen.C19.timeToEmptyAlts == ["time_to_empty_now"]
  && Gen.C19.statKeys == ["ctxt", "intr", "softirq"]
  && Gen.C19.btimeKey == "btime"
  -- cpu_count_cores: `core_cpus_list` first, the deprecated `thread_siblings_list` second (`CountTree.coreCpus`
  -- / `.siblings`), `{physical id: cpu cores}` (`kPhysicalId`, `kCpuCores` in `coresScan`)
  && Gen.C19.topologyGlobs == ["/sys/devices/system/cpu/cpu[0-9]*/topology/core_cpus_list",
                               "/sys/devices/system/cpu/cpu[0-9]*/topology/thread_siblings_list"]
  && Gen.C19.coresMapping == ["physical id", "cpu cores", "physical id", "cpu cores"]
  -- thermal zone at file-name level (Model/C19Dir.lean): glob `base + '/trip_point*'` (`tripFiles`),
  -- `'_'.join(basename(p).split('_')[0:3])` (`tripName`), `trip_point + '_type'` / `+ '_temp'` (`tripOfName`),
  -- `== 'critical'` → critical, `== 'high'` → high (`tripAssign`)
  && Gen.C19.tripNameRule == ["/trip_point*", "_", "0", "3", "_type", "_temp"]
  && Gen.C19.tripKinds == ["critical", "critical", "high", "high"]
  -- round 3: generated strings = the model's own byte constants
  && Gen.C19.statKeys.map asciiBytes == [kCtxt, kIntr, kSoftirq]
  && asciiBytes Gen.C19.btimeKey == kBtime
  && (Gen.C19.coresMapping.take 2).map asciiBytes == [kPhysicalId, kCpuCores]
  && (Gen.C19.tripNameRule.drop 4).map asciiBytes == [bSufType, bSufTemp]
  && (Gen.C19.tripNameRule.take 1).map asciiBytes == [47 :: bTripPoint ++ [42]]
  && [Gen.C19.tripKinds.getD 0 "", Gen.C19.tripKinds.getD 2 ""].map asciiBytes == [bCritical, bHigh]
  -- glob patterns: every `hwmonN` / `thermal_zoneN` / `policyN` / `cpuN` directory whatever the number of digits
  && Gen.C19.tempGlobs.filter (· != coretempGlob)
       == ["/sys/class/hwmon/hwmon*/temp*_*", "/sys/class/hwmon/hwmon*/device/temp*_*",
           "/sys/class/thermal/thermal_zone*", "<base + '/trip_point*'>"]
  && Gen.C19.fanGlobs == ["/sys/class/hwmon/hwmon*/fan*_*", "/sys/class/hwmon/hwmon*/device/fan*_*"]
  && Gen.C19.cpufreqGlobs == ["/sys/devices/system/cpu/cpufreq/policy[0-9]*", "/sys/devices/system/cpu/cpu[0-9]*/cpufreq"]
  -- boot_time: the value just read is returned (`bootTimeCall true`)
  && bootReturnsFresh
  -- cpu_count_logical / _cpu_get_cpuinfo_freq: case-insensitive line tests (`lower l` in the model), `cpu\d` rows
  && Gen.C19.logicalTests == ["line.lower().startswith(b'processor')", "|", "cpu\\d", "|", "line.split(' ')[0]"]
  && Gen.C19.cpuinfoFreqTest == ["float(line.split(b':', 1)[1])", "line.lower().startswith(b'cpu mhz')"]

end Psutil.C19
