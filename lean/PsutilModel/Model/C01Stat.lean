/-
  Model/C01Stat.lean — the BYTES of `/proc/<pid>/stat` as a dimension of the C01 histories.

  The identity `(pid, create_time)` that the reuse guard compares is PARSED by psutil from the stat line the
  kernel publishes: `pid (comm) state ppid … starttime …\n` (proc(5), fs/proc/array.c `do_task_stat`).  `comm`
  is chosen by the process itself (`prctl(PR_SET_NAME)`, the name of the executable): ANY bytes — spaces,
  parentheses, `") "`, newlines, text that looks like the rest of a stat line.  `Model/C01.lean` takes what
  psutil sees of an incarnation as a number (`Inst.stamp`, `Inst.zombie`); here the simulated kernel holds, for
  every incarnation, its comm and the other fields of the line (`InstB`), renders the line (`statLine`), and the
  abstract kernel the identity machine runs on is what psutil's reader (`readStat`, transcribing
  `_pslinux.Process._parse_stat_file` + `create_time` with the shape facts the translator extracted: `StatCfg`)
  makes of those bytes (`view`).  `stepB` = `step` of Model/C01.lean on that view.

  psutil/_pslinux.py:
      data = bcat(f"{self._procfs_path}/{self.pid}/stat")
      rpar = data.rfind(b')')
      name = data[data.find(b'(') + 1 : rpar]
      fields = data[rpar + 2 :].split()
      ret['status'] = fields[0] … ret['create_time'] = fields[19] … ret['cpu_num'] = fields[36]
  create_time():  ctime = float(self._parse_stat_file()['create_time']); (ctime / CLOCK_TICKS) + bt
-/
import PsutilModel.Base.Bytes
import PsutilModel.Base.Dec
import PsutilModel.Model.C01
namespace Psutil.C01
open Psutil

/-! ## Kernel side: what a stat line is made of (proc(5)) -/

/-- everything in a stat line except pid, comm, the zombie state and starttime.  All of it can change while the
    process lives (reparenting, counters, thread count, …). -/
structure Aux where
  letter : Nat          -- field 3 while the process is not a zombie (one of R S D T t X x K W P I)
  ppid : Nat            -- field 4
  pre : List Int        -- fields 5 … 21 (pgrp … num_threads, itrealvalue): 17 numbers
  post : List Int       -- fields 23 … 52 (vsize, rss, …): 30 numbers since Linux 3.5
  deriving DecidableEq, Repr

/-- one incarnation of a PID with the bytes of its stat line: `Inst` + `comm` + `aux` -/
structure InstB where
  pid : Nat
  start : Nat           -- SPEC side: identifies the incarnation (as `Inst.start`)
  zombie : Bool
  stamp : Nat           -- field 22, starttime in clock ticks
  comm : Bytes          -- field 2 without the parentheses the kernel puts around it: ANY bytes
  aux : Aux
  deriving DecidableEq, Repr

/-- field 3: `Z` for a zombie, else the letter of the state the process is in -/
def stateTok (zombie : Bool) (letter : Nat) : Bytes := if zombie then [90] else [letter]

/-- the tokens after `(comm) `: state, ppid, fields 5 … 21, starttime, fields 23 … -/
def statTail (x : InstB) : List Bytes :=
  stateTok x.zombie x.aux.letter :: renderDec x.aux.ppid
    :: (x.aux.pre.map renderInt ++ renderDec x.stamp :: x.aux.post.map renderInt)

/-- `/proc/<pid>/stat`: `%d (%s) %c %d … \n`, single spaces -/
def statLine (x : InstB) : Bytes :=
  renderDec x.pid ++ [32, 40] ++ x.comm ++ [41, 32] ++ joinWith [32] (statTail x) ++ [10]

/-- the kernel's format: a state letter that is a visible character other than `)` and — for a process that
    is not a zombie — other than `Z`; 17 fields between ppid and starttime; at least 17 after it (52 fields in
    all since Linux 3.5; psutil reads up to field 40 unconditionally) -/
structure Aux.WF (a : Aux) : Prop where
  letterTok : isWs a.letter = false ∧ a.letter ≠ 41
  letterNotZ : a.letter ≠ 90
  pre : a.pre.length = 17
  post : 17 ≤ a.post.length

instance (a : Aux) : Decidable a.WF :=
  decidable_of_iff ((isWs a.letter = false ∧ a.letter ≠ 41) ∧ a.letter ≠ 90 ∧ a.pre.length = 17 ∧ 17 ≤ a.post.length)
    ⟨fun ⟨a, b, c, d⟩ => ⟨a, b, c, d⟩, fun ⟨a, b, c, d⟩ => ⟨a, b, c, d⟩⟩

structure KernelB where
  procs : List InstB
  clock : Nat
  btime : Nat
  denied : List (Nat × Errno)
  hidden : List Nat
  deriving Repr

/-- kernel-side events of the byte-level histories: those of `KEv`, where a spawn says which comm and which
    other fields the new incarnation shows, plus `rewrite`: the line of a listed process changes in everything
    but pid, state and starttime (`prctl(PR_SET_NAME)`, exec, counters, thread count, reparenting) -/
inductive KEvB
  | spawn (pid : Nat) (comm : Bytes) (aux : Aux)
  | spawnSameTick (pid : Nat) (comm : Bytes) (aux : Aux)
  | rewrite (pid : Nat) (comm : Bytes) (aux : Aux)
  | exit (pid : Nat)
  | reap (pid : Nat)
  | tick (n : Nat)
  | setBtime (b : Nat)
  | perm (pid : Nat) (e : Option Errno)
  | hide (pid : Nat) (on : Bool)
  deriving DecidableEq, Repr

def KernelB.find (k : KernelB) (pid : Nat) : Option InstB := k.procs.find? (·.pid == pid)

def KernelB.apply (k : KernelB) : KEvB → KernelB
  | .spawn pid comm aux =>
    match k.find pid with
    | some _ => k
    | none => { k with procs := ⟨pid, k.clock, false, k.clock, comm, aux⟩ :: k.procs, clock := k.clock + 1 }
  | .spawnSameTick pid comm aux =>
    match k.find pid with
    | some _ => k
    | none => { k with procs := ⟨pid, k.clock, false, k.clock - 1, comm, aux⟩ :: k.procs, clock := k.clock + 1 }
  | .rewrite pid comm aux =>
    { k with procs := k.procs.map fun x => if x.pid == pid then { x with comm := comm, aux := aux } else x }
  | .exit pid => { k with procs := k.procs.map fun x => if x.pid == pid then { x with zombie := true } else x }
  | .reap pid => { k with procs := k.procs.filter fun x => !(x.pid == pid) }
  | .tick n => { k with clock := k.clock + n }
  | .setBtime b => { k with btime := b }
  | .perm pid none => { k with denied := k.denied.filter fun x => !(x.1 == pid) }
  | .perm pid (some e) => { k with denied := (pid, e) :: k.denied }
  | .hide pid true => { k with hidden := pid :: k.hidden }
  | .hide pid false => { k with hidden := k.hidden.filter fun x => !(x == pid) }

/-- the kernel's own truth about an incarnation, bytes forgotten (what the SPECIFICATION looks at: the process
    table — who holds which PID since when; comm and the other fields are not part of the property) -/
def InstB.forget (x : InstB) : Inst := ⟨x.pid, x.start, x.zombie, x.stamp⟩

def KernelB.forget (k : KernelB) : Kernel := ⟨k.procs.map InstB.forget, k.clock, k.btime, k.denied, k.hidden⟩

/-- the event of the abstract histories a byte-level event stands for (`rewrite` changes nothing the abstract
    kernel has: it is the empty passage of time) -/
def KEvB.erase : KEvB → KEv
  | .spawn pid _ _ => .spawn pid
  | .spawnSameTick pid _ _ => .spawnSameTick pid
  | .rewrite _ _ _ => .tick 0
  | .exit pid => .exit pid
  | .reap pid => .reap pid
  | .tick n => .tick n
  | .setBtime b => .setBtime b
  | .perm pid e => .perm pid e
  | .hide pid on => .hide pid on

/-! ## psutil side: the reader -/

inductive Search | rfind | find
  deriving DecidableEq, Repr

/-- shape of `_parse_stat_file` / `create_time` as extracted from the source -/
structure StatCfg where
  search : Search       -- `data.rfind(needle)` / `data.find(needle)` locates the end of the name
  needle : Bytes        -- b')'
  skip : Nat            -- `fields = data[rpar + skip :].split()`
  ctimeIdx : Nat        -- `ret['create_time'] = fields[ctimeIdx]`
  statusIdx : Nat       -- `ret['status'] = fields[statusIdx]`
  deriving DecidableEq, Repr

/-- `bytes.find(needle)` for a byte string -/
def findSub (needle : Bytes) : Bytes → Option Nat
  | [] => if needle.isEmpty then some 0 else none
  | x :: xs => if needle.isPrefixOf (x :: xs) then some 0 else (findSub needle xs).map (· + 1)

/-- `bytes.rfind(needle)` for a (non-empty) byte string -/
def rfindSub (needle : Bytes) : Bytes → Option Nat
  | [] => none
  | x :: xs =>
    match rfindSub needle xs with
    | some i => some (i + 1)
    | none => if needle.isPrefixOf (x :: xs) then some 0 else none

/-- `rpar`: index, or −1 when absent -/
def locate (sc : StatCfg) (data : Bytes) : Int :=
  let r : Option Nat :=
    match sc.needle, sc.search with
    | [c], .rfind => rfindIdx? c data
    | [c], .find => findIdx? c data
    | nd, .rfind => rfindSub nd data
    | nd, .find => findSub nd data
  match r with
  | some i => (i : Int)
  | none => -1

/-- `data[i:]` for a possibly negative `i` -/
def pyFrom (data : Bytes) (i : Int) : Bytes :=
  if 0 ≤ i then data.drop i.toNat else data.drop (data.length - (-i).toNat)

/-- highest index `_parse_stat_file` reads unconditionally (`fields[36]`, cpu_num) -/
def statNeeds : Nat := 36

/-- what psutil makes of one stat file: starttime in ticks and "is a zombie", or the exception that leaves
    `_parse_stat_file` / `float()` -/
inductive Read
  | ok (stamp : Nat) (zombie : Bool)
  | indexError                      -- fewer fields than `_parse_stat_file` indexes
  | notDecimal                      -- `float()` of a token that is not a plain decimal number: ValueError, or a
                                    -- value no kernel writes there — the model makes no prediction
  deriving DecidableEq, Repr

def readStat (sc : StatCfg) (data : Bytes) : Read :=
  let fs := splitWs (pyFrom data (locate sc data + sc.skip))
  if fs.length ≤ statNeeds then .indexError
  else
    match fs[sc.ctimeIdx]?, fs[sc.statusIdx]? with
    | some t, some st =>
      match parseDec? t with
      | some n => .ok n (st == [90])
      | none => .notDecimal
    | _, _ => .indexError

/-- what psutil can see of an incarnation: `Inst` with the stamp and the zombie flag READ from the bytes -/
def viewInst (sc : StatCfg) (x : InstB) : Option Inst :=
  match readStat sc (statLine x) with
  | .ok n z => some ⟨x.pid, x.start, z, n⟩
  | _ => none

def viewProcs (sc : StatCfg) : List InstB → Option (List Inst)
  | [] => some []
  | x :: xs =>
    match viewInst sc x, viewProcs sc xs with
    | some y, some ys => some (y :: ys)
    | _, _ => none

/-- the abstract kernel as psutil's reader sees it; `none` = some listed process's line does not parse under
    this reader (never for `StatCfg.Good` and kernel-formatted lines: `view_good`) -/
def view (sc : StatCfg) (k : KernelB) : Option Kernel :=
  (viewProcs sc k.procs).map fun ps => ⟨ps, k.clock, k.btime, k.denied, k.hidden⟩

/-! ## The identity machine over the bytes -/

inductive EvB | k (e : KEvB) | c (call : Call)
  deriving DecidableEq, Repr

structure StB where
  kern : KernelB
  ps : Ps
  log : List Eff
  deriving Repr

def StB.init (btime : Nat) : StB := ⟨⟨[], 0, btime, [], []⟩, ⟨none, [], [], []⟩, []⟩

/-- the state of Model/C01.lean the SPECIFICATION is read on: the kernel's truth, not psutil's reading of it -/
def StB.toSt (s : StB) : St := ⟨s.kern.forget, s.ps, s.log⟩

/-- a psutil call runs `step` of Model/C01.lean on the kernel as READ from the stat bytes; `none` = no
    prediction (a line the reader cannot parse: `view`) -/
def stepB (sc : StatCfg) (cfg : Cfg) (s : StB) : EvB → StB × Option Out
  | .k e => ({ s with kern := s.kern.apply e }, some .unit)
  | .c call =>
    match view sc s.kern with
    | none => (s, none)
    | some k =>
      let r := step cfg ⟨k, s.ps, s.log⟩ (.c call)
      (⟨s.kern, r.1.ps, r.1.log⟩, some r.2)

def runB (sc : StatCfg) (cfg : Cfg) (s : StB) : List EvB → StB
  | [] => s
  | e :: es => runB sc cfg (stepB sc cfg s e).1 es

def EvB.erase : EvB → Ev
  | .k e => .k e.erase
  | .c call => .c call

end Psutil.C01
