/- Model/C16Act.lean — what a public method does BETWEEN its reads: methods with arguments, methods that block, and
   cache (de)activation issued from a method body (seeded round 5, C16-9).

   A public call is a `Body` = the ordered things its code does that the block caches can see: ask a cached source
   (through the front-end memoisation or around it), block (`tick`: the kernel records move on while the call
   sleeps — the new contents are part of the history), and (de)activate one of the two `_cache` attributes
   (`cop`; in psutil only `oneshot()` itself does that, which is an obligation on the translator's fact
   `cacheOpSites`, see Model/C16ActGen.lean). The content of a source is a version number. -/
namespace Psutil.C16.Act

inductive Src | stat | status | smaps
  deriving DecidableEq, Repr

inductive Lvl | front | plat
  deriving DecidableEq, Repr

inductive Step
  | get (s : Src) (viaFront : Bool)   -- ask the helper of source `s` (viaFront: through a memoised front-end method)
  | tick                              -- the call blocks here; the next world of the history becomes current
  | cop (l : Lvl) (activate : Bool)   -- cache_activate / cache_deactivate of every memoised function of one level
  deriving DecidableEq, Repr

abbrev Body := List Step
abbrev World := Src → Nat
abbrev Dict := Src → Option Nat

def upd (d : Dict) (s : Src) (v : Nat) : Dict := fun x => if x = s then some v else d x
def emptyD : Dict := fun _ => none
def bump (r : Src → Nat) (s : Src) : Src → Nat := fun x => if x = s then r x + 1 else r x

structure St where
  w : World
  stack : List Bool        -- open `with p.oneshot()` levels, innermost first; true = the activating level
  fc : Option Dict         -- front-end object's `_cache` attribute
  pc : Option Dict         -- platform object's `_cache` attribute
  reads : Src → Nat        -- reads of each source since the last activating enter

def St.init (w : World) : St := ⟨w, [], none, none, fun _ => 0⟩

/-- the platform helper behind `memoize_when_activated` -/
def platGet (σ : St) (s : Src) : Nat × St :=
  match σ.pc with
  | some p =>
    match p s with
    | some v => (v, σ)
    | none => (σ.w s, { σ with pc := some (upd p s (σ.w s)), reads := bump σ.reads s })
  | none => (σ.w s, { σ with reads := bump σ.reads s })

def getS (σ : St) (s : Src) (viaFront : Bool) : Nat × St :=
  if viaFront then
    match σ.fc with
    | some f =>
      match f s with
      | some v => (v, σ)
      | none =>
        let r := platGet σ s
        (r.1, { r.2 with fc := some (upd f s r.1) })
    | none => platGet σ s
  else platGet σ s

def copS (σ : St) : Lvl → Bool → St
  | .front, true => { σ with fc := some emptyD }
  | .front, false => { σ with fc := none }
  | .plat, true => { σ with pc := some emptyD }
  | .plat, false => { σ with pc := none }

/-- one public call: the answers of its `get`s in order -/
def runBody : Body → List World → St → List Nat → List Nat × St
  | [], _, σ, acc => (acc.reverse, σ)
  | .get s vf :: b, ws, σ, acc => runBody b ws (getS σ s vf).2 ((getS σ s vf).1 :: acc)
  | .tick :: b, w' :: ws, σ, acc => runBody b ws { σ with w := w' } acc
  | .tick :: b, [], σ, acc => runBody b [] σ acc
  | .cop l a :: b, ws, σ, acc => runBody b ws (copS σ l a) acc

inductive Op
  | enter
  | exit                                  -- normal or by exception: the same code runs (fact exitInFinally)
  | call (b : Body) (ws : List World)     -- ws: the worlds that become current at the call's blocking points
  | change (w : World)

def step (σ : St) : Op → St × List Nat
  | .enter =>
    if σ.fc.isSome then ({ σ with stack := false :: σ.stack }, [])
    else ({ σ with stack := true :: σ.stack, fc := some emptyD, pc := some emptyD, reads := fun _ => 0 }, [])
  | .exit =>
    match σ.stack with
    | [] => (σ, [])
    | true :: rest => ({ σ with stack := rest, fc := none, pc := none }, [])
    | false :: rest => ({ σ with stack := rest }, [])
  | .call b ws => let r := runBody b ws σ []; (r.2, r.1)
  | .change w => ({ σ with w := w }, [])

def run : St → List Op → St × List (List Nat)
  | σ, [] => (σ, [])
  | σ, o :: os => let r := step σ o; let r' := run r.1 os; (r'.1, r.2 :: r'.2)

def outs (σ : St) (h : List Op) : List (List Nat) := (run σ h).2

/-- a body the theorems speak about: it never (de)activates a cache itself -/
def Step.clean : Step → Bool
  | .cop _ _ => false
  | _ => true
def Body.clean (b : Body) : Bool := b.all Step.clean
def Op.clean : Op → Bool
  | .call b _ => Body.clean b
  | _ => true

end Psutil.C16.Act
