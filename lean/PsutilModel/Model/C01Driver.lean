/-
  Model/C01Driver.lean — line-protocol driver core for the C01/C02 identity machine (see
  Base/Proto.lean).  `Driver/C01.lean` and `Driver/C02.lean` instantiate it with the configuration
  the translator extracted for the respective check.

  in : {"op":"reset","btime":N} | kernel events {"op":"spawn"|"exit"|"reap","pid":p},
       {"op":"tick","n":n}, {"op":"setbtime","b":b}, {"op":"perm","pid":p,"e":"EPERM"|"EACCES"|"allow"},
       {"op":"hide","pid":p,"on":bool} | calls {"op":"new","pid":p},
       {"op":"is_running"|"ppid"|"create_time"|"hash","i":i}, {"op":"signal","i":i,"m":"send"|"suspend"|…,"sig":n},
       {"op":"setter","i":i,"k":"nice"|"ionice"|"rlimit"|"affinity","args":[…]}, {"op":"eq","i":i,"j":j},
       {"op":"boot_time"}, {"op":"process_iter"} (→ [[pid, object index], …] in yield order; new objects are
       appended to the object list), {"op":"enter"|"leave","i":i} (oneshot block), {"op":"status","i":i} (str(p)),
       {"op":"other","i":i,"what":name} (another public Process call: identity; "children" = the reuse guard)
       | {"op":"pairs"} (all pairwise ==, all hash keys)
  out: {"model":{"out":…,"eff":[…]},"spec":{…}}
-/
import PsutilModel.Base.Proto
import PsutilModel.Model.C01
import PsutilModel.Spec.C01
open Lean Psutil Psutil.Proto
namespace Psutil.C01.Drv
open Psutil.C01

def parseSig (j : Json) : R SigMethod := do
  let m ← strF j "m"
  if m == "send" then return .send (← natF j "sig")
  else if m == "suspend" then return .suspend
  else if m == "resume" then return .resume
  else if m == "terminate" then return .terminate
  else if m == "kill" then return .kill
  else .error s!"bad signal method {m}"

def parseKind (s : String) : R SetKind :=
  if s == "nice" then .ok .nice else if s == "ionice" then .ok .ionice
  else if s == "rlimit" then .ok .rlimit else if s == "affinity" then .ok .affinity
  else .error s!"bad setter kind {s}"

def parseEv (j : Json) : R Ev := do
  let op ← strF j "op"
  if op == "spawn" then return .k (.spawn (← natF j "pid"))
  else if op == "exit" then return .k (.exit (← natF j "pid"))
  else if op == "reap" then return .k (.reap (← natF j "pid"))
  else if op == "tick" then return .k (.tick (← natF j "n"))
  else if op == "setbtime" then return .k (.setBtime (← natF j "b"))
  else if op == "perm" then
    let e ← strF j "e"
    let pid ← natF j "pid"
    if e == "EPERM" then return .k (.perm pid (some .eperm))
    else if e == "EACCES" then return .k (.perm pid (some .eacces))
    else if e == "allow" then return .k (.perm pid none)
    else .error s!"bad errno {e}"
  else if op == "hide" then return .k (.hide (← natF j "pid") (← boolF j "on"))
  else if op == "new" then return .c (.newObj (← intF j "pid"))
  else if op == "is_running" then return .c (.isRunning (← natF j "i"))
  else if op == "signal" then return .c (.signal (← natF j "i") (← parseSig j))
  else if op == "setter" then
    return .c (.setter (← natF j "i") (← strF j "k" >>= parseKind) (← listF asInt j "args"))
  else if op == "ppid" then return .c (.ppid (← natF j "i"))
  else if op == "boot_time" then return .c .bootTime
  else if op == "create_time" then return .c (.createTime (← natF j "i"))
  else if op == "eq" then return .c (.eq (← natF j "i") (← natF j "j"))
  else if op == "hash" then return .c (.hash (← natF j "i"))
  else if op == "process_iter" then return .c .processIter
  else if op == "enter" then return .c (.oneshot (← natF j "i") true)
  else if op == "leave" then return .c (.oneshot (← natF j "i") false)
  else if op == "status" then return .c (.status (← natF j "i"))
  else if op == "other" then
    -- any OTHER public call on object i (wait(0), as_dict, name, status, cpu_times, str, hash, username, …): the identity
    -- on the identity machine (`Call.oneshot`, C02_oneshot_identity) — except children(), which starts with the reuse
    -- guard exactly like ppid() (`Call.ppid`); the harness ignores the outcome of these ops, not what follows them
    let what ← strF j "what"
    if what == "children" then return .c (.ppid (← natF j "i"))
    -- a public call that asks `create_time()` on the way (as_dict(attrs=[… 'create_time' …])): memoises `_create_time`
    else if what == "as_dict_ct" then return .c (.createTime (← natF j "i"))
    else return .c (.oneshot (← natF j "i") true)
  else .error s!"unknown op {op}"

def jExc : Exc → Json
  | .noSuchProcess pid => jObj [("kind", "exc"), ("exc", "NoSuchProcess"), ("pid", jInt pid)]
  | .accessDenied pid => jObj [("kind", "exc"), ("exc", "AccessDenied"), ("pid", jInt pid)]
  | .valueError => jObj [("kind", "exc"), ("exc", "ValueError")]
  | .badCall => jObj [("kind", "exc"), ("exc", "badCall")]

def statusName : StatusWord → String
  | .reusedTerminated => "terminated + PID reused"
  | .terminated => "terminated"
  | .zombie => "zombie"
  | .alive => "alive"
  | .unknown => "none"

def jOut : Out → Json
  | .unit => jObj [("kind", "unit")]
  | .bool b => jObj [("kind", "bool"), ("v", Json.bool b)]
  | .nat n => jObj [("kind", "nat"), ("v", jNat n)]
  | .obj i => jObj [("kind", "obj"), ("i", jNat i)]
  | .ident p c => jObj [("kind", "ident"), ("pid", jNat p), ("ct", jOpt jNat c)]
  | .procs l => jObj [("kind", "procs"), ("v", jList (fun e => Json.arr #[jNat e.1, jNat e.2]) l)]
  | .status w => jObj [("kind", "status"), ("v", Json.str (statusName w))]
  | .exc e => jExc e

def kindName : EffKind → String
  | .kill => "kill"
  | .set .nice => "nice"
  | .set .ionice => "ionice"
  | .set .rlimit => "rlimit"
  | .set .affinity => "affinity"

/-- effect values; the list 0, 1, …, n-1 with n > 64 (full mask of `cpu_affinity([])`) is written {"range": n}
    (the harness writes what the recorders saw in the same way: `compress`) -/
def jArg (a : List Int) : Json :=
  if a.length > 64 && a == (List.range a.length).map Int.ofNat then jObj [("range", jNat a.length)]
  else jList jInt a

def errnoName : Errno → String
  | .eperm => "EPERM"
  | .eacces => "EACCES"

def jEff (e : Eff) : Json :=
  jObj [("kind", kindName e.kind), ("obj", jNat e.obj), ("pid", jInt e.pid), ("arg", jArg e.arg),
        ("owner", jOpt jNat e.owner), ("res", jOpt (fun x => Json.str (errnoName x)) e.res)]

/-- what the property promises about this call, computed from the ghost fields and the kernel table
    only (Spec/C01.lean), *before* the call is executed -/
def specOf (s : St) : Ev → Json
  | .k _ => jObj []
  | .c call =>
    match call with
    | .newObj pid =>
      if pid < 0 then jObj [("exc", "ValueError")]
      else jObj [("owner", jOpt jNat (s.kern.owner pid.toNat))]
    | .eq i j =>
      match s.ps.objs[i]?, s.ps.objs[j]? with
      | some a, some b => jObj [("bool", Json.bool (Spec.sameB a b))]
      | _, _ => jObj []
    | .isRunning i =>
      match s.ps.objs[i]? with
      | some o => jObj [("bool", Json.bool (Spec.listedB s.kern o))]
      | none => jObj []
    | .status i =>
      match s.ps.objs[i]? with
      | some o => jObj [("listed", Json.bool (Spec.listedB s.kern o)), ("own_zombie", jOpt Json.bool (Spec.ownZombie s.kern o))]
      | none => jObj []
    | .processIter => jObj [("listed_pids", jList jNat (s.kern.procs.map (·.pid)))]
    | call =>
      match call.target with
      | none => jObj []
      | some i =>
        match s.ps.objs[i]? with
        | none => jObj []
        | some o =>
          let base := [("listed", Json.bool (Spec.listedB s.kern o)), ("pid", jNat o.pid), ("ghost", jNat o.ghost),
                       ("effect_call", Json.bool (Spec.isEffectCall call)),
                       ("refusal", jOpt (fun x => Json.str (errnoName x)) (s.kern.refusal o.pid)),
                       ("readable", Json.bool (Spec.statOpensB s.kern o.pid))]
          match Spec.wanted call with
          | none => jObj base
          | some (kind, arg) => jObj (base ++ [("want_kind", Json.str (kindName kind)), ("want_arg", jArg arg)])

def pairs (s : St) : Json :=
  let objs := s.ps.objs
  jObj [("model", jObj [("eq", jList (fun a => jList (fun b => Json.bool (a.pid == b.pid && a.ident == b.ident)) objs) objs),
                         ("hash", jList (fun a => Json.arr #[jNat a.pid, jOpt jNat a.ident]) objs)]),
        ("spec", jObj [("same", jList (fun a => jList (fun b => Json.bool (Spec.sameB a b)) objs) objs)])]

def handle (cfg : Cfg) (s : St) (j : Json) : R (St × Json) := do
  let op ← strF j "op"
  if op == "reset" then
    return (St.init (← natF j "btime"), ok (Json.str "reset"))
  if op == "pairs" then
    return (s, pairs s)
  let ev ← parseEv j
  let spec := specOf s ev
  let (s', out) := step cfg s ev
  let newEff := (s'.log.take (s'.log.length - s.log.length)).reverse
  return (s', jObj [("model", jObj [("out", jOut out), ("eff", jList jEff newEff)]), ("spec", spec)])

def driverMain (cfg : Cfg) : IO Unit := Proto.run (St.init 1) (total (handle cfg))

end Psutil.C01.Drv
