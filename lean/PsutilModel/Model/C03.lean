/-
  Model/C03.lean — executable model for C03 ("a process vanishing or being denied mid-call
  yields only psutil errors").

  A SHALLOW state + exception monad over a fault plan:

      M α := Ctx → St → Except PyExc α × St

  `Ctx` = the static description of the (fake) procfs + the fault plan (`ws k` = state of the
  target process at the k-th OS access, `deny k` = errno injected at the k-th access);
  `St`  = access counter + access log + the `oneshot()` caches.

  Every OS access psutil makes goes through `access`; Python's try/except is `tryCatch`
  (first matching clause); the combinators `wrapExceptions`, `isZombie`, `raiseIfZombie`,
  `raiseIfNotAlive`, `readlinkM` (`Process._readlink`), `memo` (`memoize_when_activated`)
  are transcribed clause by clause from psutil/_pslinux.py / _common.py.  The `except`
  class lists and decorator tables are NOT written here: they are fields of `Cfg`, filled
  from the translator's output in Model/C03Gen.lean.

  Parsing steps raise the Python exception class they would raise on malformed data
  (IndexError, ValueError, RuntimeError, NotImplementedError), so "never a parsing error" is a
  reachability statement about those constructors.

  Import-free.
-/
namespace Psutil.C03

/-! ## exceptions -/

inductive Errno | ENOENT | ESRCH | EACCES | EPERM
  deriving DecidableEq, Repr

/-- the exception objects that can travel through the modelled code -/
inductive PyExc
  | fnf | ple | perm                                   -- bare FileNotFoundError / ProcessLookupError / PermissionError
  | nsp (pid : Nat) | zombie (pid : Nat) | ad (pid : Nat)   -- psutil.NoSuchProcess / ZombieProcess / AccessDenied
  | indexError | valueError | keyError | typeError | runtimeError | notImplemented
  deriving DecidableEq, Repr

def Errno.toExc : Errno → PyExc
  | .ENOENT => .fnf | .ESRCH => .ple | .EACCES => .perm | .EPERM => .perm

/-- class name followed by its base classes (what an `except C` clause matches against) -/
def PyExc.bases : PyExc → List String
  | .fnf => ["FileNotFoundError", "OSError", "Exception"]
  | .ple => ["ProcessLookupError", "OSError", "Exception"]
  | .perm => ["PermissionError", "OSError", "Exception"]
  | .nsp _ => ["NoSuchProcess", "Error", "Exception"]
  | .zombie _ => ["ZombieProcess", "NoSuchProcess", "Error", "Exception"]
  | .ad _ => ["AccessDenied", "Error", "Exception"]
  | .indexError => ["IndexError", "LookupError", "Exception"]
  | .keyError => ["KeyError", "LookupError", "Exception"]
  | .valueError => ["ValueError", "Exception"]
  | .typeError => ["TypeError", "Exception"]
  | .runtimeError => ["RuntimeError", "Exception"]
  | .notImplemented => ["NotImplementedError", "RuntimeError", "Exception"]

/-- does `except (classes...)` catch `e`? -/
def catches (classes : List String) (e : PyExc) : Bool :=
  classes.any (fun c => e.bases.contains c)

/-! ## the simulated procfs -/

/-- state of one process as seen through /proc -/
inductive WS | alive | zombie | gone
  deriving DecidableEq, Repr

def WS.rank : WS → Nat | .alive => 0 | .zombie => 1 | .gone => 2

inductive PFile | stat | status | statm | io | cmdline | environ | smaps | smapsRollup
  deriving DecidableEq, Repr
inductive PLink | exe | cwd
  deriving DecidableEq, Repr
inductive PDir | fd | task
  deriving DecidableEq, Repr
inductive NetFile | tcp | tcp6 | udp | udp6 | unix
  deriving DecidableEq, Repr
inductive Native | getpriority | affinityGet | ioprioGet | prlimit
  deriving DecidableEq, Repr

/-- paths below the procfs root -/
inductive Path
  | root                              -- <procfs>
  | pidDir (p : Nat)                  -- <procfs>/<p>
  | file (p : Nat) (f : PFile)        -- <procfs>/<p>/<f>
  | link (p : Nat) (l : PLink)        -- <procfs>/<p>/exe|cwd
  | dir (p : Nat) (d : PDir)          -- <procfs>/<p>/fd|task
  | taskStat (p t : Nat)              -- <procfs>/<p>/task/<t>/stat
  | fdLink (p fd : Nat)               -- <procfs>/<p>/fd/<fd>
  | fdInfo (p fd : Nat)               -- <procfs>/<p>/fdinfo/<fd>
  | net (n : NetFile)                 -- <procfs>/net/<n>
  | mapFile (p i : Nat)               -- OUTSIDE procfs: the backing path printed by the i-th mapping of <procfs>/<p>/smaps
  deriving DecidableEq, Repr

/-- the process whose /proc/<pid> subtree holds the path (none: system-wide) -/
def Path.owner : Path → Option Nat
  | .root => none
  | .pidDir p => some p
  | .file p _ => some p
  | .link p _ => some p
  | .dir p _ => some p
  | .taskStat p _ => some p
  | .fdLink p _ => some p
  | .fdInfo p _ => some p
  | .net _ => none
  | .mapFile p _ => some p            -- looked at on behalf of the query about `p`: a refusal there is a refused access of the call

inductive Op | openF | readF | readlink | listdir | stat | lstat
  deriving DecidableEq, Repr

/-- every OS access psutil makes on behalf of a Process query -/
inductive OsAcc
  | fs (op : Op) (p : Path)
  | native (c : Native) (pid : Nat)
  deriving DecidableEq, Repr

def OsAcc.owner : OsAcc → Option Nat
  | .fs _ p => p.owner
  | .native _ pid => some pid

/-- what a listed descriptor turns out to be -/
inductive FdKind
  | file        -- symlink to an absolute path of a regular file; fdinfo readable
  | sock        -- "socket:[inode]"
  | other       -- "pipe:[..]", "anon_inode:..": not an absolute path
  | stale       -- listed, but closed before readlink (ENOENT)
  | infoStale   -- link readable (regular file) but closed before fdinfo is opened
  deriving DecidableEq, Repr

/-- one mapping of /proc/<pid>/smaps, as far as control flow can tell -/
inductive MapKind
  | anon                    -- no path / a pseudo path ("[stack]", "[anon:…]"): no further access
  | file                    -- an absolute path not ending in " (deleted)": no further access
  | deleted (kept : Bool)   -- the printed path ends in " (deleted)": memory_maps() stat()s the LITERAL path
                            -- (`path_exists_strict`); `kept` = a file of that literal name exists (then the text is kept)
  deriving DecidableEq, Repr

structure ProcInfo where
  pid : Nat
  ppid : Nat
  ctime : Nat                   -- start time (ticks); only compared
  long : Bool                   -- len(name) >= 15 (front-end name() then consults cmdline)
  guess : Bool                  -- cmdline[0] is an absolute path of an executable regular file
  tids : List (Nat × Bool)      -- threads in the order the implementation visits them; true = vanished after listing
  fds : List (Nat × FdKind)     -- descriptors in listing order
  stale : Bool                  -- still listed in <procfs> but already gone
  maps : List MapKind           -- the mappings of smaps, in file order ([] = an empty smaps file: kernel threads)
  deriving DecidableEq, Repr

structure World where
  target : Nat                  -- the pid the fault plan is about
  procs : List ProcInfo         -- in the order os.listdir(<procfs>) returns them
  deriving Repr

def World.info (w : World) (q : Nat) : Option ProcInfo := w.procs.find? (fun i => i.pid == q)

/-- the state of process `q` when the target is in state `st` -/
def World.state (w : World) (st : WS) (q : Nat) : Option (WS × ProcInfo) :=
  match w.info q with
  | none => none
  | some i => some (if q == w.target then st else if i.stale then .gone else .alive, i)

structure StatRec where
  z : Bool          -- state letter is 'Z'
  long : Bool
  ppid : Nat
  ctime : Nat
  deriving DecidableEq, Repr

/-- what a read returns, as far as control flow can tell -/
inductive Content
  | stat (r : StatRec)            -- a well-formed /proc/<pid>/stat record
  | args (n : Nat) (guess : Bool) -- a non-empty cmdline with n arguments
  | text                          -- a well-formed non-empty record of the file's own format
  | empty                         -- zero bytes
  deriving DecidableEq, Repr

inductive Target
  | abs (reg : Bool)     -- absolute path; `reg` = os.stat says regular file
  | sock (inode : Nat)   -- "socket:[inode]"
  | rel                  -- anything not starting with '/'
  deriving DecidableEq, Repr

/-! ### behaviour tables (Alive: from the world description; Zombie: captured from the
    sandbox kernel 6.18, DESIGN A.8, re-validated by the harness against a live zombie;
    Gone: every path ENOENT, read on an open file ESRCH, native calls ESRCH) -/

def tblOpen (w : World) (st : WS) : Path → Except Errno Unit
  | .file q f =>
    match w.state st q with
    | some (.alive, _) => .ok ()
    | some (.zombie, _) =>
      if f = .environ ∨ f = .smapsRollup then .error .ESRCH else .ok ()
    | _ => .error .ENOENT
  | .taskStat q t =>
    match w.state st q with
    | some (.alive, i) =>
      match i.tids.lookup t with
      | some false => .ok ()
      | _ => .error .ENOENT
    | some (.zombie, _) => if t = q then .ok () else .error .ENOENT
    | _ => .error .ENOENT
  | .fdInfo q fd =>
    match w.state st q with
    | some (.alive, i) =>
      match i.fds.lookup fd with
      | some .file => .ok ()
      | some .sock => .ok ()
      | some .other => .ok ()
      | _ => .error .ENOENT
    | _ => .error .ENOENT
  | .net _ => .ok ()
  | _ => .error .ENOENT

def tblRead (w : World) (st : WS) : Path → Except Errno Content
  | .file q f =>
    match w.state st q with
    | some (.alive, i) =>
      match f with
      | .stat => .ok (.stat ⟨false, i.long, i.ppid, i.ctime⟩)
      | .cmdline => .ok (.args 2 i.guess)
      | .smaps => .ok (if i.maps.isEmpty then .empty else .text)
      | _ => .ok .text
    | some (.zombie, i) =>
      match f with
      | .stat => .ok (.stat ⟨true, i.long, i.ppid, i.ctime⟩)
      | .status => .ok .text
      | .statm => .ok .text
      | .io => .ok .text
      | .cmdline => .ok .empty
      | .environ => .ok .empty
      | .smaps => .ok .empty
      | .smapsRollup => .error .ESRCH
    | _ => .error .ESRCH
  | .taskStat q t =>
    match w.state st q with
    | some (.alive, _) => .ok .text
    | some (.zombie, _) => if t = q then .ok .text else .error .ESRCH
    | _ => .error .ESRCH
  | .fdInfo q _ =>
    match w.state st q with
    | some (.alive, _) => .ok .text
    | _ => .error .ESRCH
  | .net _ => .ok .text
  | _ => .error .ESRCH

def tblReadlink (w : World) (st : WS) : Path → Except Errno Target
  | .link q _ =>
    match w.state st q with
    | some (.alive, _) => .ok (.abs true)
    | _ => .error .ENOENT
  | .fdLink q fd =>
    match w.state st q with
    | some (.alive, i) =>
      match i.fds.lookup fd with
      | some .file => .ok (.abs true)
      | some .infoStale => .ok (.abs true)
      | some .sock => .ok (.sock fd)
      | some .other => .ok .rel
      | _ => .error .ENOENT
    | _ => .error .ENOENT
  | _ => .error .ENOENT

def tblListdir (w : World) (st : WS) : Path → Except Errno (List Nat)
  | .root => .ok (w.procs.filterMap fun i =>
      if i.pid == w.target && st == .gone then none else some i.pid)
  | .dir q .fd =>
    match w.state st q with
    | some (.alive, i) => .ok (i.fds.map (·.1))
    | some (.zombie, _) => .ok []
    | _ => .error .ENOENT
  | .dir q .task =>
    match w.state st q with
    | some (.alive, i) => .ok (i.tids.map (·.1))
    | some (.zombie, _) => .ok [q]
    | _ => .error .ENOENT
  | _ => .error .ENOENT

/-- os.stat / os.lstat (only existence matters to the callers) -/
def tblStat (w : World) (st : WS) (p : Path) : Except Errno Unit :=
  match p.owner with
  | none => .ok ()
  | some q =>
    match w.state st q with
    | some (.alive, _) => .ok ()
    | some (.zombie, _) =>
      match p with
      | .pidDir _ => .ok ()
      | .file _ .stat => .ok ()
      | .file _ _ => .ok ()
      | .dir _ _ => .ok ()
      | _ => .error .ENOENT
    | _ => .error .ENOENT

/-- os.stat of the backing path of the i-th mapping of `q` — a file OUTSIDE procfs: it is there or not whatever the
    state of the process (a process that is gone has no smaps to name it, but a path already read stays a path) -/
def tblMapFile (w : World) (_st : WS) (q i : Nat) : Except Errno Unit :=
  match (w.info q).bind (fun inf => inf.maps[i]?) with
  | some (.deleted true) => .ok ()
  | _ => .error .ENOENT

def tblNative (w : World) (st : WS) (q : Nat) : Except Errno Unit :=
  match w.state st q with
  | some (.alive, _) => .ok ()
  | some (.zombie, _) => .ok ()
  | _ => .error .ESRCH

/-! ## the monad -/

structure Ctx where
  w : World
  ws : Nat → WS                 -- state of the target at the k-th access
  deny : Nat → Option Errno     -- errno injected at the k-th access (only on per-process paths)

/-- the caches `oneshot()` activates (`memoize_when_activated`), for the object `owner` -/
structure Cache where
  owner : Nat := 0
  active : Bool := false
  stat : Option StatRec := none        -- _pslinux.Process._parse_stat_file
  status : Option Content := none      -- _pslinux.Process._read_status_file
  smaps : Option Content := none       -- _pslinux.Process._read_smaps_file
  fePpid : Option Nat := none          -- psutil.Process.ppid
  feCpu : Bool := false                -- psutil.Process.cpu_times   (value shape is constant)
  feMem : Bool := false                -- psutil.Process.memory_info
  feUids : Bool := false               -- psutil.Process.uids
  deriving Repr

structure St where
  k : Nat := 0
  cache : Cache := {}
  trace : List OsAcc := []      -- newest first

def M (α : Type) := Ctx → St → Except PyExc α × St

@[inline] def M.pure (a : α) : M α := fun _ s => (.ok a, s)
@[inline] def M.bind (m : M α) (f : α → M β) : M β := fun c s =>
  match m c s with
  | (.ok a, s') => f a c s'
  | (.error e, s') => (.error e, s')

instance : Monad M where
  pure := M.pure
  bind := M.bind

def throw (e : PyExc) : M α := fun _ s => (.error e, s)

/-- Python `try: m  except ...:` — `h e = some m'` iff some clause matches `e`, `m'` its body -/
def tryCatch (m : M α) (h : PyExc → Option (M α)) : M α := fun c s =>
  match m c s with
  | (.ok a, s') => (.ok a, s')
  | (.error e, s') =>
    match h e with
    | some m' => m' c s'
    | none => (.error e, s')

/-- run `m` as a method of a *different* (new) object: the caller's oneshot cache is neither
    read nor written -/
def fresh (m : M α) : M α := fun c s =>
  match m c { s with cache := {} } with
  | (r, s') => (r, { s' with cache := s.cache })

def getCache : M Cache := fun _ s => (.ok s.cache, s)
def modifyCache (f : Cache → Cache) : M Unit := fun _ s => (.ok (), { s with cache := f s.cache })

/-- the k-th OS access: the fault plan first (a denial only applies to per-process paths),
    then the behaviour table of the process' current state; bumps the counter; logs -/
def access (a : OsAcc) (tbl : World → WS → Except Errno α) : M α := fun c s =>
  let s' : St := { s with k := s.k + 1, trace := a :: s.trace }
  match (if a.owner.isSome then c.deny s.k else none) with
  | some e => (.error e.toExc, s')
  | none =>
    match tbl c.w (c.ws s.k) with
    | .ok r => (.ok r, s')
    | .error e => (.error e.toExc, s')

def accOpen (p : Path) : M Unit := access (.fs .openF p) (fun w st => tblOpen w st p)
def accRead (p : Path) : M Content := access (.fs .readF p) (fun w st => tblRead w st p)
def accReadlink (p : Path) : M Target := access (.fs .readlink p) (fun w st => tblReadlink w st p)
def accListdir (p : Path) : M (List Nat) := access (.fs .listdir p) (fun w st => tblListdir w st p)
def accStat (p : Path) : M Unit := access (.fs .stat p) (fun w st => tblStat w st p)
def accLstat (p : Path) : M Unit := access (.fs .lstat p) (fun w st => tblStat w st p)
def accStatMap (q i : Nat) : M Unit := access (.fs .stat (.mapFile q i)) (fun w st => tblMapFile w st q i)
def accNative (c : Native) (q : Nat) : M Unit := access (.native c q) (fun w st => tblNative w st q)

/-! ## configuration = translator facts (see Model/C03Gen.lean) -/

structure Cfg where
  /-- `wrap_exceptions`: per `except` clause (in order) the class and the handler's steps -/
  wrapClauses : List (String × List String)
  isZombieCatch : List String       -- Process._is_zombie
  readlinkCatch : List String       -- Process._readlink
  threadsCatch : List String        -- Process.threads, around the per-thread read
  ofLinkCatch : List String         -- Process.open_files, around readlink
  ofInfoCatch : List String         -- Process.open_files, around fdinfo
  inodesCatch : List String         -- NetConnections.get_proc_inodes
  fullInfoCatch : List String       -- Process.memory_full_info: smaps_rollup → smaps fallback
  ppidMapCatch : List String        -- ppid_map()
  asDictCatch : List String         -- psutil.Process.as_dict: classes replaced by ad_value
  iterCatch : List String           -- process_iter: classes that drop the pid
  childrenCatch : List String       -- psutil.Process.children (non recursive branch)
  childrenRecCatch : List String    -- psutil.Process.children (recursive branch)
  parentCatch : List String         -- psutil.Process.parent
  parentsCatch : List String        -- psutil.Process.parents: classes that end the walk (`break`) around `proc.parent()`; [] = no try
  initClauses : List (List String × String)   -- psutil.Process._init: classes ↦ "pass" | "raise NoSuchProcess"
  runningClauses : List (List String × String) -- is_running: classes ↦ "return True" | "return False"
  nameCatch : List String           -- psutil.Process.name, around cmdline()
  statusCatch : List String         -- psutil.Process.status
  exeCatch : List String            -- psutil.Process.exe, around _proc.exe()
  exeGuessCatch : List String       -- psutil.Process.exe, around guess_it(fallback=exe)
  guessClauses : List (List String × String)   -- exe()'s helper guess_it(fallback): the handlers around `self.cmdline()`
                                    -- ([] = no try, the source as it is): classes ↦ "return fallback" | "raise fallback" | "raise"
  guessTailRaises : Bool            -- guess_it ends with `if isinstance(fallback, AccessDenied): raise fallback` before
                                    -- `return fallback` (false: the AccessDenied INSTANCE caught by exe() is handed back as a value)
  wrapped : List String             -- _pslinux.Process methods carrying @wrap_exceptions
  memoized : List String            -- _pslinux.Process methods carrying @memoize_when_activated
  feMemoized : List String          -- psutil.Process methods carrying @memoize_when_activated
  hasRollup : Bool                  -- HAS_PROC_SMAPS_ROLLUP of the imported module
  goneGuard : Bool                  -- _raise_if_pid_reused also raises NoSuchProcess when `self._gone` is set
  childrenPopSelf : Bool            -- children() drops the caller's own pid from the ppid map
  probeLenient : Bool               -- is_running(): a probe whose create time is unknown (AccessDenied swallowed by _init) while
                                    -- the object's own is known answers True instead of being compared (repair C03-denied-probe)
  asDictSkipCatch : List String     -- psutil.Process.as_dict: classes of the 2nd handler (NotImplementedError)
  asDictSkipRule : String           -- … and its body: "if attrs: raise; continue"
  parentRootGuard : Bool            -- parent(): the lowest-PID stop runs `self._raise_if_pid_reused()` before `return None`
                                    -- (/repo d7107b4, fixes/C05-parent-root-recycled.diff); false = the stop answers without any access
  lazyBodies : List String          -- _pslinux.Process methods whose call returns a LAZY result (generator function, or a
                                    -- `return` of a generator expression / map / filter / zip / iter / a local generator):
                                    -- the body, and so its OS accesses, run when the front end iterates the result, after
                                    -- the try of @wrap_exceptions has returned
  existsStrictClauses : List (List String × String)   -- _common.path_exists_strict: except classes ↦ "raise" | "return False"
  deriving DecidableEq, Repr

section
variable (cfg : Cfg)

/-! ## combinators transcribed from the source -/

/-- `with open(path) as f: f.read()` / `bcat(path)` / first `readline()`: one open, one read -/
def readFile (p : Path) : M Content := do
  accOpen p
  accRead p

/-- os.path.exists (genericpath: `except (OSError, ValueError): return False`) -/
def pathExists (p : Path) : M Bool :=
  tryCatch (do accStat p; pure true)
    (fun e => if catches ["OSError", "ValueError"] e then some (pure false) else none)

/-- os.path.lexists -/
def pathLexists (p : Path) : M Bool :=
  tryCatch (do accLstat p; pure true)
    (fun e => if catches ["OSError", "ValueError"] e then some (pure false) else none)

/-- Process._is_zombie -/
def isZombie (p : Nat) : M Bool :=
  tryCatch
    (do let c ← readFile (.file p .stat)
        -- data[rpar+2 : rpar+3] == b"Z"; never raises, whatever the bytes
        pure (match c with
              | .stat r => r.z
              | _ => false))
    (fun e => if catches cfg.isZombieCatch e then some (pure false) else none)

/-- Process._raise_if_zombie -/
def raiseIfZombie (p : Nat) : M Unit := do
  if (← isZombie cfg p) then throw (.zombie p) else pure ()

/-- Process._raise_if_not_alive: `os.stat(f"{procfs}/{pid}")` -/
def raiseIfNotAlive (p : Nat) : M Unit := accStat (.pidDir p)

/-- the handler body of one `wrap_exceptions` clause, step by step -/
def wrapSteps (p : Nat) (e : PyExc) : List String → M α
  | [] => throw e
  | st :: rest =>
    if st == "raise AccessDenied" then throw (.ad p)
    else if st == "raise NoSuchProcess" then throw (.nsp p)
    else if st == "raise" then throw e
    else if st == "_raise_if_zombie" then do
      raiseIfZombie cfg p
      wrapSteps p e rest
    else if st == "if not exists(stat): raise NoSuchProcess" then do
      let ex ← pathExists (.file p .stat)
      if !ex then throw (.nsp p) else wrapSteps p e rest
    else throw e

/-- `@wrap_exceptions`: first clause whose class matches -/
def wrapExceptions (p : Nat) (body : M α) : M α :=
  tryCatch body (fun e =>
    match cfg.wrapClauses.find? (fun cl => e.bases.contains cl.1) with
    | none => none
    | some cl => some (wrapSteps cfg p e cl.2))

/-- a `_pslinux.Process` method: decorated iff the translator saw the decorator. A method whose call returns a lazy
    result (`cfg.lazyBodies`) gets nothing from the decorator: `return fun(self, …)` inside the decorator's try only
    creates the generator / iterator object; the body runs while the front end iterates it (every front-end method
    consumes the result right after the call, with no OS access in between), outside every handler of the decorator. -/
def W (name : String) (p : Nat) (body : M α) : M α :=
  if cfg.lazyBodies.contains name then body
  else if cfg.wrapped.contains name then wrapExceptions cfg p body else body

/-- `@memoize_when_activated` on a method of the object `p` (exceptions are not cached) -/
def memo (get : Cache → Option α) (set : α → Cache → Cache) (p : Nat) (body : M α) : M α := do
  let c ← getCache
  if c.active && c.owner == p then
    match get c with
    | some v => pure v
    | none => do
      let v ← body
      modifyCache (set v)
      pure v
  else body

def memoIf (b : Bool) (get : Cache → Option α) (set : α → Cache → Cache) (p : Nat) (body : M α) : M α :=
  if b then memo get set p body else body

/-- Process._readlink(path, fallback="") -/
def readlinkM (p : Nat) (path : Path) : M Bool :=   -- true: a non-empty target, false: the fallback ""
  tryCatch (do let _ ← accReadlink path; pure true)
    (fun e => if catches cfg.readlinkCatch e then some (do
        if (← pathLexists (.pidDir p)) then
          raiseIfZombie cfg p
          pure false
        else throw e)
      else none)

/-! ## `_pslinux.Process` (namespace Plat) -/

namespace Plat

/-- the body of `_parse_stat_file` after the read: `fields[0]` … raise IndexError on an empty file -/
def parseStat : Content → M StatRec
  | .stat r => pure r
  | _ => throw .indexError

def parseStatFile (p : Nat) : M StatRec :=
  W cfg "_parse_stat_file" p <|
    memoIf (cfg.memoized.contains "_parse_stat_file") (·.stat) (fun v c => { c with stat := some v }) p <| do
      let c ← readFile (.file p .stat)
      parseStat c

def readStatusFile (p : Nat) : M Content :=
  W cfg "_read_status_file" p <|
    memoIf (cfg.memoized.contains "_read_status_file") (·.status) (fun v c => { c with status := some v }) p <|
      readFile (.file p .status)

def readSmapsFile (p : Nat) : M Content :=
  W cfg "_read_smaps_file" p <|
    memoIf (cfg.memoized.contains "_read_smaps_file") (·.smaps) (fun v c => { c with smaps := some v }) p <|
      readFile (.file p .smaps)

/-- name(): returns whether len(name) >= 15 -/
def name (p : Nat) : M Bool := W cfg "name" p <| do
  let r ← parseStatFile cfg p
  pure r.long

def exe (p : Nat) : M Bool := W cfg "exe" p <| readlinkM cfg p (.link p .exe)
def cwd (p : Nat) : M Bool := W cfg "cwd" p <| readlinkM cfg p (.link p .cwd)

/-- cmdline(): (number of arguments, cmdline[0] is an executable absolute path) -/
def cmdline (p : Nat) : M (Nat × Bool) := W cfg "cmdline" p <| do
  let c ← readFile (.file p .cmdline)
  match c with
  | .empty => do
    raiseIfZombie cfg p
    pure (0, false)
  | .args n g => pure (n, g)
  | _ => pure (1, false)

def environ (p : Nat) : M Unit := W cfg "environ" p <| do
  let _ ← readFile (.file p .environ)      -- parse_environ_block never raises
  pure ()

def terminal (p : Nat) : M Unit := W cfg "terminal" p <| do
  let _ ← parseStatFile cfg p              -- int(ttynr); tmap lookup has its own KeyError handler
  pure ()

def ioCounters (p : Nat) : M Unit := W cfg "io_counters" p <| do
  let c ← readFile (.file p .io)
  match c with
  | .empty => throw .runtimeError          -- "file was empty"
  | _ => pure ()

def cpuTimes (p : Nat) : M Unit := W cfg "cpu_times" p <| do
  let _ ← parseStatFile cfg p
  pure ()

def cpuNum (p : Nat) : M Unit := W cfg "cpu_num" p <| do
  let _ ← parseStatFile cfg p
  pure ()

def createTime (p : Nat) : M Nat := W cfg "create_time" p <| do
  let r ← parseStatFile cfg p
  pure r.ctime                             -- BOOT_TIME is cached by the harness (module global)

def memoryInfo (p : Nat) : M Unit := W cfg "memory_info" p <| do
  let c ← readFile (.file p .statm)
  match c with
  | .empty => throw .valueError            -- 7-way unpack of no values
  | _ => pure ()

/-- `_parse_smaps_rollup` carries no decorator -/
def parseSmapsRollup (p : Nat) : M Unit := W cfg "_parse_smaps_rollup" p <| do
  let _ ← readFile (.file p .smapsRollup)
  pure ()

def parseSmaps (p : Nat) : M Unit := W cfg "_parse_smaps" p <| do
  let _ ← readSmapsFile cfg p              -- three regex findall + sum: fine on empty data
  pure ()

def memoryFullInfo (p : Nat) : M Unit := W cfg "memory_full_info" p <| do
  if cfg.hasRollup then
    tryCatch (parseSmapsRollup cfg p)
      (fun e => if catches cfg.fullInfoCatch e then some (parseSmaps cfg p) else none)
  else parseSmaps cfg p
  memoryInfo cfg p

/-- `_common.path_exists_strict(path)` on the backing path of the i-th mapping: `os.stat`, then the helper's own
    except clauses in source order (translator fact): "raise" re-raises, "return False" answers False -/
def pathExistsStrict (p i : Nat) : M Bool :=
  tryCatch (do accStatMap p i; pure true)
    (fun e =>
      match (cfg.existsStrictClauses.find? (fun c => catches c.1 e)).map (·.2) with
      | some "raise" => some (throw e)
      | some "return False" => some (pure false)
      | _ => none)

/-- the `for header, data in get_blocks(…)` loop of memory_maps(): one item per mapping; a path ending in
    " (deleted)" is probed with `path_exists_strict` (mapping index, items so far) -/
def mapsLoop (p : Nat) : List MapKind → Nat → Nat → M Nat
  | [], _, n => pure n
  | .deleted _ :: ks, i, n => do
    let _ ← pathExistsStrict cfg p i      -- only decides whether the suffix is cut off
    mapsLoop p ks (i + 1) (n + 1)
  | _ :: ks, i, n => mapsLoop p ks (i + 1) (n + 1)

/-- the mappings a non-empty smaps record of `p` lists (the record's content, which the `Content` abstraction drops) -/
def askMaps (p : Nat) : M (List MapKind) := fun c s => (.ok (((c.w.info p).map (·.maps)).getD []), s)

/-- memory_maps(): number of mappings -/
def memoryMaps (p : Nat) : M Nat := W cfg "memory_maps" p <| do
  let c ← readSmapsFile cfg p
  match c with
  | .empty => do
    raiseIfZombie cfg p
    pure 0
  | _ => do
    let ms ← askMaps p
    mapsLoop cfg p ms 0 0

def numCtxSwitches (p : Nat) : M Unit := W cfg "num_ctx_switches" p <| do
  let c ← readStatusFile cfg p
  match c with
  | .empty => throw .notImplemented        -- no ctxt_switches lines
  | _ => pure ()

def numThreads (p : Nat) : M Unit := W cfg "num_threads" p <| do
  let c ← readStatusFile cfg p
  match c with
  | .empty => throw .indexError            -- findall(...)[0]
  | _ => pure ()

def uids (p : Nat) : M Unit := W cfg "uids" p <| do
  let c ← readStatusFile cfg p
  match c with
  | .empty => throw .indexError
  | _ => pure ()

def gids (p : Nat) : M Unit := W cfg "gids" p <| do
  let c ← readStatusFile cfg p
  match c with
  | .empty => throw .indexError
  | _ => pure ()

/-- the `for thread_id in thread_ids` loop: (threads read, hit_enoent) -/
def threadsLoop (p : Nat) : List Nat → Nat → Bool → M (Nat × Bool)
  | [], n, hit => pure (n, hit)
  | t :: ts, n, hit => do
    let r ← tryCatch (do let c ← readFile (.taskStat p t); pure (some c))
              (fun e => if catches cfg.threadsCatch e then some (pure none) else none)
    match r with
    | none => threadsLoop p ts n true
    | some .empty => throw .indexError     -- values[11]
    | some _ => threadsLoop p ts (n + 1) hit

def threads (p : Nat) : M Nat := W cfg "threads" p <| do
  let tids ← accListdir (.dir p .task)
  let (n, hit) ← threadsLoop cfg p tids 0 false
  if hit then raiseIfNotAlive p
  pure n

def niceGet (p : Nat) : M Unit := W cfg "nice_get" p <| accNative .getpriority p
def cpuAffinityGet (p : Nat) : M Unit := W cfg "cpu_affinity_get" p <| accNative .affinityGet p
def ioniceGet (p : Nat) : M Unit := W cfg "ionice_get" p <| accNative .ioprioGet p

/-- rlimit(resource) (get): the `except OSError` handler re-raises unless errno is ENOSYS -/
def rlimit (p : Nat) : M Unit := W cfg "rlimit" p <| do
  if p == 0 then throw .valueError
  tryCatch (accNative .prlimit p)
    (fun e => if catches ["OSError"] e then some (throw e) else none)

def status (p : Nat) : M Unit := W cfg "status" p <| do
  let _ ← parseStatFile cfg p              -- PROC_STATUSES.get(letter, '?')
  pure ()

/-- the `for fd in files` loop of open_files(): (files reported, hit_enoent) -/
def openFilesLoop (p : Nat) : List Nat → Nat → Bool → M (Nat × Bool)
  | [], n, hit => pure (n, hit)
  | fd :: fds, n, hit => do
    let r ← tryCatch (do let t ← accReadlink (.fdLink p fd); pure (some t))
              (fun e =>
                if catches cfg.ofLinkCatch e then some (pure none)
                else if catches ["OSError"] e then some (throw e)   -- not EINVAL / ENAMETOOLONG
                else none)
    match r with
    | none => openFilesLoop p fds n true
    | some (.abs true) => do               -- path.startswith('/') and isfile_strict(path)
      let r2 ← tryCatch
                (do let c ← readFile (.fdInfo p fd)
                    match c with
                    | .empty => throw .indexError     -- f.readline().split()[1]
                    | _ => pure true)
                (fun e => if catches cfg.ofInfoCatch e then some (pure false) else none)
      if r2 then openFilesLoop p fds (n + 1) hit else openFilesLoop p fds n true
    | some _ => openFilesLoop p fds n hit

def openFiles (p : Nat) : M Nat := W cfg "open_files" p <| do
  let fds ← accListdir (.dir p .fd)
  let (n, hit) ← openFilesLoop cfg p fds 0 false
  if hit then raiseIfNotAlive p
  pure n

/-- NetConnections.get_proc_inodes: number of socket inodes found -/
def inodesLoop (p : Nat) : List Nat → Nat → M Nat
  | [], n => pure n
  | fd :: fds, n => do
    let r ← tryCatch (do let t ← accReadlink (.fdLink p fd); pure (some t))
              (fun e =>
                if catches cfg.inodesCatch e then some (pure none)
                else if catches ["OSError"] e then some (throw e)
                else none)
    match r with
    | some (.sock _) => inodesLoop p fds (n + 1)
    | _ => inodesLoop p fds n

/-- process_inet(file, ...): `if file.endswith('6') and not os.path.exists(file): return` -/
def processInet (f : NetFile) : M Unit := do
  let six := (f == .tcp6 || f == .udp6)
  let unsupported ← (if six then do let ex ← pathExists (.net f); pure (!ex) else pure false)
  if unsupported then pure ()
  else do
    let _ ← readFile (.net f)
    pure ()

/-- NetConnections.retrieve('inet', pid) -/
def retrieve (p : Nat) : M Nat := do
  let fds ← accListdir (.dir p .fd)
  let n ← inodesLoop cfg p fds 0
  if n == 0 then pure 0                    -- "no connections for this process"
  else do
    processInet .tcp
    processInet .tcp6
    processInet .udp
    processInet .udp6
    pure n

def netConnections (p : Nat) : M Nat := W cfg "net_connections" p <| do
  let n ← retrieve cfg p
  raiseIfNotAlive p
  pure n

def numFds (p : Nat) : M Unit := W cfg "num_fds" p <| do
  let _ ← accListdir (.dir p .fd)
  pure ()

def ppid (p : Nat) : M Nat := W cfg "ppid" p <| do
  let r ← parseStatFile cfg p
  pure r.ppid

/-- ppid_map(): one step per listed pid; returns the (pid, ppid) pairs -/
def ppidMapLoop : List Nat → M (List (Nat × Nat))
  | [] => pure []
  | q :: qs => do
    let r ← tryCatch (do let c ← readFile (.file q .stat); pure (some c))
              (fun e => if catches cfg.ppidMapCatch e then some (pure none) else none)
    match r with
    | none => ppidMapLoop qs
    | some (.stat rec) => do
      let rest ← ppidMapLoop qs
      pure ((q, rec.ppid) :: rest)
    | some _ => throw .indexError          -- dset[1]

def ppidMap : M (List (Nat × Nat)) := do
  let pids ← accListdir .root
  ppidMapLoop cfg pids

end Plat

/-! ## the front end `psutil.Process` (namespace Fe) -/

/-- result shapes (what the correspondence compares besides the exception class and pid) -/
inductive Val
  | none | int | float | str | estr | bool (b : Bool)
  | tuple (n : Nat) | list (n : Nat) | dict
  | proc (pid : Nat) | procs (pids : List Nat)
  | asdict (n : Nat) (ad : List String) (bad : List String)   -- number of keys; names that got ad_value; names whose
                                                              -- stored value is an exception OBJECT
  | iter (l : List (Nat × Nat × List String × List String))   -- process_iter: (pid, keys, ad names, exception-object names)
  | exc (e : PyExc)                                     -- an exception INSTANCE handed back as the call's return value
                                                        -- (`except X as err: … return err`): never a documented result
  | other                                               -- an object of any other type (only the implementation's side:
                                                        -- the harness reports it for a value of no documented shape)
  deriving DecidableEq, Repr

/-- the value is an exception object -/
def Val.isExc : Val → Bool
  | .exc _ => true
  | _ => false

/-- a front-end Process object: pid and the `_create_time` cached at construction -/
structure Obj where
  pid : Nat
  ct : Option Nat
  deriving DecidableEq, Repr

namespace Fe

/-- first matching clause of a list of (classes, tag) -/
def clauseOf (cls : List (List String × String)) (e : PyExc) : Option String :=
  (cls.find? (fun c => catches c.1 e)).map (·.2)

/-- `psutil.Process(q)` — `_init`: `_get_ident` → `create_time()` under the _init clauses -/
def mkProcess (q : Nat) : M Obj :=
  tryCatch (do let c ← fresh (Plat.createTime cfg q); pure ⟨q, some c⟩)
    (fun e =>
      match clauseOf cfg.initClauses e with
      | some "pass" => some (pure ⟨q, none⟩)
      | some "raise NoSuchProcess" => some (throw (.nsp q))
      | _ => none)

/-- create_time(): cached after the first success -/
def createTime (o : Obj) : M Nat :=
  match o.ct with
  | some c => pure c
  | none => fresh (Plat.createTime cfg o.pid)

/-- is_running() on a fresh object (`_gone = _pid_reused = False`): (result, `_pid_reused` afterwards) -/
def isRunning (o : Obj) : M (Bool × Bool) := do
  let r ← tryCatch (do let o' ← mkProcess cfg o.pid; pure (some (some o')))
            (fun e =>
              match clauseOf cfg.runningClauses e with
              | some "return True" => some (pure (some none))
              | some "return False" => some (pure none)
              | _ => none)
  match r with
  | none => pure (false, false)                       -- NoSuchProcess: _gone = True
  | some none => pure (true, false)                   -- ZombieProcess clause
  | some (some o') =>
    -- (repaired source only) `if self._ident[1] is not None and other._ident[1] is None: return True`
    if cfg.probeLenient && o.ct.isSome && o'.ct.isNone then pure (true, false)
    -- `self != Process(self.pid)`: _ident = (pid, create time at construction)
    else if o.ct != o'.ct then pure (false, true)     -- raise NoSuchProcess → caught → False
    else pure (true, false)

/-- `_raise_if_pid_reused` on a fresh object -/
def raiseIfPidReused (o : Obj) : M Unit := do
  -- `self._pid_reused or (not self.is_running() and self._pid_reused)`
  let (running, reused) ← isRunning cfg o
  if !running && reused then throw (.nsp o.pid)
  -- `if self._gone: raise NoSuchProcess(self.pid, self._name)` (when the source has that test);
  -- on a fresh object is_running() sets `_gone` exactly when it answers False
  else if cfg.goneGuard && !running then throw (.nsp o.pid)
  else pure ()

def feMemoB (name : String) (get : Cache → Bool) (set : Cache → Cache) (p : Nat) (body : M Unit) : M Unit :=
  memoIf (cfg.feMemoized.contains name) (fun c => if get c then some () else none) (fun _ c => set c) p body

def ppid (o : Obj) : M Nat :=
  memoIf (cfg.feMemoized.contains "ppid") (·.fePpid) (fun v c => { c with fePpid := some v }) o.pid <| do
    raiseIfPidReused cfg o
    Plat.ppid cfg o.pid

def cmdline (o : Obj) : M (Nat × Bool) := Plat.cmdline cfg o.pid

def name (o : Obj) : M Val := do
  let long ← Plat.name cfg o.pid
  if long then
    -- try: cmdline = self.cmdline()  except (AccessDenied, ZombieProcess): pass  else: ...
    let _ ← tryCatch (do let c ← cmdline cfg o; pure (some c))
              (fun e => if catches cfg.nameCatch e then some (pure none) else none)
    pure .str
  else pure .str

/-- guess_it(fallback) of exe(): fallback = none stands for the AccessDenied INSTANCE that exe() caught (`except
    AccessDenied as err: return guess_it(fallback=err)`), as an object `.exc (.ad pid)`. The handlers around
    `self.cmdline()` (`cfg.guessClauses`, none in the source as it is) and the tail (`cfg.guessTailRaises`) are
    interpreted from the translator's facts: a clause that ends in `return fallback`, or a tail that does not re-raise,
    makes the helper — and so exe(), as_dict(), process_iter() — RETURN the exception object. -/
def guessIt (o : Obj) (fallback : Option Val) : M Val := do
  let fbObj : Val := fallback.getD (.exc (.ad o.pid))
  let r ← tryCatch (do let x ← cmdline cfg o; pure (some x))
            (fun e =>
              match clauseOf cfg.guessClauses e with
              | some "return fallback" => some (pure none)
              | some "raise fallback" =>
                  some (match fallback with
                        | none => throw (.ad o.pid)
                        | some _ => throw .typeError)     -- `raise ''`: exceptions must derive from BaseException
              | _ => none)
  match r with
  | none => pure fbObj
  | some (n, g) =>
    if n > 0 && g then pure .str
    else match fallback with
      | none => if cfg.guessTailRaises then throw (.ad o.pid) else pure fbObj
      | some v => pure v

def exe (o : Obj) : M Val :=
  tryCatch
    (do let nonempty ← Plat.exe cfg o.pid
        if nonempty then pure Val.str
        else
          tryCatch (guessIt cfg o (some .estr))
            (fun e => if catches cfg.exeGuessCatch e then some (pure .estr) else none))
    (fun e =>
      -- only `self._proc.exe()` is inside the try; an AccessDenied out of the inner
      -- guess_it is caught by the inner handler, so the outer clause sees _proc.exe()'s only
      if catches cfg.exeCatch e then some (guessIt cfg o none) else none)

def status (o : Obj) : M Val :=
  tryCatch (do Plat.status cfg o.pid; pure Val.str)
    (fun e => if catches cfg.statusCatch e then some (pure .str) else none)

def cpuTimes (o : Obj) : M Unit :=
  feMemoB cfg "cpu_times" (·.feCpu) (fun c => { c with feCpu := true }) o.pid (Plat.cpuTimes cfg o.pid)

def memoryInfo (o : Obj) : M Unit :=
  feMemoB cfg "memory_info" (·.feMem) (fun c => { c with feMem := true }) o.pid (Plat.memoryInfo cfg o.pid)

def uids (o : Obj) : M Unit :=
  feMemoB cfg "uids" (·.feUids) (fun c => { c with feUids := true }) o.pid (Plat.uids cfg o.pid)

/-- the public getters, by name (as_dict's `getattr(self, name)()`); `none` = not modelled -/
def getter (o : Obj) (nm : String) : Option (M Val) :=
  let p := o.pid
  match nm with
  | "pid" => some (pure .int)
  | "ppid" => some (do let _ ← ppid cfg o; pure .int)
  | "name" => some (name cfg o)
  | "exe" => some (exe cfg o)
  | "cmdline" => some (do let (n, _) ← cmdline cfg o; pure (.list n))
  | "status" => some (status cfg o)
  | "username" => some (do uids cfg o; pure .str)        -- pwd lookup: KeyError handled → str(uid)
  | "create_time" => some (do let _ ← createTime cfg o; pure .float)
  | "cwd" => some (do let b ← Plat.cwd cfg p; pure (if b then .str else .estr))
  | "nice" => some (do Plat.niceGet cfg p; pure .int)
  | "uids" => some (do uids cfg o; pure (.tuple 3))
  | "gids" => some (do Plat.gids cfg p; pure (.tuple 3))
  | "terminal" => some (do Plat.terminal cfg p; pure .none)
  | "num_fds" => some (do Plat.numFds cfg p; pure .int)
  | "io_counters" => some (do Plat.ioCounters cfg p; pure (.tuple 6))
  | "ionice" => some (do Plat.ioniceGet cfg p; pure (.tuple 2))
  | "cpu_affinity" => some (do Plat.cpuAffinityGet cfg p; pure (.list 1))
  | "cpu_num" => some (do Plat.cpuNum cfg p; pure .int)
  | "environ" => some (do Plat.environ cfg p; pure .dict)
  | "num_ctx_switches" => some (do Plat.numCtxSwitches cfg p; pure (.tuple 2))
  | "num_threads" => some (do Plat.numThreads cfg p; pure .int)
  | "threads" => some (do let n ← Plat.threads cfg p; pure (.list n))
  | "cpu_times" => some (do cpuTimes cfg o; pure (.tuple 5))
  | "cpu_percent" => some (do Plat.cpuTimes cfg p; pure .float)   -- first call: stores the sample, 0.0
  | "memory_info" => some (do memoryInfo cfg o; pure (.tuple 7))
  | "memory_full_info" => some (do Plat.memoryFullInfo cfg p; pure (.tuple 10))
  | "memory_percent" => some (do memoryInfo cfg o; pure .float)   -- memtype="rss"; _TOTAL_PHYMEM cached
  | "memory_maps" => some (do let n ← Plat.memoryMaps cfg p; pure (.list n))
  | "open_files" => some (do let n ← Plat.openFiles cfg p; pure (.list n))
  | "net_connections" => some (do let n ← Plat.netConnections cfg p; pure (.list n))
  | _ => none

/-- `oneshot()` entry: no-op when already inside one -/
def oneshotEnter (p : Nat) : M Bool := do
  let c ← getCache
  if c.active && c.owner == p then pure false
  else do
    modifyCache (fun _ => { owner := p, active := true })
    pure true

def oneshotExit (entered : Bool) : M Unit :=
  if entered then modifyCache (fun _ => {}) else pure ()

/-- the `for name in ls` loop of as_dict: (keys so far, names that got ad_value, names whose stored value is an
    exception object); `explicit` = the truth value of `attrs` in the 2nd handler's `if attrs: raise` (False for
    `as_dict()` AND for `as_dict(attrs=[])`) -/
def asDictLoop (o : Obj) (explicit : Bool) : List String → Nat → List String → List String →
    M (Nat × List String × List String)
  | [], n, ad, bad => pure (n, ad, bad)
  | nm :: rest, n, ad, bad =>
    match getter cfg o nm with
    | none => throw .typeError             -- not modelled: the driver never asks for it
    | some g => do
      -- none = the name is skipped; some none = ad_value; some (some b) = `ret = meth()` stored, b = it is an exception object
      let r ← tryCatch (do let v ← g; pure (some (some v.isExc)))
                (fun e =>
                  if catches cfg.asDictCatch e then some (pure (some none))
                  else if catches cfg.asDictSkipCatch e then
                    (if cfg.asDictSkipRule == "if attrs: raise; continue" then
                       (if explicit then some (throw e) else some (pure none))
                     else if cfg.asDictSkipRule == "continue" then some (pure none)
                     else some (throw e))
                  else none)
      match r with
      | none => asDictLoop o explicit rest n ad bad
      | some (some b) => asDictLoop o explicit rest (n + 1) ad (if b then bad ++ [nm] else bad)
      | some none => asDictLoop o explicit rest (n + 1) (ad ++ [nm]) bad

/-- as_dict(attrs): `with self.oneshot(): …` (the `finally` of the context manager runs on errors too) -/
def asDictOf (o : Obj) (explicit : Bool) (attrs : List String) : M (Nat × List String × List String) := do
  let entered ← oneshotEnter o.pid
  let r ← tryCatch (do let v ← asDictLoop cfg o explicit attrs 0 [] []; pure (Except.ok v))
            (fun e => some (pure (Except.error e)))
  oneshotExit entered
  match r with
  | .ok v => pure v
  | .error e => throw e

/-- as_dict(attrs) with a non-empty `attrs` -/
def asDict (o : Obj) (attrs : List String) : M (Nat × List String × List String) := asDictOf cfg o true attrs

/-- as_dict() / as_dict(attrs=None) / as_dict(attrs=[]): `ls = attrs or valid_names` = every name of
    `_as_dict_attrnames` (passed in by the caller in the iteration order of that set), and the
    NotImplementedError clause skips the name instead of re-raising -/
def asDictAll (o : Obj) (allNames : List String) : M (Nat × List String × List String) := asDictOf cfg o false allNames

/-- children(recursive=False): the loop over ppid_map().items() -/
def childrenLoop (o : Obj) : List (Nat × Nat) → M (List Nat)
  | [] => pure []
  | (q, pp) :: rest =>
    if pp == o.pid then do
      let r ← tryCatch
                (do let ch ← mkProcess cfg q
                    let mine ← createTime cfg o
                    let theirs ← createTime cfg ch
                    pure (some (decide (mine ≤ theirs))))
                (fun e => if catches cfg.childrenCatch e then some (pure none) else none)
      let more ← childrenLoop o rest
      match r with
      | some true => pure (q :: more)
      | _ => pure more
    else childrenLoop o rest

def children (o : Obj) : M Val := do
  raiseIfPidReused cfg o
  let pm ← Plat.ppidMap cfg
  -- `ppid_map.pop(self.pid, None)` (when the source has it): a process is never its own child
  let pm := if cfg.childrenPopSelf then pm.filter (fun x => x.1 != o.pid) else pm
  let l ← childrenLoop cfg o pm
  pure (.procs l)

/-- the lowest-PID stop of parent(), `if self.pid == lowest_pid:`, before its `return None`: since /repo d7107b4 it
    runs `self._raise_if_pid_reused()` (→ is_running() → the probe `Process(self.pid)`: one more open + read of
    /proc/<pid>/stat that can be refused or find the process gone); without the guard (fact false) no access at all -/
def rootStop (o : Obj) : M Unit :=
  if cfg.parentRootGuard then raiseIfPidReused cfg o else pure ()

/-- parent() with `_LOWEST_PID` unset: `pids()[0]` = minimum of the listing -/
def parent (o : Obj) : M Val := do
  let pids ← accListdir .root
  match pids.foldl (fun (m : Option Nat) x => match m with | none => some x | some y => some (min x y)) none with
  | none => throw .indexError
  | some lowest =>
    if o.pid == lowest then do
      rootStop cfg o
      pure .none
    else do
      let pp ← ppid cfg o
      let ctime ← createTime cfg o
      tryCatch
        (do let par ← mkProcess cfg pp
            let pt ← createTime cfg par
            if pt ≤ ctime then pure (.proc pp) else pure .none)
        (fun e => if catches cfg.parentCatch e then some (pure .none) else none)

/-! ### children(recursive=True)

    ```
    reverse_ppid_map[ppid].append(pid)            # for every (pid, ppid) of the map, in map order
    seen = set(); stack = [self.pid]
    while stack:
        pid = stack.pop()
        if pid in seen: continue
        seen.add(pid)
        for child_pid in reverse_ppid_map[pid]:
            try:
                child = Process(child_pid)
                intime = self.create_time() <= child.create_time()
                if intime: ret.append(child); stack.append(child_pid)
            except (NoSuchProcess, ZombieProcess): pass
    ```
    The `while` loop has no syntactic bound; the model takes a fuel argument (one unit per `pop`).
    Every entry of the map is looked at most once (its parent is put in `seen` when its list is walked),
    so there are at most `len(map) + 1` pops: `childrenRec` supplies exactly that much, and the safety
    theorems are proved for EVERY fuel value. -/

/-- `for child_pid in reverse_ppid_map[pid]`: the children accepted, in order -/
def childrenRecInner (o : Obj) : List Nat → M (List Nat)
  | [] => pure []
  | q :: rest => do
    let r ← tryCatch
              (do let ch ← mkProcess cfg q
                  let mine ← createTime cfg o
                  let theirs ← createTime cfg ch
                  pure (some (decide (mine ≤ theirs))))
              (fun e => if catches cfg.childrenRecCatch e then some (pure none) else none)
    let more ← childrenRecInner o rest
    match r with
    | some true => pure (q :: more)
    | _ => pure more

/-- the `while stack` loop: fuel, the ppid map, the stack (top first), `seen`, `ret` so far -/
def childrenRecWalk (o : Obj) : Nat → List (Nat × Nat) → List Nat → List Nat → List Nat → M (List Nat)
  | 0, _, _, _, ret => pure ret
  | _ + 1, _, [], _, ret => pure ret
  | fuel + 1, pm, pid :: stack, seen, ret =>
    if seen.contains pid then childrenRecWalk o fuel pm stack seen ret
    else do
      let kids := (pm.filter (fun x => x.2 == pid)).map (·.1)
      let acc ← childrenRecInner cfg o kids
      -- `stack.append` in order: the last accepted child is popped first
      childrenRecWalk o fuel pm (acc.reverse ++ stack) (pid :: seen) (ret ++ acc)

def childrenRecFuel (o : Obj) (fuel : Option Nat) : M Val := do
  raiseIfPidReused cfg o
  let pm ← Plat.ppidMap cfg
  let pm := if cfg.childrenPopSelf then pm.filter (fun x => x.1 != o.pid) else pm
  let l ← childrenRecWalk cfg o (fuel.getD (pm.length + 1)) pm [o.pid] [] []
  pure (.procs l)

/-- children(recursive=True) -/
def childrenRec (o : Obj) : M Val := childrenRecFuel cfg o none

/-! ### parents()

    ```
    seen = {self.pid}; proc = self.parent()
    while proc is not None and proc.pid not in seen:
        seen.add(proc.pid); parents.append(proc); proc = proc.parent()
    ```
    `parent()` is called on the object itself and then on every ancestor object it returned. What
    differs between those calls: `_LOWEST_PID` (module global, written by the first `pids()`), and
    the object's `_create_time` cache (an ancestor returned by parent() has it filled by the
    `parent.create_time()` comparison, even when its `_ident` holds None because `Process(ppid)`
    swallowed an AccessDenied). -/

/-- `pids()[0]` (sets `_LOWEST_PID`) -/
def lowestPid : M Nat := do
  let pids ← accListdir .root
  match pids.foldl (fun (m : Option Nat) x => match m with | none => some x | some y => some (min x y)) none with
  | none => throw .indexError
  | some lowest => pure lowest

/-- the body of parent() once `lowest_pid` is known, on an object whose `_create_time` cache holds
    `cached`: the parent object and its create time (cached on it from now on) -/
def parentCore (lowest : Nat) (o : Obj) (cached : Option Nat) : M (Option (Obj × Nat)) :=
  if o.pid == lowest then do
    rootStop cfg o          -- on an ancestor object too: its `_ident` is what `Process(ppid)` saw (possibly (pid, None))
    pure none
  else do
    let pp ← ppid cfg o
    let ctime ← (match cached with
                 | some c => pure c
                 | none => createTime cfg o)
    tryCatch
      (do let par ← mkProcess cfg pp
          let pt ← createTime cfg par
          if pt ≤ ctime then pure (some (par, pt)) else pure none)
      (fun e => if catches cfg.parentCatch e then some (pure none) else none)

/-- the `while` loop after the first ancestor: the classes of the handler around `proc.parent()`
    (`cfg.parentsCatch`; a parameter so that the repaired loop can be stated too), fuel, the current
    ancestor and its cached create time, `seen`; returns the further ancestors -/
def parentsLoop (catchL : List String) (lowest : Nat) : Nat → Obj → Nat → List Nat → M (List Nat)
  | 0, _, _, _ => pure []
  | fuel + 1, proc, ct, seen => do
    -- `proc = proc.parent()`; when the source wraps it in `try … except (classes): break`, the walk ends there
    let r ← tryCatch (do let x ← parentCore cfg lowest proc (some ct); pure (some x))
              (fun e => if catches catchL e then some (pure none) else none)
    match r with
    | none => pure []
    | some none => pure []
    | some (some (par, pt)) =>
      if seen.contains par.pid then pure []
      else do
        let rest ← parentsLoop catchL lowest fuel par pt (par.pid :: seen)
        pure (par.pid :: rest)

/-- one loop iteration per distinct listed pid at most (`seen`): the number of listed processes bounds the walk -/
def askFuel : M Nat := fun c s => (.ok (c.w.procs.length + 1), s)

def parentsFuel (catchL : List String) (o : Obj) (fuel : Option Nat) : M Val := do
  let lowest ← lowestPid
  let r ← parentCore cfg lowest o none
  match r with
  | none => pure (.procs [])
  | some (par, pt) =>
    if par.pid == o.pid then pure (.procs [])
    else do
      let dflt ← askFuel
      let rest ← parentsLoop cfg catchL lowest (fuel.getD dflt) par pt [par.pid, o.pid]
      pure (.procs (par.pid :: rest))

/-- parents() with `_LOWEST_PID` unset -/
def parents (o : Obj) : M Val := parentsFuel cfg cfg.parentsCatch o none

def insertSorted (x : Nat) : List Nat → List Nat
  | [] => [x]
  | y :: ys => if x ≤ y then x :: y :: ys else y :: insertSorted x ys

/-- the loop of process_iter(attrs) over the sorted new pids (empty `_pmap`) -/
def iterLoop (attrs : List String) : List Nat → M (List (Nat × Nat × List String × List String))
  | [] => pure []
  | q :: qs => do
    let r ← tryCatch
              (do let pr ← mkProcess cfg q
                  let (n, ad, bad) ← asDict cfg pr attrs
                  pure (some (q, n, ad, bad)))
              (fun e => if catches cfg.iterCatch e then some (pure none) else none)
    let more ← iterLoop attrs qs
    match r with
    | some x => pure (x :: more)
    | none => pure more

def processIter (attrs : List String) : M Val := do
  let pids ← accListdir .root
  let l ← iterLoop cfg attrs (pids.foldr insertSorted [])
  pure (.iter l)

/-- every call the driver / the theorems know, by name -/
def method (o : Obj) (nm : String) : Option (M Val) :=
  match nm with
  | "is_running" => some (do let (r, _) ← isRunning cfg o; pure (.bool r))
  | "children" => some (children cfg o)
  | "children_recursive" => some (childrenRec cfg o)     -- children(recursive=True)
  | "parent" => some (parent cfg o)
  | "parents" => some (parents cfg o)
  -- `connections` = `deprecated_method(replacement="net_connections")`: warns, then calls net_connections()
  | "connections" => getter cfg o "net_connections"
  | "rlimit" => some (do Plat.rlimit cfg o.pid; pure (.tuple 2))
  | _ => getter cfg o nm

end Fe
end

/-! ## running -/

/-- the object the property talks about: constructed while the process was alive -/
def World.obj (w : World) : Obj :=
  ⟨w.target, (w.info w.target).map (·.ctime)⟩

def run (m : M α) (c : Ctx) : Except PyExc α × St := m c {}

end Psutil.C03
