/-
  Model/C19.lean — transcription of the Linux sensors / battery / cpu_freq / cpu_count /
  cpu_stats / boot_time code of psutil (`_pslinux.py`) and of the front ends in
  `psutil/__init__.py`, over ABSTRACT sysfs trees. Import-free (Base only).

  A file is `absent`, `unreadable` (open/read raises OSError) or has `content`.
  Directory listings (`glob.glob`, `os.listdir`) are the structure of the tree; a sensor is
  listed by `glob('…/temp*_*')` iff at least one of its files exists.
  Python exceptions that can leave a function are explicit (`Exc`); `try/except` blocks are
  modelled by the list of classes they catch (translator facts in `Cfg`).
  Scaled values are exact rationals.
-/
import PsutilModel.Base.Bytes
import PsutilModel.Base.Dec
namespace Psutil.C19

inductive FileState
  | absent
  | unreadable
  | content (b : Bytes)
  deriving DecidableEq, Repr

/-- exception classes that can leave the modelled functions (every OSError subclass is `osError`) -/
inductive Exc
  | osError | valueError | typeError | indexError | notImplemented | runtimeError
  deriving DecidableEq, Repr

abbrev Res := Except Exc

/-- `open(path).read()` without fallback -/
def FileState.read : FileState → Res Bytes
  | .content b => .ok b
  | _ => .error .osError

/-- `cat/bcat(path, fallback=None)` -/
def FileState.readOpt : FileState → Option Bytes
  | .content b => some b
  | _ => none

def FileState.exists : FileState → Bool
  | .absent => false
  | _ => true

/-! ### Python number syntax (the subset the kernel prints; see notes/C19.md for what is excluded) -/

/-- `int(b)` for bytes/str: blanks stripped, optional sign, decimal digits. `none` = ValueError. -/
def pyInt? (s : Bytes) : Option Int :=
  match stripWs s with
  | 45 :: ds => (parseDec? ds).map fun n => -(n : Int)
  | 43 :: ds => (parseDec? ds).map fun n => (n : Int)
  | ds => (parseDec? ds).map fun n => (n : Int)

def decOrZero? (s : Bytes) : Option Nat := if s = [] then some 0 else parseDec? s

/-- unsigned `digits`, `digits.digits`, `digits.`, `.digits` -/
def pyFloatU? (s : Bytes) : Option Rat :=
  match splitOn 46 s with
  | [ip] => (parseDec? ip).map fun n => (n : Rat)
  | [ip, fp] =>
    if ip = [] ∧ fp = [] then none
    else match decOrZero? ip, decOrZero? fp with
      | some a, some b => some ((a : Rat) + (b : Rat) / ((10 ^ fp.length : Nat) : Rat))
      | _, _ => none
  | _ => none

/-- `float(b)`: blanks stripped, optional sign, plain decimal notation. `none` = ValueError. -/
def pyFloat? (s : Bytes) : Option Rat :=
  match stripWs s with
  | 45 :: ds => (pyFloatU? ds).map fun q => -q
  | 43 :: ds => pyFloatU? ds
  | ds => pyFloatU? ds

def ofOpt (e : Exc) : Option α → Res α
  | some a => .ok a
  | none => .error e

/-- ASCII `bytes.lower()` -/
def lower (s : Bytes) : Bytes := s.map fun c => if 65 ≤ c ∧ c ≤ 90 then c + 32 else c

/-- `int(x)` of a non-negative/negative float: truncation toward zero -/
def truncRat (q : Rat) : Int := if 0 ≤ q then q.floor else -((-q).floor)

/-- run `f` on every element, dropping the `none`s; the first exception aborts (a Python `for`
    loop whose body may `continue` or raise) -/
def collect (f : α → Res (Option β)) : List α → Res (List β)
  | [] => .ok []
  | a :: as =>
    match f a with
    | .error e => .error e
    | .ok none => collect f as
    | .ok (some b) =>
      match collect f as with
      | .error e => .error e
      | .ok bs => .ok (b :: bs)

/-- translator facts -/
structure Cfg where
  /-- exception classes caught by the per-sensor `try` of the hwmon walker -/
  tempCaught : List Exc
  /-- exception classes caught by the per-zone `try` of the thermal-zone walker -/
  zoneCaught : List Exc
  /-- exception classes caught around the fan reading -/
  fanCaught : List Exc
  /-- are the `/1000` conversions of `high`/`critical` children of the `for trip_point` loop? -/
  zoneConvInsideLoop : Bool
  /-- the divisor of millidegrees -/
  milli : Nat
  /-- the back-fill test is `high and not critical` (truthiness: 0.0 counts as missing) rather
      than `is None` -/
  backfillTruthiness : Bool
  /-- Fahrenheit: `n * fMul / fDiv + fAdd` -/
  fMul : Nat
  fDiv : Nat
  fAdd : Nat
  /-- kHz → MHz divisor; percent factor; hours → seconds; minutes → seconds -/
  khz : Nat
  pct : Nat
  hourSecs : Nat
  minSecs : Nat
  powerTimeUnknown : Int
  powerTimeUnlimited : Int
  /-- alternatives handed to `multi_bcat` -/
  energyNowFirst : Bool     -- energy_now before charge_now
  powerNowFirst : Bool      -- power_now before current_now
  energyFullFirst : Bool    -- energy_full before charge_full
  ac0First : Bool           -- AC0/online before AC/online
  batPrefix : Bytes         -- "BAT"
  batInfix : Bytes          -- "battery"
  /-- a missing `/sys/class/power_supply` (`os.listdir` raises FileNotFoundError) is answered with
      `None` (the listing is guarded / the error is caught) instead of leaving `sensors_battery()` -/
  noDirNone : Bool
  /-- cpu_freq (sysfs variant): the `online` file probed for a policy without any frequency file is
      `cpu{i}/online` with `i` the POSITION in the sorted list (as found); `false` = the CPU the
      directory is numbered after (what a maintainer would repair it to) -/
  probeByPosition : Bool

/-! ## hwmon temperatures -/

structure Sensor where
  input : FileState
  label : FileState
  max : FileState
  crit : FileState
  /-- some other `tempN_*` file exists (e.g. `_alarm`, `_min`) -/
  other : Bool
  deriving DecidableEq, Repr

structure Fan where
  input : FileState
  label : FileState
  other : Bool
  deriving DecidableEq, Repr

/-- one directory holding sensor files: `/sys/class/hwmon/hwmonN` (`nested = false`) or
    `/sys/class/hwmon/hwmonN/device` (`nested = true`), with its `name` file -/
structure Chip where
  nested : Bool
  name : FileState
  temps : List Sensor
  fans : List Fan
  deriving Repr

/-- the base `…/tempN` shows up in `glob('…/temp*_*')` iff one of its files exists -/
def Sensor.listed (s : Sensor) : Bool :=
  s.input.exists || s.label.exists || s.max.exists || s.crit.exists || s.other

def Fan.listed (f : Fan) : Bool := f.input.exists || f.label.exists || f.other

/-- what the platform function reports per sensor:
    `(unit_name, label, current, high, critical)` -/
structure TempRaw where
  unit : Bytes
  label : Bytes
  current : Rat
  high : Option Rat
  crit : Option Rat
  deriving DecidableEq, Repr

/-- `x = bcat(path, fallback=None); if x is not None: try: x = float(x)/1000 except ValueError: x = None` -/
def convThreshold (cfg : Cfg) (f : FileState) : Option Rat :=
  match f.readOpt with
  | none => none
  | some b => (pyFloat? b).map (· / (cfg.milli : Rat))

/-- body of `for base in basenames` (hwmon) -/
def readTemp (cfg : Cfg) (c : Chip) (s : Sensor) : Res (Option TempRaw) :=
  let attempt : Res (Rat × Bytes) :=
    match s.input.read with
    | .error e => .error e
    | .ok b =>
      match pyFloat? b with
      | none => .error .valueError
      | some v =>
        match c.name.read with
        | .error e => .error e
        | .ok nm => .ok (v / (cfg.milli : Rat), stripWs nm)
  match attempt with
  | .error e => if cfg.tempCaught.contains e then .ok none else .error e
  | .ok (cur, unit) =>
    .ok (some { unit := unit, label := stripWs ((s.label.readOpt).getD []), current := cur
                high := convThreshold cfg s.max, crit := convThreshold cfg s.crit })

/-- every (directory, listed sensor) pair = the de-duplicated `basenames` -/
def tempBases (chips : List Chip) : List (Chip × Sensor) :=
  chips.flatMap fun c => (c.temps.filter (·.listed)).map fun s => (c, s)

/-! ## thermal zones (fallback) -/

structure Trip where
  typ : FileState      -- trip_point_N_type
  temp : FileState     -- trip_point_N_temp
  hyst : Bool          -- trip_point_N_hyst exists
  deriving DecidableEq, Repr

def Trip.listed (t : Trip) : Bool := t.typ.exists || t.temp.exists || t.hyst

/-- `trips` is given in the iteration order of the Python `set` of trip-point names -/
structure Zone where
  temp : FileState
  typ : FileState
  trips : List Trip
  deriving Repr

/-- Python value of `high` / `critical` inside the zone walker: `None`, bytes from `bcat`, or a float -/
inductive Thr
  | none
  | raw (b : Bytes)
  | num (q : Rat)
  deriving DecidableEq, Repr

def Thr.ofRead : Option Bytes → Thr
  | .none => .none
  | .some b => .raw b

def Thr.ofNum : Option Rat → Thr
  | .none => .none
  | .some q => .num q

/-- `if x is not None: try: x = float(x) / 1000.0 except ValueError: x = None` -/
def Thr.conv (cfg : Cfg) : Thr → Option Rat
  | .none => Option.none
  | .raw b => (pyFloat? b).map (· / (cfg.milli : Rat))
  | .num q => some (q / (cfg.milli : Rat))

def tripType (t : Trip) : Bytes := stripWs ((t.typ.readOpt).getD [])

def bCritical : Bytes := [99, 114, 105, 116, 105, 99, 97, 108]
def bHigh : Bytes := [104, 105, 103, 104]

/-- the `if trip_type == 'critical' … elif trip_type == 'high' …` part of the loop body;
    state = (high, critical) -/
def tripAssign (st : Thr × Thr) (t : Trip) : Thr × Thr :=
  if tripType t = bCritical then (st.1, Thr.ofRead t.temp.readOpt)
  else if tripType t = bHigh then (Thr.ofRead t.temp.readOpt, st.2)
  else st

/-- conversions inside the loop (the code as found): after every trip point both values are
    converted again -/
def zoneThrInside (cfg : Cfg) (trips : List Trip) : Option Rat × Option Rat :=
  trips.foldl (fun (st : Option Rat × Option Rat) t =>
    let st' := tripAssign (Thr.ofNum st.1, Thr.ofNum st.2) t
    (st'.1.conv cfg, st'.2.conv cfg)) (none, none)

/-- conversions after the loop -/
def zoneThrOutside (cfg : Cfg) (trips : List Trip) : Option Rat × Option Rat :=
  let st := trips.foldl tripAssign (Thr.none, Thr.none)
  (st.1.conv cfg, st.2.conv cfg)

def zoneThr (cfg : Cfg) (trips : List Trip) : Option Rat × Option Rat :=
  if cfg.zoneConvInsideLoop then zoneThrInside cfg trips else zoneThrOutside cfg trips

/-- body of `for base in basenames` (thermal zones) -/
def readZone (cfg : Cfg) (z : Zone) : Res (Option TempRaw) :=
  let attempt : Res (Rat × Bytes) :=
    match z.temp.read with
    | .error e => .error e
    | .ok b =>
      match pyFloat? b with
      | none => .error .valueError
      | some v =>
        match z.typ.read with
        | .error e => .error e
        | .ok nm => .ok (v / (cfg.milli : Rat), stripWs nm)
  match attempt with
  | .error e => if cfg.zoneCaught.contains e then .ok none else .error e
  | .ok (cur, unit) =>
    let hc := zoneThr cfg (z.trips.filter (·.listed))
    .ok (some { unit := unit, label := [], current := cur, high := hc.1, crit := hc.2 })

structure TempTree where
  chips : List Chip
  /-- number of files matched by `/sys/devices/platform/coretemp.*/hwmon/hwmon*/temp*_*`.
      The code appends the full FILE names (not the bases) to `basenames`, so each of them is
      then read as `<file>_input`, which does not exist: they contribute no entry but make
      `basenames` non-empty. -/
  coretempFiles : Nat
  zones : List Zone
  deriving Repr

/-- `_pslinux.sensors_temperatures()` (flattened: one row per sensor; the dict groups rows by unit) -/
def sensorsTemperatures (cfg : Cfg) (t : TempTree) : Res (List TempRaw) :=
  let bases := tempBases t.chips
  match collect (fun cs => readTemp cfg cs.1 cs.2) bases with
  | .error e => .error e
  | .ok rows =>
    -- coretemp entries: `bcat(name + '_input')` raises FileNotFoundError → skipped (or propagated)
    if t.coretempFiles ≠ 0 ∧ ¬ cfg.tempCaught.contains .osError then .error .osError
    else if bases.isEmpty ∧ t.coretempFiles = 0 then
      collect (readZone cfg) t.zones
    else .ok rows

/-! ## front end `psutil.sensors_temperatures(fahrenheit)` -/

structure TempOut where
  unit : Bytes
  label : Bytes
  current : Rat
  high : Option Rat
  crit : Option Rat
  deriving DecidableEq, Repr

def convertF (cfg : Cfg) (fahrenheit : Bool) (q : Rat) : Rat :=
  if fahrenheit then q * (cfg.fMul : Rat) / (cfg.fDiv : Rat) + (cfg.fAdd : Rat) else q

/-- what the back-fill test takes as "present" -/
def present (cfg : Cfg) : Option Rat → Bool
  | none => false
  | some q => if cfg.backfillTruthiness then q ≠ 0 else true

def frontTemp (cfg : Cfg) (fahrenheit : Bool) (r : TempRaw) : TempOut :=
  let cur := convertF cfg fahrenheit r.current
  let high := r.high.map (convertF cfg fahrenheit)
  let crit := r.crit.map (convertF cfg fahrenheit)
  if present cfg high && !present cfg crit then
    { unit := r.unit, label := r.label, current := cur, high := high, crit := high }
  else if present cfg crit && !present cfg high then
    { unit := r.unit, label := r.label, current := cur, high := crit, crit := crit }
  else { unit := r.unit, label := r.label, current := cur, high := high, crit := crit }

def sensorsTemperaturesFront (cfg : Cfg) (fahrenheit : Bool) (t : TempTree) : Res (List TempOut) :=
  match sensorsTemperatures cfg t with
  | .error e => .error e
  | .ok rows => .ok (rows.map (frontTemp cfg fahrenheit))

/-! ## fans -/

structure FanOut where
  unit : Bytes
  label : Bytes
  current : Int
  deriving DecidableEq, Repr

def fanBases (chips : List Chip) (nested : Bool) : List (Chip × Fan) :=
  (chips.filter (fun c => c.nested == nested)).flatMap fun c =>
    (c.fans.filter (·.listed)).map fun f => (c, f)

def readFan (cfg : Cfg) (c : Chip) (f : Fan) : Res (Option FanOut) :=
  let attempt : Res Int :=
    match f.input.read with
    | .error e => .error e
    | .ok b => ofOpt .valueError (pyInt? b)
  match attempt with
  | .error e => if cfg.fanCaught.contains e then .ok none else .error e
  | .ok cur =>
    match c.name.read with
    | .error e => .error e
    | .ok nm => .ok (some { unit := stripWs nm, label := stripWs ((f.label.readOpt).getD []), current := cur })

/-- `_pslinux.sensors_fans()`: the `device/` level is looked at only when no direct fan file exists -/
def sensorsFans (cfg : Cfg) (chips : List Chip) : Res (List FanOut) :=
  let direct := fanBases chips false
  let bases := if direct.isEmpty then fanBases chips true else direct
  collect (fun cf => readFan cfg cf.1 cf.2) bases

/-! ## battery -/

structure Supply where
  name : Bytes
  energyNow : FileState
  chargeNow : FileState
  powerNow : FileState
  currentNow : FileState
  energyFull : FileState
  chargeFull : FileState
  timeToEmpty : FileState
  capacity : FileState
  status : FileState
  online : FileState
  deriving Repr

/-- `dirExists = false`: `/sys/class/power_supply` itself is missing (`os.listdir` raises) -/
structure PowerTree where
  dirExists : Bool
  supplies : List Supply
  deriving Repr

/-- result of `multi_bcat`: an int, or the stripped bytes when `int()` refuses them -/
inductive MVal
  | int (i : Int)
  | raw (b : Bytes)
  deriving DecidableEq, Repr

def multiBcat : List FileState → Option MVal
  | [] => none
  | f :: fs =>
    match f.readOpt with
    | none => multiBcat fs
    | some b =>
      match pyInt? b with
      | some i => some (.int i)
      | none => some (.raw (stripWs b))

def lexLe : Bytes → Bytes → Bool
  | [], _ => true
  | _ :: _, [] => false
  | a :: as, b :: bs => if a < b then true else if b < a then false else lexLe as bs

/-- Python `min()` of a non-empty list of (ASCII) strings: first of the smallest -/
def lexMin : Bytes → List Bytes → Bytes
  | m, [] => m
  | m, x :: xs => if lexLe m x then lexMin m xs else lexMin x xs

def isInfix (p : Bytes) : Bytes → Bool
  | [] => p.isEmpty
  | c :: cs => p.isPrefixOf (c :: cs) || isInfix p cs

def isBattery (cfg : Cfg) (name : Bytes) : Bool :=
  cfg.batPrefix.isPrefixOf name || isInfix cfg.batInfix (lower name)

def findSupply (ss : List Supply) (name : Bytes) : Option Supply := ss.find? (fun s => s.name == name)

structure BatOut where
  percent : Rat
  secsleft : Int
  plugged : Option Bool
  deriving DecidableEq, Repr

def pair (first : Bool) (a b : FileState) : List FileState := if first then [a, b] else [b, a]

def bCharging : Bytes := [99, 104, 97, 114, 103, 105, 110, 103]
def bFull : Bytes := [102, 117, 108, 108]
def bDischarging : Bytes := [100, 105, 115] ++ bCharging
def bAC0 : Bytes := [65, 67, 48]
def bAC : Bytes := [65, 67]

/-- `percent = int(cat(root + "/capacity", fallback=-1)); if percent == -1: return None` -/
def batCapacity (b : Supply) : Res (Option Rat) :=
  match b.capacity.readOpt with
  | none => .ok none                              -- fallback -1 → return None
  | some c =>
    match pyInt? c with
    | none => .error .valueError
    | some p => if p = -1 then .ok none else .ok (some (p : Rat))

def batPercent (cfg : Cfg) (b : Supply) (energyNow energyFull : Option MVal) : Res (Option Rat) :=
  match energyFull, energyNow with
  | some full, some now =>
    match now, full with
    | .int n, .int f =>
      if f = 0 then .ok (some 0) else .ok (some ((cfg.pct : Rat) * (n : Rat) / (f : Rat)))
    | _, _ => .error .typeError
  | _, _ => batCapacity b

def batPlugged (cfg : Cfg) (ss : List Supply) (b : Supply) : Option Bool :=
  let onl (n : Bytes) : FileState := match findSupply ss n with | some s => s.online | none => .absent
  match multiBcat (pair cfg.ac0First (onl bAC0) (onl bAC)) with
  | some v => some (v == .int 1)
  | none =>
    let st := lower (stripWs ((b.status.readOpt).getD []))
    if st = bDischarging then some false
    else if st = bCharging ∨ st = bFull then some true
    else none

def batSecsleft (cfg : Cfg) (plugged : Option Bool) (energyNow powerNow timeToEmpty : Option MVal) : Res Int :=
  if plugged = some true then .ok cfg.powerTimeUnlimited
  else match energyNow, powerNow with
    | some now, some pw =>
      match now, pw with
      | .int n, .int p =>
        if p = 0 then .ok cfg.powerTimeUnknown
        else .ok (truncRat ((n : Rat) / (p : Rat) * (cfg.hourSecs : Rat)))
      | _, _ => .error .typeError
    | _, _ =>
      match timeToEmpty with
      | some (.int t) =>
        let s := t * (cfg.minSecs : Int)
        if s < 0 then .ok cfg.powerTimeUnknown else .ok s
      | some (.raw _) => .error .valueError
      | none => .ok cfg.powerTimeUnknown

/-- `_pslinux.sensors_battery()` -/
def sensorsBattery (cfg : Cfg) (p : PowerTree) : Res (Option BatOut) :=
  if !p.dirExists then (if cfg.noDirNone then .ok none else .error .osError)
  else
    match (p.supplies.map (·.name)).filter (isBattery cfg) with
    | [] => .ok none
    | n :: ns =>
      match findSupply p.supplies (lexMin n ns) with
      | none => .error .osError          -- unreachable: the name came from the listing
      | some b =>
        let energyNow := multiBcat (pair cfg.energyNowFirst b.energyNow b.chargeNow)
        let powerNow := multiBcat (pair cfg.powerNowFirst b.powerNow b.currentNow)
        let energyFull := multiBcat (pair cfg.energyFullFirst b.energyFull b.chargeFull)
        let tte := multiBcat [b.timeToEmpty]
        match batPercent cfg b energyNow energyFull with
        | .error e => .error e
        | .ok none => .ok none
        | .ok (some pc) =>
          let pl := batPlugged cfg p.supplies b
          match batSecsleft cfg pl energyNow powerNow tte with
          | .error e => .error e
          | .ok s => .ok (some { percent := pc, secsleft := s, plugged := pl })

/-! ## text files: /proc/cpuinfo, /proc/stat -/

def bytesOf (s : String) : Bytes := s.toUTF8.toList.map (·.toNat)

/-- part after the first `:` (`line.split(b':', 1)[1]`); `none` = IndexError -/
def afterColon : Bytes → Option Bytes
  | [] => none
  | c :: cs => if c = 58 then some cs else afterColon cs

def kCpuMhz : Bytes := [99, 112, 117, 32, 109, 104, 122]          -- "cpu mhz"
def kProcessor : Bytes := [112, 114, 111, 99, 101, 115, 115, 111, 114]
def kPhysicalId : Bytes := [112, 104, 121, 115, 105, 99, 97, 108, 32, 105, 100]
def kCpuCores : Bytes := [99, 112, 117, 32, 99, 111, 114, 101, 115]
def kCtxt : Bytes := [99, 116, 120, 116]
def kIntr : Bytes := [105, 110, 116, 114]
def kSoftirq : Bytes := [115, 111, 102, 116, 105, 114, 113]
def kBtime : Bytes := [98, 116, 105, 109, 101]
def kCpu : Bytes := [99, 112, 117]

/-- `_cpu_get_cpuinfo_freq()` over the lines of /proc/cpuinfo -/
def cpuinfoFreqLines : List Bytes → Res (List Rat)
  | [] => .ok []
  | l :: ls =>
    if kCpuMhz.isPrefixOf (lower l) then
      match afterColon l with
      | none => .error .indexError
      | some v =>
        match pyFloat? v with
        | none => .error .valueError
        | some q =>
          match cpuinfoFreqLines ls with
          | .error e => .error e
          | .ok qs => .ok (q :: qs)
    else cpuinfoFreqLines ls

def cpuinfoFreqs (cpuinfo : FileState) : Res (List Rat) :=
  match cpuinfo.read with
  | .error e => .error e
  | .ok b => cpuinfoFreqLines (linesOf b)

/-! ## cpu_freq -/

structure Policy where
  n : Nat
  scalingCur : FileState
  cpuinfoCur : FileState
  scalingMax : FileState
  scalingMin : FileState
  deriving Repr

structure FreqTree where
  cpuinfo : FileState
  /-- `/sys/devices/system/cpu/cpufreq/policyN` -/
  policies : List Policy
  /-- `/sys/devices/system/cpu/cpuN/cpufreq` -/
  perCpu : List Policy
  /-- `/sys/devices/system/cpu/cpu{i}/online`, by i -/
  online : List (Nat × FileState)
  deriving Repr

structure Freq where
  current : Rat
  min : Rat
  max : Rat
  deriving DecidableEq, Repr

def insertByN (p : Policy) : List Policy → List Policy
  | [] => [p]
  | q :: qs => if p.n < q.n then p :: q :: qs else q :: insertByN p qs

/-- stable sort by the number in the path -/
def sortByN : List Policy → List Policy
  | [] => []
  | p :: ps => insertByN p (sortByN ps)

def bZeroNl : Bytes := [48, 10]

def readKhz (cfg : Cfg) (f : FileState) : Res Rat :=
  match f.read with
  | .error e => .error e
  | .ok b =>
    match pyInt? b with
    | none => .error .valueError
    | some i => .ok ((i : Rat) / (cfg.khz : Rat))

/-- `curr` of the sysfs variant before `int(curr) / 1000`: the cpuinfo MHz value × 1000 (a float,
    then truncated by `int()`), else `scaling_cur_freq`, else `cpuinfo_cur_freq`, else None -/
def policyCurr (cfg : Cfg) (useInfo : Option Rat) (p : Policy) : Option (Res Int) :=
  match useInfo with
  | some mhz => some (.ok (truncRat (mhz * (cfg.khz : Rat))))
  | none =>
    match p.scalingCur.readOpt with
    | some b => some (ofOpt .valueError (pyInt? b))
    | none =>
      match p.cpuinfoCur.readOpt with
      | some b => some (ofOpt .valueError (pyInt? b))
      | none => none

/-- `/sys/devices/system/cpu/cpu{i}/online` -/
def cpuOnlineFile (online : List (Nat × FileState)) (i : Nat) : FileState :=
  match online.lookup i with
  | some f => f
  | none => .absent

/-- loop body of the sysfs variant; `i` = position in the sorted list, `useInfo` = the cpuinfo
    value to take instead of `scaling_cur_freq` -/
def policyFreq (cfg : Cfg) (online : List (Nat × FileState)) (i : Nat) (useInfo : Option Rat) (p : Policy) :
    Res Freq :=
  match policyCurr cfg useInfo p with
  | none =>
    if (cpuOnlineFile online i).readOpt = some bZeroNl then .ok ⟨0, 0, 0⟩ else .error .notImplemented
  | some (.error e) => .error e
  | some (.ok khz) =>
    match readKhz cfg p.scalingMax with
    | .error e => .error e
    | .ok mx =>
      match readKhz cfg p.scalingMin with
      | .error e => .error e
      | .ok mn => .ok ⟨(khz : Rat) / (cfg.khz : Rat), mn, mx⟩

/-- `cpuinfo_freqs[i]` when `len(paths) == len(cpuinfo_freqs)` -/
def infoAt (infos : Option (List Rat)) (i : Nat) : Option Rat :=
  match infos with
  | some l => l[i]?
  | none => none

def policyLoop (cfg : Cfg) (online : List (Nat × FileState)) (infos : Option (List Rat)) :
    Nat → List Policy → Res (List Freq)
  | _, [] => .ok []
  | i, p :: ps =>
    match policyFreq cfg online (if cfg.probeByPosition then i else p.n) (infoAt infos i) p with
    | .error e => .error e
    | .ok f =>
      match policyLoop cfg online infos (i + 1) ps with
      | .error e => .error e
      | .ok fs => .ok (f :: fs)

/-- `_pslinux.cpu_freq()`; `sysfsVariant` = which definition the module picked at import time -/
def cpuFreqPlat (cfg : Cfg) (sysfsVariant : Bool) (t : FreqTree) : Res (List Freq) :=
  match cpuinfoFreqs t.cpuinfo with
  | .error e => .error e
  | .ok infos =>
    if sysfsVariant then
      let paths := sortByN (if t.policies.isEmpty then t.perCpu else t.policies)
      policyLoop cfg t.online (if paths.length = infos.length then some infos else none) 0 paths
    else .ok (infos.map fun q => ⟨q, 0, 0⟩)

inductive FreqOut
  | list (l : List Freq)
  | none
  | one (f : Freq)
  deriving DecidableEq, Repr

def sumBy (f : Freq → Rat) (l : List Freq) : Rat := l.foldl (fun a x => a + f x) 0

/-- `psutil.cpu_freq(percpu)` on the platform list -/
def cpuFreqFront (percpu : Bool) (l : List Freq) : FreqOut :=
  if percpu then .list l
  else match l with
    | [] => .none
    | [f] => .one f
    | _ =>
      let n : Rat := (l.length : Rat)
      .one ⟨sumBy (·.current) l / n, sumBy (·.min) l / n, sumBy (·.max) l / n⟩

def cpuFreq (cfg : Cfg) (sysfsVariant percpu : Bool) (t : FreqTree) : Res FreqOut :=
  match cpuFreqPlat cfg sysfsVariant t with
  | .error e => .error e
  | .ok l => .ok (cpuFreqFront percpu l)

/-! ## cpu_count -/

structure CountTree where
  /-- `os.sysconf("SC_NPROCESSORS_ONLN")`; `none` = ValueError -/
  sysconf : Option Int
  cpuinfo : FileState
  stat : FileState
  /-- contents of `cpu*/topology/core_cpus_list` (existing files only) -/
  coreCpus : List FileState
  /-- contents of `cpu*/topology/thread_siblings_list` -/
  siblings : List FileState
  deriving Repr

def countWhere (p : Bytes → Bool) (ls : List Bytes) : Nat := (ls.filter p).length

/-- `line.split(' ')[0]` matches `cpu\d` -/
def isCpuNLine (l : Bytes) : Bool :=
  match l.takeWhile (· ≠ 32) with
  | 99 :: 112 :: 117 :: d :: _ => isDigit d
  | _ => false

/-- `_pslinux.cpu_count_logical()` -/
def cpuCountLogicalPlat (t : CountTree) : Res (Option Int) :=
  match t.sysconf with
  | some n => .ok (some n)
  | none =>
    match t.cpuinfo.read with
    | .error e => .error e
    | .ok ci =>
      let num := countWhere (fun l => kProcessor.isPrefixOf (lower l)) (linesOf ci)
      if num ≠ 0 then .ok (some num)
      else
        match t.stat.read with
        | .error e => .error e
        | .ok st =>
          let num := countWhere isCpuNLine (linesOf st)
          if num = 0 then .ok none else .ok (some num)

/-- split at the first occurrence of the two-byte separator `\t:` -/
def splitTabColon : Bytes → Option (Bytes × Bytes)
  | [] => none
  | [_] => none
  | a :: b :: rest =>
    if a = 9 ∧ b = 58 then some ([], rest)
    else (splitTabColon (b :: rest)).map fun kv => (a :: kv.1, kv.2)

def assocSet {κ ν : Type} [BEq κ] (m : List (κ × ν)) (k : κ) (v : ν) : List (κ × ν) :=
  match m with
  | [] => [(k, v)]
  | (k', v') :: rest => if k' == k then (k, v) :: rest else (k', v') :: assocSet rest k v

/-- method #2 of `cpu_count_cores`: state = (mapping, current_info) -/
def coresScan : List Bytes → List (Int × Int) → List (Bytes × Int) → Res (List (Int × Int))
  | [], mapping, _ => .ok mapping
  | l :: ls, mapping, cur =>
    let line := lower (stripWs l)
    if line = [] then
      match cur.lookup kPhysicalId, cur.lookup kCpuCores with
      | some ph, some co => coresScan ls (assocSet mapping ph co) []
      | _, _ => coresScan ls mapping []
    else if kPhysicalId.isPrefixOf line || kCpuCores.isPrefixOf line then
      match splitTabColon line with
      | none => .error .valueError
      | some (key, value) =>
        match pyInt? value with
        | none => .error .valueError
        | some v => coresScan ls mapping (assocSet cur key v)
    else coresScan ls mapping cur

def readAll : List FileState → Res (List Bytes)
  | [] => .ok []
  | f :: fs =>
    match f.read with
    | .error e => .error e
    | .ok b =>
      match readAll fs with
      | .error e => .error e
      | .ok bs => .ok (stripWs b :: bs)

/-- `_pslinux.cpu_count_cores()` -/
def cpuCountCoresPlat (t : CountTree) : Res (Option Int) :=
  let files := if t.coreCpus.isEmpty then t.siblings else t.coreCpus
  match readAll files with
  | .error e => .error e
  | .ok ls =>
    let result := ls.eraseDups.length
    if result ≠ 0 then .ok (some result)
    else
      match t.cpuinfo.read with
      | .error e => .error e
      | .ok ci =>
        match coresScan (linesOf ci) [] [] with
        | .error e => .error e
        | .ok mapping =>
          let s := (mapping.map (·.2)).foldl (· + ·) 0
          if s = 0 then .ok none else .ok (some s)

/-- `psutil.cpu_count(logical)` -/
def cpuCount (logical : Bool) (t : CountTree) : Res (Option Int) :=
  match (if logical then cpuCountLogicalPlat t else cpuCountCoresPlat t) with
  | .error e => .error e
  | .ok none => .ok none
  | .ok (some n) => if n < 1 then .ok none else .ok (some n)

/-! ## cpu_stats, boot_time -/

/-- `int(line.split()[1])` -/
def secondInt (l : Bytes) : Res Int :=
  match splitWs l with
  | _ :: v :: _ => ofOpt .valueError (pyInt? v)
  | _ => .error .indexError

structure StatAcc where
  ctxt : Option Int
  intr : Option Int
  soft : Option Int
  deriving DecidableEq, Repr

def StatAcc.full (a : StatAcc) : Bool := a.ctxt.isSome && a.soft.isSome && a.intr.isSome

def cpuStatsScan : List Bytes → StatAcc → Res StatAcc
  | [], a => .ok a
  | l :: ls, a =>
    let step : Res StatAcc :=
      if kCtxt.isPrefixOf l then (secondInt l).map fun v => { a with ctxt := some v }
      else if kIntr.isPrefixOf l then (secondInt l).map fun v => { a with intr := some v }
      else if kSoftirq.isPrefixOf l then (secondInt l).map fun v => { a with soft := some v }
      else .ok a
    match step with
    | .error e => .error e
    | .ok a' => if a'.full then .ok a' else cpuStatsScan ls a'

/-- `psutil.cpu_stats()` → (ctx_switches, interrupts, soft_interrupts); syscalls is the constant 0 -/
def cpuStats (stat : FileState) : Res StatAcc :=
  match stat.read with
  | .error e => .error e
  | .ok b => cpuStatsScan (linesOf b) ⟨none, none, none⟩

def bootTimeScan : List Bytes → Res Rat
  | [] => .error .runtimeError
  | l :: ls =>
    if kBtime.isPrefixOf l then
      match splitWs (stripWs l) with
      | _ :: v :: _ => ofOpt .valueError (pyFloat? v)
      | _ => .error .indexError
    else bootTimeScan ls

/-- `psutil.boot_time()`: the value returned -/
def bootTime (stat : FileState) : Res Rat :=
  match stat.read with
  | .error e => .error e
  | .ok b => bootTimeScan (linesOf b)

/-- one call of `boot_time()` with the module global `BOOT_TIME` made explicit (`g`; `none` = not set
    yet): the global is written by the FIRST successful call only (Process.create_time() relies on it),
    the value RETURNED is the one just read (`returnsFresh`, a translator fact: `return ret`) — or, were
    the function to serve the remembered value, the global. Result = (returned, new global). -/
def bootTimeCall (returnsFresh : Bool) (g : Option Rat) (stat : FileState) : Res Rat × Option Rat :=
  match bootTime stat with
  | .error e => (.error e, g)
  | .ok v =>
    let g' := match g with | some x => some x | none => some v
    (.ok (if returnsFresh then v else g'.getD v), g')

/-- a history of calls, each on the /proc/stat of its moment -/
def bootTimeRun (returnsFresh : Bool) : Option Rat → List FileState → List (Res Rat)
  | _, [] => []
  | g, s :: ss => let r := bootTimeCall returnsFresh g s; r.1 :: bootTimeRun returnsFresh r.2 ss

/-- the module global after such a history (what `Process.create_time()` adds the start time to) -/
def bootTimeGlobal : Option Rat → List FileState → Option Rat
  | g, [] => g
  | g, s :: ss => bootTimeGlobal (bootTimeCall true g s).2 ss

end Psutil.C19
