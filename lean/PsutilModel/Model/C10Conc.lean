/-
  Model/C10Conc.lean — small-step model of any number of threads using `_WrapNumbers` at once.

  One public call of thread `t` is the sequence of actions

      sample t n raw     the platform function returns `raw`. `Cfg.sampleUnderLock = false` (the code
                         before fixes/C10-sample-under-lock): OUTSIDE any lock — which snapshot a call
                         works on is decided before the thread competes for `_wn.lock`, so the lock
                         order need not be the order in which the kernel was sampled (finding
                         C10-sample-outside-lock). `sampleUnderLock = true`: inside the front ends'
                         sampling lock (`Sys.outer`), held until the body is done.
      acquire t          `with _wn.lock:` / `with self.lock:` entered (only if nobody holds it)
      load t             the body starts: it reads the shared dicts (here: takes a copy)
      store t            the body ends: it has written the shared dicts and has its return value
      release t          the `with` block is left

  `cache_clear(name)` is `wantClear` followed by the same four actions. Between `load` and `store`
  of one thread every other thread may take any action that is enabled for it; the shared state is
  only ever touched by `store`. With `Cfg.lockedRun = false` (resp. `lockedClear = false`) the
  body runs without the lock: `load`/`store` are enabled straight after `sample` (`wantClear`).
  Import-free.
-/
import PsutilModel.Model.C10
namespace Psutil.C10

inductive PC
  | idle
  | want (op : Op)                 -- sampled / decided, lock not yet held
  | held (op : Op)                 -- lock held, body not started
  | loaded (op : Op) (seen : St) (locked : Bool)   -- body running on what it read
  | stored (locked : Bool)         -- body finished

inductive Act
  | sample (t : Nat) (n : Name) (raw : Raw)      -- a `nowrap=True` call of slot `n` gets its snapshot
  | wantClear (t : Nat) (n : Option Name)        -- cache_clear(name) / cache_clear()
  | acquire (t : Nat)
  | load (t : Nat)
  | store (t : Nat)
  | release (t : Nat)

structure Sys where
  st : St
  lock : Option Nat                 -- holder of `_wn.lock`
  pc : Nat → PC
  log : List (Nat × Op)             -- bodies in the order they took the lock (newest last)
  outs : List (Nat × Out)           -- return values in the order the bodies finished
  /-- holder of the front ends' sampling lock (`Cfg.sampleUnderLock` only): taken together with the
      sample, given back together with `_wn.lock` at the end of the call's body. (In the code it is
      taken just before the platform call and released just after `wrap_numbers` returns; nothing
      another thread can observe lies in between, so the two pairs of events are merged — this only
      adds behaviours to the model.) `cache_clear` never takes it. -/
  outer : Option Nat := none
  /-- ghost: the raw kernel snapshots in the order they were TAKEN (as the calls they belong to) -/
  samples : List (Nat × Op) := []

def Sys.init : Sys := ⟨St.init, none, fun _ => .idle, [], [], none, []⟩

/-- the sampling lock after thread `t` has left a body -/
def relOuter (s : Sys) (t : Nat) : Option Nat := if s.outer = some t then none else s.outer

def setPc (pc : Nat → PC) (t : Nat) (v : PC) : Nat → PC := fun u => if u = t then v else pc u

def clearOp : Option Name → Op
  | some n => .clear n
  | none => .clearAll

/-- is the body of `op` guarded by the lock in this configuration? -/
def guarded (cfg : Cfg) : Op → Bool
  | .call _ _ _ => cfg.lockedRun
  | _ => cfg.lockedClear

/-- one action; `none` = not enabled in this state -/
def stepC (cfg : Cfg) (s : Sys) : Act → Option Sys
  | .sample t n raw =>
    match s.pc t with
    | .idle =>
      -- with `sampleUnderLock` the platform call happens inside `with <sampling lock>:`
      if cfg.sampleUnderLock && s.outer.isSome then none
      else some { s with pc := setPc s.pc t (.want (.call n true raw))
                         outer := if cfg.sampleUnderLock then some t else s.outer
                         samples := s.samples ++ [(t, .call n true raw)] }
    | _ => none
  | .wantClear t n =>
    match s.pc t with
    | .idle => some { s with pc := setPc s.pc t (.want (clearOp n)) }
    | _ => none
  | .acquire t =>
    match s.pc t, s.lock with
    | .want op, none =>
      if guarded cfg op then
        some { s with lock := some t, pc := setPc s.pc t (.held op), log := s.log ++ [(t, op)] }
      else none
    | _, _ => none
  | .load t =>
    match s.pc t with
    | .held op => some { s with pc := setPc s.pc t (.loaded op s.st true) }
    | .want op =>
      if guarded cfg op then none
      else some { s with pc := setPc s.pc t (.loaded op s.st false), log := s.log ++ [(t, op)] }
    | _ => none
  | .store t =>
    match s.pc t with
    | .loaded op seen locked =>
      let r := step cfg seen op
      some { s with st := r.1, pc := setPc s.pc t (.stored locked), outs := s.outs ++ [(t, r.2)] }
    | _ => none
  | .release t =>
    match s.pc t with
    | .stored true => some { s with lock := none, pc := setPc s.pc t .idle, outer := relOuter s t }
    | .stored false => some { s with pc := setPc s.pc t .idle, outer := relOuter s t }
    | _ => none

def runC (cfg : Cfg) (s : Sys) : List Act → Option Sys
  | [] => some s
  | a :: as => match stepC cfg s a with
    | none => none
    | some s' => runC cfg s' as

/-- the serial execution of logged bodies, one after the other -/
def serial (cfg : Cfg) (s : St) : List (Nat × Op) → St × List (Nat × Out)
  | [] => (s, [])
  | (t, op) :: rest =>
    let r := step cfg s op
    let q := serial cfg r.1 rest
    (q.1, (t, r.2) :: q.2)

end Psutil.C10
