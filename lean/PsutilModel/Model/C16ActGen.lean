/- Model/C16ActGen.lean — Model/C16Act tied to the source: the translator's fact `cacheOpSites` lists EVERY place of
   psutil/__init__.py, psutil/_common.py and psutil/_pslinux.py that touches a `_cache` attribute or calls
   cache_activate / cache_deactivate / oneshot_enter / oneshot_exit, as (enclosing function, kind, level).
   A public method whose code contains such a site gets the corresponding `cop` steps in its body (`bodyOf`); the
   obligation `acfgGood` says there is none outside oneshot()'s own entry / exit code and the decorator itself. -/
import PsutilModel.Model.C16Act
import PsutilModel.Generated.C16
namespace Psutil.C16.Act

/-- the only code that may touch the caches: the decorator, oneshot() and the platform's oneshot_enter/_exit -/
def allowedFns : List String :=
  ["_common.memoize_when_activated.wrapper", "_common.memoize_when_activated.cache_activate",
   "_common.memoize_when_activated.cache_deactivate", "__init__.Process.oneshot",
   "_pslinux.Process.oneshot_enter", "_pslinux.Process.oneshot_exit"]

/-- a site that cannot change what a block serves: inside the allowed code, or a mere presence test -/
def siteOk (x : String × String × String) : Bool := allowedFns.contains x.1 || x.2.1 == "test"

def siteStep (x : String × String × String) : Option Step :=
  let l : Option Lvl := if x.2.2 == "front" then some .front else if x.2.2 == "plat" then some .plat else none
  match l with
  | none => none
  | some l => if x.2.1 == "activate" then some (.cop l true) else if x.2.1 == "deactivate" then some (.cop l false) else none

/-- the cache operations the code of public method `fn` performs itself (source order) -/
def strayOps (fn : String) : List Step :=
  (Gen.C16.cacheOpSites.filter (fun x => x.1 == fn && !siteOk x)).filterMap siteStep

def insertAfterTick (ops : List Step) : Body → Body
  | [] => ops
  | .tick :: b => .tick :: (ops ++ b)
  | st :: b => st :: insertAfterTick ops b

/-- body of a call of `fn` whose questions / blocking points are `b`: its own cache operations are placed at its
    first blocking point (or at its end if it never blocks) -/
def bodyOf (fn : String) (b : Body) : Body := if (strayOps fn).isEmpty then b else insertAfterTick (strayOps fn) b

def acfgGood : Bool :=
  Gen.C16.cacheOpSites.all siteOk
  && Gen.C16.cacheOpSites.all (fun x => ["activate", "deactivate", "test", "attr"].contains x.2.1 && ["front", "plat", "any"].contains x.2.2)
  && Gen.C16.cacheOpSites.any (fun x => x.1 == "__init__.Process.oneshot" && x.2.1 == "activate" && x.2.2 == "front")
  && Gen.C16.cacheOpSites.any (fun x => x.1 == "__init__.Process.oneshot" && x.2.1 == "deactivate" && x.2.2 == "front")
  && Gen.C16.cacheOpSites.any (fun x => x.1 == "__init__.Process.oneshot" && x.2.1 == "activate" && x.2.2 == "plat")
  && Gen.C16.cacheOpSites.any (fun x => x.1 == "__init__.Process.oneshot" && x.2.1 == "deactivate" && x.2.2 == "plat")

end Psutil.C16.Act
