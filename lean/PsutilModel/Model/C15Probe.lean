/-
  Model/C15Probe.lean — seeded round 5 (C15-7): WHICH liveness probe the waiting code asks, in a
  world where two probes can disagree.

  Linux offers two ways to ask "is PID p there?":
    * `os.kill(p, 0)` (what `_psposix.pid_exists` does): the kernel's own process table — the
      truth the property speaks about ("never before the process has REALLY ended");
    * the procfs tree under `psutil.PROCFS_PATH` (`_pslinux.pid_exists` reads `<procfs>/<p>/status`
      and falls back on `p in pids()`; `Process.is_running()` re-reads `<procfs>/<p>/stat`): a VIEW
      of that table, which may not list a live process — `/proc` mounted with `hidepid=`, a
      `PROCFS_PATH` pointed somewhere else after the `Process` object was made (container-side
      `/host/proc`, a fake tree).
  `View` is that new dimension of the environment; `Probe` says which question a poll asks;
  `pollNonChildP` / `waitLoopP` are `pollNonChild` / `waitLoop` of Model/C15.lean with the
  question made a parameter (same branch order, same names); `waitPidV` / `procWaitV` /
  `popenWaitV` are `wait_pid` / `Process.wait` / `Popen.wait` asking the probe the translator found
  (facts `pollAsksHook`, `hookDefaultIsKill`, `linuxWaitPassesNoHook`); `checkGoneV` is one
  `check_gone` of `wait_procs`, whose `proc.is_running()` reads the procfs view.
-/
import PsutilModel.Model.C15
import PsutilModel.Model.C15R3
namespace Psutil.C15

/-- what the procfs tree under `psutil.PROCFS_PATH` shows of ONE process: `view t = true` ⇔ IF the
    process exists at instant `t`, it is listed there at `t`. A view never lists a PID the kernel does
    not have (procfs is a view of the kernel's table; PID reuse is C01/C02's subject); it may hide one. -/
abbrev View := Rat → Bool

/-- the ordinary `/proc` of a process that may see everything -/
def View.full : View := fun _ => true

/-- listed until `hideAt`, hidden during `[hideAt, showAt)`, listed again from `showAt` on -/
def View.window (hideAt : Rat) (showAt : Option Rat) : View := fun t =>
  !(decide (hideAt ≤ t) && (match showAt with
                            | some s => decide (t < s)
                            | none => true))

/-- is `<procfs>/<pid>` there at `now`? -/
def Env.listed (env : Env) (view : View) (now : Rat) : Bool := env.pidExists now && view now

inductive Probe
  | kill        -- `os.kill(pid, 0)`: ESRCH ⇒ gone, success / EPERM ⇒ there
  | procfs      -- `kill` says "there" AND the procfs view lists the PID
  deriving DecidableEq, Repr

/-- the answer of a probe at instant `now` -/
def Probe.ask : Probe → Env → View → Rat → Bool
  | .kill, env, _ => fun now => env.pidExists now
  | .procfs, env, view => fun now => env.listed view now

/-- the probe `Process.wait` → `_pslinux.Process.wait` → `wait_pid` polls a non-child with -/
def Cfg.probe (c : Cfg) : Probe :=
  if c.pollAsksHook && c.hookDefaultIsKill && c.linuxWaitPassesNoHook then .kill else .procfs

/-- … and the one a direct `_psposix.wait_pid(pid, timeout)` polls with (its own default) -/
def Cfg.probeDirect (c : Cfg) : Probe :=
  if c.pollAsksHook && c.hookDefaultIsKill then .kill else .procfs

/-- `while _pid_exists(pid): interval = sleep(interval)` then `return None`; `ask` = the question -/
def pollNonChildP (cfg : Cfg) (ask : Rat → Bool) (pid : Nat) (timeout : Option Rat) (stopAt : Rat) :
    Nat → St → Outcome × St
  | 0, s => (.outOfFuel, s)
  | fuel + 1, s =>
    if ask s.now then
      match sleepStep cfg pid timeout stopAt s with
      | (some o, s') => (o, s')
      | (none, s') => pollNonChildP cfg ask pid timeout stopAt fuel s'
    else (.none, s)

/-- the `while True:` loop around `os.waitpid(pid, flags)` (`waitLoop` with the question a parameter) -/
def waitLoopP (cfg : Cfg) (env : Env) (ask : Rat → Bool) (pid : Nat) (timeout : Option Rat) (stopAt : Rat) :
    Nat → St → Outcome × St
  | 0, s => (.outOfFuel, s)
  | fuel + 1, s =>
    let s1 := { s with nWait := s.nWait + 1 }
    if env.eintr s.nWait then
      match sleepStep cfg pid timeout stopAt s1 with
      | (some o, s') => (o, s')
      | (none, s') => waitLoopP cfg env ask pid timeout stopAt fuel s'
    else
      match env.kind with
      | .child st =>
        match timeout with
        | some _ =>
          if env.ended s1.now then (decode st, s1)
          else
            match sleepStep cfg pid timeout stopAt s1 with
            | (some o, s') => (o, s')
            | (none, s') => waitLoopP cfg env ask pid timeout stopAt fuel s'
        | none =>
          match env.exitAt with
          | some e => (decode st, { s1 with now := rmax s1.now e })
          | none => (.hang, s1)
      | _ =>
        pollNonChildP cfg ask pid timeout stopAt (fuel + 1) s1

/-- `wait_pid(pid, timeout)` polling a non-child with `probe`, under procfs view `view` -/
def waitPidV (cfg : Cfg) (probe : Probe) (env : Env) (view : View) (pid : Int) (timeout : Option Rat)
    (fuel : Nat) (now : Rat) (nWait : Nat) : Outcome × St :=
  let s0 : St := ⟨now, cfg.i0, nWait, []⟩
  if pidRefused cfg pid then (.valueError, s0)
  else waitLoopP cfg env (probe.ask env view) pid.toNat timeout (now + timeout.getD 0) fuel s0

/-- `Process.wait(timeout)` over `waitPidV` (same three steps as `procWait`) -/
def procWaitV (cfg : Cfg) (probe : Probe) (env : Env) (view : View) (timeout : Option Rat) (fuel : Nat)
    (now : Rat) (p : PObj) : WaitRes :=
  if cfg.validateNonNeg && negative timeout then ⟨.valueError, now, [], p⟩
  else
    match p.exitcode with
    | some v => ⟨Outcome.ofValue v, now, [], p⟩
    | none =>
      let r := waitPidV cfg probe env view (p.pid : Int) timeout fuel now p.nWait
      ⟨r.1, r.2.now, r.2.sleeps, { p with exitcode := r.1.value?, nWait := r.2.nWait }⟩

/-- `Popen.wait(timeout)` with the inner `super().wait(timeout)` a parameter -/
def popenWaitG (cfg : Cfg) (pw : PObj → WaitRes) (timeout : Option Rat) (now : Rat) (q : PopenObj) :
    PopenRes :=
  if cfg.popenValidateFirst && negative timeout then ⟨.valueError, now, [], q⟩
  else
    match (if cfg.popenRcFirst then q.subRc else none) with
    | some c => ⟨.code c, now, [], q⟩
    | none =>
      let r := pw q.proc
      let rc := if cfg.popenStoresRc then
                  (match r.out.value? with
                   | some v => v
                   | none => q.subRc)
                else q.subRc
      ⟨r.out, r.now, r.sleeps, ⟨r.obj, rc⟩⟩

/-- `Popen.wait(timeout)` over `procWaitV` -/
def popenWaitV (cfg : Cfg) (probe : Probe) (env : Env) (view : View) (timeout : Option Rat) (fuel : Nat)
    (now : Rat) (q : PopenObj) : PopenRes :=
  popenWaitG cfg (procWaitV cfg probe env view timeout fuel now) timeout now q

/-- `check_gone(proc, timeout)` of `wait_procs` under procfs views: `proc.wait` polls with `probe`,
    `proc.is_running()` (asked only after `wait` returned None) reads the procfs view -/
def checkGoneV (cfg : Cfg) (probe : Probe) (envOf : Nat → Env) (viewOf : Nat → View) (hasCb : Bool)
    (fuel : Nat) (w : WP) (pid : Nat) (t : Rat) : Except Outcome WP :=
  let r := procWaitV cfg probe (envOf pid) (viewOf pid) (some t) fuel w.now { w.objs pid with pid := pid }
  let w1 : WP := { w.setObj r.obj with now := r.now, sleeps := w.sleeps ++ r.sleeps,
                                        calls := w.calls ++ [(pid, t)] }
  match r.out with
  | .timeout _ _ => .ok w1
  | .code c => .ok (markGone hasCb w1 pid (some c))
  | .none => if (envOf pid).listed (viewOf pid) r.now then .ok w1 else .ok (markGone hasCb w1 pid none)
  | o => .error o

/-! ### `wait_procs` under procfs views: the loops of Model/C15.lean over `checkGoneV` -/

def passTV (cfg : Cfg) (probe : Probe) (envOf : Nat → Env) (viewOf : Nat → View) (hasCb : Bool) (fuel : Nat)
    (deadline maxT : Rat) : List Nat → WP → Rat → Except Outcome (WP × Rat)
  | [], w, tmo => .ok (w, tmo)
  | pid :: rest, w, _ =>
    let t := rmin (deadline - w.now) maxT
    if t ≤ 0 then .ok (w, t)
    else
      match checkGoneV cfg probe envOf viewOf hasCb fuel w pid t with
      | .error o => .error o
      | .ok w' => passTV cfg probe envOf viewOf hasCb fuel deadline maxT rest w' t

def passNV (cfg : Cfg) (probe : Probe) (envOf : Nat → Env) (viewOf : Nat → View) (hasCb : Bool) (fuel : Nat)
    (t : Rat) : List Nat → WP → Except Outcome WP
  | [], w => .ok w
  | pid :: rest, w =>
    match checkGoneV cfg probe envOf viewOf hasCb fuel w pid t with
    | .error o => .error o
    | .ok w' => passNV cfg probe envOf viewOf hasCb fuel t rest w'

def whileTV (cfg : Cfg) (probe : Probe) (envOf : Nat → Env) (viewOf : Nat → View) (hasCb : Bool) (fuel : Nat)
    (order : Nat → List Nat → List Nat) (deadline : Rat) :
    Nat → List Nat → WP → Rat → Except Outcome (WP × List Nat)
  | 0, _, _, _ => .error .outOfFuel
  | k + 1, alive, w, tmo =>
    if alive.isEmpty then .ok (w, alive)
    else if tmo ≤ 0 then .ok (w, alive)
    else
      match passTV cfg probe envOf viewOf hasCb fuel deadline (maxTimeout cfg alive)
              (order w.calls.length alive) w tmo with
      | .error o => .error o
      | .ok (w', tmo') =>
        whileTV cfg probe envOf viewOf hasCb fuel order deadline k (stillAlive alive w'.gone) w' tmo'

def whileNV (cfg : Cfg) (probe : Probe) (envOf : Nat → Env) (viewOf : Nat → View) (hasCb : Bool) (fuel : Nat)
    (order : Nat → List Nat → List Nat) :
    Nat → List Nat → WP → Except Outcome (WP × List Nat)
  | 0, _, _ => .error .outOfFuel
  | k + 1, alive, w =>
    if alive.isEmpty then .ok (w, alive)
    else
      match passNV cfg probe envOf viewOf hasCb fuel (maxTimeout cfg alive) (order w.calls.length alive) w with
      | .error o => .error o
      | .ok w' => whileNV cfg probe envOf viewOf hasCb fuel order k (stillAlive alive w'.gone) w'

def lastAttemptV (cfg : Cfg) (probe : Probe) (envOf : Nat → Env) (viewOf : Nat → View) (hasCb : Bool) (fuel : Nat)
    (order : Nat → List Nat → List Nat) (alive : List Nat) (w : WP) :
    Except Outcome (WP × List Nat) :=
  if alive.isEmpty then .ok (w, alive)
  else
    match passNV cfg probe envOf viewOf hasCb fuel 0 (order w.calls.length alive) w with
    | .error o => .error o
    | .ok w' => .ok (w', stillAlive alive w'.gone)

/-- `wait_procs(procs, timeout, callback)` with every `proc.wait` polling with `probe` and every
    `proc.is_running()` reading the process's procfs view -/
def waitProcsV (cfg : Cfg) (probe : Probe) (envOf : Nat → Env) (viewOf : Nat → View) (procs : List Nat)
    (timeout : Option Rat) (hasCb : Bool) (order : Nat → List Nat → List Nat) (fuel : Nat) (w : WP) :
    Except Outcome (WP × List Nat) :=
  if negative timeout then .error .valueError
  else
    let alive := dedup procs
    match timeout with
    | some τ =>
      match whileTV cfg probe envOf viewOf hasCb fuel order (w.now + τ) fuel alive w τ with
      | .error o => .error o
      | .ok (w', alive') => lastAttemptV cfg probe envOf viewOf hasCb fuel order alive' w'
    | none =>
      match whileNV cfg probe envOf viewOf hasCb fuel order fuel alive w with
      | .error o => .error o
      | .ok (w', alive') => lastAttemptV cfg probe envOf viewOf hasCb fuel order alive' w'

end Psutil.C15
