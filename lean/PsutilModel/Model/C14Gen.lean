/- Model/C14Gen.lean — the C14 model instantiated with the facts the translator extracted. -/
import PsutilModel.Model.C14
import PsutilModel.Generated.C14
namespace Psutil.C14

/-- configuration of the model as extracted from the current source -/
def cfg : Cfg :=
  { modesMap := Gen.C14.modesMap
    accMask := Gen.C14.accMask
    appendBit := Gen.C14.appendBit
    appendRepl := ⟨Gen.C14.appendReplOld, Gen.C14.appendReplNew, Gen.C14.appendReplCount⟩
    finalRepl := ⟨Gen.C14.finalReplOld, Gen.C14.finalReplNew, Gen.C14.finalReplCount⟩
    posBase := Gen.C14.posBase
    posIdx := Gen.C14.posIdx
    flagsBase := Gen.C14.flagsBase
    flagsIdx := Gen.C14.flagsIdx
    delSuffix := Gen.C14.delSuffix
    delCut := Gen.C14.delCut
    absPrefix := Gen.C14.absPrefix
    filterExact := Gen.C14.filterExact
    linkGoneEnoent := Gen.C14.linkGoneEnoent
    linkGoneEsrch := Gen.C14.linkGoneEsrch
    infoGoneEnoent := Gen.C14.infoGoneEnoent
    infoGoneEsrch := Gen.C14.infoGoneEsrch
    infoReadGoneEnoent := Gen.C14.infoReadGoneEnoent
    infoReadGoneEsrch := Gen.C14.infoReadGoneEsrch
    finalAliveCheck := Gen.C14.finalAliveCheck
    ioSep := Gen.C14.ioSep
    ioKeys := Gen.C14.ioKeys
    pioFields := Gen.C14.pioFields
    ioIntGuarded := Gen.C14.ioIntGuarded
    isfileDeniedRaises := Gen.C14.isfileDeniedRaises
    existsDeniedRaises := Gen.C14.existsDeniedRaises
    linkGoneDenied := Gen.C14.linkGoneDenied
    linkDeniedRaises := Gen.C14.linkDeniedRaises
    infoGoneDenied := Gen.C14.infoGoneDenied
    wrapPermAD := Gen.C14.wrapPermAD
    wrapZombieFirst := Gen.C14.wrapZombieFirst
    absFirst := Gen.C14.absFirst
    scanLimit := Gen.C14.scanLimit
    loopOverListdir := Gen.C14.loopOverListdir
    fdPathsExact := Gen.C14.fdPathsExact
    linkSkipErrnos := Gen.C14.linkSkipErrnos
    linkGoneExtra := Gen.C14.linkGoneExtra
    linkSkipClasses := Gen.C14.linkSkipClasses
    infoGoneExtra := Gen.C14.infoGoneExtra
    numFdsLenListdir := Gen.C14.numFdsLenListdir
    numFdsCap := Gen.C14.numFdsCap
    ioIterFile := Gen.C14.ioIterFile
    isfileHandlers := Gen.C14.isfileHandlers
    existsHandlers := Gen.C14.existsHandlers }

end Psutil.C14
