/-
  Model/C02Stat.lean — C02 over the BYTES of `/proc/<pid>/stat` (seeded round 5, C02-6).

  The identity `(pid, create_time)` behind `==`, `hash()` and `is_running()` is PARSED from the stat line the kernel
  publishes, `pid (comm) state ppid … starttime …`, and `comm` is chosen by the process itself (the name of the
  executable, `prctl(PR_SET_NAME)`): ANY bytes, and it may CHANGE while the process lives.  The byte dimension is the
  one C01's round 5 added to the shared model — `Model/C01Stat.lean`: `InstB` / `statLine` / `KernelB` / `KEvB` (spawn
  with a chosen line, `rewrite` = the line of a living process changes), psutil's reader `readStat` in the shape the
  translator extracted (`StatCfg`), `view` = the abstract kernel as READ from the bytes.  Nothing of that is repeated
  here.  This file only puts C02's own machine on top of it: the identity machine WITH transiently failing reads
  (`Model/C02Fault.lean`: `stepF`, the machine C02's driver runs) on the kernel as read from the bytes.

      stepFB  =  stepF  ∘  view          (`none` = a listed line does not parse under the extracted reader: no prediction)

  A stat file that cannot be read right now (`faulty`) is still a line of the kernel's table; `view` reads the table,
  `stepF` decides which reads fail.
-/
import PsutilModel.Model.C01Stat
import PsutilModel.Model.C02Fault
namespace Psutil.C02
open Psutil Psutil.C01

/-- state: the kernel with its stat bytes, psutil's identity state, the effect log, and the INPUT `faulty` -/
structure FStB where
  sb : StB
  faulty : List Nat
  deriving Repr

/-- events of the byte-level histories with failing reads -/
inductive FEvB
  | ev (e : EvB)                      -- kernel event over the bytes (spawn with a line, rewrite, exit, …) or psutil call
  | fault (pid : Nat) (on : Bool)     -- reads of `/proc/pid/stat` start / stop failing
  deriving DecidableEq, Repr

def FStB.init (btime : Nat) : FStB := ⟨StB.init btime, []⟩

/-- the state the SPECIFICATION is read on: the kernel's own table, bytes forgotten -/
def FStB.toFSt (fs : FStB) : FSt := ⟨fs.sb.toSt, fs.faulty⟩

def FEvB.erase : FEvB → FEv
  | .ev e => .ev e.erase
  | .fault pid on => .fault pid on

/-- one step: kernel events act on the bytes; a psutil call is `stepF` of Model/C02Fault.lean on the kernel as READ
    from the bytes by the reader `sc` -/
def FStB.step (sc : StatCfg) (cfg : Cfg) (sf : StatFault) (fs : FStB) : FEvB → FStB × Option OutF
  | .fault pid true => ({ fs with faulty := pid :: fs.faulty }, some (.ok .unit))
  | .fault pid false => ({ fs with faulty := fs.faulty.filter fun x => !(x == pid) }, some (.ok .unit))
  | .ev (.k e) => ({ fs with sb := { fs.sb with kern := fs.sb.kern.apply e } }, some (.ok .unit))
  | .ev (.c call) =>
    match view sc fs.sb.kern with
    | none => (fs, none)
    | some k =>
      let r := stepF cfg sf ⟨k, fs.sb.ps, fs.sb.log⟩ fs.faulty call
      ({ fs with sb := ⟨fs.sb.kern, r.1.ps, r.1.log⟩ }, some r.2)

def runFB (sc : StatCfg) (cfg : Cfg) (sf : StatFault) (fs : FStB) : List FEvB → FStB
  | [] => fs
  | e :: es => runFB sc cfg sf (fs.step sc cfg sf e).1 es

end Psutil.C02
