/-
  Model/C18.lean — nice / ionice / cpu_affinity / rlimit.

  Four layers, each a transcription of one piece of code (same branch order, same names):

    1. `Kernel`            the simulated kernel: per-process `{nice, ioprio, affinity, cpuset,
                           rlimits}` and the syscalls `getpriority/setpriority`,
                           `ioprio_get/ioprio_set`, `sched_getaffinity/sched_setaffinity`,
                           `prlimit` (semantics of Linux 6.x; validated against the live kernel
                           by the harness, part (b)).
    2. native layer        `_psutil_posix.c:getpriority/setpriority`,
                           `arch/linux/proc.c:psutil_proc_ioprio_get/set` (packing with the
                           shift constant the translator reads from the C source),
                           `psutil_proc_cpu_affinity_get/set` (sequence → `cpu_set_t`),
                           CPython's `resource.prlimit`.
    3. `_pslinux.Process`  `nice_get/nice_set`, `ionice_get/ionice_set`, `cpu_affinity_get`,
                           `_get_eligible_cpus`, `cpu_affinity_set`, `rlimit`, under
                           `wrap_exceptions`.
    4. `psutil.Process`    `nice`, `ionice`, `cpu_affinity`, `rlimit`.

  Import-free. Error branches are explicit constructors; nothing is totalised.
-/
namespace Psutil.C18

/-! ### 1. the simulated kernel -/

/-- per-process scheduling / limits state -/
structure PState where
  nice : Int
  /-- raw value kept in `io_context->ioprio` (an `unsigned short`) -/
  ioprio : Nat
  /-- current affinity mask `task->cpus_mask`: ascending, no duplicates -/
  affinity : List Nat
  /-- CPUs the process may use at all (its cpuset) -/
  cpuset : List Nat
  /-- resource ↦ (soft, hard), both as unsigned 64-bit values -/
  rlimits : Nat → Nat × Nat
  /-- the process is NOT owned by the caller (its uids differ from the caller's effective uid):
      changing it needs CAP_SYS_NICE (scheduling attributes) / CAP_SYS_RESOURCE (limits) -/
  foreign : Bool := false

/-- successful kernel state changes, in order -/
inductive Eff
  | nice (pid : Nat) (v : Int)
  | ioprio (pid : Nat) (v : Nat)
  | affinity (pid : Nat) (cpus : List Nat)
  | rlimit (pid res soft hard : Nat)
  deriving DecidableEq, Repr

structure Kernel where
  procs : Nat → Option PState
  /-- the calling process: `who = 0` in every syscall below means this PID -/
  self : Nat
  /-- CPU ids `0 .. ncpu-1` are possible (`nr_cpu_ids`); which of them are online and usable by a
      process is folded into its `cpuset` (= cpuset ∩ online: any finite set, holes allowed) -/
  ncpu : Nat
  /-- number of `cpuN` lines of `/proc/stat` = `len(per_cpu_times())`: one per ONLINE CPU on a real
      kernel (so smaller than the highest id + 1 when a CPU in the middle is offline), anything a
      virtualised procfs (lxcfs) chooses to show in a container. The kernel never looks at it. -/
  statCpus : Nat := ncpu
  /-- `fs.nr_open` -/
  nrOpen : Nat
  /-- does the caller hold CAP_SYS_RESOURCE (may raise hard limits)? -/
  capResource : Bool
  /-- does the caller hold CAP_SYS_NICE (may lower niceness, use the RT I/O class, touch foreign processes)? -/
  capNice : Bool := true
  log : List Eff

inductive Errno | ESRCH | EINVAL | EPERM | EACCES
  deriving DecidableEq, Repr

def resolve (k : Kernel) (who : Nat) : Nat := if who = 0 then k.self else who

def setProc (k : Kernel) (p : Nat) (st : PState) (e : Eff) : Kernel :=
  { k with procs := fun q => if q = p then some st else k.procs q, log := k.log ++ [e] }

def clampNice (v : Int) : Int := if v < -20 then -20 else if v > 19 then 19 else v

def sysGetpriority (k : Kernel) (who : Nat) : Except Errno Int :=
  match k.procs (resolve k who) with
  | none => .error .ESRCH
  | some st => .ok st.nice

/-- setpriority(2): "attempts to set a priority outside this range are silently clamped" -/
def sysSetpriority (k : Kernel) (who : Nat) (v : Int) : Except Errno Kernel :=
  let p := resolve k who
  match k.procs p with
  | none => .error .ESRCH
  | some st => .ok (setProc k p { st with nice := clampNice v } (.nice p (clampNice v)))

/-- kernel ABI (include/uapi/linux/ioprio.h): class in bits 13..15, level in bits 0..2 -/
def abiClassShift : Nat := 13
def ioprioClassOf (v : Nat) : Nat := (v >>> abiClassShift) % 8
def ioprioLevelOf (v : Nat) : Nat := v % 8

/-- `ioprio_check_cap` of Linux 6.x: RT/BE any level 0..7, IDLE always, NONE only level 0,
    classes 4..7 invalid. -/
def ioprioAccepted (v : Nat) : Bool :=
  match ioprioClassOf v with
  | 0 => ioprioLevelOf v == 0
  | 1 => true
  | 2 => true
  | 3 => true
  | _ => false

def sysIoprioGet (k : Kernel) (who : Nat) : Except Errno Nat :=
  match k.procs (resolve k who) with
  | none => .error .ESRCH
  | some st => .ok st.ioprio

/-- `ioprio_set(IOPRIO_WHO_PROCESS, who, v)` for `0 ≤ v < 2^31`; stored as `unsigned short` -/
def sysIoprioSet (k : Kernel) (who : Nat) (v : Nat) : Except Errno Kernel :=
  let p := resolve k who
  if ioprioAccepted v then
    match k.procs p with
    | none => .error .ESRCH
    | some st => .ok (setProc k p { st with ioprio := v % 65536 } (.ioprio p (v % 65536)))
  else .error .EINVAL

def sysSchedGetaffinity (k : Kernel) (who : Nat) : Except Errno (List Nat) :=
  match k.procs (resolve k who) with
  | none => .error .ESRCH
  | some st => .ok st.affinity

/-- CPUs of the request the process is allowed to run on, ascending -/
def grantedCpus (k : Kernel) (st : PState) (mask : List Nat) : List Nat :=
  (List.range k.ncpu).filter fun c => mask.contains c && st.cpuset.contains c

/-- sched_setaffinity(2): the mask is intersected with the CPUs the process may use;
    EINVAL when nothing is left. -/
def sysSchedSetaffinity (k : Kernel) (who : Nat) (mask : List Nat) : Except Errno Kernel :=
  let p := resolve k who
  match k.procs p with
  | none => .error .ESRCH
  | some st =>
    let g := grantedCpus k st mask
    if g.isEmpty then .error .EINVAL
    else .ok (setProc k p { st with affinity := g } (.affinity p g))

def rlimNLimits : Nat := 16
def rlimitNofile : Nat := 7

def sysPrlimitGet (k : Kernel) (who res : Nat) : Except Errno (Nat × Nat) :=
  match k.procs (resolve k who) with
  | none => .error .ESRCH
  | some st => .ok (st.rlimits res)

/-- `do_prlimit`: soft > hard → EINVAL; NOFILE above fs.nr_open → EPERM; raising the hard
    limit without CAP_SYS_RESOURCE → EPERM. -/
def sysPrlimitSet (k : Kernel) (who res soft hard : Nat) : Except Errno Kernel :=
  let p := resolve k who
  match k.procs p with
  | none => .error .ESRCH
  | some st =>
    if soft > hard then .error .EINVAL
    else if res = rlimitNofile ∧ hard > k.nrOpen then .error .EPERM
    else if hard > (st.rlimits res).2 ∧ k.capResource = false then .error .EPERM
    else .ok (setProc k p
      { st with rlimits := fun r => if r = res then (soft, hard) else st.rlimits r }
      (.rlimit p res soft hard))


/-! #### who may do what (the EPERM / EACCES sections of setpriority(2), ioprio_set(2),
    sched_setaffinity(2), prlimit(2))

  The functions above are the kernel's rules for a caller that is permitted to act on the process.
  The complete system calls are the `…P` functions: the permission test the kernel makes first, then
  the rule above. Reading niceness, I/O priority and the affinity mask needs no privilege. -/

def rlimitNice : Nat := 13

/-- `can_nice()`: CAP_SYS_NICE, or the new value is allowed by the target's RLIMIT_NICE (soft) -/
def canNice (k : Kernel) (st : PState) (v : Int) : Bool :=
  k.capNice || decide (20 - v ≤ ((st.rlimits rlimitNice).1 : Int))

/-- `set_one_prio`: foreign process without CAP_SYS_NICE → EPERM; lowering the value without
    `can_nice` → EACCES -/
def permNice (k : Kernel) (who : Nat) (v : Int) : Option Errno :=
  match k.procs (resolve k who) with
  | none => none
  | some st =>
    if st.foreign && !k.capNice then some .EPERM
    else if decide (clampNice v < st.nice) && !canNice k st (clampNice v) then some .EACCES
    else none

def sysSetpriorityP (k : Kernel) (who : Nat) (v : Int) : Except Errno Kernel :=
  match permNice k who v with
  | some e => .error e
  | none => sysSetpriority k who v

/-- `ioprio_check_cap` (the RT class needs CAP_SYS_NICE; comes before the task is looked up), then
    `set_task_ioprio` (foreign process without CAP_SYS_NICE → EPERM) -/
def permIoprio (k : Kernel) (who : Nat) (v : Nat) : Option Errno :=
  if !ioprioAccepted v then none
  else if ioprioClassOf v == 1 && !k.capNice then some .EPERM
  else match k.procs (resolve k who) with
    | none => none
    | some st => if st.foreign && !k.capNice then some .EPERM else none

def sysIoprioSetP (k : Kernel) (who : Nat) (v : Nat) : Except Errno Kernel :=
  match permIoprio k who v with
  | some e => .error e
  | none => sysIoprioSet k who v

/-- `check_same_owner` or CAP_SYS_NICE, after the task was found and before the mask is looked at -/
def permAffinity (k : Kernel) (who : Nat) : Option Errno :=
  match k.procs (resolve k who) with
  | none => none
  | some st => if st.foreign && !k.capNice then some .EPERM else none

def sysSchedSetaffinityP (k : Kernel) (who : Nat) (mask : List Nat) : Except Errno Kernel :=
  match permAffinity k who with
  | some e => .error e
  | none => sysSchedSetaffinity k who mask

/-- `check_prlimit_permission` (get and set alike): same owner or CAP_SYS_RESOURCE -/
def permPrlimit (k : Kernel) (who : Nat) : Option Errno :=
  match k.procs (resolve k who) with
  | none => none
  | some st => if st.foreign && !k.capResource then some .EPERM else none

def sysPrlimitGetP (k : Kernel) (who res : Nat) : Except Errno (Nat × Nat) :=
  match permPrlimit k who with
  | some e => .error e
  | none => sysPrlimitGet k who res

def sysPrlimitSetP (k : Kernel) (who res soft hard : Nat) : Except Errno Kernel :=
  match permPrlimit k who with
  | some e => .error e
  | none => sysPrlimitSet k who res soft hard

/-- sched_getaffinity(2) with a user buffer of `bits` bits: "EINVAL: cpusetsize is smaller than the
    size of the affinity mask used by the kernel" (`len * 8 < nr_cpu_ids`, tested before the task
    is looked up); `ncpu` is `nr_cpu_ids` -/
def sysSchedGetaffinityLen (k : Kernel) (who : Nat) (bits : Nat) : Except Errno (List Nat) :=
  if bits < k.ncpu then .error .EINVAL else sysSchedGetaffinity k who

/-! ### 2. native layer -/

/-- what a native function can raise -/
inductive NErr
  | os (e : Errno)
  /-- `PyErr_SetFromErrno` with an errno value the simulated kernel never produces (a stale one) -/
  | osRaw (n : Nat)
  | valueError
  | overflowError
  /-- C-level undefined behaviour (signed shift overflow in `IOPRIO_PRIO_VALUE`): property C17 -/
  | undefinedC
  /-- the native function does not return (a retry loop that makes no progress) -/
  | hang
  deriving DecidableEq, Repr

def ofSys {α : Type} : Except Errno α → Except NErr α
  | .ok a => .ok a
  | .error e => .error (.os e)

def fitsCInt (v : Int) : Bool := decide (-2147483648 ≤ v ∧ v ≤ 2147483647)
def fitsCLong (v : Int) : Bool := decide (-9223372036854775808 ≤ v ∧ v ≤ 9223372036854775807)

/-- `_psutil_posix.getpriority(pid)` -/
def cextGetpriority (k : Kernel) (pid : Nat) : Except NErr Int := ofSys (sysGetpriority k pid)

/-- `_psutil_posix.setpriority(pid, value)`: `"i"` conversion, then the syscall -/
def cextSetpriority (k : Kernel) (pid : Nat) (v : Int) : Except NErr Kernel :=
  if fitsCInt v then ofSys (sysSetpriority k pid v) else .error .overflowError

/-! #### the errno protocol of the native getters

  `getpriority(2)`, `ioprio_get(2)` and `sched_getaffinity(2)` report failure by returning −1 and
  writing `errno`; on success `errno` is left as it was — possibly non-zero from an unrelated
  earlier failure in the same thread. The value of `errno` on entry is therefore an INPUT of the
  native layer. Whether the wrapper clears it and which test it applies are translator facts. -/

/-- how a wrapper decides that the libc call failed -/
inductive ErrTest
  /-- `if (errno != 0)` -/
  | errnoOnly
  /-- `if (r == -1 && errno != 0)` -/
  | sentinelAndErrno
  /-- `if (r == -1)` (for `sched_getaffinity`: `!= 0`) -/
  | sentinelOnly
  deriving DecidableEq, Repr

def ErrTest.ofCode : Nat → ErrTest
  | 0 => .errnoOnly
  | 1 => .sentinelAndErrno
  | _ => .sentinelOnly

structure GetterProto where
  /-- `errno = 0;` is executed before the libc call -/
  clears : Bool
  test : ErrTest
  deriving DecidableEq, Repr

def errnoCode : Errno → Nat
  | .EPERM => 1
  | .ESRCH => 3
  | .EACCES => 13
  | .EINVAL => 22

/-- a libc call with the −1 sentinel: (return value, errno afterwards) -/
def libcCall (r : Except Errno Int) (errnoBefore : Nat) : Int × Nat :=
  match r with
  | .ok v => (v, errnoBefore)
  | .error e => (-1, errnoCode e)

def callFailed (t : ErrTest) (r : Int) (e : Nat) : Bool :=
  match t with
  | .errnoOnly => e != 0
  | .sentinelAndErrno => r == -1 && e != 0
  | .sentinelOnly => r == -1

/-- `PyErr_SetFromErrno(PyExc_OSError)` with `errno = n` -/
def nerrOfErrno (n : Nat) : NErr :=
  if n = 1 then .os .EPERM else if n = 3 then .os .ESRCH else if n = 13 then .os .EACCES
  else if n = 22 then .os .EINVAL else .osRaw n

/-- a native getter around a sentinel call: (clear errno,) call, test, raise from errno or return -/
def nativeGetter (p : GetterProto) (sys : Except Errno Int) (errnoIn : Nat) : Except NErr Int :=
  let r := libcCall sys (if p.clears then 0 else errnoIn)
  if callFailed p.test r.1 r.2 then .error (nerrOfErrno r.2) else .ok r.1

/-- `_psutil_posix.getpriority(pid)` entered with `errno = errnoIn` -/
def cextGetpriorityE (p : GetterProto) (k : Kernel) (pid : Nat) (errnoIn : Nat) : Except NErr Int :=
  nativeGetter p (sysGetpriority k pid) errnoIn

/-- `IOPRIO_PRIO_VALUE(class, data)` with the shift of the C source -/
def ioprioPack (shift cls data : Nat) : Nat := (cls <<< shift) ||| data
/-- `IOPRIO_PRIO_CLASS(mask)` / `IOPRIO_PRIO_DATA(mask)` -/
def ioprioUnpack (shift v : Nat) : Nat × Nat := (v >>> shift, v &&& ((1 <<< shift) - 1))

/-- `psutil_proc_ioprio_get` -/
def cextIoprioGet (shift : Nat) (k : Kernel) (pid : Nat) : Except NErr (Nat × Nat) :=
  match sysIoprioGet k pid with
  | .error e => .error (.os e)
  | .ok v => .ok (ioprioUnpack shift v)

/-- `psutil_proc_ioprio_get` entered with `errno = errnoIn`: `ioprio_get` returns the value (≥ 0) or −1 -/
def cextIoprioGetE (p : GetterProto) (shift : Nat) (k : Kernel) (pid : Nat) (errnoIn : Nat) :
    Except NErr (Nat × Nat) :=
  match nativeGetter p (match sysIoprioGet k pid with | .ok v => .ok (Int.ofNat v) | .error e => .error e) errnoIn with
  | .error e => .error e
  | .ok v => .ok (ioprioUnpack shift v.toNat)

/-- an optional argument check in `psutil_proc_ioprio_set` before the packing:
    `if (ioclass < a || ioclass > b || iodata < c || iodata > d)` → ValueError, or
    OSError(EINVAL) when `einval` -/
def outOfNativeRange (range : Option (Int × Int × Int × Int)) (cls data : Int) : Bool :=
  match range with
  | none => false
  | some (a, b, c, d) => decide (cls < a ∨ cls > b ∨ data < c ∨ data > d)

/-- `psutil_proc_ioprio_set`: two `"i"` conversions, (the optional range check,) `(class << SHIFT) | data` in C `int`
    arithmetic (defined only while the result stays a non-negative `int`), the syscall -/
def cextIoprioSet (shift : Nat) (range : Option (Int × Int × Int × Int)) (einval : Bool) (k : Kernel)
    (pid : Nat) (cls data : Int) : Except NErr Kernel :=
  if !(fitsCInt cls && fitsCInt data) then .error .overflowError
  else if outOfNativeRange range cls data then .error (if einval then .os .EINVAL else .valueError)
  else if cls < 0 ∨ data < 0 then .error .undefinedC
  else
    let v := ioprioPack shift cls.toNat data.toNat
    if v < 2147483648 then ofSys (sysIoprioSet k pid v) else .error .undefinedC

/-- `psutil_proc_cpu_affinity_get`: the set bits of the mask, ascending -/
def cextAffinityGet (k : Kernel) (pid : Nat) : Except NErr (List Nat) :=
  ofSys (sysSchedGetaffinity k pid)

/-- `psutil_proc_cpu_affinity_get` entered with `errno = errnoIn`: `sched_getaffinity` returns 0 or −1,
    the mask is an out-parameter -/
def cextAffinityGetE (p : GetterProto) (k : Kernel) (pid : Nat) (errnoIn : Nat) : Except NErr (List Nat) :=
  match nativeGetter p (match sysSchedGetaffinity k pid with | .ok _ => .ok 0 | .error e => .error e) errnoIn with
  | .error e => .error e
  | .ok _ =>
    match sysSchedGetaffinity k pid with
    | .ok m => .ok m
    | .error e => .error (.os e)

/-- glibc `CPU_SETSIZE`: `CPU_SET(v, &set)` is a no-op for `v` outside `0..1023` -/
def cpuSetSize : Nat := 1024

/-- the loop of `psutil_proc_cpu_affinity_set` over the sequence: `PyLong_AsLong`, `-1` is
    "invalid CPU value", out-of-range numbers are dropped by `CPU_SET` -/
def cpuSetOfSeq : List Int → Except NErr (List Nat)
  | [] => .ok []
  | v :: rest =>
    if !fitsCLong v then .error .overflowError
    else if v = -1 then .error .valueError
    else match cpuSetOfSeq rest with
      | .error e => .error e
      | .ok m => .ok (if 0 ≤ v ∧ v < 1024 then v.toNat :: m else m)

def cextAffinitySet (k : Kernel) (pid : Nat) (cpus : List Int) : Except NErr Kernel :=
  match cpuSetOfSeq cpus with
  | .error e => .error e
  | .ok mask => ofSys (sysSchedSetaffinity k pid mask)


/-! #### failure tests of the native setters; the sizing loop of the affinity getter -/

/-- `retval = call(…); if (retval == -1) return PyErr_SetFromErrno(PyExc_OSError);` — when the
    wrapper does not test the return value (`checks = false`) a refused call goes unnoticed: the
    function returns None and the kernel is as before -/
def checkedCall (checks : Bool) (k : Kernel) : Except Errno Kernel → Except NErr Kernel
  | .ok k' => .ok k'
  | .error e => if checks then .error (.os e) else .ok k

/-- `_psutil_posix.setpriority(pid, value)` against the complete system call -/
def cextSetpriorityP (checks : Bool) (k : Kernel) (pid : Nat) (v : Int) : Except NErr Kernel :=
  if fitsCInt v then checkedCall checks k (sysSetpriorityP k pid v) else .error .overflowError

/-- `psutil_proc_ioprio_set` against the complete system call -/
def cextIoprioSetP (checks : Bool) (shift : Nat) (range : Option (Int × Int × Int × Int)) (einval : Bool)
    (k : Kernel) (pid : Nat) (cls data : Int) : Except NErr Kernel :=
  if !(fitsCInt cls && fitsCInt data) then .error .overflowError
  else if outOfNativeRange range cls data then .error (if einval then .os .EINVAL else .valueError)
  else if cls < 0 ∨ data < 0 then .error .undefinedC
  else
    let v := ioprioPack shift cls.toNat data.toNat
    if v < 2147483648 then checkedCall checks k (sysIoprioSetP k pid v) else .error .undefinedC

/-- `psutil_proc_cpu_affinity_set` against the complete system call -/
def cextAffinitySetP (checks : Bool) (k : Kernel) (pid : Nat) (cpus : List Int) : Except NErr Kernel :=
  match cpuSetOfSeq cpus with
  | .error e => .error e
  | .ok mask => checkedCall checks k (sysSchedSetaffinityP k pid mask)

/-- the sizing loop of `psutil_proc_cpu_affinity_get` (proc.c): start with a mask of `initBits`
    CPUs, call `sched_getaffinity`, on failure decide from errno whether to give up or to retry
    with `ncpus * mul + add` CPUs -/
structure AffLoop where
  /-- `ncpus = sizeof(unsigned long) * CHAR_BIT` -/
  initBits : Nat
  /-- which failures are retried: 0 = only EINVAL (`if (errno != EINVAL) return error`),
      1 = everything but EINVAL (test flipped), 2 = every failure (no test), other = none -/
  retry : Nat
  mul : Nat
  add : Nat
  deriving DecidableEq, Repr

/-- `CPU_ALLOC_SIZE(n)` in bits: whole `unsigned long`s -/
def cpuAllocBits (n : Nat) : Nat := (n + 63) / 64 * 64

def retryOn (code : Nat) (e : NErr) : Bool :=
  match code with
  | 0 => e == .os .EINVAL
  | 1 => e != .os .EINVAL
  | 2 => true
  | _ => false

/-- `INT_MAX / 2`: beyond it the loop gives up with OverflowError -/
def intMaxHalf : Nat := 1073741823

/-- the loop; `fuel` bounds the number of iterations (a loop that makes no progress is `hang`) -/
def affGetLoop (test : ErrTest) (l : AffLoop) (k : Kernel) (pid : Nat) : Nat → Nat → Nat → Except NErr (List Nat)
  | 0, _, _ => .error .hang
  | fuel + 1, ncpus, errno =>
    let sys := sysSchedGetaffinityLen k pid (cpuAllocBits ncpus)
    let r := libcCall (match sys with | .ok _ => .ok 0 | .error e => .error e) errno
    if callFailed test r.1 r.2 then
      if retryOn l.retry (nerrOfErrno r.2) then
        if ncpus > intMaxHalf then .error .overflowError
        else affGetLoop test l k pid fuel (ncpus * l.mul + l.add) r.2
      else .error (nerrOfErrno r.2)
    else
      match sys with
      | .ok m => .ok m
      | .error e => .error (.os e)

/-- `psutil_proc_cpu_affinity_get` entered with `errno = errnoIn`, with its sizing loop -/
def cextAffinityGetL (p : GetterProto) (l : AffLoop) (k : Kernel) (pid : Nat) (errnoIn : Nat) :
    Except NErr (List Nat) :=
  affGetLoop p.test l k pid 40 l.initBits (if p.clears then 0 else errnoIn)

/-- Python `int` → `rlim_t` (`PyLong_AsLong`, two's complement) and back -/
def toU64 (v : Int) : Nat := if v < 0 then (v + 18446744073709551616).toNat else v.toNat
def ofU64 (n : Nat) : Int := if n ≥ 9223372036854775808 then (n : Int) - 18446744073709551616 else n

def resourceCheck (res : Int) : Except NErr Nat :=
  if !fitsCInt res then .error .overflowError
  else if res < 0 ∨ res ≥ 16 then .error .valueError      -- "invalid resource specified"
  else .ok res.toNat

/-- CPython `resource.prlimit(pid, resource)` -/
def pyPrlimitGet (k : Kernel) (pid : Nat) (res : Int) : Except NErr (Int × Int) :=
  match resourceCheck res with
  | .error e => .error e
  | .ok r =>
    match sysPrlimitGet k pid r with
    | .error e => .error (.os e)
    | .ok (s, h) => .ok (ofU64 s, ofU64 h)

/-- CPython `resource.prlimit(pid, resource, limits)`; the kernel's EINVAL is turned into
    ValueError("current limit exceeds maximum limit") by CPython -/
def pyPrlimitSet (k : Kernel) (pid : Nat) (res : Int) (limits : List Int) : Except NErr Kernel :=
  match resourceCheck res with
  | .error e => .error e
  | .ok r =>
    match limits with
    | [s, h] =>
      if !(fitsCLong s && fitsCLong h) then .error .overflowError
      else match sysPrlimitSet k pid r (toU64 s) (toU64 h) with
        | .ok k' => .ok k'
        | .error .EINVAL => .error .valueError
        | .error e => .error (.os e)
    | _ => .error .valueError                              -- "expected a tuple of 2 integers"


/-- `resource.prlimit(pid, resource)` against the complete system call -/
def pyPrlimitGetP (k : Kernel) (pid : Nat) (res : Int) : Except NErr (Int × Int) :=
  match resourceCheck res with
  | .error e => .error e
  | .ok r =>
    match sysPrlimitGetP k pid r with
    | .error e => .error (.os e)
    | .ok (s, h) => .ok (ofU64 s, ofU64 h)

/-- `resource.prlimit(pid, resource, limits)` against the complete system call -/
def pyPrlimitSetP (k : Kernel) (pid : Nat) (res : Int) (limits : List Int) : Except NErr Kernel :=
  match resourceCheck res with
  | .error e => .error e
  | .ok r =>
    match limits with
    | [s, h] =>
      if !(fitsCLong s && fitsCLong h) then .error .overflowError
      else match sysPrlimitSetP k pid r (toU64 s) (toU64 h) with
        | .ok k' => .ok k'
        | .error .EINVAL => .error .valueError
        | .error e => .error (.os e)
    | _ => .error .valueError

/-! ### 3. `_pslinux.Process` -/

/-- facts the translator re-derives from the source on every run -/
structure Cfg where
  /-- `IOPRIO_CLASS_SHIFT` of arch/linux/proc.c -/
  shift : Nat
  /-- the three `IOPRIO_PRIO_*` macros have the canonical shape
      (`mask >> SHIFT`, `mask & ((1UL << SHIFT) - 1)`, `(class << SHIFT) | data`) -/
  macrosCanonical : Bool
  /-- bounds `(a, b, c, d)` of a range check on (ioclass, iodata) in `psutil_proc_ioprio_set`
      before the packing, if there is one -/
  nativeRange : Option (Int × Int × Int × Int)
  /-- that check raises OSError(EINVAL) (true) or ValueError (false) -/
  nativeRangeEinval : Bool
  /-- `if value is None: value = defaultLevel` in `ionice_set` -/
  defaultLevel : Int
  /-- `value < levelMin or value > levelMax` in `ionice_set` -/
  levelMin : Int
  levelMax : Int
  /-- the classes that "accept no value" in `ionice_set` -/
  noValueClasses : List Int
  /-- the members of the `IOPriority` enum -/
  enumClasses : List Nat
  /-- `len(limits) != pairLen` in `rlimit` -/
  pairLen : Nat
  /-- `ionice(value=…)` without a class raises ValueError in the front end -/
  valueWithoutClassRaises : Bool
  /-- `rlimit` refuses PID 0 -/
  pid0Refused : Bool
  /-- `cpu_affinity([])`: `some n` = ask the kernel for CPUs `0..n-1` and let it keep the
      eligible ones; `none` = use `_get_eligible_cpus()` (which reads the *current* mask) -/
  emptyAsksAll : Option Nat
  /-- `cpu_affinity([])` asks for `tuple(range(len(cpu_times(percpu=True))))` — CPUs `0..N-1`, N the
      number of `cpuN` lines of `/proc/stat` (the other platforms' branch; seeded C18-2 on Linux);
      takes precedence over `emptyAsksAll` -/
  emptyAsksCount : Bool
  /-- the get form returns `sorted(set(…))` of what the native layer reports -/
  getSortedSet : Bool
  /-- the set form hands `list(set(cpus))` to the platform layer -/
  setDedup : Bool
  /-- errno protocol of `_psutil_posix.c:psutil_posix_getpriority` -/
  prioGet : GetterProto
  /-- errno protocol of `proc.c:psutil_proc_ioprio_get` -/
  ioprioGet : GetterProto
  /-- errno protocol of `proc.c:psutil_proc_cpu_affinity_get` -/
  affGet : GetterProto
  /-- `cpu_affinity_set`: when the diagnosis loop finds no offending CPU, the kernel's EINVAL is
      raised as ValueError (`fixes/C18-ineligible-valueerror.diff`) instead of being passed on -/
  einvalValueError : Bool
  /-- `cpu_affinity_set` also catches the OverflowError of `PyLong_AsLong` (a CPU number that does
      not fit a C long) and sends it through the same diagnosis loop
      (`fixes/C18-affinity-overflow-valueerror.diff`); false = it propagates as OverflowError -/
  overflowValueError : Bool
  /-- `psutil_posix_setpriority` / `psutil_proc_ioprio_set` / `psutil_proc_cpu_affinity_set` test the
      return value of the system call and raise from errno -/
  setPrioChecks : Bool
  ioprioSetChecks : Bool
  affSetChecks : Bool
  /-- the sizing loop of `psutil_proc_cpu_affinity_get` -/
  affLoop : AffLoop

inductive Exc
  | valueError
  | overflowError
  /-- raised by the interpreter before any native call (`len()` of an iterator) -/
  | typeError
  | osError (e : Errno)
  /-- an OSError carrying a stale errno value -/
  | osRaw (n : Nat)
  | accessDenied (pid : Nat)
  | noSuchProcess (pid : Nat)
  | undefinedC
  | hang
  deriving DecidableEq, Repr

inductive Val
  | none
  | int (v : Int)
  | ionice (cls data : Nat)
  | cpus (l : List Nat)
  | limits (soft hard : Int)
  deriving DecidableEq, Repr

inductive Out
  | ok (v : Val)
  | exc (e : Exc)
  deriving DecidableEq, Repr

/-- `wrap_exceptions` applied to what the native layer raised -/
def wrapExc (pid : Nat) : NErr → Exc
  | .os .EPERM => .accessDenied pid
  | .os .ESRCH => .noSuchProcess pid
  | .os .EACCES => .accessDenied pid                               -- PermissionError as well
  | .os e => .osError e
  | .osRaw n => if n = 13 then .accessDenied pid else .osRaw n     -- EACCES is a PermissionError too
  | .valueError => .valueError
  | .overflowError => .overflowError
  | .undefinedC => .undefinedC
  | .hang => .hang

def niceGet (k : Kernel) (pid : Nat) : Out × Kernel :=
  match cextGetpriority k pid with
  | .ok v => (.ok (.int v), k)
  | .error e => (.exc (wrapExc pid e), k)

def niceSet (k : Kernel) (pid : Nat) (v : Int) : Out × Kernel :=
  match cextSetpriority k pid v with
  | .ok k' => (.ok .none, k')
  | .error e => (.exc (wrapExc pid e), k)

def ioniceGet (c : Cfg) (k : Kernel) (pid : Nat) : Out × Kernel :=
  match cextIoprioGet c.shift k pid with
  | .error e => (.exc (wrapExc pid e), k)
  | .ok (cls, data) =>
    if c.enumClasses.contains cls then (.ok (.ionice cls data), k)   -- IOPriority(ioclass)
    else (.exc .valueError, k)

def ioniceSet (c : Cfg) (k : Kernel) (pid : Nat) (ioclass : Int) (value : Option Int) : Out × Kernel :=
  let value := value.getD c.defaultLevel
  if value ≠ 0 ∧ c.noValueClasses.contains ioclass then (.exc .valueError, k)
  else if value < c.levelMin ∨ value > c.levelMax then (.exc .valueError, k)
  else match cextIoprioSet c.shift c.nativeRange c.nativeRangeEinval k pid ioclass value with
    | .ok k' => (.ok .none, k')
    | .error e => (.exc (wrapExc pid e), k)

/-- end of the run of consecutive CPU numbers that starts at `a` -/
def runEnd : Nat → List Nat → Nat
  | a, [] => a
  | a, b :: rest => if b = a + 1 then runEnd b rest else a

/-- what the regex `Cpus_allowed_list:\t(\d+)-(\d+)` finds in `/proc/<pid>/status`: the kernel
    prints the *current* mask as a list of ranges (`0-3,5,7-8`), a range only for two or more
    consecutive CPUs; the regex matches only when the list *starts* with a range -/
def statusRange : List Nat → Option (Nat × Nat)
  | [] => none
  | a :: rest => if runEnd a rest > a then some (a, runEnd a rest) else none

/-- `_get_eligible_cpus()`; reads `/proc/<pid>/status` of exactly that PID -/
def getEligibleCpus (k : Kernel) (pid : Nat) : Option (List Nat) :=
  match k.procs pid with
  | none => none
  | some st =>
    match statusRange st.affinity with
    | some (a, b) => some (List.range' a (b + 1 - a))
    | none => some (List.range k.statCpus)

/-- the diagnosis loop of `cpu_affinity_set`: first offending CPU decides -/
def diagnose (all eligible : List Nat) : List Int → Bool
  | [] => false
  | cpu :: rest =>
    if cpu < 0 ∨ !all.contains cpu.toNat then true
    else if !eligible.contains cpu.toNat then true
    else diagnose all eligible rest

def cpuAffinitySet (k : Kernel) (pid : Nat) (cpus : List Int) : Out × Kernel :=
  match cextAffinitySet k pid cpus with
  | .ok k' => (.ok .none, k')
  | .error e =>
    if e = .valueError ∨ e = .os .EINVAL then
      match getEligibleCpus k pid with
      | none => (.exc (.noSuchProcess pid), k)
      | some eligible =>
        if diagnose (List.range k.statCpus) eligible cpus then (.exc .valueError, k)
        else (.exc (wrapExc pid e), k)
    else (.exc (wrapExc pid e), k)

def rlimitL (c : Cfg) (k : Kernel) (pid : Nat) (res : Int) (limits : Option (List Int)) : Out × Kernel :=
  if pid = 0 ∧ c.pid0Refused then (.exc .valueError, k)
  else match limits with
    | none =>
      match pyPrlimitGet k pid res with
      | .ok (s, h) => (.ok (.limits s h), k)
      | .error e => (.exc (wrapExc pid e), k)
    | some l =>
      if l.length ≠ c.pairLen then (.exc .valueError, k)
      else match pyPrlimitSet k pid res l with
        | .ok k' => (.ok .none, k')
        | .error e => (.exc (wrapExc pid e), k)

/-! ### 4. `psutil.Process` -/

/-- insert into an ascending duplicate-free list -/
def insertU (x : Nat) : List Nat → List Nat
  | [] => [x]
  | y :: ys => if x < y then x :: y :: ys else if x = y then y :: ys else y :: insertU x ys

/-- `sorted(set(xs))` -/
def sortedSet (xs : List Nat) : List Nat := xs.foldr insertU []

/-- `list(set(cpus))`: each value once (the order of a Python set is not modelled; the result
    does not depend on it — `C18_affinity_order_irrelevant`) -/
def pySet (cpus : List Int) : List Int := cpus.eraseDups

inductive Req
  | nice (value : Option Int)
  | ionice (ioclass value : Option Int)
  | cpuAffinity (cpus : Option (List Int))
  | rlimit (res : Int) (limits : Option (List Int))
  deriving DecidableEq, Repr

def dedup (c : Cfg) (cpus : List Int) : List Int := if c.setDedup then pySet cpus else cpus

def cpuAffinity (c : Cfg) (k : Kernel) (pid : Nat) : Option (List Int) → Out × Kernel
  | none =>
    match cextAffinityGet k pid with
    | .ok l => (.ok (.cpus (if c.getSortedSet then sortedSet l else l)), k)
    | .error e => (.exc (wrapExc pid e), k)
  | some cpus =>
    if cpus.isEmpty then
      if c.emptyAsksCount then cpuAffinitySet k pid (dedup c ((List.range k.statCpus).map Int.ofNat))
      else match c.emptyAsksAll with
      | some n => cpuAffinitySet k pid (dedup c ((List.range n).map Int.ofNat))
      | none =>
        match getEligibleCpus k pid with
        | none => (.exc (.noSuchProcess pid), k)
        | some el => cpuAffinitySet k pid (dedup c (el.map Int.ofNat))
    else cpuAffinitySet k pid (dedup c cpus)

/-- one public call on `psutil.Process(pid)` in the SUPERSEDED shape of the code and of the world: a caller
    that is permitted everything, native wrappers without errno protocol / failure tests / sizing
    loop, `cpu_affinity_set` before aebc260. Kept as the proof layer the refinement goes through
    (`stepX` equals it under `Cfg.Good` for permitted callers); what the driver runs is `stepPy`. -/
def step (c : Cfg) (k : Kernel) (pid : Nat) : Req → Out × Kernel
  | .nice none => niceGet k pid
  | .nice (some v) => niceSet k pid v
  | .ionice none none => ioniceGet c k pid
  | .ionice none (some _) =>
    if c.valueWithoutClassRaises then (.exc .valueError, k) else ioniceGet c k pid
  | .ionice (some cls) value => ioniceSet c k pid cls value
  | .cpuAffinity cpus => cpuAffinity c k pid cpus
  | .rlimit res limits => rlimitL c k pid res limits

/-! ### 5. the same calls in an execution context

  Two things that are not arguments of the call can reach the code: the value of the C `errno`
  on entry of a native getter (left over from any earlier failed system call of the thread), and
  — inside `Process.oneshot()` — the cached copy of `/proc/<pid>/status`, which may predate a
  change of the affinity mask made inside the same block. The property says neither matters. -/

structure Ctx where
  /-- C `errno` of the calling thread when the native function is entered -/
  errnoIn : Nat
  /-- the affinity mask printed in the cached status file (`none`: the file is read now) -/
  statusMask : Option (List Nat)

/-- `_get_eligible_cpus()` on a status file showing the mask `m` -/
def eligibleOfMask (k : Kernel) (m : List Nat) : List Nat :=
  match statusRange m with
  | some (a, b) => List.range' a (b + 1 - a)
  | none => List.range k.statCpus

def getEligibleCpusX (k : Kernel) (pid : Nat) : Option (List Nat) → Option (List Nat)
  | none => getEligibleCpus k pid
  | some m => some (eligibleOfMask k m)

/-- `cpu_affinity_set` with `elig` = what `_get_eligible_cpus()` returns, and the optional
    EINVAL → ValueError fall-through after the diagnosis loop -/
def cpuAffinitySetWith (einvalVE : Bool) (elig : Option (List Nat)) (k : Kernel) (pid : Nat)
    (cpus : List Int) : Out × Kernel :=
  match cextAffinitySet k pid cpus with
  | .ok k' => (.ok .none, k')
  | .error e =>
    if e = .valueError ∨ e = .os .EINVAL then
      match elig with
      | none => (.exc (.noSuchProcess pid), k)
      | some eligible =>
        if diagnose (List.range k.statCpus) eligible cpus then (.exc .valueError, k)
        else if einvalVE = true ∧ e = .os .EINVAL then (.exc .valueError, k)
        else (.exc (wrapExc pid e), k)
    else (.exc (wrapExc pid e), k)

/-- `cpu_affinity_set` as the driver runs it: the native setter against the complete system call
    (`affSetChecks`), `except (OSError, ValueError[, OverflowError]) as err` (`overflowValueError`),
    the diagnosis loop over `elig` = what `_get_eligible_cpus()` returns, the EINVAL → ValueError
    fall-through (`einvalValueError`) -/
def cpuAffinitySetP (c : Cfg) (elig : Option (List Nat)) (k : Kernel) (pid : Nat) (cpus : List Int) :
    Out × Kernel :=
  match cextAffinitySetP c.affSetChecks k pid cpus with
  | .ok k' => (.ok .none, k')
  | .error e =>
    if e = .valueError ∨ e = .os .EINVAL ∨ (c.overflowValueError = true ∧ e = .overflowError) then
      match elig with
      | none => (.exc (.noSuchProcess pid), k)
      | some eligible =>
        if diagnose (List.range k.statCpus) eligible cpus then (.exc .valueError, k)
        else if c.einvalValueError = true ∧ e = .os .EINVAL then (.exc .valueError, k)
        else (.exc (wrapExc pid e), k)
    else (.exc (wrapExc pid e), k)

def niceSetX (c : Cfg) (k : Kernel) (pid : Nat) (v : Int) : Out × Kernel :=
  match cextSetpriorityP c.setPrioChecks k pid v with
  | .ok k' => (.ok .none, k')
  | .error e => (.exc (wrapExc pid e), k)

def ioniceSetX (c : Cfg) (k : Kernel) (pid : Nat) (ioclass : Int) (value : Option Int) : Out × Kernel :=
  let value := value.getD c.defaultLevel
  if value ≠ 0 ∧ c.noValueClasses.contains ioclass then (.exc .valueError, k)
  else if value < c.levelMin ∨ value > c.levelMax then (.exc .valueError, k)
  else match cextIoprioSetP c.ioprioSetChecks c.shift c.nativeRange c.nativeRangeEinval k pid ioclass value with
    | .ok k' => (.ok .none, k')
    | .error e => (.exc (wrapExc pid e), k)

def rlimitLX (c : Cfg) (k : Kernel) (pid : Nat) (res : Int) (limits : Option (List Int)) : Out × Kernel :=
  if pid = 0 ∧ c.pid0Refused then (.exc .valueError, k)
  else match limits with
    | none =>
      match pyPrlimitGetP k pid res with
      | .ok (s, h) => (.ok (.limits s h), k)
      | .error e => (.exc (wrapExc pid e), k)
    | some l =>
      if l.length ≠ c.pairLen then (.exc .valueError, k)
      else match pyPrlimitSetP k pid res l with
        | .ok k' => (.ok .none, k')
        | .error e => (.exc (wrapExc pid e), k)

def niceGetX (c : Cfg) (k : Kernel) (pid : Nat) (errnoIn : Nat) : Out × Kernel :=
  match cextGetpriorityE c.prioGet k pid errnoIn with
  | .ok v => (.ok (.int v), k)
  | .error e => (.exc (wrapExc pid e), k)

def ioniceGetX (c : Cfg) (k : Kernel) (pid : Nat) (errnoIn : Nat) : Out × Kernel :=
  match cextIoprioGetE c.ioprioGet c.shift k pid errnoIn with
  | .error e => (.exc (wrapExc pid e), k)
  | .ok (cls, data) =>
    if c.enumClasses.contains cls then (.ok (.ionice cls data), k)
    else (.exc .valueError, k)

def cpuAffinityX (c : Cfg) (k : Kernel) (pid : Nat) (x : Ctx) : Option (List Int) → Out × Kernel
  | none =>
    match cextAffinityGetL c.affGet c.affLoop k pid x.errnoIn with
    | .ok l => (.ok (.cpus (if c.getSortedSet then sortedSet l else l)), k)
    | .error e => (.exc (wrapExc pid e), k)
  | some cpus =>
    let elig := getEligibleCpusX k pid x.statusMask
    if cpus.isEmpty then
      if c.emptyAsksCount then
        cpuAffinitySetP c elig k pid (dedup c ((List.range k.statCpus).map Int.ofNat))
      else match c.emptyAsksAll with
      | some n => cpuAffinitySetP c elig k pid (dedup c ((List.range n).map Int.ofNat))
      | none =>
        match elig with
        | none => (.exc (.noSuchProcess pid), k)
        | some el => cpuAffinitySetP c elig k pid (dedup c (el.map Int.ofNat))
    else cpuAffinitySetP c elig k pid (dedup c cpus)

/-- one public call on `psutil.Process(pid)` made in the context `x` — what the driver runs -/
def stepX (c : Cfg) (k : Kernel) (pid : Nat) (x : Ctx) : Req → Out × Kernel
  | .nice none => niceGetX c k pid x.errnoIn
  | .nice (some v) => niceSetX c k pid v
  | .ionice none none => ioniceGetX c k pid x.errnoIn
  | .ionice none (some _) =>
    if c.valueWithoutClassRaises then (.exc .valueError, k) else ioniceGetX c k pid x.errnoIn
  | .ionice (some cls) value => ioniceSetX c k pid cls value
  | .cpuAffinity cpus => cpuAffinityX c k pid x cpus
  | .rlimit res limits => rlimitLX c k pid res limits

/-! ### 6. the arguments as Python objects

  The calls above take `Int`s and `List Int`s. The caller writes Python objects: an I/O class is
  documented as one of the `IOPRIO_CLASS_*` constants (members of the `IntEnum` `IOPriority`), a
  resource may be wrapped in an enum, `True`/`False` are `int`s, a CPU "list" may be a tuple, a set,
  a `range` or an iterator, the limits a tuple or a list. What the code does with the object
  before the value reaches the native layer: `is None` tests (the `Option`s of `Req`), truth tests
  (`if value and …`, `if not cpus`), `in {…}` (hash/equality of an int subclass are those of the
  int), `len(limits)`, `list(set(cpus))`, and the `"i"` / `PyLong_AsLong` conversions (which accept
  every int subclass). -/

/-- an int-like scalar argument as the caller writes it (all three are instances of `int`) -/
inductive Scalar
  | int (v : Int)
  /-- a member of an `IntEnum` (`IOPriority.IOPRIO_CLASS_BE`, a resource wrapped in an enum) -/
  | enum (v : Int)
  | bool (b : Bool)
  deriving DecidableEq, Repr

def Scalar.val : Scalar → Int
  | .int v => v
  | .enum v => v
  | .bool b => if b then 1 else 0

/-- how the CPUs are handed over; `iterator` = a generator / `iter(…)`: always truthy, no `len()` -/
inductive CpuForm | list | tuple | set | range | iterator
  deriving DecidableEq, Repr

/-- how the limits are handed over -/
inductive LimForm | tuple | list | iterator
  deriving DecidableEq, Repr

inductive PyReq
  | nice (value : Option Scalar)
  | ionice (ioclass value : Option Scalar)
  | cpuAffinity (cpus : Option (CpuForm × List Int))
  | rlimit (res : Scalar) (limits : Option (LimForm × List Int))
  deriving DecidableEq, Repr

/-- the same request with every argument replaced by its value -/
def PyReq.erase : PyReq → Req
  | .nice v => .nice (v.map Scalar.val)
  | .ionice a b => .ionice (a.map Scalar.val) (b.map Scalar.val)
  | .cpuAffinity none => .cpuAffinity none
  | .cpuAffinity (some (_, l)) => .cpuAffinity (some l)
  | .rlimit r none => .rlimit r.val none
  | .rlimit r (some (_, l)) => .rlimit r.val (some l)

/-- no argument is an iterator -/
def PyReq.Sized : PyReq → Prop
  | .cpuAffinity (some (f, _)) => f ≠ .iterator
  | .rlimit _ (some (f, _)) => f ≠ .iterator
  | _ => True

/-- is this a set form? -/
def PyReq.isSet : PyReq → Bool
  | .nice (some _) => true
  | .ionice (some _) _ => true
  | .cpuAffinity (some _) => true
  | .rlimit _ (some _) => true
  | _ => false

/-- `Process._raise_if_pid_reused()` as far as a process that is simply GONE is concerned (PID reuse
    itself is property C01's subject and not modelled): every set form calls it first,
    `is_running()` finds no such process, and NoSuchProcess is raised before any argument is looked
    at. (`Process(0)` cannot be built on Linux; for the kernel 0 is the caller.) -/
def goneGuard (k : Kernel) (pid : Nat) (r : PyReq) : Bool :=
  r.isSet && pid != 0 && (k.procs pid).isNone

/-- the call once the guard has passed -/
def stepPyCore (c : Cfg) (k : Kernel) (pid : Nat) (x : Ctx) : PyReq → Out × Kernel
  | .cpuAffinity (some (.iterator, l)) =>
    -- `not cpus` is False for an iterator, also for an exhausted one: `list(set(cpus))` goes to the
    -- platform layer as it is
    cpuAffinitySetP c (getEligibleCpusX k pid x.statusMask) k pid (dedup c l)
  | .rlimit _ (some (.iterator, _)) =>
    -- `_pslinux.Process.rlimit`: the PID-0 test, then `len(limits)` → TypeError
    if pid = 0 ∧ c.pid0Refused then (.exc .valueError, k) else (.exc .typeError, k)
  | r => stepX c k pid x r.erase

/-- one public call with the arguments as Python objects, in the context `x` — what the driver runs -/
def stepPy (c : Cfg) (k : Kernel) (pid : Nat) (x : Ctx) (r : PyReq) : Out × Kernel :=
  if goneGuard k pid r then (.exc (.noSuchProcess pid), k) else stepPyCore c k pid x r

end Psutil.C18
