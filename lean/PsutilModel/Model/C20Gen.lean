/- Model/C20Gen.lean — the C20 model instantiated with the facts the translator extracted. -/
import PsutilModel.Model.C20
import PsutilModel.Generated.C20
namespace Psutil.C20

def mkClauses (l : List (List String × String)) : List Clause :=
  l.map fun c => ⟨c.1, Action.ofTag c.2⟩

/-- `wrap_exceptions` of a platform module as extracted from the current source
    (no entry → no clause → every error propagates, and the contract theorem fails) -/
def clausesOf (f : Family) : List Clause :=
  mkClauses ((Gen.C20.exceptClauses.lookup f.key).getD [])

def winCfg : WinCfg :=
  { permIsinstance := Gen.C20.winPermIsinstance
    permCodes := Gen.C20.winPermCodes
    convert := Gen.C20.winConvert.map fun c => (ConvTest.ofTag c.1, ConvAct.ofTag c.2)
    partialCopy := Gen.C20.winPartialCopy
    retryTimes := Gen.C20.winRetryTimes }

/-- configuration of the model as extracted from the current source -/
def cfg : Cfg :=
  { clauses := clausesOf
    procfsClauses := mkClauses Gen.C20.procfsClauses
    win := winCfg
    broadcastAssigned := Gen.C20.winBroadcastAssigned
    broadcastFresh := Gen.C20.winBroadcastFresh
    sunosPid0Named := Gen.C20.sunosPid0AdNamed
    winMapsLoopGuarded := Gen.C20.winMapsLoopGuarded
    winIdentFastOnly := Gen.C20.winIdentFastOnly }

/-- the generated per-platform method list -/
def methodsOf (p : Platform) : List Method :=
  ((Gen.C20.methods.lookup p.key).getD []).map fun m => ⟨m.1, m.2⟩

def methodOf? (p : Platform) (name : String) : Option Method :=
  (methodsOf p).find? (·.name == name)

def callersOf (p : Platform) (helper : String) : List String :=
  (((Gen.C20.helperCallers.lookup p.key).getD []).lookup helper).getD []

/-- (method, pid, native calls) of the no-fault runs under emulation -/
def tracesOf (p : Platform) : List (String × Nat × List String) :=
  (Gen.C20.traces.lookup p.key).getD []

/-- (method, pid, first faulted call, mode, native calls the method still makes after going on) -/
def traces2Of (p : Platform) : List (String × Nat × String × String × List String) :=
  (Gen.C20.traces2.lookup p.key).getD []

/-- (method, pid, native call whose answer about the process came back EMPTY, native calls of that
    no-fault run) — the runs whose call sequence differs from the plain one -/
def tracesEmptyOf (p : Platform) : List (String × Nat × String × List String) :=
  (Gen.C20.tracesEmpty.lookup p.key).getD []

/-- every (method, `os.path.*` question) the generated call sequences contain: plain runs, runs with an
    empty native answer, alternative paths after a first fault -/
def pathProbesSeen (p : Platform) : List (String × String) :=
  let isQ (c : String) : Bool := "os.path.".isPrefixOf c
  ((tracesOf p).flatMap fun r => (r.2.2.filter isQ).map fun c => (r.1, c)) ++
  ((tracesEmptyOf p).flatMap fun r => (r.2.2.2.filter isQ).map fun c => (r.1, c)) ++
  ((traces2Of p).flatMap fun r => ((r.2.2.1 :: r.2.2.2.2).filter isQ).map fun c => (r.1, c))

def Mode.ofTag? (s : String) : Option Mode :=
  if s == "fallback" then some .fallback else if s == "rerun" then some .rerun else none

/-- native status codes of the identity's `PROC_STATUSES` / the ones mapped to `STATUS_ZOMBIE` -/
def statusCodesOf (p : Platform) : List String := (Gen.C20.statusCodes.lookup p.key).getD []
def zombieCodesOf (p : Platform) : List String := (Gen.C20.zombieCodes.lookup p.key).getD []

/-- `is_zombie` comparison shape per module and the zombie codes per identity, as extracted -/
def zcfg : ZCfg :=
  { probe := fun f => ZProbe.ofTag ((Gen.C20.zombieProbe.lookup f.key).getD "?")
    zombieCodes := zombieCodesOf }

def slotMapOf (key : String) : SlotMap := (Gen.C20.slotMaps.lookup key).getD []

def feedsOf (f : Family) : List (String × String × String × String) :=
  (Gen.C20.feeds.lookup f.key).getD []

/-- slot index behind a feed source "map.slot[*k]" of module `f` -/
def sourceIndex (f : Family) (src : String) : Option (String × Nat) :=
  match (src.splitOn "*").head?.bind (fun s => some (s.splitOn ".")) with
  | some [mp, slot] => ((slotMapOf (f.key ++ "." ++ mp)).lookup slot).map fun i => (mp, i)
  | _ => none

/-- the `Py_BuildValue` call behind a one-shot record / positional native tuple: (format units, C expressions) -/
def nativeArgsOf (key ident : String) : Option (String × List String) := Gen.C20.nativeArgs.lookup (key, ident)
/-- length of the tuple the emulator's stub native returns for it -/
def stubLenOf (key ident : String) : Option Nat := Gen.C20.stubRecordLens.lookup (key, ident)

/-- (documented function | Process.<method>, namedtuple type, ordered?, documented fields) -/
def docFieldsOf (p : Platform) : List (String × String × Bool × List String) := (Gen.C20.docFields.lookup p.key).getD []
def actualFieldsOf (p : Platform) (nt : String) : Option (List String) :=
  ((Gen.C20.actualFields.lookup p.key).getD []).lookup nt

end Psutil.C20
