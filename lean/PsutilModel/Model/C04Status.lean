/-
  Model/C04Status.lean — `_pslinux.pid_exists` at BYTE level: the text of `/proc/<n>/status` as the
  function reads it, instead of the abstract answer `Kernel.readStatus` of Model/C04.lean.

      path = f"{get_procfs_path()}/{pid}/status"
      with open_binary(path) as f:
          for line in f:
              if line.startswith(b"Tgid:"):
                  tgid = int(line.split()[1])
                  return tgid == pid
          raise ValueError("'Tgid' line not found …")
      except (OSError, ValueError): return pid in pids()

  The statement list above is the translator fact `tgidScan` (obligation `cfg_tgid_scan`). The
  world dimension this adds: WHICH bytes the file holds (any lines around the `Tgid:` line, any
  thread-group id, so any numeric / textual relation between the id asked about and the field).
  Only Base imports (through Model/C04).
-/
import PsutilModel.Model.C04
namespace Psutil.C04

/-- the literal `b"Tgid:"` -/
def tgidKey : Bytes := [84, 103, 105, 100, 58]

/-- how the `with` block ends -/
inductive ScanRes
  | eq (b : Bool)        -- `return tgid == pid`
  | valueError           -- `int()` refuses the field, or "'Tgid' line not found"
  | indexError           -- `line.split()[1]` on a `Tgid:` line without a second field (not caught)
  deriving DecidableEq, Repr

/-- `int(b)` on a field of the file: plain decimal digits (what the kernel prints); anything else
    is refused with ValueError (Python would also take a sign, `_` separators: never printed) -/
def pyInt? (b : Bytes) : Option Nat := parseDec? b

/-- the `for line in f:` loop over the lines of the file -/
def scanTgid (pid : Nat) : List Bytes → ScanRes
  | [] => .valueError
  | l :: ls =>
    if startsWith tgidKey l then
      match (splitWs l)[1]? with
      | none => .indexError
      | some tok =>
        match pyInt? tok with
        | none => .valueError
        | some t => .eq (t == pid)
    else scanTgid pid ls

/-- the whole `with` block on the bytes of the file (binary-mode iteration splits at `\n`; the
    terminator is whitespace to `split()` and irrelevant to `startswith`) -/
def scanStatus (content : Bytes) (pid : Nat) : ScanRes := scanTgid pid (linesOf content)

/-- `_pslinux.pid_exists(n)` where `file` is what opening + reading `/proc/<n>/status` gives after
    the table changes `mid` (`none` = any OSError) -/
def linuxPidExistsText (k : Kernel) (n : Nat) (mid : List KEv) (file : Option Bytes) : Kernel × Out :=
  match posixPidExists k n with
  | .bool false => (k.applyAll mid, .bool false)
  | .bool true =>
    let k' := k.applyAll mid
    match file with
    | none => (k', .bool (k'.listdir.contains n))
    | some content =>
      match scanStatus content n with
      | .eq b => (k', .bool b)
      | .valueError => (k', .bool (k'.listdir.contains n))
      | .indexError => (k', .exc "IndexError")
  | o => (k.applyAll mid, o)

/-- WHAT-IF (not the code): the field compared as text — the decimal rendering of `pid` only has
    to be a prefix of the field. Used by `C04_tgid_prefix_match_counterexample`. -/
def scanTgidPrefix (pidText : Bytes) : List Bytes → ScanRes
  | [] => .valueError
  | l :: ls =>
    if startsWith tgidKey l then
      match (splitWs l)[1]? with
      | none => .indexError
      | some tok => .eq (startsWith pidText tok)
    else scanTgidPrefix pidText ls

end Psutil.C04
