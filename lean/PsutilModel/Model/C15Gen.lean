/- Model/C15Gen.lean — the C15 model instantiated with the facts the translator extracted. -/
import PsutilModel.Model.C15
import PsutilModel.Generated.C15
namespace Psutil.C15

/-- configuration of the model as extracted from the current source -/
def cfg : Cfg :=
  { i0n := Gen.C15.interval0Num
    i0d := Gen.C15.interval0Den
    factor := Gen.C15.factor
    capn := Gen.C15.capNum
    capd := Gen.C15.capDen
    checkBeforeSleep := Gen.C15.checkBeforeSleep
    deadlineGe := Gen.C15.deadlineGe
    validateNonNeg := Gen.C15.validateNonNeg
    sliceN := Gen.C15.sliceNum
    pidCheck := Gen.C15.pidCheck
    cbCheck := Gen.C15.cbCheck
    popenRcFirst := Gen.C15.popenRcFirst
    popenStoresRc := Gen.C15.popenStoresRc
    popenValidateFirst := Gen.C15.popenValidateFirst
    loopsOverAlive := Gen.C15.loopsOverAlive
    aliveIsSet := Gen.C15.aliveIsSet
    pidRejectsZero := Gen.C15.pidRejectsZero
    pidRejectsNeg := Gen.C15.pidRejectsNeg
    pidRejectsPos := Gen.C15.pidRejectsPos
    flagsTimeout := Gen.C15.flagsTimeout
    flagsBlocking := Gen.C15.flagsBlocking
    rcBeforeCb := Gen.C15.rcBeforeCb
    goneBeforeCb := Gen.C15.goneBeforeCb
    pollAsksHook := Gen.C15.pollAsksHook
    hookDefaultIsKill := Gen.C15.hookDefaultIsKill
    linuxWaitPassesNoHook := Gen.C15.linuxWaitPassesNoHook
    stopReadsSteady := Gen.C15.stopReadsSteady
    checkReadsSteady := Gen.C15.checkReadsSteady
    procsDeadlineSteady := Gen.C15.procsDeadlineSteady
    procsSliceSteady := Gen.C15.procsSliceSteady }

end Psutil.C15
