/-
  Model/C04Scan.lean — ONE visit of `process_iter(attrs=[…])` at the granularity of the OS accesses made
  by `Process.as_dict()` (seeded round 5, third change).

  `Model/C04.lean` makes the whole `as_dict` scan one step: "does the process directory still exist".
  The real scan is a sequence of separate OS accesses — one `/proc/<pid>/<file>` per getter — inside ONE
  `oneshot()` block, whose memoized readers (`_parse_stat_file`, `_read_status_file`, …) answer later
  getters from the bytes read EARLIER in the block; and the process does not wait: it may turn into a
  zombie (still listed) and be reaped (gone) between any two accesses. What an access returns then
  depends on the state at THAT instant, and on the kernel: a zombie's `environ`, `cmdline`, `cwd`, … are
  empty, or fail with ESRCH / ENOENT / EACCES depending on the file and the kernel version. Here:

    * `Life` (alive → zombie → gone), `ScanWorld` = the state at every access instant + what a zombie's
      files give + which errno a gone process's files give + the files denied while alive;
    * the code: `wrap_exceptions` (`classify`: EACCES → AccessDenied; ESRCH → `_raise_if_zombie()` then
      NoSuchProcess; ENOENT → `_raise_if_zombie()`, then NoSuchProcess unless `/proc/<pid>/stat` still
      exists, in which case the FileNotFoundError escapes), `_is_zombie()` (`isZombie`: how it gets the
      state letter is the fact `zombieProbe`: its own read of `stat`, or — what-if — through the memoized
      parser), `memoize_when_activated` (`Src.memo`: successful reads are cached for the block, failures
      are not), the getter shapes (`Src`: answered from the object / through a memoized reader / own read
      of one file / the same with "empty ⇒ `_raise_if_zombie()`" (`cmdline`) / `_readlink` with a
      fallback (`cwd`)), `as_dict`'s loop (`scanLoop`: AccessDenied / ZombieProcess → `ad_value`,
      NoSuchProcess and anything else propagate) and `process_iter`'s use of it (`visitScan`:
      NoSuchProcess ⇒ the PID is skipped and its cache entry dropped; `cold` = the object is created in
      this visit, `Process(pid)` reading `stat` once outside the block).

  Only Base imports (none needed).
-/
namespace Psutil.C04

inductive Life | alive | zombie | gone
  deriving DecidableEq, Repr

def Life.rank : Life → Nat
  | .alive => 0
  | .zombie => 1
  | .gone => 2

/-- what one OS access to an entry of `/proc/<pid>/` gives -/
inductive Rd | ok | empty | eacces | esrch | enoent
  deriving DecidableEq, Repr

/-- the entry every kernel serves for a zombie (`ps` shows the `Z` from it) -/
def statFile : String := "stat"

/-- where a getter's value comes from (translator fact `scanSources`) -/
inductive Src
  | obj                      -- answered from the Process object (`pid`, the cached `create_time`)
  | memo (f : String)        -- through the memoized reader of file `f` (cached inside `oneshot()`)
  | read (f : String)        -- its own open + read of file `f`
  | readProbe (f : String)   -- the same; an EMPTY file ⇒ `_raise_if_zombie()`, else a value (`cmdline`)
  | link (f : String)        -- `_readlink(f, fallback=…)` (`cwd`)
  | other                    -- not modelled (never generated)
  deriving DecidableEq, Repr

/-- how `_is_zombie()` gets the state letter -/
inductive Probe
  | fresh                    -- its own read of `/proc/<pid>/stat` at that instant (the code as it is)
  | memo                     -- through the memoized `stat` parser (what-if)
  deriving DecidableEq, Repr

structure ScanWorld where
  life : Nat → Life          -- state of the process at the i-th OS access of the visit
  zres : String → Rd         -- what a zombie's entry gives (per file; kernel-version dependent)
  gesrch : Nat → Bool        -- a gone process: ESRCH (the task died under the reader) instead of ENOENT
  deny : String → Bool       -- entries that answer EACCES while the process is alive
  aempty : String → Bool     -- entries that are EMPTY while the process is alive (`cmdline` of a kernel thread)

/-- the kernel at instant `i`, entry `f` -/
def ScanWorld.access (w : ScanWorld) (i : Nat) (f : String) : Rd :=
  match w.life i with
  | .alive => if w.deny f then .eacces else if w.aempty f then .empty else .ok
  | .zombie => if f == statFile then .ok else w.zres f
  | .gone => if w.gesrch i then .esrch else .enoent

/-- one entry of the access log (compared with what the real code was seen doing) -/
inductive Acc
  | rd (f : String) (r : Rd)
  | ex (b : Bool)             -- `os.path.exists(/proc/<pid>/stat)` / `os.path.lexists(/proc/<pid>)`
  deriving DecidableEq, Repr

structure ScanSt where
  i : Nat                          -- accesses made so far = instant of the next one
  cache : List (String × Life)     -- the oneshot cache: file of the memoized reader ↦ state when it was read
  log : List Acc
  deriving Repr

def ScanSt.init : ScanSt := ⟨0, [], []⟩

def ScanSt.tick (st : ScanSt) (a : Acc) : ScanSt := { st with i := st.i + 1, log := st.log ++ [a] }

def cacheGet (c : List (String × Life)) (f : String) : Option Life :=
  match c with
  | [] => none
  | e :: es => if e.1 == f then some e.2 else cacheGet es f

/-- outcome of one getter -/
inductive GRes | val | ad | zombie | nsp | fnf
  deriving DecidableEq, Repr

/-- `_is_zombie()`: `try: data = <stat> except OSError: return False else: return <state letter> == b"Z"` -/
def isZombie (p : Probe) (w : ScanWorld) (st : ScanSt) : ScanSt × Bool :=
  match p with
  | .fresh =>
    let r := w.access st.i statFile
    (st.tick (.rd statFile r), r == .ok && w.life st.i == .zombie)
  | .memo =>
    match cacheGet st.cache statFile with
    | some l => (st, l == .zombie)
    | none =>
      let r := w.access st.i statFile
      let st1 := st.tick (.rd statFile r)
      if r == .ok then ({ st1 with cache := (statFile, w.life st.i) :: st1.cache }, w.life st.i == .zombie)
      else (st1, false)

/-- `wrap_exceptions`: what the outcome `r` of the failed access becomes (`ok` / `empty` are no errors) -/
def classify (p : Probe) (w : ScanWorld) (st : ScanSt) : Rd → ScanSt × GRes
  | .ok => (st, .val)
  | .empty => (st, .val)
  | .eacces => (st, .ad)
  | .esrch =>
    let z := isZombie p w st
    (z.1, if z.2 then .zombie else .nsp)
  | .enoent =>
    let z := isZombie p w st
    if z.2 then (z.1, .zombie)
    else
      let ex := w.life z.1.i != .gone
      ((z.1).tick (.ex ex), if ex then .fnf else .nsp)

def getter (p : Probe) (w : ScanWorld) (st : ScanSt) : Src → ScanSt × GRes
  | .obj => (st, .val)
  | .other => (st, .val)
  | .memo f =>
    match cacheGet st.cache f with
    | some _ => (st, .val)
    | none =>
      let r := w.access st.i f
      let st1 := st.tick (.rd f r)
      if r == .ok || r == .empty then ({ st1 with cache := (f, w.life st.i) :: st1.cache }, .val)
      else classify p w st1 r
  | .read f =>
    let r := w.access st.i f
    classify p w (st.tick (.rd f r)) r
  | .readProbe f =>
    let r := w.access st.i f
    let st1 := st.tick (.rd f r)
    if r == .empty then
      let z := isZombie p w st1
      (z.1, if z.2 then .zombie else .val)
    else classify p w st1 r
  | .link f =>
    let r := w.access st.i f
    let st1 := st.tick (.rd f r)
    if r == .esrch || r == .enoent then
      let ex := w.life st1.i != .gone                -- `os.path.lexists(/proc/<pid>)`
      let st2 := st1.tick (.ex ex)
      if ex then
        let z := isZombie p w st2
        (z.1, if z.2 then .zombie else .val)         -- the fallback value
      else classify p w st2 r                         -- `raise` → `wrap_exceptions`
    else classify p w st1 r

def srcOf (srcs : List (String × Src)) (nm : String) : Src :=
  match srcs with
  | [] => .other
  | e :: es => if e.1 == nm then e.2 else srcOf es nm

inductive ScanOut
  | dict (items : List (String × Bool))      -- key, and whether the value is `ad_value`
  | nsp
  | fnf
  deriving DecidableEq, Repr

/-- `for name in ls: try: ret = getter() except (AccessDenied, ZombieProcess): ret = ad_value` -/
def scanLoop (p : Probe) (srcs : List (String × Src)) (w : ScanWorld) :
    ScanSt → List String → List (String × Bool) → ScanSt × ScanOut
  | st, [], acc => (st, .dict acc)
  | st, nm :: rest, acc =>
    let g := getter p w st (srcOf srcs nm)
    match g.2 with
    | .val => scanLoop p srcs w g.1 rest (acc ++ [(nm, false)])
    | .ad => scanLoop p srcs w g.1 rest (acc ++ [(nm, true)])
    | .zombie => scanLoop p srcs w g.1 rest (acc ++ [(nm, true)])
    | .nsp => (g.1, .nsp)
    | .fnf => (g.1, .fnf)

inductive VisitOut
  | yielded (items : List (String × Bool))
  | skipped                                   -- NoSuchProcess: `remove(pid)`, next PID
  | exc (cls : String)
  deriving DecidableEq, Repr

def ScanOut.visit : ScanOut → VisitOut
  | .dict items => .yielded items
  | .nsp => .skipped
  | .fnf => .exc "FileNotFoundError"

/-- the loop body of `process_iter` for one PID: `proc = add(pid)` when the PID is not cached
    (`cold`: `Process(pid)` reads `stat` once, outside any `oneshot()`), then `as_dict` -/
def visitScan (p : Probe) (srcs : List (String × Src)) (w : ScanWorld) (cold : Bool) (names : List String) :
    ScanSt × VisitOut :=
  if cold then
    let g := getter p w ScanSt.init (.read statFile)
    match g.2 with
    | .nsp => (g.1, .skipped)
    | .fnf => (g.1, .exc "FileNotFoundError")
    | _ => let r := scanLoop p srcs w g.1 names []; (r.1, r.2.visit)
  else
    let r := scanLoop p srcs w ScanSt.init names []; (r.1, r.2.visit)

/-- the caller's own `with proc.oneshot():` block around the cached object: the getters it called in it before
    iterating (each on its own, whatever it answered) leave their successful reads in the block's cache, which
    the `as_dict` of the visit then finds (its own `oneshot()` is a no-op inside the caller's) -/
def heldReads (p : Probe) (srcs : List (String × Src)) (w : ScanWorld) : ScanSt → List String → ScanSt
  | st, [] => st
  | st, nm :: rest => heldReads p srcs w (getter p w st (srcOf srcs nm)).1 rest

/-- the visit of a cached PID whose object the caller holds in `oneshot()`, `held` = what it fetched before -/
def visitScanHeld (p : Probe) (srcs : List (String × Src)) (w : ScanWorld) (held names : List String) :
    ScanSt × VisitOut :=
  let r := scanLoop p srcs w (heldReads p srcs w ScanSt.init held) names []
  (r.1, r.2.visit)

end Psutil.C04
