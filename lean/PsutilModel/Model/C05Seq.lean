/-
  Model/C05Seq.lean — SEQUENCES of calls on one `psutil.Process` object.

  Every function of Model/C05.lean returns, next to its result, the object as the call leaves it
  (`Caller`: pid, cached create time, `_gone`, `_pid_reused`). This file names that state transition
  (`afterCall`) and folds it over a history of calls, each in its own process table, so that theorems can
  speak about the SECOND, THIRD, … call on a handle and not only about a fresh one.

  What the object carries from one call to the next is exactly `Caller` — provided the two facts of
  `ObjCfg` hold (proof obligation `ocfg_good`):
    * `ppidUncached`: on POSIX `Process.ppid()` returns `self._proc.ppid()` afresh; there is no `_ppid`-style
      cache that a later `parent()` could answer from (psutil issue #321);
    * `ctimeCached`: `create_time()` is read once and answered from `self._create_time` afterwards — the
      `ctime` field of `Caller` is a constant of the object.
  `_LOWEST_PID` (module state `Ps`) is threaded as well.
-/
import PsutilModel.Model.C05
namespace Psutil.C05

structure ObjCfg where
  /-- `ppid()`: POSIX branch is a bare `return self._proc.ppid()` -/
  ppidUncached : Bool
  /-- `create_time()`: `if self._create_time is None: self._create_time = …; return self._create_time` -/
  ctimeCached : Bool
deriving Repr

/-- the calls this property speaks about (plus `is_running()`, which changes the same flags) -/
inductive Call where
  | isRunning
  | children (recursive : Bool)
  | parent
  | parents
deriving DecidableEq, Repr

/-- one entry of a history: the table the call runs on (constant during the call) and the call -/
structure Ev where
  table : Table
  call : Call

/-- the object and `_LOWEST_PID` after one call. `parents()` touches the caller object only through its
    first `self.parent()`; the later iterations work on fresh objects. -/
def afterCall (c : Cfg) (T : Table) (st : Ps × Caller) : Call → Ps × Caller
  | .isRunning => (st.1, (isRunning (lookOf T) st.2).1)
  | .children r => (st.1, (children c st.2 r (lookOf T) (ppidMap T) (lookOf T)).1)
  | .parent => ((parent c st.1 T st.2).1, (parent c st.1 T st.2).2.1)
  | .parents => ((parents c st.1 T st.2).1, (parent c st.1 T st.2).2.1)

/-- the object after a whole history -/
def afterCalls (c : Cfg) (st : Ps × Caller) (h : List Ev) : Ps × Caller :=
  h.foldl (fun s e => afterCall c e.table s e.call) st

end Psutil.C05
