/-
  Proofs/C09Usage.lean — order facts about the disk_usage figures (needs ordered-field lemmas,
  hence the two single Mathlib imports; nothing else of C09 depends on Mathlib).
-/
import Mathlib.Tactic.Linarith
import Mathlib.Algebra.Order.Field.Basic
import PsutilModel.Spec.C09
import PsutilModel.Model.C09
namespace Psutil.C09
open Spec

theorem pct_range (u f : Rat) (hu : 0 ≤ u) (hf : 0 ≤ f) :
    0 ≤ (if u + f = 0 then 0 else u / (u + f) * 100) ∧
    (if u + f = 0 then 0 else u / (u + f) * 100) ≤ 100 := by
  by_cases h : u + f = 0
  · simp [h]
  · simp only [h, if_false]
    have hpos : 0 < u + f := lt_of_le_of_ne (by linarith) (Ne.symm h)
    constructor
    · positivity
    · have : u / (u + f) ≤ 1 := by rw [div_le_one hpos]; linarith
      linarith

theorem usage_used_nonneg (st : StatVfs) (h : st.bfree ≤ st.blocks) : 0 ≤ (usage st).used := by
  simp only [usage]
  have : (st.bfree : Int) * st.frsize ≤ (st.blocks : Int) * st.frsize :=
    Int.mul_le_mul_of_nonneg_right (by exact_mod_cast h) (by positivity)
  linarith

theorem usage_free_nonneg (st : StatVfs) : 0 ≤ (usage st).free := by
  simp only [usage]; positivity

/-- `round1 q` is within half a unit of the last place of `q` -/
theorem round1_close (q : Rat) : |round1 q - q| ≤ 1 / 20 := by
  unfold round1
  have hfl : ((q * 10).floor : Rat) ≤ q * 10 := Rat.floor_le _
  have hlt : q * 10 < ((q * 10).floor : Rat) + 1 := by
    have := Rat.lt_floor_add_one (q * 10)
    push_cast at this
    exact this
  simp only []
  split_ifs with h1 h2 h3 <;> rw [abs_le] <;> constructor <;> push_cast <;> linarith

/-- rounding to one decimal is `round1` -/
theorem roundTo_one (q : Rat) : roundTo 1 q = round1 q := by
  unfold roundTo round1
  simp only [pow_one]

/-- rounding a value of [0, 100] to one decimal stays in [0, 100] -/
theorem round1_range (q : Rat) (h0 : 0 ≤ q) (h100 : q ≤ 100) : 0 ≤ round1 q ∧ round1 q ≤ 100 := by
  unfold round1
  have hfl : ((q * 10).floor : Rat) ≤ q * 10 := Rat.floor_le _
  have hf0 : (0 : Int) ≤ (q * 10).floor := Rat.le_floor_iff.mpr (by push_cast; linarith)
  have hf0' : (0 : Rat) ≤ ((q * 10).floor : Rat) := by exact_mod_cast hf0
  have hup : ¬ (q * 10 - ((q * 10).floor : Rat) < 1 / 2) → ((q * 10).floor : Rat) + 1 ≤ 1000 := by
    intro h
    have h1 : ((q * 10).floor : Rat) < 1000 := by linarith
    have h2 : (q * 10).floor < 1000 := by exact_mod_cast h1
    have h3 : (q * 10).floor + 1 ≤ 1000 := by omega
    exact_mod_cast h3
  simp only []
  split_ifs with h1 h2 h3
  · constructor
    · apply div_nonneg hf0' (by norm_num)
    · rw [div_le_iff₀ (by norm_num)]; linarith
  · have := hup h1
    constructor
    · apply div_nonneg (by push_cast; linarith) (by norm_num)
    · rw [div_le_iff₀ (by norm_num)]; push_cast; linarith
  · constructor
    · apply div_nonneg hf0' (by norm_num)
    · rw [div_le_iff₀ (by norm_num)]; linarith
  · have := hup h1
    constructor
    · apply div_nonneg (by push_cast; linarith) (by norm_num)
    · rw [div_le_iff₀ (by norm_num)]; push_cast; linarith

theorem pct_cast (u f : Int) :
    (if u + f = 0 then (0 : Rat) else (u : Rat) / ((u + f : Int) : Rat) * 100)
      = if (u : Rat) + (f : Rat) = 0 then 0 else (u : Rat) / ((u : Rat) + (f : Rat)) * 100 := by
  have hc : ((u + f : Int) : Rat) = (u : Rat) + (f : Rat) := by push_cast; rfl
  by_cases h : u + f = 0
  · have h' : (u : Rat) + (f : Rat) = 0 := by exact_mod_cast h
    rw [if_pos h, if_pos h']
  · have h' : ¬ (u : Rat) + (f : Rat) = 0 := by intro e; apply h; exact_mod_cast e
    rw [if_neg h, if_neg h', hc]

theorem usage_percent_range (st : StatVfs) (h : st.bfree ≤ st.blocks) :
    0 ≤ (usage st).percent ∧ (usage st).percent ≤ 100 := by
  have hu := usage_used_nonneg st h
  have hf := usage_free_nonneg st
  have key := pct_range ((usage st).used : Rat) ((usage st).free : Rat)
    (by exact_mod_cast hu) (by exact_mod_cast hf)
  have hp : (usage st).percent
      = if ((usage st).used : Rat) + ((usage st).free : Rat) = 0 then 0
        else ((usage st).used : Rat) / (((usage st).used : Rat) + ((usage st).free : Rat)) * 100 :=
    pct_cast (usage st).used (usage st).free
  rw [hp]; exact key

theorem usage_within_total (st : StatVfs) (h : st.bavail ≤ st.bfree) :
    (usage st).used + (usage st).free ≤ (usage st).total := by
  simp only [usage]
  have : (st.bavail : Int) * st.frsize ≤ (st.bfree : Int) * st.frsize :=
    Int.mul_le_mul_of_nonneg_right (by exact_mod_cast h) (by positivity)
  linarith

end Psutil.C09
