/-
  Proofs/C09Wrap.lean — the invariant of `_WrapNumbers` that C09 needs over a history of calls:
  `reminders[name][(key, i)]` is 0 unless counter i of `key` was SEEN going backwards between two consecutive
  dicts fed under `name` that both list `key`, inside the current run of consecutive dicts listing `key`
  (`quietAtD`); hence what `run` returns is the raw value wherever nothing went backwards.
-/
import PsutilModel.Model.C09Gen
import PsutilModel.Proofs.C09
namespace Psutil.C09

/-- `obs` = the dicts fed earlier under one `name`, most recent first; `cur` = counter i of `k` in the dict fed
    after them: along the maximal run of consecutive dicts that list `k`, counter i never decreased -/
def quietFromD (k : Bytes) (i : Nat) (cur : Nat) : List Dict → Bool
  | [] => true
  | s :: rest =>
    match s.lookup k with
    | none => true
    | some r => decide (tupAt r i ≤ cur) && quietFromD k i (tupAt r i) rest

/-- the head of the list is the dict fed last -/
def quietAtD (k : Bytes) (i : Nat) : List Dict → Bool
  | [] => true
  | s :: rest =>
    match s.lookup k with
    | none => true
    | some r => quietFromD k i (tupAt r i) rest

/-- the slot of a `name` after the dicts `obs` (most recent first) were fed under it since the last clear -/
structure SlotInv (s : Slot) (obs : List Dict) : Prop where
  cache : s.cache = obs.head?
  zero : ∀ k i, quietAtD k i obs = true → s.rem k i = 0

theorem slotInv_init : SlotInv Slot.init [] := ⟨rfl, fun _ _ _ => rfl⟩

theorem remAfter_zero (old input : Dict) (rest : List Dict) (rem : Bytes → Nat → Nat)
    (hz : ∀ k i, quietAtD k i (old :: rest) = true → rem k i = 0) (k : Bytes) (i : Nat)
    (hq : quietAtD k i (input :: old :: rest) = true) :
    remAfter true old input rem k i = 0 := by
  cases hi : input.lookup k with
  | none =>
    cases ho : old.lookup k with
    | none =>
      simp only [remAfter, hi, ho]
      exact hz k i (by simp [quietAtD, ho])
    | some o => simp only [remAfter, hi, ho]
  | some v =>
    cases ho : old.lookup k with
    | none =>
      simp only [remAfter, hi, ho]
      exact hz k i (by simp [quietAtD, ho])
    | some o =>
      simp only [quietAtD, hi, quietFromD, ho, Bool.and_eq_true, decide_eq_true_eq] at hq
      have hnw : wrapped true (tupAt v i) (tupAt o i) = false := by
        simp only [wrapped, if_true, decide_eq_false_iff_not]
        omega
      simp only [remAfter, hi, ho, hnw, Bool.false_eq_true, if_false]
      exact hz k i (by simp [quietAtD, ho, hq.2])

/-- the value `run` returns for key `k` whose raw tuple is `v`: `old` = the previous dict under the name -/
def adjRow (old : Option Dict) (rem' : Bytes → Nat → Nat) (k : Bytes) (v : List Nat) : List Nat :=
  match old with
  | none => v
  | some o =>
    match o.lookup k with
    | none => v
    | some _ => v.mapIdx fun i x => x + rem' k i

theorem adjRow_length (old : Option Dict) (rem' : Bytes → Nat → Nat) (k : Bytes) (v : List Nat) :
    (adjRow old rem' k v).length = v.length := by
  unfold adjRow
  split
  · rfl
  · split
    · rfl
    · simp

theorem tupAt_mapIdx (v : List Nat) (r : Nat → Nat) (i : Nat) (h : r i = 0) :
    tupAt (v.mapIdx fun i x => x + r i) i = tupAt v i := by
  unfold tupAt
  by_cases hlt : i < v.length
  · simp [List.getD_eq_getElem?_getD, List.getElem?_mapIdx, List.getElem?_eq_getElem hlt, h]
  · simp [List.getD_eq_getElem?_getD, List.getElem?_mapIdx, List.getElem?_eq_none (Nat.le_of_not_lt hlt)]

/-- where nothing was seen going backwards, the returned value is the raw one -/
theorem adjRow_exact (old : Option Dict) (rem' : Bytes → Nat → Nat) (k : Bytes) (v : List Nat) (i : Nat)
    (h : rem' k i = 0) : tupAt (adjRow old rem' k v) i = tupAt v i := by
  unfold adjRow
  split
  · rfl
  · split
    · rfl
    · exact tupAt_mapIdx v (rem' k) i h

theorem wrapOut_eq (old input : Dict) (rem' : Bytes → Nat → Nat) :
    wrapOut old input rem' = input.map fun kv => (kv.1, adjRow (some old) rem' kv.1 kv.2) := by
  unfold wrapOut
  apply List.map_congr_left
  intro kv _
  simp only [adjRow]
  cases old.lookup kv.1 <;> rfl

/-- one `run` under the invariant: it succeeds, the invariant holds for the longer history, and the returned
    dict has the keys of the input in their order with `adjRow` values -/
theorem run_inv (s : Slot) (obs : List Dict) (inv : SlotInv s obs) (input : Dict)
    (hw : ∀ old, obs.head? = some old → widthMismatch old input = false) :
    ∃ s', s.run true input = .ok (s', input.map fun kv => (kv.1, adjRow obs.head? s'.rem kv.1 kv.2)) ∧
      SlotInv s' (input :: obs) := by
  cases obs with
  | nil =>
    refine ⟨⟨some input, fun _ _ => 0⟩, ?_, rfl, fun _ _ _ => rfl⟩
    have hc : s.cache = none := inv.cache
    simp only [Slot.run, hc, List.head?_nil, adjRow]
    congr 2
    simp
  | cons old rest =>
    have hc : s.cache = some old := inv.cache
    have hm := hw old rfl
    refine ⟨⟨some input, remAfter true old input s.rem⟩, ?_, rfl, ?_⟩
    · simp only [Slot.run, hc, hm, Bool.false_eq_true, if_false, List.head?_cons, wrapOut_eq]
    · intro k i hq
      exact remAfter_zero old input rest s.rem inv.zero k i hq

theorem mem_of_lookup {d : Dict} {k : Bytes} {v : List Nat} (h : d.lookup k = some v) : (k, v) ∈ d := by
  induction d with
  | nil => simp [List.lookup] at h
  | cons kv r ih =>
    obtain ⟨a, b⟩ := kv
    simp only [List.lookup] at h
    split at h
    · rename_i heq
      have hk : k = a := by simpa using heq
      cases h
      subst hk
      simp
    · exact List.mem_cons_of_mem _ (ih h)

/-- dicts whose tuples all have the same width never raise IndexError in `run` -/
theorem no_mismatch (w : Nat) (old input : Dict) (ho : ∀ kv ∈ old, kv.2.length = w) (hi : ∀ kv ∈ input, kv.2.length = w) :
    widthMismatch old input = false := by
  unfold widthMismatch
  rw [List.any_eq_false]
  intro kv hkv
  cases hl : old.lookup kv.1 with
  | none => simp
  | some o =>
    have := ho _ (mem_of_lookup hl)
    simp only [decide_eq_true_eq]
    have h2 := hi kv hkv
    simp only at this
    omega

/-- feed dicts (oldest first) under one name -/
def feedAll (strict : Bool) : Slot → List Dict → Res Slot
  | s, [] => .ok s
  | s, d :: r =>
    match s.run strict d with
    | .err e => .err e
    | .ok p => feedAll strict p.1 r

theorem feedAll_inv (w : Nat) (s : Slot) (obs : List Dict) (inv : SlotInv s obs)
    (hobs : ∀ d ∈ obs, ∀ kv ∈ d, kv.2.length = w) (ds : List Dict) (hds : ∀ d ∈ ds, ∀ kv ∈ d, kv.2.length = w) :
    ∃ s', feedAll true s ds = .ok s' ∧ SlotInv s' (ds.reverse ++ obs) := by
  induction ds generalizing s obs with
  | nil => exact ⟨s, rfl, by simpa using inv⟩
  | cons d r ih =>
    have hw : ∀ old, obs.head? = some old → widthMismatch old d = false := by
      intro old ho
      have hmem : old ∈ obs := List.mem_of_head? ho
      exact no_mismatch w old d (hobs old hmem) (hds d (by simp))
    obtain ⟨s1, hrun, inv1⟩ := run_inv s obs inv d hw
    have hobs1 : ∀ x ∈ d :: obs, ∀ kv ∈ x, kv.2.length = w := by
      intro x hx
      rcases List.mem_cons.mp hx with rfl | hx
      · exact hds _ (by simp)
      · exact hobs x hx
    obtain ⟨s2, hfeed, inv2⟩ := ih s1 (d :: obs) inv1 hobs1 (fun x hx => hds x (by simp [hx]))
    refine ⟨s2, ?_, ?_⟩
    · simp only [feedAll, hrun, hfeed]
    · simpa [List.reverse_cons, List.append_assoc] using inv2

/-! ### the front end with `nowrap=True` -/

theorem set_same (w : WState) (n : String) (s : Slot) : (w.set n s) n = s := by simp [WState.set]

theorem set_other (w : WState) (n m : String) (s : Slot) (h : m ≠ n) : (w.set n s) m = w m := by
  simp [WState.set, h]

/-- the per-device form: the raw dict `d` of the platform layer, the slot of `name` under its invariant -/
theorem frontEndWrap_perdev (name : String) (fields : List String) (agg : AggCfg) (ep et : Out) (w : WState)
    (obs : List Dict) (inv : SlotInv (w name) obs) (d : Dict) (hne : d.isEmpty = false)
    (hwid : ∀ kv ∈ d, kv.2.length = fields.length)
    (hw : ∀ old, obs.head? = some old → widthMismatch old d = false) :
    ∃ s', frontEndWrap true name fields agg ep et true w (.ok d)
        = (w.set name s', .perdev (d.map fun kv => (kv.1, fields.zip (adjRow obs.head? s'.rem kv.1 kv.2)))) ∧
      SlotInv s' (d :: obs) := by
  obtain ⟨s', hrun, inv'⟩ := run_inv (w name) obs inv d hw
  refine ⟨s', ?_, inv'⟩
  simp only [frontEndWrap, hrun, hne, Bool.false_eq_true, if_false]
  have hmap := perdevTuples_map fields d (·.1) (fun kv => adjRow obs.head? s'.rem kv.1 kv.2)
    (fun kv hkv => by rw [adjRow_length]; exact hwid kv hkv)
  have hempty : (d.map fun kv => (kv.1, adjRow obs.head? s'.rem kv.1 kv.2)).isEmpty = false := by
    cases d with
    | nil => simp at hne
    | cons _ _ => rfl
  simp only [frontEnd, hempty, Bool.false_eq_true, if_false, if_true, hmap]

/-- the system-wide form when NOTHING listed was seen going backwards: the dict handed on is the raw one, so
    the answer is the one of `nowrap=False` — every listed device counted once, nothing of an earlier call -/
theorem frontEndWrap_total_quiet (name : String) (fields : List String) (agg : AggCfg) (ep et : Out) (w : WState)
    (obs : List Dict) (inv : SlotInv (w name) obs) (d : Dict) (per : Bool)
    (hw : ∀ old, obs.head? = some old → widthMismatch old d = false)
    (hq : ∀ kv ∈ d, ∀ i, quietAtD kv.1 i (d :: obs) = true) :
    ∃ s', frontEndWrap true name fields agg ep et per w (.ok d)
        = (w.set name s', frontEnd fields agg ep et per (.ok d)) ∧ SlotInv s' (d :: obs) := by
  obtain ⟨s', hrun, inv'⟩ := run_inv (w name) obs inv d hw
  refine ⟨s', ?_, inv'⟩
  have hsame : (d.map fun kv => (kv.1, adjRow obs.head? s'.rem kv.1 kv.2)) = d := by
    conv => rhs; rw [← List.map_id d]
    apply List.map_congr_left
    intro kv hkv
    have hrow : adjRow obs.head? s'.rem kv.1 kv.2 = kv.2 := by
      apply List.ext_getElem
      · exact adjRow_length _ _ _ _
      · intro i h1 h2
        have := adjRow_exact obs.head? s'.rem kv.1 kv.2 i (inv'.zero kv.1 i (hq kv hkv i))
        simp only [tupAt, List.getD_eq_getElem?_getD, List.getElem?_eq_getElem h1, List.getElem?_eq_getElem h2,
          Option.getD_some] at this
        exact this
    simp [hrow]
  simp only [frontEndWrap, hrun, hsame]
  cases hd : d.isEmpty with
  | true =>
    have : d = [] := by simpa using hd
    subst this
    rfl
  | false => simp

end Psutil.C09
