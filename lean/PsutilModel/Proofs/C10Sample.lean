/-
  Proofs/C10Sample.lean — with the raw sample taken under the front ends' sampling lock
  (`Cfg.sampleUnderLock`), the calls take `_wn.lock` in the order in which they sampled the kernel.
-/
import PsutilModel.Proofs.C10Conc
namespace Psutil.C10

def isCall : Op → Bool
  | .call _ _ _ => true
  | _ => false

/-- the `wrap_numbers` calls among the logged bodies, in lock order -/
def callsOf (log : List (Nat × Op)) : List (Nat × Op) := log.filter fun e => isCall e.2

/-- the call that has sampled the kernel but not yet taken `_wn.lock` (at most one: it holds the
    sampling lock) -/
def pending (s : Sys) : List (Nat × Op) :=
  match s.outer with
  | some t =>
    match s.pc t with
    | .want op => if isCall op then [(t, op)] else []
    | _ => []
  | none => []

structure InvS (s : Sys) : Prop where
  /-- lock order of the calls (+ the one still waiting for `_wn.lock`) = sampling order -/
  order : callsOf s.log ++ pending s = s.samples
  /-- a thread that has sampled and waits for `_wn.lock` holds the sampling lock -/
  waiting : ∀ u op, s.pc u = .want op → isCall op = true → s.outer = some u

theorem invS_init : InvS Sys.init := ⟨rfl, fun u op h => by simp [Sys.init] at h⟩

theorem callsOf_snoc (log : List (Nat × Op)) (t : Nat) (op : Op) :
    callsOf (log ++ [(t, op)]) = callsOf log ++ (if isCall op then [(t, op)] else []) := by
  simp only [callsOf, List.filter_append, List.filter_cons, List.filter_nil]

/-- `pending` only looks at the holder of the sampling lock and its pc -/
theorem pending_congr (s s' : Sys) (ho : s'.outer = s.outer)
    (hp : ∀ t, s.outer = some t → s'.pc t = s.pc t) : pending s' = pending s := by
  unfold pending
  rw [ho]
  cases h : s.outer with
  | none => rfl
  | some t => simp only [hp t h]

theorem stepS_inv (c : Cfg) (hg : c.GoodConc) (hs : c.sampleUnderLock = true) (s s' : Sys) (a : Act)
    (hi : InvS s) (h : stepC c s a = some s') : InvS s' := by
  cases a with
  | sample t n raw =>
    simp only [stepC, hs, Bool.true_and, if_true] at h
    split at h
    · rename_i hp
      split at h
      · cases h
      · rename_i ho
        have hon : s.outer = none := by
          cases hx : s.outer with
          | none => rfl
          | some x => simp [hx] at ho
        simp only [Option.some.injEq] at h; subst h
        have hpend : pending s = [] := by simp [pending, hon]
        refine ⟨?_, ?_⟩
        · simp only [pending, setPc_same, isCall, if_true]
          rw [← hi.order, hpend, List.append_nil]
        · intro u op hu hc
          by_cases e : u = t
          · subst e; rfl
          · simp only [setPc_other _ _ _ _ e] at hu
            have := hi.waiting u op hu hc
            rw [hon] at this; cases this
    · cases h
  | wantClear t n =>
    simp only [stepC] at h
    split at h
    · rename_i hp
      simp only [Option.some.injEq] at h; subst h
      refine ⟨?_, ?_⟩
      · have : pending { s with pc := setPc s.pc t (.want (clearOp n)) } = pending s := by
          unfold pending
          cases ho : s.outer with
          | none => rfl
          | some x =>
            simp only
            by_cases e : x = t
            · subst e
              simp only [setPc_same, hp]
              cases n <;> simp [clearOp, isCall]
            · simp only [setPc_other _ _ _ _ e]
        simp only [this]
        exact hi.order
      · intro u op hu hc
        by_cases e : u = t
        · subst e
          simp only [setPc_same, PC.want.injEq] at hu
          subst hu
          cases n <;> simp [clearOp, isCall] at hc
        · simp only [setPc_other _ _ _ _ e] at hu
          exact hi.waiting u op hu hc
    · cases h
  | acquire t =>
    simp only [stepC] at h
    split at h
    · rename_i op hp hl
      simp only [guarded_good c hg, if_true, Option.some.injEq] at h; subst h
      refine ⟨?_, ?_⟩
      · simp only [callsOf_snoc]
        rw [← hi.order]
        cases hc : isCall op with
        | true =>
          have ho := hi.waiting t op hp hc
          simp only [pending, ho, setPc_same, hp, hc, if_true, List.append_nil]
        | false =>
          simp only [Bool.false_eq_true, if_false, List.append_nil]
          congr 1
          unfold pending
          cases ho : s.outer with
          | none => rfl
          | some x =>
            simp only
            by_cases e : x = t
            · subst e; simp only [setPc_same, hp, hc, Bool.false_eq_true, if_false]
            · simp only [setPc_other _ _ _ _ e]
      · intro u op' hu hc
        by_cases e : u = t
        · subst e; simp only [setPc_same] at hu; cases hu
        · simp only [setPc_other _ _ _ _ e] at hu
          exact hi.waiting u op' hu hc
    · cases h
  | load t =>
    simp only [stepC] at h
    split at h
    · rename_i op hp
      simp only [Option.some.injEq] at h; subst h
      refine ⟨?_, ?_⟩
      · have : pending { s with pc := setPc s.pc t (.loaded op s.st true) } = pending s := by
          unfold pending
          cases ho : s.outer with
          | none => rfl
          | some x =>
            simp only
            by_cases e : x = t
            · subst e; simp only [setPc_same, hp]
            · simp only [setPc_other _ _ _ _ e]
        simp only [this]
        exact hi.order
      · intro u op' hu hc
        by_cases e : u = t
        · subst e; simp only [setPc_same] at hu; cases hu
        · simp only [setPc_other _ _ _ _ e] at hu
          exact hi.waiting u op' hu hc
    · simp only [guarded_good c hg, if_true] at h; cases h
    · cases h
  | store t =>
    simp only [stepC] at h
    split at h
    · rename_i op seen locked hp
      simp only [Option.some.injEq] at h; subst h
      refine ⟨?_, ?_⟩
      · have : pending { s with st := (step c seen op).1, pc := setPc s.pc t (.stored locked),
                                outs := s.outs ++ [(t, (step c seen op).2)] } = pending s := by
          unfold pending
          cases ho : s.outer with
          | none => rfl
          | some x =>
            simp only
            by_cases e : x = t
            · subst e; simp only [setPc_same, hp]
            · simp only [setPc_other _ _ _ _ e]
        simp only [this]
        exact hi.order
      · intro u op' hu hc
        by_cases e : u = t
        · subst e; simp only [setPc_same] at hu; cases hu
        · simp only [setPc_other _ _ _ _ e] at hu
          exact hi.waiting u op' hu hc
    · cases h
  | release t =>
    have key : ∀ (lk : Option Nat) (b : Bool), s.pc t = .stored b →
        InvS { s with lock := lk, pc := setPc s.pc t .idle, outer := relOuter s t } := by
      intro lk b hp
      refine ⟨?_, ?_⟩
      · have : pending { s with lock := lk, pc := setPc s.pc t .idle, outer := relOuter s t } = pending s := by
          unfold pending relOuter
          cases ho : s.outer with
          | none => simp
          | some x =>
            by_cases e : x = t
            · subst e; simp [hp]
            · have : ¬ (some x = some t) := by simpa using e
              simp only [this, if_false, setPc_other _ _ _ _ e]
        simp only [this]
        exact hi.order
      · intro u op' hu hc
        by_cases e : u = t
        · subst e; simp only [setPc_same] at hu; cases hu
        · simp only [setPc_other _ _ _ _ e] at hu
          have ho := hi.waiting u op' hu hc
          have : ¬ (some u = some t) := by simpa using e
          simp only [relOuter, ho, this, if_false]
    simp only [stepC] at h
    split at h
    · rename_i hp
      simp only [Option.some.injEq] at h; subst h
      exact key none true hp
    · rename_i hp
      simp only [Option.some.injEq] at h; subst h
      exact key s.lock false hp
    · cases h

theorem runS_inv (c : Cfg) (hg : c.GoodConc) (hs : c.sampleUnderLock = true) (acts : List Act) :
    ∀ s s' : Sys, InvS s → runC c s acts = some s' → InvS s' := by
  induction acts with
  | nil => intro s s' hi h; simp only [runC, Option.some.injEq] at h; exact h ▸ hi
  | cons a as ih =>
    intro s s' hi h
    simp only [runC] at h
    split at h
    · cases h
    · rename_i s1 h1
      exact ih s1 s' (stepS_inv c hg hs s s1 a hi h1) h

/-- at most one call is pending -/
theorem pending_length (s : Sys) : (pending s).length ≤ 1 := by
  unfold pending
  split
  · split
    · split <;> simp
    · simp
  · simp


/-- `C10_refines` for any good configuration -/
theorem refines_good (c : Cfg) (hg : c.Good) (w : Name → Nat) (h : List Op) (n : Name) (raw : Raw)
    (hw : ∀ op ∈ h, OpW w op) (hr : RawW (w n) raw) (hn : NodupKeys raw) (hne : raw ≠ []) :
    (step c (runAll c St.init h) (.call n true raw)).2 = .dict (Spec.expected h n raw) := by
  have hi := runAll_inv c hg w h St.init (fun _ => []) hw (init_inv w)
  have hslot := slot_good c hg n
  have hgood := hg
  obtain ⟨he, _, _⟩ := hg
  have hemp : raw.isEmpty = false := by cases raw <;> simp_all
  have hout := run_out c hgood _ _ raw (hi.inv n) hn
  simp only [step, he, hslot, hemp, Bool.false_and, Bool.false_eq_true, if_false, if_true]
  cases hc : ((runAll c St.init h).get n).cache with
  | none => simp [hout, Spec.expected, Spec.snapsOf]
  | some old =>
    have hhead : (List.foldl (Spec.snapsStep n) [] h).head? = some old := by
      rw [← (hi.inv n).cache]; exact hc
    have hold : RawW (w n) old := hi.width n old (List.mem_of_mem_head? hhead)
    simp [widthMismatch_false hold hr, hout, Spec.expected, Spec.snapsOf]

end Psutil.C10
