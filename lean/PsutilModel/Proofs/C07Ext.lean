/-
  Proofs/C07Ext.lean — helper lemmas of the second extension round of C07:
    * `cpuN` lines that carry their own CPU numbers (offline CPUs are not printed),
    * the parser on ANY bytes: which exception, exactly when (token classes),
    * the sample a blocking call leaves behind.
-/
import PsutilModel.Proofs.C07Parse
import PsutilModel.Proofs.C07Hist
import PsutilModel.Spec.C07Ext
namespace Psutil.C07
open Spec

/-! ### numbered CPU lines -/

theorem not_mem_cpuLinesL (ncols : Nat) (ts : List (Nat × Ticks)) :
    ∀ l ∈ renderCpuLinesL ncols ts, 10 ∉ l := by
  induction ts with
  | nil => intro l hl; simp [renderCpuLinesL] at hl
  | cons p ts ih =>
    intro l hl
    simp only [renderCpuLinesL, List.mem_cons] at hl
    rcases hl with rfl | hl
    · exact not_mem_cpuLine ncols p.1 p.2
    · exact ih l hl

theorem statLinesL_no_newline (ncols : Nat) (w : ProcStatL) (ho : ∀ l ∈ w.other, 10 ∉ l) :
    ∀ l ∈ statLinesL ncols w, 10 ∉ l := by
  intro l hl
  simp only [statLinesL, List.mem_cons, List.mem_append] at hl
  rcases hl with rfl | hl | hl
  · exact not_mem_totalLine ncols w.total
  · exact not_mem_cpuLinesL ncols w.cpus l hl
  · exact ho l hl

theorem parseCpuLines_renderL (c : Cfg) (hg : c.Good) (tck : Nat) (htck : 0 < tck) (nf ncols : Nat)
    (hnf : nf ≤ 10) (hcols : nf ≤ ncols) (other : List Bytes)
    (ho : ∀ l ∈ other, startsWith [99, 112, 117] l = false) (ts : List (Nat × Ticks)) :
    parseCpuLines c nf tck (renderCpuLinesL ncols ts ++ other)
      = .ok (ts.map fun p => seconds tck nf p.2) := by
  induction ts with
  | nil =>
    have := parseCpuLines_render c hg tck htck nf ncols hnf hcols other ho [] 0
    simpa [renderCpuLines, renderCpuLinesL] using this
  | cons p ts ih =>
    simp only [renderCpuLinesL, List.cons_append, parseCpuLines, hg.perCpuPrefix,
      startsWith_cpuLine, if_true, hg.pcSliceFrom, hg.pcSliceExtra, splitWs_cpuLine,
      parseCpuValues_render c hg tck htck nf ncols hnf hcols, ih, List.map_cons]

/-- numbering 0..n-1 gives back the unnumbered renderer -/
theorem renderCpuLinesL_numberFrom (ncols : Nat) (ts : List Ticks) :
    ∀ i, renderCpuLinesL ncols (numberFrom i ts) = renderCpuLines ncols i ts := by
  induction ts with
  | nil => intro i; rfl
  | cons t ts ih => intro i; simp [numberFrom, renderCpuLinesL, renderCpuLines, ih]

/-! ### by position = by number when the same CPUs are online -/

theorem lookup_of_not_mem {β : Type} (j : Nat) (l : List (Nat × β)) (h : j ∉ l.map Prod.fst) :
    l.lookup j = none := by
  induction l with
  | nil => rfl
  | cons p l ih =>
    simp only [List.map_cons, List.mem_cons, not_or] at h
    have hne : (j == p.1) = false := by simpa using h.1
    rw [List.lookup_cons, hne]
    exact ih h.2

theorem perCpu_position_eq_number (nf : Nat) :
    ∀ (os ns : List (Nat × Times)), os.map Prod.fst = ns.map Prod.fst → (os.map Prod.fst).Nodup →
      perCpuPercent nf (os.map Prod.snd) (ns.map Prod.snd) = perCpuByNumber nf os ns := by
  intro os
  induction os with
  | nil =>
    intro ns h _
    cases ns with
    | nil => rfl
    | cons n ns => simp at h
  | cons o os ih =>
    intro ns h hnd
    cases ns with
    | nil => simp at h
    | cons n ns =>
      simp only [List.map_cons, List.cons.injEq] at h
      obtain ⟨h1, h2⟩ := h
      simp only [List.map_cons, List.nodup_cons] at hnd
      obtain ⟨hni, hnd'⟩ := hnd
      have ihh := ih ns h2 hnd'
      unfold perCpuByNumber at ihh ⊢
      simp only [List.map_cons, perCpuPercent, List.filterMap_cons]
      have hl : List.lookup n.1 (o :: os) = some o.2 := by
        rw [List.lookup_cons, ← h1]; simp
      rw [hl]
      simp only [Option.map_some]
      congr 1
      rw [ihh]
      apply List.filterMap_congr
      intro p hp
      have hpm : p.1 ∈ os.map Prod.fst := by
        rw [h2]; exact List.mem_map_of_mem hp
      have hne : (p.1 == o.1) = false := by
        have : p.1 ≠ o.1 := fun he => hni (he ▸ hpm)
        simpa using this
      rw [List.lookup_cons, hne]

/-! ### token classes -/

theorem parseAux_isSome (cs : Bytes) : ∀ acc, (parseRadixAux decimal cs acc).isSome = cs.all isDigit := by
  induction cs with
  | nil => intro acc; rfl
  | cons c cs ih =>
    intro acc
    by_cases hc : 48 ≤ c ∧ c ≤ 57
    · have hv : decimal.val c = some (c - 48) := by simp [decimal, hc]
      have hd : isDigit c = true := by simp [isDigit, hc]
      simp only [parseRadixAux, hv, ih, List.all_cons, hd, Bool.true_and]
    · have hv : decimal.val c = none := by simp [decimal, hc]
      have hd : isDigit c = false := by
        simp only [isDigit, Bool.and_eq_false_iff, decide_eq_false_iff_not]
        omega
      simp [parseRadixAux, hv, hd]

theorem parseDec_isSome (t : Bytes) : (parseDec? t).isSome = isDigitTok t := by
  cases t with
  | nil => rfl
  | cons c cs =>
    simp only [parseDec?, parseRadix?, isDigitTok, List.isEmpty_cons, Bool.not_false, Bool.true_and]
    exact parseAux_isSome (c :: cs) 0

theorem parseDec_of_digitTok (t : Bytes) (h : isDigitTok t = true) : parseDec? t = some (digitVal t) := by
  have := parseDec_isSome t
  rw [h] at this
  unfold digitVal
  cases hp : parseDec? t with
  | none => rw [hp] at this; simp at this
  | some n => rfl

theorem parseDec_of_not_digitTok (t : Bytes) (h : isDigitTok t = false) : parseDec? t = none := by
  have := parseDec_isSome t
  rw [h] at this
  cases hp : parseDec? t with
  | none => rfl
  | some n => rw [hp] at this; simp at this

theorem kernelTok_digitTok (t : Bytes) (h : isKernelTok t = true) : isDigitTok t = true := by
  obtain ⟨hne, hd⟩ := kernelTok_digits t h
  cases t with
  | nil => exact absurd rfl hne
  | cons c cs =>
    simp only [isDigitTok, List.isEmpty_cons, Bool.not_false, Bool.true_and, List.all_eq_true]
    exact hd

theorem digit_inFloatAlphabet (b : Nat) (h : isDigit b = true) : inFloatAlphabet b = true := by
  simp [inFloatAlphabet, h]

theorem foreignTok_not_digitTok (t : Bytes) (h : isForeignTok t = true) : isDigitTok t = false := by
  simp only [isForeignTok, List.any_eq_true] at h
  obtain ⟨b, hb, hf⟩ := h
  cases hd : isDigitTok t with
  | false => rfl
  | true =>
    simp only [isDigitTok, Bool.and_eq_true, List.all_eq_true] at hd
    have := digit_inFloatAlphabet b (hd.2 b hb)
    rw [this] at hf
    simp at hf

/-- leading zeros do not change the value (`float(b"007") == 7.0`) -/
theorem digitVal_leading_zero (t : Bytes) (hne : t ≠ []) : digitVal (48 :: t) = digitVal t := by
  cases t with
  | nil => exact absurd rfl hne
  | cons c cs =>
    have hv : decimal.val 48 = some 0 := by decide
    simp [digitVal, parseDec?, parseRadix?, parseRadixAux, hv]

/-! ### the parser on any tokens -/

theorem parseFloatTok_eq (c : Cfg) (hg : c.Good) (tck : Nat) (htck : 0 < tck) (t : Bytes) :
    parseFloatTok c tck t =
      if isDigitTok t then .ok (((digitVal t : Nat) : Rat) / (tck : Rat)) else .error .valueError := by
  have h0 : tck ≠ 0 := by omega
  cases hd : isDigitTok t with
  | true => simp [parseFloatTok, parseDec_of_digitTok t hd, hg.divTicks, h0]
  | false => simp [parseFloatTok, parseDec_of_not_digitTok t hd]

theorem parseToks_eq (c : Cfg) (hg : c.Good) (tck : Nat) (htck : 0 < tck) (toks : List Bytes) :
    parseToks c tck toks =
      if toks.all isDigitTok then .ok (toks.map fun t => ((digitVal t : Nat) : Rat) / (tck : Rat))
      else .error .valueError := by
  induction toks with
  | nil => rfl
  | cons t ts ih =>
    simp only [parseToks, parseFloatTok_eq c hg tck htck, ih, List.all_cons, List.map_cons]
    cases isDigitTok t with
    | false => simp
    | true =>
      cases ts.all isDigitTok with
      | false => simp
      | true => simp

/-- one line, any tokens: the model's `values[1 : nf+1]` / `float(x)/CLOCK_TICKS` / `scputimes(*fields)` -/
theorem parseCpuValues_eq (c : Cfg) (hg : c.Good) (tck : Nat) (htck : 0 < tck) (nf : Nat)
    (values : List Bytes) : parseCpuValues c 1 1 nf tck values = lineOutcome tck nf values := by
  unfold parseCpuValues lineOutcome counterToks
  simp only [Nat.add_sub_cancel, parseToks_eq c hg tck htck]
  cases ((values.drop 1).take nf).all isDigitTok with
  | false => simp
  | true => simp

theorem parseCpuLines_eq (c : Cfg) (hg : c.Good) (tck : Nat) (htck : 0 < tck) (nf : Nat) (ls : List Bytes) :
    parseCpuLines c nf tck ls = linesOutcome tck nf (ls.filter (startsWith [99, 112, 117])) := by
  induction ls with
  | nil => rfl
  | cons l ls ih =>
    simp only [parseCpuLines, hg.perCpuPrefix, hg.pcSliceFrom, hg.pcSliceExtra,
      parseCpuValues_eq c hg tck htck, List.filter_cons]
    cases startsWith [99, 112, 117] l with
    | false => simpa using ih
    | true =>
      simp only [if_true, linesOutcome, ih]
      rfl

theorem lineOutcome_valueError_iff (tck nf : Nat) (values : List Bytes) :
    lineOutcome tck nf values = .error .valueError ↔
      ∃ t ∈ counterToks nf values, isDigitTok t = false := by
  simp only [lineOutcome]
  by_cases ha : (counterToks nf values).all isDigitTok = true
  · rw [if_pos ha]
    constructor
    · intro h
      by_cases hl : (counterToks nf values).length = nf
      · rw [if_pos hl] at h; cases h
      · rw [if_neg hl] at h; cases h
    · rintro ⟨t, ht, hf⟩
      rw [List.all_eq_true] at ha
      rw [ha t ht] at hf
      cases hf
  · rw [if_neg ha]
    simp only [true_iff]
    by_contra hne
    apply ha
    rw [List.all_eq_true]
    intro t ht
    cases hd : isDigitTok t with
    | true => rfl
    | false => exact absurd ⟨t, ht, hd⟩ hne

theorem lineOutcome_typeError_iff (tck nf : Nat) (values : List Bytes) :
    lineOutcome tck nf values = .error .typeError ↔
      (∀ t ∈ counterToks nf values, isDigitTok t = true) ∧ (counterToks nf values).length < nf := by
  have hlen : (counterToks nf values).length ≤ nf := by
    simp only [counterToks, List.length_take]; omega
  simp only [lineOutcome]
  by_cases ha : (counterToks nf values).all isDigitTok = true
  · rw [if_pos ha]
    rw [List.all_eq_true] at ha
    by_cases hl : (counterToks nf values).length = nf
    · rw [if_pos hl]
      constructor
      · intro h; cases h
      · rintro ⟨_, h⟩; omega
    · rw [if_neg hl]
      simp only [true_iff]
      exact ⟨ha, by omega⟩
  · rw [if_neg ha]
    constructor
    · intro h; cases h
    · rintro ⟨h, _⟩
      rw [← List.all_eq_true] at h
      exact absurd h ha

theorem counterToks_append (nf : Nat) (values extra : List Bytes) (h : nf + 1 ≤ values.length) :
    counterToks nf (values ++ extra) = counterToks nf values := by
  unfold counterToks
  rw [List.drop_append_of_le_length (by omega), List.take_append_of_le_length]
  simp only [List.length_drop]; omega

theorem linesOutcome_ok_iff (tck nf : Nat) (ls : List Bytes) :
    (∃ r, linesOutcome tck nf ls = .ok r) ↔ ∀ l ∈ ls, lineWellFormed nf l = true := by
  induction ls with
  | nil => simp [linesOutcome]
  | cons l ls ih =>
    simp only [linesOutcome, List.mem_cons, forall_eq_or_imp]
    have hw : lineWellFormed nf l = true ↔ ∃ s, lineOutcome tck nf (splitWs l) = .ok s := by
      simp only [lineWellFormed, lineOutcome, Bool.and_eq_true, decide_eq_true_eq]
      by_cases ha : (counterToks nf (splitWs l)).all isDigitTok = true
      · by_cases hl : (counterToks nf (splitWs l)).length = nf
        · rw [if_pos ha, if_pos hl]
          exact ⟨fun _ => ⟨_, rfl⟩, fun _ => ⟨ha, hl⟩⟩
        · rw [if_pos ha, if_neg hl]
          constructor
          · intro h; exact absurd h.2 hl
          · rintro ⟨s, hs⟩; cases hs
      · rw [if_neg ha]
        constructor
        · intro h; exact absurd h.1 ha
        · rintro ⟨s, hs⟩; cases hs
    constructor
    · rintro ⟨r, hr⟩
      cases h1 : lineOutcome tck nf (splitWs l) with
      | error e => rw [h1] at hr; simp at hr
      | ok s =>
        rw [h1] at hr
        refine ⟨hw.mpr ⟨s, h1⟩, ih.mp ?_⟩
        cases h2 : linesOutcome tck nf ls with
        | error e => rw [h2] at hr; simp at hr
        | ok ss => exact ⟨ss, rfl⟩
    · rintro ⟨h1, h2⟩
      obtain ⟨s, hs⟩ := hw.mp h1
      obtain ⟨ss, hss⟩ := ih.mpr h2
      exact ⟨s :: ss, by simp [hs, hss]⟩

/-! ### what a blocking call leaves behind -/

theorem blocking_not_negative (c : Call) (h : c.blocking = true) : c.negative = false := by
  unfold Call.blocking at h
  unfold Call.negative
  cases hi : c.interval with
  | none => rfl
  | some i =>
    rw [hi] at h
    simp only [decide_eq_true_eq] at h
    simp only [decide_eq_false_iff_not, not_lt]
    exact le_of_lt h

theorem prevStep_blocking (rd : Bool → Bytes → PRes Stored) (b : Call) (p : Option Stored)
    (r0 r1 : Bytes) (rest : List Bytes) (t0 t2 : Stored)
    (hb : b.blocking = true) (hr : b.reads = r0 :: r1 :: rest)
    (h0 : rd b.percpu r0 = .ok t0) (h2 : rd b.percpu r1 = .ok t2) :
    prevStep rd b.fam b.tid p b = some t2 := by
  simp [prevStep, taken, blocking_not_negative b hb, hb, hr, h0, h2, Except.toOption]

end Psutil.C07
