/-
  Proofs/C11Rows.lean — assembling `retrieve` over a rendered world into the promised rows.
-/
import PsutilModel.Proofs.C11Retrieve
set_option linter.unusedSimpArgs false
namespace Psutil.C11
open Spec

/-- does the documented meaning of `k` ask for the class a canonical entry names? -/
def entrySelected (k : String) (e : TEntry) : Bool :=
  if e.1 = "tcp" then kindSelects k .inet4 1
  else if e.1 = "udp" then kindSelects k .inet4 2
  else if e.1 = "tcp6" then kindSelects k .inet6 1
  else if e.1 = "udp6" then kindSelects k .inet6 2
  else kindSelects k .unix 1

/-- is socket `s` shown in the file entry `e` names? -/
def inEntry (e : TEntry) (s : Sock) : Bool :=
  if e.1 = "tcp" then inClass .inet4 1 s
  else if e.1 = "udp" then inClass .inet4 2 s
  else if e.1 = "tcp6" then inClass .inet6 1 s
  else if e.1 = "udp6" then inClass .inet6 2 s
  else s.fam == .unix

theorem entrySocks_eq (w : World) (e : TEntry) : entrySocks w e = w.socks.filter (inEntry e) := by
  unfold entrySocks inEntry
  split
  · rfl
  · split
    · rfl
    · split
      · rfl
      · split <;> rfl

/-- the table facts `retrieve` relies on (all decidable over the generated tables) -/
def Cfg.TmapGood (c : Cfg) : Prop :=
  kinds.all (fun k => match c.tmap.lookup k with
    | some es => es.all (fun e => canonicalEntries.contains e)
                 && canonicalEntries.all (fun ce => es.contains ce == entrySelected k ce)
                 && decide es.Nodup
    | none => false) = true
  ∧ kinds.all (fun k => c.connKinds.contains k) = true

theorem Cfg.TmapGood.entries {c : Cfg} (h : c.TmapGood) {k : String} (hk : k ∈ kinds) :
    ∃ es, c.tmap.lookup k = some es ∧ (∀ e ∈ es, e ∈ canonicalEntries)
      ∧ (∀ ce ∈ canonicalEntries, ce ∈ es ↔ entrySelected k ce = true) ∧ es.Nodup := by
  have := List.all_eq_true.mp h.1 k hk
  cases hl : c.tmap.lookup k with
  | none => rw [hl] at this; cases this
  | some es =>
    rw [hl] at this
    simp only [Bool.and_eq_true, List.all_eq_true, decide_eq_true_eq] at this
    obtain ⟨⟨h1, h2⟩, h3⟩ := this
    refine ⟨es, rfl, fun e he => by simpa using h1 e he, fun ce hce => ?_, h3⟩
    have := h2 ce hce
    simp only [beq_iff_eq] at this
    rw [← this]; simp

/-- the class of a well-formed socket is named by exactly one canonical entry -/
def entryOf (s : Sock) : TEntry :=
  match s.fam with
  | .unix => ("unix", 1, none)
  | .inet4 => if s.typ = 1 then ("tcp", 2, some 1) else ("udp", 2, some 2)
  | .inet6 => if s.typ = 1 then ("tcp6", 10, some 1) else ("udp6", 10, some 2)

theorem sock_typ_of_wf {s : Sock} (hw : s.WF) (hf : s.fam ≠ .unix) : s.typ = 1 ∨ s.typ = 2 := by
  cases hfam : s.fam with
  | unix => exact absurd hfam hf
  | inet4 => simp only [Sock.WF, hfam] at hw; exact hw.2.2.2.2.2.2.1
  | inet6 => simp only [Sock.WF, hfam] at hw; exact hw.2.2.2.2.2.2.1

theorem kindSelects_unix (k : String) (t : Nat) : kindSelects k .unix t = kindSelects k .unix 1 := rfl

theorem inEntry_iff (s : Sock) (hw : s.WF) : ∀ e ∈ canonicalEntries, inEntry e s = true ↔ e = entryOf s := by
  intro e he
  simp only [canonicalEntries, List.mem_cons, List.not_mem_nil, or_false] at he
  cases hfam : s.fam with
  | unix =>
    rcases he with rfl | rfl | rfl | rfl | rfl <;> simp [inEntry, inClass, entryOf, hfam]
  | inet4 =>
    rcases sock_typ_of_wf hw (by rw [hfam]; decide) with ht | ht <;>
      rcases he with rfl | rfl | rfl | rfl | rfl <;> simp [inEntry, inClass, entryOf, hfam, ht]
  | inet6 =>
    rcases sock_typ_of_wf hw (by rw [hfam]; decide) with ht | ht <;>
      rcases he with rfl | rfl | rfl | rfl | rfl <;> simp [inEntry, inClass, entryOf, hfam, ht]

theorem entryOf_canonical (s : Sock) : entryOf s ∈ canonicalEntries := by
  by_cases ht : s.typ = 1 <;> cases hf : s.fam <;> simp [entryOf, canonicalEntries, hf, ht]

theorem entrySelected_entryOf (k : String) (s : Sock) (hw : s.WF) :
    entrySelected k (entryOf s) = kindSelects k s.fam s.typ := by
  cases hfam : s.fam with
  | unix => simp [entryOf, hfam, entrySelected, kindSelects_unix k s.typ]
  | inet4 =>
    rcases sock_typ_of_wf hw (by rw [hfam]; decide) with ht | ht <;> simp [entryOf, hfam, entrySelected, ht]
  | inet6 =>
    rcases sock_typ_of_wf hw (by rw [hfam]; decide) with ht | ht <;> simp [entryOf, hfam, entrySelected, ht]

/-- a socket is read through some entry of `tmap[kind]` exactly when the kind asks for it -/
theorem selected_iff {k : String} {es : List TEntry} (hc : ∀ e ∈ es, e ∈ canonicalEntries)
    (hsel : ∀ ce ∈ canonicalEntries, ce ∈ es ↔ entrySelected k ce = true) (s : Sock) (hw : s.WF) :
    (∃ e ∈ es, inEntry e s = true) ↔ kindSelects k s.fam s.typ = true := by
  rw [← entrySelected_entryOf k s hw, ← hsel _ (entryOf_canonical s)]
  constructor
  · rintro ⟨e, he, hin⟩
    rw [(inEntry_iff s hw e (hc e he)).mp hin] at he
    exact he
  · intro h
    exact ⟨entryOf s, h, (inEntry_iff s hw _ (entryOf_canonical s)).mpr rfl⟩

/-! ### counting -/

theorem filter_eq_length_of_nodup {α : Type} [DecidableEq α] (l : List α) (hn : l.Nodup) (a : α) :
    (l.filter (fun x => decide (x = a))).length = if a ∈ l then 1 else 0 := by
  induction l with
  | nil => rfl
  | cons b bs ih =>
    have hn' : b ∉ bs ∧ bs.Nodup := by simpa using hn
    by_cases h : b = a
    · subst h
      have : bs.filter (fun x => decide (x = b)) = [] := by
        rw [List.filter_eq_nil_iff]
        intro x hx
        simp only [decide_eq_true_eq]
        intro e; subst e; exact hn'.1 hx
      simp [List.filter_cons, this]
    · have h' : ¬ a = b := fun e => h e.symm
      simp [List.filter_cons, h, ih hn'.2, h']

theorem count_entries {k : String} {es : List TEntry} (hc : ∀ e ∈ es, e ∈ canonicalEntries)
    (hsel : ∀ ce ∈ canonicalEntries, ce ∈ es ↔ entrySelected k ce = true) (hn : es.Nodup) (s : Sock) (hw : s.WF) :
    (es.filter (fun e => inEntry e s)).length = if kindSelects k s.fam s.typ then 1 else 0 := by
  have : es.filter (fun e => inEntry e s) = es.filter (fun e => decide (e = entryOf s)) := by
    apply List.filter_congr
    intro e he
    have := inEntry_iff s hw e (hc e he)
    by_cases h : e = entryOf s
    · have h1 := this.mpr h
      rw [h1]; simp [h]
    · have : inEntry e s = false := by
        cases hh : inEntry e s with
        | false => rfl
        | true => exact absurd (this.mp hh) h
      simp [h, this]
  rw [this, filter_eq_length_of_nodup es hn, ← entrySelected_entryOf k s hw]
  by_cases hm : entryOf s ∈ es
  · simp [hm, (hsel _ (entryOf_canonical s)).mp hm]
  · have : entrySelected k (entryOf s) = false := by
      cases hh : entrySelected k (entryOf s) with
      | false => rfl
      | true => exact absurd ((hsel _ (entryOf_canonical s)).mpr hh) hm
    simp [hm, this]

/-- sums over the per-entry files = sum over the selected sockets -/
theorem sum_partition {k : String} {es : List TEntry} (hc : ∀ e ∈ es, e ∈ canonicalEntries)
    (hsel : ∀ ce ∈ canonicalEntries, ce ∈ es ↔ entrySelected k ce = true) (hn : es.Nodup) (cnt : Sock → Nat) :
    ∀ socks : List Sock, (∀ s ∈ socks, s.WF) →
      (es.map fun e => ((socks.filter (inEntry e)).map cnt).sum).sum
        = ((socks.filter fun s => kindSelects k s.fam s.typ).map cnt).sum := by
  intro socks
  have hzero : ∀ l : List TEntry, (l.map fun _ => 0).sum = 0 := by
    intro l; induction l with
    | nil => rfl
    | cons a as ih => simp [ih]
  induction socks with
  | nil => intro _; simp [hzero]
  | cons s ss ih =>
    intro hw
    have ih' := ih (fun x hx => hw x (by simp [hx]))
    have hs := hw s (by simp)
    have hstep : ∀ l : List TEntry,
        (l.map fun e => (((s :: ss).filter (inEntry e)).map cnt).sum).sum
          = (l.filter (fun e => inEntry e s)).length * cnt s
            + (l.map fun e => ((ss.filter (inEntry e)).map cnt).sum).sum := by
      intro l
      induction l with
      | nil => simp
      | cons e l ihl =>
        rw [List.map_cons, List.sum_cons, ihl]
        cases hin : inEntry e s
        · simp only [List.filter_cons, hin, Bool.false_eq_true, if_false, List.map_cons, List.sum_cons]
          generalize (List.filter (fun e => inEntry e s) l).length * cnt s = z
          omega
        · simp only [List.filter_cons, hin, if_true, List.map_cons, List.sum_cons, List.length_cons,
            Nat.succ_mul]
          generalize (List.filter (fun e => inEntry e s) l).length * cnt s = z
          omega
    rw [hstep es, ih', count_entries hc hsel hn s hs]
    cases hk : kindSelects k s.fam s.typ <;> simp [List.filter_cons, hk]

/-! ### assembling -/

/-- the tuples promised for one socket: one per owner (UNIX) / one, carrying the first owner -/
def promisedRows (w : World) (q : Query) (s : Sock) : List Row :=
  if s.fam = .unix then (owners w q s.inode).map (rowOf s)
  else (owners w q s.inode).head?.toList.map (rowOf s)

/-- the inode map used for query `q` yields exactly the owners the specification allows -/
structure OwnersOK (w : World) (q : Query) (inodes : Inodes) : Prop where
  inv : Inv inodes
  uniform : Uniform inodes q.pid
  owners : ∀ i, modelOwners inodes q.pid (renderDec i) = owners w q i

theorem sockRows_promised {w : World} {q : Query} {inodes : Inodes} (ok : OwnersOK w q inodes) (s : Sock) :
    (sockRows inodes q.pid s).map (wrapRow q.pid) = promisedRows w q s := by
  unfold promisedRows
  by_cases hu : s.fam = .unix
  · simp only [hu, if_true]
    rw [sockRows_unix inodes q.pid s hu, ok.owners]
  · simp only [hu, if_false]
    rw [sockRows_inet inodes ok.inv q.pid ok.uniform s hu, ok.owners]

theorem mem_expects (w : World) (q : Query) (e : Expect) :
    e ∈ expects w q ↔ ∃ s ∈ w.socks, kindSelects q.kind s.fam s.typ = true ∧ expectOf w q s = some e := by
  simp only [expects, List.mem_filterMap, List.mem_filter]
  constructor
  · rintro ⟨s, ⟨h1, h2⟩, h3⟩; exact ⟨s, h1, h2, h3⟩
  · rintro ⟨s, h1, h2, h3⟩; exact ⟨s, ⟨h1, h2⟩, h3⟩

theorem expectOf_eq (w : World) (q : Query) (s : Sock) :
    expectOf w q s = if owners w q s.inode = [] then none
      else some ⟨baseRow s, owners w q s.inode, s.fam == .unix⟩ := by
  unfold expectOf
  cases h : owners w q s.inode <;> simp

theorem promisedRows_length (w : World) (q : Query) (s : Sock) :
    (promisedRows w q s).length = match expectOf w q s with
      | none => 0
      | some e => e.count := by
  rw [expectOf_eq]
  unfold promisedRows Expect.count
  by_cases hu : s.fam = .unix
  · cases h : owners w q s.inode <;> simp [hu]
  · have : (s.fam == Fam.unix) = false := by simpa using hu
    cases h : owners w q s.inode <;> simp [hu, this]

theorem sum_count_expects (w : World) (q : Query) (l : List Sock) :
    ((l.filterMap (expectOf w q)).map Expect.count).sum = (l.map fun s => (promisedRows w q s).length).sum := by
  induction l with
  | nil => rfl
  | cons s ss ih =>
    simp only [List.filterMap_cons, List.map_cons, List.sum_cons, promisedRows_length w q s]
    cases h : expectOf w q s <;> simp [ih]

theorem accepts_nil_of_no_owner (w : World) (q : Query) (h : ∀ i, owners w q i = []) :
    Accepts (expects w q) [] := by
  have he : expects w q = [] := by
    unfold expects
    rw [List.filterMap_eq_nil_iff]
    intro s _
    rw [expectOf_eq, h s.inode]; simp
  rw [he]
  exact ⟨fun r hr => (by cases hr), fun e he => (by cases he), List.nodup_nil, (by simp)⟩

/-- the loop over the entries of a kind returns what is promised for world `w`, over ANY file
    system on which each canonical entry yields the tuples of `w`'s sockets of its class -/
theorem entries_accept_of (c : Cfg) (fs : ProcFs) (w : World) (hws : ∀ s ∈ w.socks, s.WF) (q : Query)
    (inodes : Inodes) (ok : OwnersOK w q inodes) (es : List TEntry) (hc : ∀ e ∈ es, e ∈ canonicalEntries)
    (hsel : ∀ ce ∈ canonicalEntries, ce ∈ es ↔ entrySelected q.kind ce = true) (hn : es.Nodup)
    (hER : ∀ e ∈ canonicalEntries,
      entryRows c fs inodes q.pid e = .ok ((entrySocks w e).flatMap (sockRows inodes q.pid))) :
    ∃ rows, retrieveEntries c fs inodes q.pid es [] = .ok rows ∧ Accepts (expects w q) rows := by
  have hw : ∀ s ∈ w.socks, s.WF := hws
  obtain ⟨out, h1, h2, h3, h4⟩ := retrieveEntries_ok c fs inodes q.pid
    (fun e => (entrySocks w e).flatMap (sockRows inodes q.pid)) es []
    (fun e he => hER e (hc e he))
  refine ⟨out, h1, ?_⟩
  -- membership in the result, per socket
  have hmem : ∀ x, x ∈ out ↔ ∃ s ∈ w.socks, kindSelects q.kind s.fam s.typ = true ∧ x ∈ promisedRows w q s := by
    intro x
    rw [h2 x]
    simp only [List.not_mem_nil, false_or]
    constructor
    · rintro ⟨e, he, hx⟩
      rw [List.map_flatMap, entrySocks_eq] at hx
      obtain ⟨s, hs, hxs⟩ := List.mem_flatMap.mp hx
      rw [sockRows_promised ok s] at hxs
      obtain ⟨hs1, hs2⟩ := List.mem_filter.mp hs
      exact ⟨s, hs1, (selected_iff hc hsel s (hw s hs1)).mp ⟨e, he, hs2⟩, hxs⟩
    · rintro ⟨s, hs, hsel', hx⟩
      obtain ⟨e, he, hin⟩ := (selected_iff hc hsel s (hw s hs)).mpr hsel'
      refine ⟨e, he, ?_⟩
      rw [List.map_flatMap, entrySocks_eq]
      refine List.mem_flatMap.mpr ⟨s, List.mem_filter.mpr ⟨hs, hin⟩, ?_⟩
      rw [sockRows_promised ok s]; exact hx
  refine ⟨?_, ?_, h3 List.nodup_nil, ?_⟩
  · -- justified
    intro r hr
    obtain ⟨s, hs, hk, hx⟩ := (hmem r).mp hr
    have hne : owners w q s.inode ≠ [] := by
      intro h0
      unfold promisedRows at hx
      rw [h0] at hx
      by_cases hu : s.fam = .unix <;> simp [hu] at hx
    refine ⟨⟨baseRow s, owners w q s.inode, s.fam == .unix⟩, ?_, ?_⟩
    · rw [mem_expects]; exact ⟨s, hs, hk, by rw [expectOf_eq]; simp [hne]⟩
    · unfold promisedRows at hx
      by_cases hu : s.fam = .unix
      · simp only [hu, if_true, List.mem_map] at hx
        obtain ⟨o, ho, rfl⟩ := hx
        exact ⟨o, ho, rfl⟩
      · simp only [hu, if_false, List.mem_map] at hx
        obtain ⟨o, ho, rfl⟩ := hx
        refine ⟨o, ?_, rfl⟩
        cases hO : owners w q s.inode with
        | nil => rw [hO] at ho; simp at ho
        | cons a as => rw [hO] at ho; simp at ho; simp [ho]
  · -- covered
    intro e he
    obtain ⟨s, hs, hk, hes⟩ := (mem_expects w q e).mp he
    rw [expectOf_eq] at hes
    by_cases h0 : owners w q s.inode = []
    · simp [h0] at hes
    · simp only [h0, if_false, Option.some.injEq] at hes
      subst hes
      by_cases hu : s.fam = .unix
      · have : (s.fam == Fam.unix) = true := by simpa using hu
        simp only [this, if_true]
        intro o ho
        rw [hmem]
        exact ⟨s, hs, hk, by unfold promisedRows; simp only [hu, if_true]; exact List.mem_map.mpr ⟨o, ho, rfl⟩⟩
      · have : (s.fam == Fam.unix) = false := by simpa using hu
        simp only [this, Bool.false_eq_true, if_false]
        cases hO : owners w q s.inode with
        | nil => exact absurd hO h0
        | cons a as =>
          refine ⟨a, by simp, ?_⟩
          rw [hmem]
          refine ⟨s, hs, hk, ?_⟩
          unfold promisedRows
          simp only [hu, if_false, hO]
          simp [Expect.row, rowOf]
  · -- bound
    have hlen : ∀ e : TEntry, ((entrySocks w e).flatMap (sockRows inodes q.pid)).length
        = ((w.socks.filter (inEntry e)).map fun s => (promisedRows w q s).length).sum := by
      intro e
      rw [entrySocks_eq, List.length_flatMap]
      congr 1
      apply List.map_congr_left
      intro s _
      rw [← sockRows_promised ok s, List.length_map]
    have hsum := sum_partition hc hsel hn (fun s => (promisedRows w q s).length) w.socks hw
    simp only [hlen, List.length_nil, Nat.zero_add] at h4
    rw [hsum] at h4
    unfold expects
    rw [sum_count_expects]
    exact h4

/-- the loop over the entries of a kind, run over a rendered world, returns what is promised -/
theorem entries_accept (c : Cfg) (hg : c.Good) (w : World) (hw : w.WF) (q : Query) (inodes : Inodes)
    (ok : OwnersOK w q inodes) (es : List TEntry) (hc : ∀ e ∈ es, e ∈ canonicalEntries)
    (hsel : ∀ ce ∈ canonicalEntries, ce ∈ es ↔ entrySelected q.kind ce = true) (hn : es.Nodup) :
    ∃ rows, retrieveEntries c (renderWorld c.littleEndian w) inodes q.pid es [] = .ok rows
      ∧ Accepts (expects w q) rows :=
  entries_accept_of c (renderWorld c.littleEndian w) w hw.socks q inodes ok es hc hsel hn
    (fun e he => entryRows_render c hg w hw inodes ok.inv q.pid e he)

theorem kind_in_connKinds {c : Cfg} (ht : c.TmapGood) {k : String} (hk : k ∈ kinds) : k ∈ c.connKinds := by
  simpa using List.all_eq_true.mp ht.2 k hk

/-- system-wide form over any well-formed world -/
theorem netConnections_system (c : Cfg) (hg : c.Good) (ht : c.TmapGood) (w : World) (hw : w.WF)
    (kind : String) (hk : kind ∈ kinds) :
    ∃ rows, netConnections c (renderWorld c.littleEndian w) kind none = .ok rows
      ∧ Accepts (expects w ⟨kind, none⟩) rows := by
  obtain ⟨es, hl, hc, hsel, hn⟩ := ht.entries hk
  obtain ⟨_, hinv⟩ := getAllInodes_spec c hg.inodesExtend (renderWorld c.littleEndian w).procs
  have ok : OwnersOK w ⟨kind, none⟩ (getAllInodes c (renderWorld c.littleEndian w).procs) :=
    ⟨hinv, (by intro k x _ p hp; cases hp), fun i => owners_system c hg c.littleEndian w hw kind i⟩
  obtain ⟨rows, h1, h2⟩ := entries_accept c hg w hw ⟨kind, none⟩ _ ok es hc hsel hn
  refine ⟨rows, ?_, h2⟩
  have hin : ¬ kind ∉ c.connKinds := fun h => h (kind_in_connKinds ht hk)
  simp only [netConnections, hin, if_false, retrieve, Option.isSome, Bool.false_and, Bool.false_eq_true, hl]
  exact h1

/-- per-process form, for a listed process whose descriptors can be listed -/
theorem netConnections_process (c : Cfg) (hg : c.Good) (ht : c.TmapGood) (w : World) (hw : w.WF)
    (hn : (w.procs.map (·.1)).Nodup) (kind : String) (hk : kind ∈ kinds) (p' : Nat)
    (fds : List (Nat × Target)) (hl : w.procs.lookup (p' + 1) = some (some fds)) :
    ∃ rows, netConnections c (renderWorld c.littleEndian w) kind (some (p' + 1)) = .ok rows
      ∧ Accepts (expects w ⟨kind, some (p' + 1)⟩) rows := by
  obtain ⟨es, hlk, hc, hsel, hnd⟩ := ht.entries hk
  obtain ⟨ho, hinv, hu⟩ := owners_process w hw hn kind p' 0 fds hl
  have ok : OwnersOK w ⟨kind, some (p' + 1)⟩ (getProcInodes (p' + 1) (renderFds fds)) :=
    ⟨hinv, hu, fun i => (owners_process w hw hn kind p' i fds hl).1⟩
  have hin : ¬ kind ∉ c.connKinds := fun h => h (kind_in_connKinds ht hk)
  have hlook : (renderWorld c.littleEndian w).procs.lookup (p' + 1) = some (some (renderFds fds)) := by
    rw [lookup_renderProcs, hl]; rfl
  cases hemp : (getProcInodes (p' + 1) (renderFds fds)).isEmpty with
  | true =>
    refine ⟨[], ?_, ?_⟩
    · simp [netConnections, hin, retrieve, hlook, hemp]
    · apply accepts_nil_of_no_owner
      intro i
      rw [← ok.owners i]
      have : getProcInodes (p' + 1) (renderFds fds) = [] := by
        cases h : getProcInodes (p' + 1) (renderFds fds) with
        | nil => rfl
        | cons a as => rw [h] at hemp; cases hemp
      rw [this]
      simp [modelOwners, ownerPairs, filteredOut]
  | false =>
    obtain ⟨rows, h1, h2⟩ := entries_accept c hg w hw ⟨kind, some (p' + 1)⟩ _ ok es hc hsel hnd
    refine ⟨rows, ?_, h2⟩
    simp only [netConnections, hin, if_false, retrieve, hlook, Option.isSome, Bool.true_and, hemp,
      Bool.false_eq_true, hlk]
    exact h1

end Psutil.C11
