/-
  Proofs/C17Parts.lean — disk_partitions(): the /proc/filesystems line classifier and the
  mount-entry view/filter, against Spec.
-/
import PsutilModel.Proofs.C17Bounds
namespace Psutil.C17
open Spec

/-! ### strip on lines whose first and last byte are not whitespace -/

theorem lstripWs_cons_nows (a : Nat) (s : Bytes) (h : isWs a = false) : lstripWs (a :: s) = a :: s := by
  simp [lstripWs, h]

theorem rstripWs_concat_nows (s : Bytes) (z : Nat) (h : isWs z = false) : rstripWs (s ++ [z]) = s ++ [z] := by
  simp [rstripWs, lstripWs, h]

/-- a non-empty byte string that starts and ends with non-whitespace is its own `strip()` -/
theorem stripWs_id (a : Nat) (s : Bytes) (z : Nat) (ha : isWs a = false) (hz : isWs z = false) :
    stripWs (a :: (s ++ [z])) = a :: (s ++ [z]) := by
  unfold stripWs
  rw [lstripWs_cons_nows a _ ha]
  have : a :: (s ++ [z]) = (a :: s) ++ [z] := by simp
  rw [this, rstripWs_concat_nows _ z hz]

theorem stripWs_single (a : Nat) (ha : isWs a = false) : stripWs [a] = [a] := by
  simp [stripWs, rstripWs, lstripWs, ha]

/-- names as the kernel registers them: non-empty, no whitespace (hence no TAB / newline) -/
structure Spec.FsEntry.WF (e : FsEntry) : Prop where
  ne : e.name ≠ []
  nows : ∀ c ∈ e.name, isWs c = false
  /-- a disk-backed type whose name itself begins with "nodev" would be taken for a pseudo
      file system line (and raise IndexError): excluded, no such type exists -/
  notNodev : e.nodev = false → nodevWord.isPrefixOf e.name = false

theorem stripWs_nows (n : Bytes) (hne : n ≠ []) (h : ∀ c ∈ n, isWs c = false) : stripWs n = n := by
  cases n with
  | nil => exact absurd rfl hne
  | cons a t =>
    rcases List.eq_nil_or_concat t with rfl | ⟨t', z, rfl⟩
    · exact stripWs_single a (h a (by simp))
    · rw [List.concat_eq_append]
      exact stripWs_id a t' z (h a (by simp)) (h z (by simp))

theorem tab_notin (n : Bytes) (h : ∀ c ∈ n, isWs c = false) : 9 ∉ n := by
  intro hm
  have := h 9 hm
  simp [isWs] at this

/-- classification of one rendered line under the good configuration -/
theorem fsLine_good (c : PCfg) (hg : c.Good) (acc : List Bytes) (e : FsEntry) (h : e.WF) :
    fsLine c acc (renderFsLine e) =
      some (if !e.nodev || e.name == zfs then acc ++ [e.name] else acc) := by
  obtain ⟨hne, hnw, hnn⟩ := h
  cases hn : e.nodev with
  | false =>
    have hs : stripWs (renderFsLine e) = e.name := by
      simp only [renderFsLine, hn, Bool.false_eq_true, if_false, List.nil_append, List.singleton_append]
      have : stripWs (9 :: e.name) = stripWs e.name := by
        simp [stripWs, lstripWs, isWs]
      rw [this, stripWs_nows e.name hne hnw]
    have hp : startsWith c.nodevPrefix e.name = false := by
      rw [hg.pre]; exact hnn hn
    simp only [fsLine, hs, hp, Bool.not_false, if_true, stripWs_nows e.name hne hnw]
    simp
  | true =>
    -- "nodev\t<name>"
    obtain ⟨t, z, hz⟩ : ∃ t z, e.name = t ++ [z] := by
      rcases List.eq_nil_or_concat e.name with h0 | ⟨t, z, h1⟩
      · exact absurd h0 hne
      · exact ⟨t, z, by rw [h1, List.concat_eq_append]⟩
    have hzw : isWs z = false := hnw z (by rw [hz]; simp)
    have hline : renderFsLine e = 110 :: ([111, 100, 101, 118, 9] ++ t ++ [z]) := by
      simp [renderFsLine, hn, nodevWord, hz]
    have hs : stripWs (renderFsLine e) = renderFsLine e := by
      rw [hline]; exact stripWs_id 110 _ z (by decide) hzw
    have hline2 : renderFsLine e = nodevWord ++ 9 :: e.name := by
      simp [renderFsLine, hn]
    have hp : startsWith c.nodevPrefix (renderFsLine e) = true := by
      rw [hg.pre, hline2]
      simp [startsWith, nodevWord]
    have hsp : splitOn 9 (renderFsLine e) = [nodevWord, e.name] := by
      rw [hline2, splitOn_append 9 nodevWord e.name (by decide), splitOn_noSep 9 e.name (tab_notin _ hnw)]
    simp only [fsLine, hs, hp, Bool.not_true, Bool.false_eq_true, if_false, hsp, hg.idx, hg.kept]
    simp only [List.getElem?_cons_succ, List.getElem?_cons_zero, Bool.not_true, Bool.false_or]
    by_cases hzf : e.name = zfs
    · simp [hzf]
    · have : (e.name == zfs) = false := by simpa using hzf
      simp [this, hzf]

theorem fsLines_good (c : PCfg) (hg : c.Good) (fs : List FsEntry) (h : ∀ e ∈ fs, e.WF) (acc : List Bytes) :
    fsLines c acc (fs.map renderFsLine) = some (acc ++ diskFs fs) := by
  induction fs generalizing acc with
  | nil => simp [fsLines, diskFs]
  | cons e fs ih =>
    have he := h e (by simp)
    have ih' := fun a => ih (fun x hx => h x (by simp [hx])) a
    simp only [List.map_cons, fsLines, fsLine_good c hg acc e he]
    rw [ih']
    by_cases hk : (!e.nodev || e.name == zfs) = true
    · simp [hk, diskFs, List.filter_cons]
    · have hk' : (!e.nodev || e.name == zfs) = false := by simpa using hk
      simp only [hk', Bool.false_eq_true, if_false, diskFs, List.filter_cons]

/-! ### mount entries -/

theorem viewDev_good (c : PCfg) (hg : c.Good) (root : Option Bytes) (dev : Bytes) :
    viewDev c root dev = shownDev root dev := by
  unfold viewDev shownDev
  rw [hg.noneDev, hg.aliases]
  by_cases hn : dev = noneWord
  · subst hn
    simp only [if_true]
    rfl
  · simp only [hn, if_false]
    by_cases ha : dev = devRoot ∨ dev = rootfsWord
    · have : [devRoot, rootfsWord].contains dev = true := by
        rcases ha with rfl | rfl <;> decide
      simp only [this, if_true, ha]
      cases root with
      | none => rfl
      | some r => cases r <;> simp
    · have : [devRoot, rootfsWord].contains dev = false := by
        simp only [not_or] at ha
        rw [← Bool.not_eq_true, List.contains_iff_mem]
        simp [ha.1, ha.2]
      simp [this, ha]

theorem keepMnt_good (c : PCfg) (hg : c.Good) (ft disk : List Bytes) (hft : ∀ x, x ∈ ft ↔ x ∈ disk) (m : Mnt) :
    keepMnt c ft m = decide (Kept disk m) := by
  rw [Bool.eq_iff_iff, decide_eq_true_iff]
  unfold keepMnt Kept
  rw [hg.fdev, hg.ftyp]
  have hc : ft.contains m.typ = true ↔ m.typ ∈ disk := by
    rw [List.contains_iff_mem]; exact hft _
  by_cases hd : m.dev = []
  · simp [hd]
  · by_cases ht : m.typ ∈ disk
    · have := (hft _).2 ht
      simp [hd, ht, this]
    · have : m.typ ∉ ft := fun h => ht ((hft _).1 h)
      simp [hd, ht, this]

end Psutil.C17
