/-
  Proofs/C09Sysfs.lean — helper lemmas for the `/sys/block` source (`read_sysfs`): `strip().split()`
  is `split()`, the tokens of a kernel-rendered `stat` file, the directories `os.walk` visits in a
  kernel-shaped tree, the dict the loop builds, and the front end over a raw dict (shared by both
  sources). The lemmas by `rfl` on `sysfsCfg` are proof obligations on `Generated/C09.lean`.
-/
import PsutilModel.Proofs.C09Disk
namespace Psutil.C09
open Spec

/-! ### `s.strip().split()` = `s.split()` -/

section strip
variable (p : Nat → Bool)

theorem lstripP_decomp (s : Bytes) : ∃ g, AllP p g ∧ s = g ++ lstripP p s := by
  induction s with
  | nil => exact ⟨[], (by intro c hc; cases hc), rfl⟩
  | cons c cs ih =>
    by_cases hc : p c = true
    · obtain ⟨g, hg, hs⟩ := ih
      refine ⟨c :: g, ?_, ?_⟩
      · intro x hx
        rw [List.mem_cons] at hx
        rcases hx with rfl | hx
        · exact hc
        · exact hg x hx
      · simp only [lstripP, hc, if_true, List.cons_append]
        rw [← hs]
    · exact ⟨[], (by intro x hx; cases hx), by simp [lstripP, hc]⟩

theorem splitGo_lstripP (s : Bytes) : splitGo p (lstripP p s) [] = splitGo p s [] := by
  obtain ⟨g, hg, hs⟩ := lstripP_decomp p s
  conv => rhs; rw [hs]
  rw [splitGo_gap_nil p g _ hg]

theorem splitGo_append_allP (a g cur : Bytes) (hg : AllP p g) :
    splitGo p (a ++ g) cur = splitGo p a cur := by
  induction a generalizing cur with
  | nil =>
    cases cur with
    | nil => simp [splitGo_allP_nil p g hg, splitGo]
    | cons x xs => simp [splitGo_allP p g (x :: xs) hg (by simp), splitGo]
  | cons c a ih =>
    simp only [List.cons_append, splitGo]
    split
    · split <;> simp [ih]
    · exact ih _

theorem rstripP_decomp (s : Bytes) : ∃ g, AllP p g ∧ s = rstripP p s ++ g := by
  obtain ⟨g, hg, hs⟩ := lstripP_decomp p s.reverse
  refine ⟨g.reverse, fun c hc => hg c (by simpa using hc), ?_⟩
  have := congrArg List.reverse hs
  simpa [rstripP] using this

/-- stripping before splitting changes nothing -/
theorem splitP_stripP (s : Bytes) : splitP p (stripP p s) = splitP p s := by
  unfold splitP stripP
  obtain ⟨g, hg, ht⟩ := rstripP_decomp p (lstripP p s)
  have h : splitGo p (lstripP p s) [] = splitGo p (rstripP p (lstripP p s)) [] := by
    conv => lhs; rw [ht]
    exact splitGo_append_allP p _ g [] hg
  rw [← h, splitGo_lstripP]

end strip

/-! ### one `stat` file -/

theorem split_statLine (v : Nat) (r : List Nat) :
    splitP isWsT (renderStatLine (v :: r)) = (v :: r).map renderDec := by
  have h := splitP_layout isWsT (List.replicate (8 - (renderDec v).length) 32) (renderDec v)
    ((r.map fun x => (8, x)).map cellItem) [10] (allP_replicate _) (tok_dec v) (good_cellItems _)
    (by intro c hc; rw [List.mem_singleton] at hc; rw [hc]; rfl)
  simpa [renderStatLine, numW, padLeft, renderCells_glue, cellItem, List.map_map, Function.comp_def] using h

theorem odd_not_mem_statLine (c : Nat) (h : Odd c) (h10 : c ≠ 10) (vs : List Nat) : c ∉ renderStatLine vs := by
  cases vs with
  | nil => simp [renderStatLine, h10]
  | cons v r =>
    simp only [renderStatLine, List.mem_append, List.mem_singleton, not_or]
    exact ⟨⟨odd_not_mem_padLeft c 8 _ h (odd_not_mem_renderDec c v h), odd_not_mem_renderCells c _ h⟩, h10⟩

theorem textRead_statLine (univ : Bool) (vs : List Nat) : textRead univ (renderStatLine vs) = renderStatLine vs := by
  unfold textRead
  cases univ with
  | false => rfl
  | true => exact univNl_id _ (odd_not_mem_statLine 13 odd13 (by decide) vs)

theorem hasUniSpace_statLine (vs : List Nat) : hasUniSpace (renderStatLine vs) = false := by
  apply hasUniSpace_noLead
  intro c hc
  cases hl : isUniLead c with
  | false => rfl
  | true =>
    have h10 : c ≠ 10 := by
      intro e; rw [e] at hl; exact absurd hl (by decide)
    exact absurd hc (odd_not_mem_statLine c (lead_odd c hl) h10 vs)

/-- the extracted unpack/yield orders of `read_sysfs`: ten integers → the yielded tuple after `name` -/
theorem sysfs_values (v0 v1 v2 v3 v4 v5 v6 v7 v8 v9 : Nat) :
    lookups (sysfsCfg.unpack.zip [v0, v1, v2, v3, v4, v5, v6, v7, v8, v9]) sysfsCfg.yieldNames
      = some [v0, v4, v2, v6, v3, v7, v1, v5, v9] := by rfl

/-- the common loop body on that tuple: sectors × 512, stored order -/
theorem store_values (a b c d e f g h i : Nat) :
    storeEntry diskCfg [a, b, c, d, e, f, g, h, i] = .ok [a, b, c * 512, d * 512, e, f, g, h, i] := by rfl

/-- **per stat file**: the kernel's 11 (+4, +6, + any number of later) counters → the documented values -/
theorem sysfsStat_render (univ : Bool) (s : Io11) (ext : List Nat) :
    (sysfsStat sysfsCfg univ (renderStat s ext)).bind (storeEntry diskCfg) = .ok (vals9 (.full s ext)) := by
  have hc : renderStat s ext = renderStatLine (s.reads :: ([s.readsMerged, s.sectorsRead, s.msReading,
      s.writes, s.writesMerged, s.sectorsWritten, s.msWriting, s.inFlight, s.msIo, s.msWeighted] ++ ext)) := rfl
  have ht : sysfsCfg.take = 10 := rfl
  have hu : sysfsCfg.unpack.length = 10 := rfl
  unfold sysfsStat
  simp only [hc, textRead_statLine, hasUniSpace_statLine, Bool.false_eq_true, if_false, splitP_stripP,
    split_statLine, ht, List.map_cons, List.cons_append, List.nil_append, List.take_succ_cons, List.take_zero,
    ints, intTok_renderDec, Res.bind, List.length_cons, List.length_nil, hu, sysfs_values]
  rfl

/-- fewer than ten fields in a `stat` file: ValueError (not enough values to unpack) -/
theorem sysfsStat_short (univ : Bool) (vs : List Nat) (h : vs.length < 10) (hne : vs ≠ []) :
    sysfsStat sysfsCfg univ (renderStatLine vs) = .err .valueError := by
  have ht : sysfsCfg.take = 10 := rfl
  have hu : sysfsCfg.unpack.length = 10 := rfl
  cases vs with
  | nil => exact absurd rfl hne
  | cons v r =>
    unfold sysfsStat
    simp only [textRead_statLine, hasUniSpace_statLine, Bool.false_eq_true, if_false, splitP_stripP,
      split_statLine, ht]
    have hk : ((v :: r).map renderDec).take 10 = (v :: r).map renderDec := by
      apply List.take_of_length_le; simpa using Nat.le_of_lt h
    rw [hk, ints_renderDec]
    simp only [Res.bind, hu]
    have : (v :: r).length ≠ 10 := by omega
    rw [if_pos this]

/-! ### the directories `read_sysfs` reads -/

/-- no file called `stat` in any directory of these trees -/
def NoStat (ds : List SysDir) : Prop := ∀ e ∈ walkList ds, e.2.lookup statName = none

def statEntry (nr : Option (Nat × Nat)) (e : Bytes × List (Bytes × Bytes)) : Option (Bytes × Bytes) :=
  (e.2.lookup sysfsCfg.statName).map fun c => (mapName nr e.1, c)

theorem statName_cfg : sysfsCfg.statName = statName := rfl

theorem entries_noStat (nr : Option (Nat × Nat)) (ds : List SysDir) (h : NoStat ds) :
    (walkList ds).filterMap (statEntry nr) = [] := by
  rw [List.filterMap_eq_nil_iff]
  intro e he
  simp [statEntry, statName_cfg, h e he]

theorem lookup_append_stat (others : List (Bytes × Bytes)) (c : Bytes) (h : others.lookup statName = none) :
    (others ++ [(statName, c)]).lookup statName = some c := by
  induction others with
  | nil => simp
  | cons x r ih =>
    obtain ⟨k, v⟩ := x
    cases hk : (statName == k) with
    | true => simp [List.lookup, hk] at h
    | false =>
      simp only [List.lookup, hk] at h
      simp only [List.cons_append, List.lookup, hk]
      exact ih h

theorem statEntry_stat (nr : Option (Nat × Nat)) (n : Bytes) (others : List (Bytes × Bytes)) (c : Bytes)
    (h : others.lookup statName = none) :
    statEntry nr (n, others ++ [(statName, c)]) = some (mapName nr n, c) := by
  simp [statEntry, statName_cfg, lookup_append_stat others c h]

/-- text of the `stat` file of a device known by its `Rec` -/
def statText : Rec → Bytes
  | .full s ext => renderStat s ext
  | _ => []

theorem entries_part (nr : Option (Nat × Nat)) (p : SysPart) (ho : p.others.lookup statName = none)
    (ha : NoStat p.attrs) :
    (partDir p).walk.filterMap (statEntry nr) = [(mapName nr (sysName p.name), renderStat p.s p.ext)] := by
  rw [partDir, walk_node, List.filterMap_cons, statEntry_stat nr _ _ _ ho, entries_noStat nr p.attrs ha]

structure SysDiskWF (d : SysDisk) : Prop where
  files : d.others.lookup statName = none
  attrs : NoStat d.attrs
  partFiles : ∀ p ∈ d.parts, p.others.lookup statName = none
  partAttrs : ∀ p ∈ d.parts, NoStat p.attrs

theorem entries_parts (nr : Option (Nat × Nat)) (parts : List SysPart)
    (hf : ∀ p ∈ parts, p.others.lookup statName = none) (ha : ∀ p ∈ parts, NoStat p.attrs) :
    (walkList (parts.map partDir)).filterMap (statEntry nr)
      = parts.map fun p => (mapName nr (sysName p.name), renderStat p.s p.ext) := by
  induction parts with
  | nil => simp [walkList_nil]
  | cons p r ih =>
    simp only [List.map_cons, walkList_cons, List.filterMap_append]
    rw [entries_part nr p (hf p (by simp)) (ha p (by simp)),
      ih (fun q hq => hf q (by simp [hq])) (fun q hq => ha q (by simp [hq]))]
    rfl

/-- the device entries of one disk directory, in `os.walk` order -/
def diskEntries (nr : Option (Nat × Nat)) (d : SysDisk) : List (Bytes × Bytes) :=
  (mapName nr (sysName d.name), renderStat d.s d.ext) ::
    d.parts.map fun p => (mapName nr (sysName p.name), renderStat p.s p.ext)

theorem entries_disk (nr : Option (Nat × Nat)) (d : SysDisk) (wf : SysDiskWF d) :
    (diskDir d).walk.filterMap (statEntry nr) = diskEntries nr d := by
  rw [diskDir, walk_node, List.filterMap_cons, statEntry_stat nr _ _ _ wf.files, walkList_append,
    List.filterMap_append, entries_parts nr d.parts wf.partFiles wf.partAttrs, entries_noStat nr d.attrs wf.attrs]
  simp [diskEntries]

theorem sysfsEntries_render (nr : Option (Nat × Nat)) (disks : List SysDisk) (wf : ∀ d ∈ disks, SysDiskWF d) :
    sysfsEntries (sysfsCfgWith nr) (renderSysfs disks) = disks.flatMap (diskEntries nr) := by
  show (walkList (disks.map diskDir)).filterMap (statEntry nr) = _
  induction disks with
  | nil => simp [walkList_nil]
  | cons d r ih =>
    rw [List.map_cons, walkList_cons, List.filterMap_append, List.flatMap_cons,
      entries_disk nr d (wf d (by simp)), ih (fun x hx => wf x (by simp [hx]))]

/-- the devices as `read_sysfs` names them: the directory name (`/` → `!`), then the code's own
    `.replace(…)` if it has one -/
def namedBy (nr : Option (Nat × Nat)) (devs : List Dev) : List Dev :=
  devs.map fun d => { d with name := mapName nr (sysName d.name) }

theorem namedBy_none (devs : List Dev) : namedBy none devs = sysfsNamed devs := rfl

theorem diskEntries_devs (nr : Option (Nat × Nat)) (disks : List SysDisk) :
    disks.flatMap (diskEntries nr) = (namedBy nr (sysDevs disks)).map fun d => (d.name, statText d.stat) := by
  induction disks with
  | nil => rfl
  | cons d r ih =>
    have hr : namedBy nr (sysDevs (d :: r)) = namedBy nr d.devs ++ namedBy nr (sysDevs r) := by
      simp [namedBy, sysDevs]
    rw [List.flatMap_cons, ih, hr, List.map_append]
    congr 1
    simp [diskEntries, namedBy, SysDisk.devs, statText, List.map_map, Function.comp_def]

theorem sysDevs_full (nr : Option (Nat × Nat)) (disks : List SysDisk) :
    ∀ x ∈ namedBy nr (sysDevs disks), ∃ s ext, x.stat = .full s ext := by
  intro x hx
  simp only [namedBy, sysDevs, SysDisk.devs, List.mem_map, List.mem_flatMap, List.mem_cons] at hx
  obtain ⟨y, ⟨d, _, hy⟩, rfl⟩ := hx
  rcases hy with rfl | ⟨p, _, rfl⟩
  · exact ⟨_, _, rfl⟩
  · exact ⟨_, _, rfl⟩

/-! ### the loop over the entries -/

theorem sysfsFold_map (nr : Option (Nat × Nat)) (devs : List Dev) (st : Bytes → Bool) (per : Bool)
    (hf : ∀ x ∈ devs, ∃ s ext, x.stat = .full s ext) (d0 : Dict) :
    sysfsFold diskCfg (sysfsCfgWith nr) st per d0 (devs.map fun d => (d.name, statText d.stat))
      = .ok (((devs.filter fun x => !(diskCfg.skipPartitions && !per && !st x.name)).map
            fun d => (d.name, vals9 d.stat)).foldl (fun d kv => d.set kv.1 kv.2) d0) := by
  induction devs generalizing d0 with
  | nil => rfl
  | cons x r ih =>
    have ihr := ih (fun y hy => hf y (by simp [hy]))
    obtain ⟨s, ext, hs⟩ := hf x (by simp)
    have hx : (sysfsStat (sysfsCfgWith nr) diskCfg.univNl (statText x.stat)).bind (storeEntry diskCfg)
        = .ok (vals9 x.stat) := by
      rw [hs]; exact sysfsStat_render _ s ext
    simp only [List.map_cons, sysfsFold, hx]
    by_cases hc : (diskCfg.skipPartitions && !per && !st x.name) = true
    · simp only [hc, if_true, List.filter_cons, Bool.not_true, Bool.false_eq_true, if_false]
      exact ihr d0
    · have hc' : (diskCfg.skipPartitions && !per && !st x.name) = false := by simpa using hc
      simp only [hc', Bool.false_eq_true, if_false, List.filter_cons, Bool.not_false, if_true,
        List.map_cons, List.foldl_cons]
      exact ihr _

theorem sysName_idem (n : Bytes) : sysName (sysName n) = sysName n := by
  unfold sysName
  rw [List.map_map]
  apply List.map_congr_left
  intro c _
  simp only [Function.comp]
  split <;> simp_all

/-- a device table in which no two devices share a `/sys/block` name and none is `.`/`..`
    (what `DiskWF` asks of the names, without the one-token conditions `/proc/diskstats` needs) -/
structure NamesWF (devs : List Dev) : Prop where
  nodup : (devs.map fun d => sysName d.name).Nodup
  notDot : ∀ d ∈ devs, sysName d.name ≠ [46] ∧ sysName d.name ≠ [46, 46]

theorem NamesWF.nodupNames {devs : List Dev} (wf : NamesWF devs) : (devs.map (·.name)).Nodup := by
  have h : ((devs.map (·.name)).map sysName).Nodup := by
    simpa [List.map_map, Function.comp_def] using wf.nodup
  exact List.Pairwise.of_map sysName (fun a b hab e => hab (by rw [e])) h

theorem isStorage_iff_whole' (devs : List Dev) (wf : NamesWF devs) (d : Dev) (hd : d ∈ devs) :
    isStorageDevice diskCfg (sysBlock devs) d.name = !d.partition := by
  have hm : (d.name.map fun c => if c = diskCfg.slashFrom then diskCfg.slashTo else c)
      = sysName d.name := rfl
  unfold isStorageDevice
  simp only [hm]
  have h1 : (sysName d.name == [46]) = false := by simpa using (wf.notDot d hd).1
  have h2 : (sysName d.name == [46, 46]) = false := by simpa using (wf.notDot d hd).2
  rw [h1, h2]
  simp only [Bool.false_or]
  cases hp : d.partition with
  | false =>
    simp only [Bool.not_false, List.contains_eq_mem, decide_eq_true_eq]
    unfold sysBlock
    exact List.mem_map.mpr ⟨d, List.mem_filter.mpr ⟨hd, by simp [hp]⟩, rfl⟩
  | true =>
    simp only [Bool.not_true, List.contains_eq_mem, decide_eq_false_iff_not]
    unfold sysBlock
    intro hmem
    obtain ⟨d', hd', he⟩ := List.mem_map.mp hmem
    rw [List.mem_filter] at hd'
    have := eq_of_nodup_map (fun d => sysName d.name) devs wf.nodup d' hd'.1 d hd he
    rw [this, hp] at hd'
    simp at hd'

/-- the dict the aggregation loop builds from the per-device tuples, whichever generator they came from -/
theorem fold_result (devs : List Dev) (wf : NamesWF devs) (per : Bool) :
    ((devs.filter fun x => !(diskCfg.skipPartitions && !per &&
        !isStorageDevice diskCfg (sysBlock devs) x.name)).map fun d => (d.name, vals9 d.stat)).foldl
        (fun (d : Dict) kv => d.set kv.1 kv.2) ([] : Dict)
      = (if per then devs else wholeDisks devs).map fun d => (d.name, vals9 d.stat) := by
  have hskip : diskCfg.skipPartitions = true := rfl
  have hfilter : (devs.filter fun x => !(diskCfg.skipPartitions && !per &&
      !isStorageDevice diskCfg (sysBlock devs) x.name))
      = if per then devs else wholeDisks devs := by
    cases per with
    | true => simp
    | false =>
      simp only [hskip, Bool.not_false, Bool.and_self, Bool.true_and, Bool.not_not,
        Bool.false_eq_true, if_false, wholeDisks]
      apply List.filter_congr
      intro x hx
      exact isStorage_iff_whole' devs wf x hx
  simp only [hfilter]
  rw [foldl_set_fresh]
  · simp
  · intro _ _ x hx; cases hx
  · have hsub : ((if per then devs else wholeDisks devs).map (·.name)).Sublist (devs.map (·.name)) := by
      cases per with
      | true => simp
      | false => exact List.Sublist.map _ List.filter_sublist
    have := List.Pairwise.sublist hsub wf.nodupNames
    simp only [List.map_map, Function.comp_def]
    exact this

/-- a kernel-shaped `/sys/block`: `stat` is the only file of that name in a device directory, the
    attribute directories have none, no two devices share a directory name, none is `.`/`..` -/
structure SysWF (disks : List SysDisk) : Prop where
  dirs : ∀ d ∈ disks, SysDiskWF d
  names : NamesWF (sysDevs disks)

/-- the code's renaming is undone by the kernel's `/` → `!`: true for no renaming and for `!` → `/` -/
def NameOk (nr : Option (Nat × Nat)) : Prop := ∀ n, sysName (mapName nr (sysName n)) = sysName n

theorem nameOk_none : NameOk none := fun n => sysName_idem n

theorem nameOk_unbang : NameOk (some (33, 47)) := by
  intro n
  unfold sysName mapName
  simp only [List.map_map]
  apply List.map_congr_left
  intro c _
  simp only [Function.comp]
  split <;> split <;> simp_all

theorem nameOk_of (nr : Option (Nat × Nat)) (h : nr = none ∨ nr = some (33, 47)) : NameOk nr := by
  rcases h with rfl | rfl
  · exact nameOk_none
  · exact nameOk_unbang

theorem namesWF_namedBy (nr : Option (Nat × Nat)) (hn : NameOk nr) (devs : List Dev) (wf : NamesWF devs) :
    NamesWF (namedBy nr devs) := by
  refine ⟨?_, ?_⟩
  · have : ((namedBy nr devs).map fun d => sysName d.name) = devs.map fun d => sysName d.name := by
      simp [namedBy, List.map_map, Function.comp_def, hn _]
    rw [this]; exact wf.nodup
  · intro d hd
    simp only [namedBy, List.mem_map] at hd
    obtain ⟨x, hx, rfl⟩ := hd
    simpa [hn _] using wf.notDot x hx

theorem sysBlock_namedBy (nr : Option (Nat × Nat)) (hn : NameOk nr) (devs : List Dev) :
    sysBlock (namedBy nr devs) = sysBlock (sysfsNamed devs) := by
  induction devs with
  | nil => rfl
  | cons d r ih =>
    simp only [sysBlock, namedBy, sysfsNamed, List.map_cons, List.filter_cons] at ih ⊢
    split
    · simp [hn _, sysName_idem, ih]
    · simpa using ih

theorem sysBlock_parts (maj : Nat) (parts : List SysPart) :
    sysBlock (sysfsNamed (parts.map fun p => (⟨maj, p.minor, p.name, true, .full p.s p.ext⟩ : Dev))) = [] := by
  induction parts with
  | nil => rfl
  | cons p r ih =>
    simp only [sysBlock, sysfsNamed, List.map_cons, List.filter_cons] at ih ⊢
    simp [ih]

theorem sysBlock_append (a b : List Dev) : sysBlock (a ++ b) = sysBlock a ++ sysBlock b := by
  simp [sysBlock]

theorem sysfsNamed_append (a b : List Dev) : sysfsNamed (a ++ b) = sysfsNamed a ++ sysfsNamed b := by
  simp [sysfsNamed]

theorem sysfsNamed_cons (x : Dev) (l : List Dev) :
    sysfsNamed (x :: l) = { x with name := sysName x.name } :: sysfsNamed l := rfl

theorem sysBlock_cons_whole (x : Dev) (l : List Dev) (h : x.partition = false) :
    sysBlock (x :: l) = sysName x.name :: sysBlock l := by
  simp [sysBlock, h]

/-- the entries of the rendered `/sys/block` are the whole disks of the same state -/
theorem sysBlock_render (disks : List SysDisk) :
    (renderSysfs disks).map (·.name) = sysBlock (sysfsNamed (sysDevs disks)) := by
  induction disks with
  | nil => rfl
  | cons d r ih =>
    have hr : sysDevs (d :: r) = d.devs ++ sysDevs r := by simp [sysDevs]
    rw [hr, sysfsNamed_append, sysBlock_append, ← ih]
    have hd : sysBlock (sysfsNamed d.devs) = [sysName d.name] := by
      have hp := sysBlock_parts d.major d.parts
      unfold SysDisk.devs
      rw [sysfsNamed_cons, sysBlock_cons_whole _ _ rfl, hp]
      simp [sysName_idem]
    rw [hd]
    simp [renderSysfs, diskDir, SysDir.name]

/-- **`read_sysfs` + aggregation loop** over a kernel-shaped tree, `/proc/diskstats` absent -/
theorem sysfsPlatform_render (nr : Option (Nat × Nat)) (hn : NameOk nr) (disks : List SysDisk)
    (wf : SysWF disks) (per : Bool) :
    diskPlatformW diskCfg (sysfsCfgWith nr) ⟨none, some (renderSysfs disks)⟩ per diskSourceOrder
      = .ok ((if per then namedBy nr (sysDevs disks) else wholeDisks (namedBy nr (sysDevs disks))).map
          fun d => (d.name, vals9 d.stat)) := by
  have hsrc : diskSourceOrder = ["read_procfs", "read_sysfs"] := by decide
  have hst : storageW diskCfg ⟨none, some (renderSysfs disks)⟩
      = isStorageDevice diskCfg (sysBlock (namedBy nr (sysDevs disks))) := by
    funext n
    simp only [storageW]
    rw [sysBlock_render, sysBlock_namedBy nr hn]
  rw [hsrc]
  simp only [diskPlatformW, if_true, String.reduceEq, if_false, hst]
  rw [sysfsEntries_render nr disks wf.dirs, diskEntries_devs,
    sysfsFold_map nr _ _ per (sysDevs_full nr disks) [],
    fold_result _ (namesWF_namedBy nr hn _ wf.names) per]

theorem sysName_id (n : Bytes) (h : 47 ∉ n) : sysName n = n := by
  unfold sysName
  induction n with
  | nil => rfl
  | cons c r ih =>
    have hc : c ≠ 47 := fun e => h (by simp [e])
    simp only [List.map_cons, hc, if_false]
    rw [ih (fun m => h (by simp [m]))]

theorem sysfsNamed_id (devs : List Dev) (h : ∀ d ∈ devs, 47 ∉ d.name) : sysfsNamed devs = devs := by
  induction devs with
  | nil => rfl
  | cons d r ih =>
    rw [sysfsNamed_cons, sysName_id d.name (h d (by simp)), ih (fun x hx => h x (by simp [hx]))]

/-- `!` → `/` undoes the kernel's `/` → `!` on a name that has no `!` of its own -/
theorem unbang_sysName (n : Bytes) (h : 33 ∉ n) : mapName (some (33, 47)) (sysName n) = n := by
  unfold sysName mapName
  induction n with
  | nil => rfl
  | cons c r ih =>
    have hc : c ≠ 33 := fun e => h (by simp [e])
    have := ih (fun m => h (by simp [m]))
    simp only [List.map_map, List.map_cons] at this ⊢
    rw [this]
    congr 1
    split <;> simp_all

theorem namedBy_unbang (devs : List Dev) (h : ∀ d ∈ devs, 33 ∉ d.name) : namedBy (some (33, 47)) devs = devs := by
  induction devs with
  | nil => rfl
  | cons d r ih =>
    have := ih (fun x hx => h x (by simp [hx]))
    simp only [namedBy, List.map_cons] at this ⊢
    rw [this, unbang_sysName d.name (h d (by simp))]

/-! ### the front end over the raw dict (either source) -/

theorem frontEnd_disk (devs : List Dev) (perdisk : Bool) :
    frontEnd Gen.C09.sdiskioFields diskAgg diskEmptyPer diskEmptyTot perdisk
      (.ok ((if perdisk then devs else wholeDisks devs).map fun d => (d.name, vals9 d.stat)))
      = match expectDisk perdisk devs with
        | .none => .none
        | .emptyDict => .emptyDict
        | .perdev d => .perdev d
        | .total t => .total t := by
  cases perdisk with
  | true =>
    cases devs with
    | nil => rfl
    | cons d r =>
      simp only [frontEnd, if_true, List.map_cons, List.isEmpty_cons, Bool.false_eq_true, if_false]
      have := perdevTuples_map Gen.C09.sdiskioFields (d :: r) (·.name) (fun d => vals9 d.stat)
        (fun x _ => by cases x.stat <;> rfl)
      simp only [List.map_cons] at this
      rw [this]
      simp only [expectDisk, if_true, List.isEmpty_cons, Bool.false_eq_true, if_false,
        List.map_cons, zip_vals9]
  | false =>
    simp only [Bool.false_eq_true, if_false, expectDisk]
    cases hw : wholeDisks devs with
    | nil => rfl
    | cons d r =>
      simp only [frontEnd, List.map_cons, List.isEmpty_cons, Bool.false_eq_true, if_false,
        List.map_map, Function.comp_def]
      have hs := aggregate_vals9 d r
      simp only [List.map_cons] at hs
      rw [hs]
      have hf := sumFields_documented9 (d :: r)
      simp only [List.map_cons] at hf
      rw [hf]
      rfl

end Psutil.C09
