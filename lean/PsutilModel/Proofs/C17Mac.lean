/-
  Proofs/C17Mac.lean — the MAC formatting loop of psutil_convert_ipaddr as transcribed in Model/C17 §4
  (a sequence of stores into `buf`) produces the text `xx:xx:…:xx` (round 2).
-/
import PsutilModel.Proofs.C17Bounds
namespace Psutil.C17
open Spec

/-- replacing a segment: stores of `p` from index `|pre|` on overwrite exactly the segment `x` -/
theorem applyWrites_segment (pre x post p : Bytes) (k : Nat) (hk : pre.length = k) (hx : x.length = p.length) :
    applyWrites (pre ++ x ++ post) ((p.zipIdx k).map (fun q => (q.2, q.1))) = pre ++ p ++ post := by
  have h := applyWrites_run p (pre ++ x ++ post) k (by simp; omega)
  rw [h]
  have e1 : (pre ++ x ++ post).take k = pre := by
    rw [List.append_assoc, List.take_append_of_le_length (by omega), List.take_of_length_le (by omega)]
  have e2 : (pre ++ x ++ post).drop (k + p.length) = post := by
    have : (pre ++ x).length = k + p.length := by simp; omega
    rw [List.drop_append_of_le_length (by omega), List.drop_of_length_le (by omega)]
    simp
  rw [e1, e2]

theorem zipIdx_shift (l : Bytes) (k s : Nat) :
    (l.zipIdx s).map (fun (q : Nat × Nat) => (k + q.2, q.1)) = (l.zipIdx (k + s)).map (fun q => (q.2, q.1)) := by
  induction l generalizing s with
  | nil => rfl
  | cons a l ih =>
    simp only [List.zipIdx_cons, List.map_cons]
    rw [ih (s + 1)]
    rfl

/-- the stores of the `sprintf` loop for the bytes `data`, the first of them being byte number `i` -/
def macLoopWrites (cfg : MCfg) (data : Bytes) (i : Nat) : List (Nat × Nat) :=
  (data.zipIdx i).flatMap fun (p : Nat × Nat) =>
    ((macPiece cfg p.1 ++ [0]).zipIdx.map fun (q : Nat × Nat) => (cfg.step * p.2 + q.2, q.1))

def macPieces (cfg : MCfg) (data : Bytes) : Bytes := data.flatMap (macPiece cfg)

theorem macPiece_length (c : MCfg) (hg : c.Good) (b : Nat) : (macPiece c b).length = 3 := by
  simp [macPiece, hg.masked, hex2]

theorem macPieces_length (c : MCfg) (hg : c.Good) (data : Bytes) : (macPieces c data).length = 3 * data.length := by
  induction data with
  | nil => rfl
  | cons b r ih =>
    have : macPieces c (b :: r) = macPiece c b ++ macPieces c r := by simp [macPieces]
    rw [this, List.length_append, ih, macPiece_length c hg, List.length_cons]; omega

/-- **the loop as transcribed**: after the `sprintf`s for `data` (a non-empty run starting at byte
    number `i`, buffer position `3·i`) the buffer holds the pieces one after the other, then the
    NUL of the last `sprintf`; everything before and behind is untouched -/
theorem macLoop_buffer (c : MCfg) (hg : c.Good) (data : Bytes) (hne : data ≠ []) :
    ∀ (i : Nat) (pre fill : Bytes), pre.length = 3 * i → 3 * data.length + 1 ≤ fill.length →
      applyWrites (pre ++ fill) (macLoopWrites c data i)
        = pre ++ macPieces c data ++ [0] ++ fill.drop (3 * data.length + 1) := by
  induction data with
  | nil => exact absurd rfl hne
  | cons b r ih =>
    intro i pre fill hpre hfill
    simp only [List.length_cons] at hfill
    have hW : macLoopWrites c (b :: r) i =
        ((macPiece c b ++ [0]).zipIdx (3 * i)).map (fun (q : Nat × Nat) => (q.2, q.1)) ++ macLoopWrites c r (i + 1) := by
      simp only [macLoopWrites, List.zipIdx_cons, List.flatMap_cons, hg.step]
      rw [zipIdx_shift]
      rfl
    have hsplit : fill = fill.take 4 ++ fill.drop 4 := (List.take_append_drop 4 fill).symm
    have hstep : applyWrites (pre ++ fill) (((macPiece c b ++ [0]).zipIdx (3 * i)).map (fun (q : Nat × Nat) => (q.2, q.1)))
        = pre ++ (macPiece c b ++ [0]) ++ fill.drop 4 := by
      conv => lhs; rw [hsplit, ← List.append_assoc]
      exact applyWrites_segment pre (fill.take 4) (fill.drop 4) (macPiece c b ++ [0]) (3 * i) hpre
        (by simp [macPiece_length c hg]; omega)
    rw [hW, applyWrites_append, hstep]
    have hP : macPieces c (b :: r) = macPiece c b ++ macPieces c r := by simp [macPieces]
    cases r with
    | nil =>
      simp [macLoopWrites, applyWrites, macPieces]
    | cons b2 r2 =>
      have := ih (by simp) (i + 1) (pre ++ macPiece c b) ([0] ++ fill.drop 4)
        (by simp [macPiece_length c hg]; omega) (by simp at hfill ⊢; omega)
      have hre : pre ++ (macPiece c b ++ [0]) ++ fill.drop 4 = (pre ++ macPiece c b) ++ ([0] ++ fill.drop 4) := by
        simp [List.append_assoc]
      rw [hre, this, hP]
      have hd : ([0] ++ fill.drop 4).drop (3 * (b2 :: r2).length + 1) = fill.drop (3 * (b :: b2 :: r2).length + 1) := by
        simp only [List.length_cons, List.singleton_append]
        rw [show 3 * (r2.length + 1) + 1 = (3 * (r2.length + 1)) + 1 from rfl, List.drop_succ_cons, List.drop_drop]
        congr 1; omega
      rw [hd]
      simp [List.append_assoc]


theorem macPiece_good (c : MCfg) (hg : c.Good) (b : Nat) (hb : b < 256) :
    macPiece c b = [hexLower (b / 16), hexLower (b % 16), 58] := by
  have : b / 16 % 16 = b / 16 := Nat.mod_eq_of_lt (by omega)
  simp [macPiece, hg.masked, hg.lower, hg.sep, hex2, hexDigit, hexLower, this]

theorem macPieces_text (c : MCfg) (hg : c.Good) (data : Bytes) (hne : data ≠ []) (hb : ∀ b ∈ data, b < 256) :
    macPieces c data = macText data ++ [58] := by
  induction data with
  | nil => exact absurd rfl hne
  | cons b r ih =>
    have hP : macPieces c (b :: r) = macPiece c b ++ macPieces c r := by simp [macPieces]
    rw [hP, macPiece_good c hg b (hb b (by simp))]
    cases r with
    | nil => simp [macPieces, macText]
    | cons b2 r2 =>
      rw [ih (by simp) (fun x hx => hb x (by simp [hx]))]
      simp [macText]

theorem hexLower_ne_zero (n : Nat) : hexLower n ≠ 0 := by
  unfold hexLower; split <;> omega

theorem macText_ne_zero (data : Bytes) : ∀ x ∈ macText data, x ≠ 0 := by
  induction data with
  | nil => simp [macText]
  | cons b r ih =>
    cases r with
    | nil =>
      intro x hx
      simp only [macText, List.mem_cons, List.not_mem_nil, or_false] at hx
      rcases hx with rfl | rfl <;> exact hexLower_ne_zero _
    | cons b2 r2 =>
      intro x hx
      simp only [macText, List.cons_append, List.nil_append, List.mem_cons] at hx
      rcases hx with rfl | rfl | rfl | hx
      · exact hexLower_ne_zero _
      · exact hexLower_ne_zero _
      · decide
      · exact ih x (by simpa [macText] using hx)

theorem macText_length (data : Bytes) (hne : data ≠ []) : (macText data).length = 3 * data.length - 1 := by
  induction data with
  | nil => exact absurd rfl hne
  | cons b r ih =>
    cases r with
    | nil => simp [macText]
    | cons b2 r2 =>
      have := ih (by simp)
      simp only [macText, List.length_append, List.length_cons, List.length_nil] at this ⊢
      omega

/-- the buffer after the whole sequence of stores, read as a C string, for ANY initial content -/
theorem macBuffer_text (c : MCfg) (hg : c.Good) (data : Bytes) (hne : data ≠ []) (hb : ∀ b ∈ data, b < 256)
    (fill : Bytes) (hf : 3 * data.length + 1 ≤ fill.length) :
    (applyWrites fill (macWrites c data)).takeWhile (fun x => x != 0) = macText data := by
  have hW : macWrites c data = macLoopWrites c data 0 ++ [(3 * data.length - 1, 0)] := by
    simp [macWrites, macLoopWrites, hg.step]
  have hloop := macLoop_buffer c hg data hne 0 [] fill rfl hf
  simp only [List.nil_append] at hloop
  rw [hW, applyWrites_append, hloop, macPieces_text c hg data hne hb]
  have hl := macText_length data hne
  have hset : applyWrites (macText data ++ [58] ++ [0] ++ List.drop (3 * data.length + 1) fill)
      [(3 * data.length - 1, 0)] = macText data ++ ([0] ++ [0] ++ List.drop (3 * data.length + 1) fill) := by
    simp only [applyWrites, List.foldl_cons, List.foldl_nil, List.append_assoc]
    rw [← hl, List.set_append_right _ _ (Nat.le_refl _)]
    simp
  rw [hset]
  exact takeWhile_append_zero _ _ (macText_ne_zero data) (fun _ => rfl)

/-- **MAC text** — the C loop as transcribed (`sprintf(ptr, "%02x:", data[n] & 0xff); ptr += 3` for
    every byte, then `*--ptr = '\\0'`) leaves in `buf` exactly `xx:xx:…:xx` -/
theorem macFormat_text (c : MCfg) (hg : c.Good) (data : Bytes) (hne : data ≠ []) (hlen : data.length ≤ 341)
    (hb : ∀ b ∈ data, b < 256) : macFormat c data = some (macText data) := by
  have hemp : data.isEmpty = false := by cases data <;> simp_all
  simp only [macFormat, hemp, Bool.false_eq_true, if_false]
  rw [macBuffer_text c hg data hne hb _ (by rw [List.length_replicate, hg.buf]; omega)]

end Psutil.C17
