/-
  Proofs/C19.lean — helper lemmas for Props/C19.lean.
-/
import PsutilModel.Model.C19
import PsutilModel.Spec.C19
import Mathlib.Tactic.NormNum
import Mathlib.Tactic.Ring
namespace Psutil.C19
open Spec

/-- the configuration under which the full statements hold (what the repaired source yields).
    Nothing here forbids the source to catch MORE (e.g. ValueError around the fan reading). -/
structure Cfg.Good (c : Cfg) : Prop where
  tempOs : Exc.osError ∈ c.tempCaught
  tempVal : Exc.valueError ∈ c.tempCaught
  zoneOs : Exc.osError ∈ c.zoneCaught
  zoneVal : Exc.valueError ∈ c.zoneCaught
  fanOs : Exc.osError ∈ c.fanCaught
  conv : c.zoneConvInsideLoop = false
  milli : c.milli = 1000
  backfill : c.backfillTruthiness = false
  fMul : c.fMul = 9
  fDiv : c.fDiv = 5
  fAdd : c.fAdd = 32
  khz : c.khz = 1000
  pct : c.pct = 100
  hourSecs : c.hourSecs = 3600
  minSecs : c.minSecs = 60
  unknown : c.powerTimeUnknown = -1
  unlimited : c.powerTimeUnlimited = -2
  energyNowFirst : c.energyNowFirst = true
  powerNowFirst : c.powerNowFirst = true
  energyFullFirst : c.energyFullFirst = true
  ac0First : c.ac0First = true
  batPrefix : c.batPrefix = bBAT
  batInfix : c.batInfix = bBattery

theorem cast1000 : ((1000 : Nat) : Rat) = 1000 := by norm_num

/-! ### `collect` -/

theorem collect_ok {α β : Type} (f : α → Res (Option β)) (g : α → Option β) (l : List α)
    (h : ∀ a ∈ l, f a = .ok (g a)) : collect f l = .ok (l.filterMap g) := by
  induction l with
  | nil => rfl
  | cons a as ih =>
    have ha := h a (by simp)
    have ih' := ih (fun x hx => h x (by simp [hx]))
    unfold collect
    rw [ha, ih']
    cases hg : g a <;> simp [hg]

/-! ### hwmon -/

/-- the platform tuple that corresponds to a (fully determined) specification row -/
def Spec.Row.toRaw (w : Row) : TempRaw :=
  { unit := w.unit, label := w.label, current := w.current, high := w.high.getD none, crit := w.crit.getD none }

/-- a platform/front-end row shows what the specification row promises (an undetermined
    threshold promises nothing) -/
structure Agrees (unit label : Bytes) (current : Rat) (high crit : Option Rat) (w : Row) : Prop where
  unit : unit = w.unit
  label : label = w.label
  current : current = w.current
  high : ∀ h, w.high = some h → high = h
  crit : ∀ c, w.crit = some c → crit = c

def AgreesRaw (r : TempRaw) (w : Row) : Prop := Agrees r.unit r.label r.current r.high r.crit w
def AgreesOut (r : TempOut) (w : Row) : Prop := Agrees r.unit r.label r.current r.high r.crit w

theorem convThreshold_eq (c : Cfg) (hg : c.Good) (f : FileState) :
    convThreshold c f = (fileNum f).map perMille := by
  unfold convThreshold fileNum perMille
  rw [hg.milli, cast1000]
  cases f <;> simp [FileState.readOpt]

theorem readTemp_eq (c : Cfg) (hg : c.Good) (ch : Chip) (s : Sensor) :
    readTemp c ch s = .ok ((hwmonRow ch s).map Row.toRaw) := by
  unfold readTemp hwmonRow
  rw [convThreshold_eq c hg, convThreshold_eq c hg]
  cases hi : s.input with
  | absent => simp [FileState.read, fileNum, FileState.readOpt, hg.tempOs]
  | unreadable => simp [FileState.read, fileNum, FileState.readOpt, hg.tempOs]
  | content b =>
    cases hf : pyFloat? b with
    | none => simp [FileState.read, fileNum, FileState.readOpt, hf, hg.tempVal]
    | some v =>
      cases hn : ch.name with
      | absent => simp [FileState.read, fileNum, FileState.readOpt, hf, hg.tempOs]
      | unreadable => simp [FileState.read, fileNum, FileState.readOpt, hf, hg.tempOs]
      | content nm =>
        simp [FileState.read, fileNum, FileState.readOpt, hf, Row.toRaw, fileText, perMille, hg.milli, cast1000]

theorem tempBases_eq (chips : List Chip) : tempBases chips = hwmonSensors chips := rfl

theorem hwmon_collect (c : Cfg) (hg : c.Good) (chips : List Chip) :
    collect (fun cs => readTemp c cs.1 cs.2) (tempBases chips)
      = .ok ((hwmonSensors chips).filterMap fun cs => (hwmonRow cs.1 cs.2).map Row.toRaw) := by
  rw [tempBases_eq]
  exact collect_ok _ _ _ (fun cs _ => readTemp_eq c hg cs.1 cs.2)

theorem hwmon_collect' (c : Cfg) (hg : c.Good) (chips : List Chip) :
    collect (fun cs => readTemp c cs.1 cs.2) (hwmonSensors chips)
      = .ok ((hwmonSensors chips).filterMap fun cs => (hwmonRow cs.1 cs.2).map Row.toRaw) :=
  hwmon_collect c hg chips

theorem agrees_toRaw_hwmon (ch : Chip) (s : Sensor) (w : Row) (h : hwmonRow ch s = some w) :
    AgreesRaw w.toRaw w := by
  unfold hwmonRow at h
  split at h
  · cases h
    exact ⟨rfl, rfl, rfl, fun h e => by cases e; rfl, fun c e => by cases e; rfl⟩
  · cases h

theorem forall2_filterMap_toRaw (l : List (Chip × Sensor)) :
    List.Forall₂ AgreesRaw (l.filterMap fun cs => (hwmonRow cs.1 cs.2).map Row.toRaw)
      (l.filterMap fun cs => hwmonRow cs.1 cs.2) := by
  induction l with
  | nil => exact .nil
  | cons a as ih =>
    simp only [List.filterMap_cons]
    cases h : hwmonRow a.1 a.2 with
    | none => simpa using ih
    | some w => simpa using ⟨agrees_toRaw_hwmon _ _ _ h, ih⟩

/-! ### thermal zones -/

theorem bHigh_ne_bCritical : bHigh ≠ bCritical := by decide

def isHigh (t : Trip) : Bool := tripType t == bHigh
def isCrit (t : Trip) : Bool := tripType t == bCritical

theorem getLast?_cons' {α : Type} (a : α) (l : List α) :
    (a :: l).getLast? = some (l.getLast?.getD a) := by
  cases l with
  | nil => rfl
  | cons b bs => simp [List.getLast?_cons_cons, List.getLast?_cons]

theorem foldl_tripAssign_high (l : List Trip) (st : Thr × Thr) :
    (l.foldl tripAssign st).1 =
      match (l.filter isHigh).getLast? with
      | none => st.1
      | some t => Thr.ofRead t.temp.readOpt := by
  induction l generalizing st with
  | nil => rfl
  | cons t l ih =>
    simp only [List.foldl_cons, List.filter_cons]
    rw [ih]
    by_cases hc : tripType t = bCritical
    · have hh : isHigh t = false := by
        simp only [isHigh, beq_eq_false_iff_ne, hc]; exact fun e => bHigh_ne_bCritical e.symm
      simp only [hh, Bool.false_eq_true, if_false]
      cases (l.filter isHigh).getLast? <;> simp [tripAssign, hc]
    · by_cases hh : tripType t = bHigh
      · have hh' : isHigh t = true := by simp [isHigh, hh]
        simp only [hh', if_true, getLast?_cons']
        cases (l.filter isHigh).getLast? <;> simp [tripAssign, hh, bHigh_ne_bCritical]
      · have hh' : isHigh t = false := by simp [isHigh, hh]
        simp only [hh', Bool.false_eq_true, if_false]
        cases (l.filter isHigh).getLast? <;> simp [tripAssign, hc, hh]

theorem foldl_tripAssign_crit (l : List Trip) (st : Thr × Thr) :
    (l.foldl tripAssign st).2 =
      match (l.filter isCrit).getLast? with
      | none => st.2
      | some t => Thr.ofRead t.temp.readOpt := by
  induction l generalizing st with
  | nil => rfl
  | cons t l ih =>
    simp only [List.foldl_cons, List.filter_cons]
    rw [ih]
    by_cases hc : tripType t = bCritical
    · have hh : isCrit t = true := by simp [isCrit, hc]
      simp only [hh, if_true, getLast?_cons']
      cases (l.filter isCrit).getLast? <;> simp [tripAssign, hc]
    · have hh : isCrit t = false := by simp [isCrit, hc]
      simp only [hh, Bool.false_eq_true, if_false]
      by_cases hi : tripType t = bHigh
      · cases (l.filter isCrit).getLast? <;> simp [tripAssign, hi, bHigh_ne_bCritical]
      · cases (l.filter isCrit).getLast? <;> simp [tripAssign, hc, hi]

theorem conv_ofRead (c : Cfg) (hg : c.Good) (f : FileState) :
    (Thr.ofRead f.readOpt).conv c = (fileNum f).map perMille := by
  unfold fileNum perMille
  cases f <;> simp [FileState.readOpt, Thr.ofRead, Thr.conv, hg.milli, cast1000]

theorem tripsOfType_eq (kind : Bytes) (trips : List Trip) :
    tripsOfType kind trips = (trips.filter (·.listed)).filter (fun t => tripType t == kind) := by
  unfold tripsOfType
  rw [List.filter_filter]
  congr 1
  funext t
  simp only [tripType, fileText, Bool.and_comm]

/-- thresholds computed with the conversions AFTER the loop: whatever the visiting order
    `trips'` of the listed trip points, a determined specification threshold is what comes out -/
theorem zoneThrOutside_high (c : Cfg) (hg : c.Good) (trips trips' : List Trip)
    (hp : trips'.Perm (trips.filter (·.listed))) (v : Option Rat)
    (hs : zoneThresh bHigh trips = some v) : (zoneThrOutside c trips').1 = v := by
  unfold zoneThresh at hs
  rw [tripsOfType_eq] at hs
  have hp' : (trips'.filter isHigh).Perm ((trips.filter (·.listed)).filter isHigh) := hp.filter _
  unfold zoneThrOutside
  simp only
  rw [foldl_tripAssign_high]
  change (match ((trips.filter (·.listed)).filter isHigh) with
    | [] => some none | [t] => some ((fileNum t.temp).map perMille) | _ => none) = some v at hs
  cases hl : (trips.filter (·.listed)).filter isHigh with
  | nil =>
    rw [hl] at hs hp'
    have : trips'.filter isHigh = [] := List.Perm.eq_nil hp'
    rw [this]
    simp only [List.getLast?_nil]
    cases hs
    rfl
  | cons t rest =>
    cases rest with
    | nil =>
      rw [hl] at hs hp'
      have : trips'.filter isHigh = [t] := List.perm_singleton.mp hp'
      rw [this]
      simp only [List.getLast?_singleton]
      rw [conv_ofRead c hg]
      cases hs
      rfl
    | cons u us => rw [hl] at hs; cases hs

theorem zoneThrOutside_crit (c : Cfg) (hg : c.Good) (trips trips' : List Trip)
    (hp : trips'.Perm (trips.filter (·.listed))) (v : Option Rat)
    (hs : zoneThresh bCritical trips = some v) : (zoneThrOutside c trips').2 = v := by
  unfold zoneThresh at hs
  rw [tripsOfType_eq] at hs
  have hp' : (trips'.filter isCrit).Perm ((trips.filter (·.listed)).filter isCrit) := hp.filter _
  unfold zoneThrOutside
  simp only
  rw [foldl_tripAssign_crit]
  change (match ((trips.filter (·.listed)).filter isCrit) with
    | [] => some none | [t] => some ((fileNum t.temp).map perMille) | _ => none) = some v at hs
  cases hl : (trips.filter (·.listed)).filter isCrit with
  | nil =>
    rw [hl] at hs hp'
    have : trips'.filter isCrit = [] := List.Perm.eq_nil hp'
    rw [this]
    simp only [List.getLast?_nil]
    cases hs
    rfl
  | cons t rest =>
    cases rest with
    | nil =>
      rw [hl] at hs hp'
      have : trips'.filter isCrit = [t] := List.perm_singleton.mp hp'
      rw [this]
      simp only [List.getLast?_singleton]
      rw [conv_ofRead c hg]
      cases hs
      rfl
    | cons u us => rw [hl] at hs; cases hs

theorem readZone_agrees (c : Cfg) (hg : c.Good) (z : Zone) :
    match zoneRow z with
    | none => readZone c z = .ok none
    | some w => ∃ r, readZone c z = .ok (some r) ∧ AgreesRaw r w := by
  unfold readZone zoneRow
  cases hi : z.temp with
  | absent => simp [FileState.read, fileNum, FileState.readOpt, hg.zoneOs]
  | unreadable => simp [FileState.read, fileNum, FileState.readOpt, hg.zoneOs]
  | content b =>
    cases hf : pyFloat? b with
    | none => simp [FileState.read, fileNum, FileState.readOpt, hf, hg.zoneVal]
    | some v =>
      cases hn : z.typ with
      | absent => simp [FileState.read, fileNum, FileState.readOpt, hf, hg.zoneOs]
      | unreadable => simp [FileState.read, fileNum, FileState.readOpt, hf, hg.zoneOs]
      | content nm =>
        simp only [FileState.read, fileNum, FileState.readOpt, hf, Option.bind_some]
        refine ⟨_, rfl, ?_⟩
        refine ⟨rfl, rfl, ?_, ?_, ?_⟩
        · simp [perMille, hg.milli, cast1000]
        · intro h hh
          simp only [zoneThr, hg.conv, Bool.false_eq_true, if_false]
          exact zoneThrOutside_high c hg z.trips _ (List.Perm.refl _) h hh
        · intro h hh
          simp only [zoneThr, hg.conv, Bool.false_eq_true, if_false]
          exact zoneThrOutside_crit c hg z.trips _ (List.Perm.refl _) h hh

theorem collect_zones (c : Cfg) (hg : c.Good) (zs : List Zone) :
    ∃ rows, collect (readZone c) zs = .ok rows ∧ List.Forall₂ AgreesRaw rows (zs.filterMap zoneRow) := by
  induction zs with
  | nil => exact ⟨[], rfl, .nil⟩
  | cons z zs ih =>
    obtain ⟨rows, hr, hf⟩ := ih
    have hz := readZone_agrees c hg z
    unfold collect
    simp only [List.filterMap_cons]
    cases hw : zoneRow z with
    | none =>
      rw [hw] at hz
      simp only at hz
      rw [hz]
      exact ⟨rows, hr, hf⟩
    | some w =>
      rw [hw] at hz
      obtain ⟨r, h1, h2⟩ := hz
      rw [h1, hr]
      exact ⟨r :: rows, rfl, .cons h2 hf⟩

/-! ### front end -/

theorem convertF_eq (c : Cfg) (hg : c.Good) (f : Bool) (q : Rat) :
    convertF c f q = (if f then toFahrenheit else id) q := by
  unfold convertF toFahrenheit
  rw [hg.fMul, hg.fDiv, hg.fAdd]
  cases f <;> simp

theorem present_eq (c : Cfg) (hg : c.Good) (o : Option Rat) : present c o = o.isSome := by
  cases o <;> simp [present, hg.backfill]

theorem frontTemp_agrees (c : Cfg) (hg : c.Good) (f : Bool) (r : TempRaw) (w : Row)
    (h : AgreesRaw r w) : AgreesOut (frontTemp c f r) (frontRow f w) := by
  obtain ⟨hu, hl, hc, hh, hcr⟩ := h
  cases f <;> cases hwh : w.high with
  | none =>
    refine ⟨?_, ?_, ?_, ?_, ?_⟩
    · unfold frontTemp frontRow; simp only [hwh]; split <;> (try split) <;> exact hu
    · unfold frontTemp frontRow; simp only [hwh]; split <;> (try split) <;> exact hl
    · unfold frontTemp frontRow; simp only [hwh]; simp only [convertF_eq c hg]; split <;> (try split) <;> simp_all
    · intro x hx; simp [frontRow, hwh] at hx
    · intro x hx; simp [frontRow, hwh] at hx
  | some h0 =>
    cases hwc : w.crit with
    | none =>
      refine ⟨?_, ?_, ?_, ?_, ?_⟩
      · unfold frontTemp frontRow; simp only [hwh, hwc]; split <;> (try split) <;> exact hu
      · unfold frontTemp frontRow; simp only [hwh, hwc]; split <;> (try split) <;> exact hl
      · unfold frontTemp frontRow; simp only [hwh, hwc]; simp only [convertF_eq c hg]; split <;> (try split) <;> simp_all
      · intro x hx; simp [frontRow, hwh, hwc] at hx
      · intro x hx; simp [frontRow, hwh, hwc] at hx
    | some c0 =>
      have rh := hh h0 hwh
      have rc := hcr c0 hwc
      unfold AgreesOut frontTemp frontRow
      simp only [hwh, hwc, present_eq c hg, rh, rc]
      cases h0 <;> cases c0 <;> simp [hu, hl, hc, convertF_eq c hg] <;>
        constructor <;> simp [hu, hl, hc, convertF_eq c hg]

theorem forall2_front (c : Cfg) (hg : c.Good) (f : Bool) (rows : List TempRaw) (ws : List Row)
    (h : List.Forall₂ AgreesRaw rows ws) :
    List.Forall₂ AgreesOut (rows.map (frontTemp c f)) (ws.map (frontRow f)) := by
  induction h with
  | nil => exact .nil
  | cons hd _ ih => exact .cons (frontTemp_agrees c hg f _ _ hd) ih

/-! ### the kernel's `%d\n` is read back exactly -/

theorem lstripWs_noWs (t : Bytes) (h : NoWs t) : lstripWs t = t := by
  cases t with
  | nil => rfl
  | cons c cs => simp [lstripWs, h c (by simp)]

theorem noWs_reverse (t : Bytes) (h : NoWs t) : NoWs t.reverse := fun c hc => h c (by simpa using hc)

theorem stripWs_nl (t : Bytes) (h : NoWs t) : stripWs (t ++ [10]) = t := by
  unfold stripWs rstripWs
  cases t with
  | nil => decide
  | cons c cs =>
    have hc : isWs c = false := h c (by simp)
    have h1 : lstripWs (c :: cs ++ [10]) = c :: cs ++ [10] := by simp [lstripWs, hc]
    rw [h1]
    have h2 : (c :: cs ++ [10]).reverse = 10 :: (c :: cs).reverse := by simp
    rw [h2]
    have h3 : lstripWs (10 :: (c :: cs).reverse) = lstripWs (c :: cs).reverse := by
      simp [lstripWs, isWs]
    rw [h3, lstripWs_noWs _ (noWs_reverse _ h)]
    simp

theorem stripWs_noWs (t : Bytes) (h : NoWs t) : stripWs t = t := by
  unfold stripWs rstripWs
  rw [lstripWs_noWs t h, lstripWs_noWs _ (noWs_reverse _ h)]
  simp

theorem renderDec_cons (n : Nat) : ∃ c cs, renderDec n = c :: cs ∧ isDigit c = true := by
  cases h : renderDec n with
  | nil => exact absurd h (renderDec_ne_nil n)
  | cons c cs => exact ⟨c, cs, rfl, renderDec_isDigit n c (by simp [h])⟩

theorem pyFloatU_renderDec (n : Nat) : pyFloatU? (renderDec n) = some (n : Rat) := by
  unfold pyFloatU?
  rw [splitOn_noSep 46 _ (renderDec_not_mem n 46 (by decide))]
  simp [parseDec_renderDec]

theorem noWs_renderInt (i : Int) : NoWs (renderInt i) := by
  unfold renderInt
  split
  · intro c hc
    simp only [List.mem_cons] at hc
    cases hc with
    | inl e => subst e; decide
    | inr hm => exact renderDec_noWs _ c hm
  · exact renderDec_noWs _

theorem pyFloat_renderInt_strip (i : Int) : pyFloat? (kernelInt i) = some (i : Rat) := by
  unfold pyFloat? kernelInt
  rw [stripWs_nl _ (noWs_renderInt i)]
  unfold renderInt
  by_cases hneg : i < 0
  · simp only [hneg, if_true, pyFloatU_renderDec, Option.map_some]
    have h2 : ((i.natAbs : Nat) : Rat) = -(i : Rat) := by
      rw [Nat.cast_natAbs, abs_of_neg (by exact_mod_cast hneg)]
      push_cast
      rfl
    rw [h2, neg_neg]
  · simp only [hneg, if_false]
    obtain ⟨c, cs, hcs, hd⟩ := renderDec_cons i.natAbs
    have h45 : c ≠ 45 := by
      intro e; subst e; simp [isDigit] at hd
    have h43 : c ≠ 43 := by
      intro e; subst e; simp [isDigit] at hd
    rw [hcs]
    split
    · rename_i ds heq; cases heq; exact absurd rfl h45
    · rename_i ds heq; cases heq; exact absurd rfl h43
    · rw [← hcs, pyFloatU_renderDec]
      have h2 : ((i.natAbs : Nat) : Rat) = (i : Rat) := by
        rw [Nat.cast_natAbs, abs_of_nonneg (by exact_mod_cast (not_lt.mp hneg))]
      rw [h2]

theorem pyInt_kernelInt (i : Int) : pyInt? (kernelInt i) = some i := by
  unfold pyInt? kernelInt
  rw [stripWs_nl _ (noWs_renderInt i)]
  unfold renderInt
  by_cases hneg : i < 0
  · simp [hneg, parseDec_renderDec]
    rw [abs_of_neg hneg]; omega
  · simp only [hneg, if_false]
    obtain ⟨c, cs, hcs, hd⟩ := renderDec_cons i.natAbs
    have h45 : c ≠ 45 := by
      intro e; subst e; simp [isDigit] at hd
    have h43 : c ≠ 43 := by
      intro e; subst e; simp [isDigit] at hd
    rw [hcs]
    split
    · rename_i ds heq; cases heq; exact absurd rfl h45
    · rename_i ds heq; cases heq; exact absurd rfl h43
    · rw [← hcs, parseDec_renderDec]
      simp
      omega

end Psutil.C19
