/-
  Proofs/C02Fault.lean — the invariant of the identity machine (Proofs/C01*.lean) carried through histories in
  which reads of `/proc/pid/stat` fail transiently (Model/C02Fault.lean), for the configuration in which the
  failure reaches the caller (`StatFault.propagates`), and what `is_running()` / `==` / `hash()` answer there.
-/
import PsutilModel.Proofs.C02
import PsutilModel.Proofs.C01Eff
import PsutilModel.Model.C02Fault
namespace Psutil.C02
open Psutil.C01 Psutil.C01.Spec

/-- events of a history with failing reads: the hypotheses of the fault-free theorems on the kernel events, none on
    the faults (any PID, at any time, for any duration, any number of them at once) -/
def FEv.OK (e : FEv) (nt : Bool) : Prop :=
  match e with
  | .ev e => e.OK nt
  | .fault _ _ => True

def FHistOK (nt : Bool) (h : List FEv) : Prop := ∀ e ∈ h, e.OK nt

instance (e : FEv) (nt : Bool) : Decidable (e.OK nt) := by
  cases e with
  | fault p on => exact isTrue trivial
  | ev e =>
    cases e with
    | c call => exact isTrue trivial
    | k ke =>
      cases ke <;> simp only [FEv.OK, Ev.OK, KEv.OK] <;> infer_instance

instance (nt : Bool) (h : List FEv) : Decidable (FHistOK nt h) := by unfold FHistOK; infer_instance

/-! ### one call -/

/-- a call that is not the sweep: the transient OSError with the state untouched, or exactly the fault-free step -/
theorem stepF_cases (c : Cfg) (s : St) (F : List Nat) (call : Call) (hne : call ≠ .processIter) :
    stepF c .propagates s F call = (s, .osError)
    ∨ stepF c .propagates s F call = ((step c s (.c call)).1, .ok (step c s (.c call)).2) := by
  cases call <;> first | exact absurd rfl hne | skip
  all_goals
    simp only [stepF]
    split
    · exact Or.inr rfl
    · split
      · exact Or.inl rfl
      · exact Or.inr rfl

theorem stepF_sweep (c : Cfg) (sf : StatFault) (s : St) (F : List Nat) :
    (stepF c sf s F .processIter).1 = { s with ps := (sweepF c sf s.kern s.ps F).1 } := rfl

/-- no psutil call moves the kernel, with or without failing reads, however the failure surfaces -/
theorem stepF_kern (c : Cfg) (sf : StatFault) (s : St) (F : List Nat) (call : Call) :
    (stepF c sf s F call).1.kern = s.kern := by
  cases call <;> first | rfl | skip
  all_goals
    simp only [stepF]
    split
    · exact step_call_kern c s _
    · split
      · cases sf <;> rfl
      · exact step_call_kern c s _

/-- the cut-short sweep, any state and configuration: objects are only appended (existing ones untouched), every
    cache entry afterwards was cached before or is a fresh object for the current owner of its PID -/
theorem sweepF_shape (c : Cfg) (k : Kernel) (ps : Ps) (F : List Nat) :
    (∃ t, (sweepF c .propagates k ps F).1.objs = ps.objs ++ t)
    ∧ (∀ e ∈ (sweepF c .propagates k ps F).1.pmap,
        e ∈ ps.pmap ∨ FreshHandle k ps.objs.length (sweepF c .propagates k ps F).1.objs e) := by
  simp only [sweepF]
  split
  · obtain ⟨hpre, _, hy⟩ := iterLoop_shape c k
      ((ps.pmap.filter fun e => (sortPids (k.procs.map (·.pid))).contains e.1).filter
        fun e => !ps.pidsReused.contains e.1)
      (((ps.pmap.filter fun e => (sortPids (k.procs.map (·.pid))).contains e.1).filter
        fun e => ps.pidsReused.contains e.1).map (·.1))
      (sweepPrefix ((ps.pmap.filter fun e => (sortPids (k.procs.map (·.pid))).contains e.1).filter
        fun e => !ps.pidsReused.contains e.1)
        (((ps.pmap.filter fun e => (sortPids (k.procs.map (·.pid))).contains e.1).filter
        fun e => ps.pidsReused.contains e.1).map (·.1)) F (sortPids (k.procs.map (·.pid)))).1 ps
    refine ⟨hpre, ?_⟩
    intro e he
    rcases List.mem_append.1 he with hk | hn
    · exact Or.inl (List.mem_filter.1 (List.mem_filter.1 hk).1).1
    · rcases hy e (List.mem_filter.1 hn).1 with hk | hf
      · exact Or.inl (List.mem_filter.1 (List.mem_filter.1 hk).1).1
      · exact Or.inr hf
  · obtain ⟨hpre, hpm, hy⟩ := processIter_shape c k ps
    refine ⟨hpre, ?_⟩
    intro e he
    rw [hpm] at he
    exact hy e he

theorem sweepF_inv {c : Cfg} (hc : c.BootGood) {k : Kernel} {ps : Ps} (hk : KInv c.createNoneTest k)
    (h : PInv c.createNoneTest c.clk k ps) (F : List Nat) :
    PInv c.createNoneTest c.clk k (sweepF c .propagates k ps F).1 := by
  obtain ⟨⟨t, ht⟩, hy⟩ := sweepF_shape c k ps F
  have hbo : (∀ B, (sweepF c .propagates k ps F).1.bootTime = some B → BtOK c.createNoneTest B)
      ∧ (∀ o ∈ (sweepF c .propagates k ps F).1.objs,
          ∃ B, (sweepF c .propagates k ps F).1.bootTime = some B ∧ ObjOK c.clk k B o) := by
    simp only [sweepF]
    split
    · have hinv := iterLoop_inv hc hk
        ((ps.pmap.filter fun e => (sortPids (k.procs.map (·.pid))).contains e.1).filter
          fun e => !ps.pidsReused.contains e.1)
        (((ps.pmap.filter fun e => (sortPids (k.procs.map (·.pid))).contains e.1).filter
          fun e => ps.pidsReused.contains e.1).map (·.1))
        (sweepPrefix ((ps.pmap.filter fun e => (sortPids (k.procs.map (·.pid))).contains e.1).filter
          fun e => !ps.pidsReused.contains e.1)
          (((ps.pmap.filter fun e => (sortPids (k.procs.map (·.pid))).contains e.1).filter
          fun e => ps.pidsReused.contains e.1).map (·.1)) F (sortPids (k.procs.map (·.pid)))).1 ps h
      exact ⟨hinv.boot_nz, hinv.objs⟩
    · have hinv := processIter_inv hc hk h
      exact ⟨hinv.boot_nz, hinv.objs⟩
  refine ⟨hbo.1, hbo.2, ?_⟩
  intro e he
  rcases hy e he with hk' | ⟨_, o, ho, hp, _⟩
  · obtain ⟨o, ho, hp⟩ := h.pmap e hk'
    exact ⟨o, by rw [ht]; exact getElem?_append_of_some ho t, hp⟩
  · exact ⟨o, ho, hp⟩

theorem stepF_inv {c : Cfg} (hc : c.BootGood) (s : St) (F : List Nat) (call : Call)
    (h : Inv c.createNoneTest c.clk s) : Inv c.createNoneTest c.clk (stepF c .propagates s F call).1 := by
  by_cases hp : call = .processIter
  · subst hp
    rw [stepF_sweep]
    exact ⟨h.kern, sweepF_inv hc h.kern h.ps F⟩
  · rcases stepF_cases c s F call hp with e | e <;> rw [e]
    · exact h
    · exact step_inv hc s (.c call) trivial h

theorem stepF_ext {c : Cfg} (hc : c.BootGood) (s : St) (F : List Nat) (call : Call)
    (h : Inv c.createNoneTest c.clk s) : ObjsExt s.ps.objs (stepF c .propagates s F call).1.ps.objs := by
  by_cases hp : call = .processIter
  · subst hp
    rw [stepF_sweep]
    obtain ⟨t, ht⟩ := (sweepF_shape c s.kern s.ps F).1
    simp only [ht]
    exact ObjsExt.appendList _ _
  · rcases stepF_cases c s F call hp with e | e <;> rw [e]
    · exact ObjsExt.refl _
    · exact step_ext hc s (.c call) h

/-! ### histories -/

theorem FSt.step_inv {c : Cfg} (hc : c.BootGood) (fs : FSt) (e : FEv) (he : e.OK c.createNoneTest)
    (h : Inv c.createNoneTest c.clk fs.st) : Inv c.createNoneTest c.clk (fs.step c .propagates e).1.st := by
  cases e with
  | fault p on => cases on <;> exact h
  | ev ev =>
    cases ev with
    | k ke => exact C01.step_inv hc fs.st (.k ke) he h
    | c call => exact stepF_inv hc fs.st fs.faulty call h

theorem FSt.step_ext {c : Cfg} (hc : c.BootGood) (fs : FSt) (e : FEv)
    (h : Inv c.createNoneTest c.clk fs.st) : ObjsExt fs.st.ps.objs (fs.step c .propagates e).1.st.ps.objs := by
  cases e with
  | fault p on => cases on <;> exact ObjsExt.refl _
  | ev ev =>
    cases ev with
    | k ke => exact ObjsExt.refl _
    | c call => exact stepF_ext hc fs.st fs.faulty call h

theorem runF_inv {c : Cfg} (hc : c.BootGood) (h : List FEv) : ∀ (fs : FSt), FHistOK c.createNoneTest h →
    Inv c.createNoneTest c.clk fs.st → Inv c.createNoneTest c.clk (runF c .propagates fs h).st := by
  induction h with
  | nil => intro fs _ hi; exact hi
  | cons e es ih =>
    intro fs hok hi
    exact ih _ (fun x hx => hok x (List.mem_cons_of_mem _ hx)) (FSt.step_inv hc fs e (hok e List.mem_cons_self) hi)

theorem runF_ext {c : Cfg} (hc : c.BootGood) (h : List FEv) : ∀ (fs : FSt), FHistOK c.createNoneTest h →
    Inv c.createNoneTest c.clk fs.st → ObjsExt fs.st.ps.objs (runF c .propagates fs h).st.ps.objs := by
  induction h with
  | nil => intro fs _ _; exact ObjsExt.refl _
  | cons e es ih =>
    intro fs hok hi
    exact (FSt.step_ext hc fs e hi).trans
      (ih _ (fun x hx => hok x (List.mem_cons_of_mem _ hx)) (FSt.step_inv hc fs e (hok e List.mem_cons_self) hi))

/-- an incarnation that lost its PID never owns it again, whatever happens next — failing reads included -/
theorem runF_dead {c : Cfg} (sf : StatFault) (pid g : Nat) (h : List FEv) : ∀ (fs : FSt), g < fs.st.kern.clock →
    fs.st.kern.owner pid ≠ some g → (runF c sf fs h).st.kern.owner pid ≠ some g := by
  induction h with
  | nil => intro fs _ hd; exact hd
  | cons e es ih =>
    intro fs hg hd
    cases e with
    | fault p on => cases on <;> exact ih _ hg hd
    | ev ev =>
      cases ev with
      | k ke =>
        exact ih _ (Nat.lt_of_lt_of_le hg (clock_mono fs.st.kern ke)) (dead_stays_dead fs.st.kern ke pid g hg hd)
      | c call =>
        have hk := stepF_kern c sf fs.st fs.faulty call
        exact ih _ (by show g < (stepF c sf fs.st fs.faulty call).1.kern.clock; rw [hk]; exact hg)
          (by show (stepF c sf fs.st fs.faulty call).1.kern.owner pid ≠ some g; rw [hk]; exact hd)

/-! ### the answers in an invariant state -/

/-- `is_running()` while reads fail: the OSError exactly when the call has to read a stat file that fails (no sticky
    flag answers, the object's PID is faulty) — otherwise the truth -/
theorem stepF_isRunning {c : Cfg} (hc : c.BootGood) {s : St} (hinv : Inv c.createNoneTest c.clk s) (F : List Nat)
    {i : Nat} {o : PObj} (ho : s.ps.objs[i]? = some o) :
    (stepF c .propagates s F (.isRunning i)).2
      = if !flagged o && F.contains o.pid then .osError else .ok (.bool (listedB s.kern o)) := by
  have hfr : firstStatRead c s (.isRunning i) = if !flagged o then some o.pid else none := by
    simp [firstStatRead, Call.target, ho, methodReads]
  have hplain : (step c s (.c (.isRunning i))).2 = .bool (listedB s.kern o) := by
    obtain ⟨B, hB, hok⟩ := hinv.ps.objs o (List.mem_of_getElem? ho)
    have hs := isRunningO_spec hc hB (hinv.ps.boot_nz B hB) hok
    rw [step_isRunning_out c s ho]
    congr 1
    rw [Bool.eq_iff_iff, hs.iff, listedB_iff, listed_iff_owner hinv.kern]
  simp only [stepF, hfr]
  cases hfl : flagged o <;> cases hF : F.contains o.pid <;> simp [hplain] <;> (simp at hF; simp [hF])

theorem stepF_eq_out (c : Cfg) (sf : StatFault) (s : St) (F : List Nat) (i j : Nat) :
    stepF c sf s F (.eq i j) = ((step c s (.c (.eq i j))).1, .ok (step c s (.c (.eq i j))).2) := by
  simp [stepF, firstStatRead, Call.target]

theorem stepF_hash_out (c : Cfg) (sf : StatFault) (s : St) (F : List Nat) (i : Nat) :
    stepF c sf s F (.hash i) = ((step c s (.c (.hash i))).1, .ok (step c s (.c (.hash i))).2) := by
  simp only [stepF, firstStatRead, Call.target]
  cases s.ps.objs[i]? <;> simp [methodReads]

end Psutil.C02
