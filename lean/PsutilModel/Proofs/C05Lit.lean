/-
  Proofs/C05Lit.lean — the literal reading of `parent()`/`parents()` (Spec: `parentLit`, `ChainLit`,
  `parentLitW`, `chainLitDyn`) against the characterisation with psutil's lowest-PID stop (`parentOf`, `Chain`,
  `parentOfW`, `chainDyn`): they agree exactly off the region "the lowest listed PID shows a parent".
-/
import PsutilModel.Proofs.C05Parent
import PsutilModel.Proofs.C05Dyn
namespace Psutil.C05
open Spec

theorem parentOf_eq_lit_of_not_root {T : Table} {pid ct : Nat} (h : isRoot T pid = false) :
    parentOf T pid ct = parentLit T pid ct := by
  unfold parentOf parentLit
  simp [h]

theorem parentOf_eq_lit {T : Table} {pid ct : Nat} (hR : RootParentless T) (hl : lookOf T pid = some ct) :
    parentOf T pid ct = parentLit T pid ct := by
  cases hroot : isRoot T pid with
  | false => exact parentOf_eq_lit_of_not_root hroot
  | true =>
    obtain ⟨r, hfind, hstart⟩ := lookOf_some hl
    have hm : minPid? T = some pid := by simpa [isRoot] using hroot
    have := hR pid r hm hfind
    rw [hstart] at this
    rw [this]
    simp [parentOf, hroot]

/-- off the region, the chain with the lowest-PID stop IS the literal chain -/
theorem chain_lit {T : Table} (hR : RootParentless T) {seen : List Nat} {pid ct : Nat} {l : List Row}
    (h : Chain T seen pid ct l) (hl : lookOf T pid = some ct) : ChainLit T seen pid ct l := by
  induction h with
  | root hp => exact ChainLit.root (by rw [← parentOf_eq_lit hR hl]; exact hp)
  | cycle hp hs => exact ChainLit.cycle (by rw [← parentOf_eq_lit hR hl]; exact hp) hs
  | step hp hs _ ih =>
    refine ChainLit.step (by rw [← parentOf_eq_lit hR hl]; exact hp) hs (ih ?_)
    have hq := (parentOf_some hp).1
    unfold lookOf
    rw [hq]; rfl

theorem chainLit_unique {T : Table} {seen : List Nat} {pid ct : Nat} {l1 l2 : List Row}
    (h1 : ChainLit T seen pid ct l1) (h2 : ChainLit T seen pid ct l2) : l1 = l2 := by
  induction h1 generalizing l2 with
  | root hp =>
    cases h2 with
    | root _ => rfl
    | cycle hp' _ => simp [hp] at hp'
    | step hp' _ _ => simp [hp] at hp'
  | cycle hp hs =>
    cases h2 with
    | root hp' => rfl
    | cycle _ _ => rfl
    | step hp' hs' _ => rw [hp] at hp'; cases hp'; exact absurd hs hs'
  | step hp hs _ ih =>
    cases h2 with
    | root hp' => simp [hp] at hp'
    | cycle hp' hs' => rw [hp] at hp'; cases hp'; exact absurd hs' hs
    | step hp' _ h' => rw [hp] at hp'; cases hp'; rw [ih h']

/-- the driver's `chainLitList` computes the literal chain (fuel: one more than the unseen listed PIDs) -/
theorem chainLitList_chain (T : Table) :
    ∀ (n : Nat) (seen : List Nat) (pid ct : Nat), unseenCnt T.pids seen < n →
      ChainLit T seen pid ct (chainLitList T n seen pid ct) := by
  intro n
  induction n with
  | zero => intro _ _ _ h; omega
  | succ n ih =>
    intro seen pid ct hlt
    unfold chainLitList
    cases hp : parentLit T pid ct with
    | none => exact ChainLit.root hp
    | some q =>
      by_cases hs : q.pid ∈ seen
      · simp only [List.contains_iff_mem, hs, if_true]
        exact ChainLit.cycle hp hs
      · simp only [List.contains_iff_mem, hs, if_false]
        refine ChainLit.step hp hs (ih _ _ _ ?_)
        have hqT : q.pid ∈ T.pids := by
          unfold parentLit at hp
          cases hf : T.find pid with
          | none => simp [hf] at hp
          | some r =>
            simp only [hf] at hp
            cases hq : T.find r.ppid with
            | none => simp [hq] at hp
            | some q' =>
              simp only [hq] at hp
              by_cases hle : q'.start ≤ ct
              · simp only [hle, if_true, Option.some.injEq] at hp
                subst hp
                exact List.mem_map.2 ⟨q', (find_some hq).2, rfl⟩
              · simp [hle] at hp
        have := unseenCnt_lt hqT hs
        omega

/-! ### the richer world -/

/-- one step: with the stop, `parent()` is the literal `parent()` unless the caller IS the lowest PID and that PID
    shows a parent (or, before the repair, is no longer itself) -/
theorem parentOfW_eq_lit (rg : Bool) (s : PStep) (low pid ct : Nat)
    (h : pid = low → (SameAt s low ct → parentLitW s low ct = .none) ∧ (rg = false → SameAt s low ct)) :
    parentOfW rg s low pid ct = parentLitW s pid ct := by
  by_cases hlow : pid = low
  · obtain ⟨h1, h2⟩ := h hlow
    subst hlow
    cases rg with
    | false =>
      have hs := h2 rfl
      rw [h1 hs]
      simp [parentOfW]
    | true =>
      unfold parentOfW
      simp only [if_true]
      cases hwi : s.wi pid with
      | gone => simp [parentLitW, hwi]
      | denied => simp [parentLitW, hwi]
      | ok pp s0 =>
        by_cases hs0 : s0 = ct
        · subst hs0
          rw [h1 ⟨pp, hwi⟩]; simp
        · simp [parentLitW, hwi, hs0]
  · unfold parentOfW parentLitW
    simp [hlow]

/-- the chain: `chainDyn` (with the stop) = `chainLitDyn` when, at every step, the lowest PID shows no parent and
    (before the repair) is still itself whenever the chain gets to it -/
theorem chainDyn_eq_lit (rg : Bool) (W : Nat → PStep) (low : Nat)
    (hR : ∀ i ct, SameAt (W i) low ct → parentLitW (W i) low ct = .none)
    (hA : rg = false → ∀ i gp st, (W i).wp low = .ok gp st → SameAt (W (i + 1)) low st) :
    ∀ (n i : Nat) (seen : List Nat) (pid ct : Nat) (acc : List Row),
      (rg = false → pid = low → SameAt (W i) low ct) →
      chainDyn rg W low n i seen pid ct acc = chainLitDyn W n i seen pid ct acc := by
  intro n
  induction n with
  | zero => intro _ _ _ _ _ _; rfl
  | succ n ih =>
    intro i seen pid ct acc h0
    unfold chainDyn chainLitDyn
    have hstep : parentOfW rg (W i) low pid ct = parentLitW (W i) pid ct :=
      parentOfW_eq_lit rg (W i) low pid ct (fun hp => ⟨hR i ct, fun hrg => h0 hrg hp⟩)
    rw [hstep]
    cases hp : parentLitW (W i) pid ct with
    | none => rfl
    | nsp p => rfl
    | denied p => rfl
    | some q =>
      simp only
      by_cases hs : q.pid ∈ seen
      · simp [hs]
      · simp only [List.contains_iff_mem, hs, if_false]
        refine ih _ _ _ _ _ ?_
        intro hrg hq
        rw [← hstep] at hp
        have := (parentOfW_some hp).2.2.1
        rw [hq] at this
        exact hA hrg i _ _ this

end Psutil.C05
