/-
  Proofs/C01Eff.lean — what a signal / setter call can hand to the OS, and the effect-log invariant.
-/
import PsutilModel.Proofs.C01Step
namespace Psutil.C01
variable {nt : Bool}
open Spec

/-! ### shape of the effects (any configuration) -/

theorem signalM_eff_shape (c : Cfg) (k : Kernel) (ps : Ps) (o : PObj) (m : SigMethod)
    {e : EffKind × Int × List Int × Option Nat × Option Errno} (h : (signalM c k ps o m).eff = some e) :
    ∃ x, k.find o.pid = some x ∧ e = (.kill, (o.pid : Int), [(sigOf c m : Int)], some x.start, k.refusal o.pid)
      ∧ (guardedO c c.guardSignal k ps o).2.2 = false ∧ (o.pid == 0 && c.pid0Refused) = false := by
  rw [signalM_eq] at h
  split at h
  · cases h
  · rename_i hg
    split at h
    · cases h
    · rename_i h0
      split at h
      · cases h
      · rename_i x hf
        simp only [Option.some.injEq] at h
        exact ⟨x, hf, h.symm, by simpa using hg, by simpa using h0⟩

theorem setterM_eff_shape (c : Cfg) (k : Kernel) (ps : Ps) (o : PObj) (kind : SetKind) (args : List Int)
    {e : EffKind × Int × List Int × Option Nat × Option Errno} (h : (setterM c k ps o kind args).eff = some e) :
    ∃ x a, k.find o.pid = some x ∧ setterArgs c o.pid kind args = some a
      ∧ e = (.set kind, (o.pid : Int), a, some x.start, k.refusal o.pid)
      ∧ (guardedO c (guardOf c kind) k ps o).2.2 = false := by
  rw [setterM_eq] at h
  split at h
  · cases h
  · rename_i hg
    split at h
    · cases h
    · rename_i a ha
      split at h
      · cases h
      · rename_i x hf
        simp only [Option.some.injEq] at h
        exact ⟨x, a, hf, ha, h.symm, by simpa using hg⟩

/-- outcome and effect of a signal call go together (any state, any configuration): no effect and an
    exception, or one `os.kill` and exactly what the kernel answered -/
theorem signalM_out_shape (c : Cfg) (k : Kernel) (ps : Ps) (o : PObj) (m : SigMethod) :
    ((signalM c k ps o m).eff = none ∧ ∃ ex, (signalM c k ps o m).out = .exc ex)
    ∨ (∃ t, (signalM c k ps o m).eff = some t ∧ t.2.2.2.2 = k.refusal o.pid
        ∧ (signalM c k ps o m).out = outOf o.pid (k.refusal o.pid)) := by
  rw [signalM_eq]
  split
  · exact Or.inl ⟨rfl, _, rfl⟩
  · split
    · exact Or.inl ⟨rfl, _, rfl⟩
    · split
      · exact Or.inl ⟨rfl, _, rfl⟩
      · exact Or.inr ⟨_, rfl, rfl, rfl⟩

theorem setterM_out_shape (c : Cfg) (k : Kernel) (ps : Ps) (o : PObj) (kind : SetKind) (args : List Int) :
    ((setterM c k ps o kind args).eff = none ∧ ∃ ex, (setterM c k ps o kind args).out = .exc ex)
    ∨ (∃ t, (setterM c k ps o kind args).eff = some t ∧ t.2.2.2.2 = k.refusal o.pid
        ∧ (setterM c k ps o kind args).out = outOf o.pid (k.refusal o.pid)) := by
  rw [setterM_eq]
  split
  · exact Or.inl ⟨rfl, _, rfl⟩
  · split
    · exact Or.inl ⟨rfl, _, rfl⟩
    · split
      · exact Or.inl ⟨rfl, _, rfl⟩
      · exact Or.inr ⟨_, rfl, rfl, rfl⟩

theorem createTimeM_eff (c : Cfg) (k : Kernel) (ps : Ps) (o : PObj) : (createTimeM c k ps o).eff = none := by
  unfold createTimeM
  split
  · rfl
  · split
    · rfl
    · split <;> rfl

theorem ppidM_eff (c : Cfg) (k : Kernel) (ps : Ps) (o : PObj) : (ppidM c k ps o).eff = none := by
  rw [ppidM_eq]; split
  · rfl
  · split <;> rfl

/-- only signals and setters ever produce an effect -/
theorem method_eff_none {c : Cfg} {k : Kernel} {ps : Ps} {o : PObj} {call : Call} {r : MRes}
    (hm : method c k ps o call = some r) (hne : isEffectCall call = false) : r.eff = none := by
  cases call <;> simp only [method, Option.some.injEq, reduceCtorEq] at hm <;>
    simp [isEffectCall] at hne <;> subst hm
  · rfl
  · exact ppidM_eff _ _ _ _
  · exact createTimeM_eff _ _ _ _
  · rfl

/-! ### the guard does its job (good configuration, invariant) -/

theorem guardOf_good {c : Cfg} (hg : c.Good) (kind : SetKind) : guardOf c kind = true := by
  cases kind <;> simp [guardOf, hg.guardNice, hg.guardIonice, hg.guardRlimit, hg.guardAffinity]

/-- an effect is produced only for the live incarnation, under the object's PID; signals never to PID 0 -/
theorem method_eff_ok {c : Cfg} (hg : c.Good) {k : Kernel} {ps : Ps} {B : Nat} {o : PObj}
    (hb : ps.bootTime = some B) (hnz : BtOK c.createNoneTest B) (hok : ObjOK c.clk k B o) {call : Call} {r : MRes}
    (hm : method c k ps o call = some r) {e : EffKind × Int × List Int × Option Nat × Option Errno} (he : r.eff = some e) :
    e.2.1 = (o.pid : Int) ∧ e.2.2.2.1 = some o.ghost ∧ (e.1 = .kill → 0 < e.2.1) := by
  cases hec : isEffectCall call with
  | false => rw [method_eff_none hm hec] at he; cases he
  | true =>
    cases call <;> simp [isEffectCall] at hec <;>
      simp only [method, Option.some.injEq] at hm <;> subst hm
    · -- signal
      obtain ⟨x, hf, rfl, hgf, h0⟩ := signalM_eff_shape _ _ _ _ _ he
      rw [hg.guardSignal] at hgf
      have halive := (guarded_false_iff hg.toBootGood hg.goneRaises hb hnz hok).1 hgf
      simp only [Kernel.owner, hf, Option.map_some, Option.some.injEq] at halive
      refine ⟨rfl, by simp [halive], fun _ => ?_⟩
      simp only [hg.pid0Refused, Bool.and_true, beq_eq_false_iff_ne, ne_eq] at h0
      show (0 : Int) < (o.pid : Int)
      omega
    · -- setter
      rename_i kind args
      obtain ⟨x, a, hf, _, rfl, hgf⟩ := setterM_eff_shape _ _ _ _ _ _ he
      rw [guardOf_good hg] at hgf
      have halive := (guarded_false_iff hg.toBootGood hg.goneRaises hb hnz hok).1 hgf
      simp only [Kernel.owner, hf, Option.map_some, Option.some.injEq] at halive
      exact ⟨rfl, by simp [halive], fun h => by cases h⟩

/-- a signal / setter call through an object whose incarnation lost the PID: NoSuchProcess, no effect -/
theorem method_refuses {c : Cfg} (hg : c.Good) {k : Kernel} {ps : Ps} {B : Nat} {o : PObj}
    (hb : ps.bootTime = some B) (hnz : BtOK c.createNoneTest B) (hok : ObjOK c.clk k B o) {call : Call} {r : MRes}
    (hm : method c k ps o call = some r) (hec : isEffectCall call = true)
    (hdead : k.owner o.pid ≠ some o.ghost) :
    r.eff = none ∧ r.out = .exc (.noSuchProcess o.pid) := by
  have hraise : ∀ has, has = true → (guardedO c has k ps o).2.2 = true := by
    intro has hh; subst hh
    cases hgf : (guardedO c true k ps o).2.2 with
    | true => rfl
    | false => exact absurd ((guarded_false_iff hg.toBootGood hg.goneRaises hb hnz hok).1 hgf) hdead
  cases call <;> simp [isEffectCall] at hec <;>
    simp only [method, Option.some.injEq] at hm <;> subst hm
  · rw [signalM_eq, if_pos (hraise _ hg.guardSignal)]; exact ⟨rfl, rfl⟩
  · rw [setterM_eq, if_pos (hraise _ (guardOf_good hg _))]; exact ⟨rfl, rfl⟩

/-! ### objects only grow; the log invariant -/

def ObjsExt (a b : List PObj) : Prop := ∀ (j : Nat) (o : PObj), a[j]? = some o → ∃ o', b[j]? = some o' ∧ Evolves o o'

theorem ObjsExt.refl (a : List PObj) : ObjsExt a a := fun _ o h => ⟨o, h, Evolves.refl o⟩

theorem ObjsExt.trans {a b c : List PObj} (h1 : ObjsExt a b) (h2 : ObjsExt b c) : ObjsExt a c :=
  fun j o h => by
    obtain ⟨o', h', e1⟩ := h1 j o h
    obtain ⟨o'', h'', e2⟩ := h2 j o' h'
    exact ⟨o'', h'', e1.trans e2⟩

theorem ObjsExt.append (a : List PObj) (x : PObj) : ObjsExt a (a ++ [x]) := fun j o h => by
  have hlt : j < a.length := by
    rcases Nat.lt_or_ge j a.length with h' | h'
    · exact h'
    · rw [List.getElem?_eq_none h'] at h; cases h
  exact ⟨o, by rw [List.getElem?_append_left hlt]; exact h, Evolves.refl o⟩

theorem ObjsExt.appendList (a t : List PObj) : ObjsExt a (a ++ t) := fun _ o h =>
  ⟨o, getElem?_append_of_some h t, Evolves.refl o⟩

theorem ObjsExt.set {a : List PObj} {i : Nat} {o o' : PObj} (ho : a[i]? = some o) (he : Evolves o o') :
    ObjsExt a (a.set i o') := fun j x h => by
  by_cases hij : i = j
  · subst hij
    have hlt : i < a.length := by
      rcases Nat.lt_or_ge i a.length with h' | h'
      · exact h'
      · rw [List.getElem?_eq_none h'] at h; cases h
    rw [ho] at h; cases h
    exact ⟨o', List.getElem?_set_self hlt, he⟩
  · exact ⟨x, by rw [List.getElem?_set_ne hij]; exact h, Evolves.refl x⟩

theorem step_ext {c : Cfg} (hc : c.BootGood) (s : St) (ev : Ev) (h : Inv c.createNoneTest c.clk s) :
    ObjsExt s.ps.objs (step c s ev).1.ps.objs := by
  cases ev with
  | k e => exact ObjsExt.refl _
  | c call =>
    cases htg : call.target with
    | some i =>
      cases ho : s.ps.objs[i]? with
      | none => rw [step_bad_index c s htg ho]; exact ObjsExt.refl _
      | some o =>
        obtain ⟨r, hm⟩ := method_some c s.kern s.ps o htg
        rw [step_method c s htg ho hm]
        obtain ⟨_, hevo, hobjs⟩ := method_inv hc h ho hm
        simp only [setObj, hobjs]
        exact ObjsExt.set ho hevo
    | none =>
      cases call <;> simp [Call.target] at htg <;> simp only [step]
      · rename_i pid
        split
        · split <;> exact ObjsExt.refl _
        · have := mkObj_inv hc h.kern h.ps pid.toNat
          split
          · rename_i ps' heq; rw [heq] at this; rw [this.1]; exact ObjsExt.refl _
          · rename_i ps' o heq; rw [heq] at this
            simp only [this.2.1]
            exact ObjsExt.append _ _
      · rw [(bootTimeCall_inv hc h.kern.btime h.ps).2]; exact ObjsExt.refl _
      · split <;> exact ObjsExt.refl _
      · obtain ⟨t, ht⟩ := (processIter_shape c s.kern s.ps).1
        rw [ht]; exact ObjsExt.appendList _ _
      · exact ObjsExt.refl _
      · split <;> exact ObjsExt.refl _

theorem run_ext {c : Cfg} (hc : c.BootGood) (h : List Ev) : ∀ (s : St), HistOK c.createNoneTest h → Inv c.createNoneTest c.clk s →
    ObjsExt s.ps.objs (run c s h).ps.objs := by
  induction h with
  | nil => intro s _ _; exact ObjsExt.refl _
  | cons e es ih =>
    intro s hok hi
    exact (step_ext hc s e hi).trans
      (ih _ (fun x hx => hok x (List.mem_cons_of_mem _ hx)) (step_inv hc s e (hok e List.mem_cons_self) hi))

theorem EffOK.mono {a b : List PObj} (hext : ObjsExt a b) {e : Eff} (h : EffOK a e) : EffOK b e := by
  obtain ⟨o, ho, hp, hw, hk⟩ := h
  obtain ⟨o', ho', evo⟩ := hext _ _ ho
  exact ⟨o', ho', by rw [evo.pid]; exact hp, by rw [evo.ghost]; exact hw, hk⟩

def LogOK (s : St) : Prop := ∀ e ∈ s.log, EffOK s.ps.objs e

theorem step_log {c : Cfg} (hg : c.Good) (s : St) (ev : Ev) (h : Inv c.createNoneTest c.clk s) (hl : LogOK s) :
    LogOK (step c s ev).1 := by
  have hext := step_ext hg.toBootGood s ev h
  have hold : ∀ e ∈ s.log, EffOK (step c s ev).1.ps.objs e := fun e he => EffOK.mono hext (hl e he)
  cases ev with
  | k e => exact hold
  | c call =>
    cases htg : call.target with
    | none => intro e he; rw [(step_no_target c s htg).1] at he; exact hold e he
    | some i =>
      cases ho : s.ps.objs[i]? with
      | none => rw [step_bad_index c s htg ho]; exact hl
      | some o =>
        obtain ⟨r, hm⟩ := method_some c s.kern s.ps o htg
        rw [step_method c s htg ho hm] at hold ⊢
        cases heff : r.eff with
        | none => intro e he; simp only [pushEff] at he; exact hold e he
        | some t =>
          obtain ⟨kind, pid, arg, owner, res⟩ := t
          intro e he
          simp only [pushEff, List.mem_cons] at he
          rcases he with rfl | he
          · obtain ⟨B, hb, hok⟩ := h.ps.objs o (List.mem_of_getElem? ho)
            have := method_eff_ok hg hb (h.ps.boot_nz B hb) hok hm heff
            simp only at this
            obtain ⟨_, hevo, hobjs⟩ := method_inv hg.toBootGood h ho hm
            have hlt : i < s.ps.objs.length := by
              rcases Nat.lt_or_ge i s.ps.objs.length with h' | h'
              · exact h'
              · rw [List.getElem?_eq_none h'] at ho; cases ho
            refine ⟨r.o, ?_, ?_, ?_, this.2.2⟩
            · simp only [setObj, hobjs]; exact List.getElem?_set_self hlt
            · rw [hevo.pid]; exact this.1
            · rw [hevo.ghost]; exact this.2.1
          · exact hold e he

theorem run_log {c : Cfg} (hg : c.Good) (h : List Ev) : ∀ (s : St), HistOK c.createNoneTest h → Inv c.createNoneTest c.clk s → LogOK s →
    LogOK (run c s h) := by
  induction h with
  | nil => intro s _ _ hl; exact hl
  | cons e es ih =>
    intro s hok hi hl
    exact ih _ (fun x hx => hok x (List.mem_cons_of_mem _ hx))
      (step_inv hg.toBootGood s e (hok e List.mem_cons_self) hi) (step_log hg s e hi hl)

end Psutil.C01
