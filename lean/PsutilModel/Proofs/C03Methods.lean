/-
  Proofs/C03Methods.lean — one body lemma per `_pslinux.Process` method (namespace Plat),
  loops by induction over the listed names.
-/
import PsutilModel.Proofs.C03
namespace Psutil.C03
open Spec

/-- a call of an already-wrapped method inside another body -/
theorem inner {p : Nat} {α : Type} {m : M α} {Q : α → Prop} (h : Tri (PsOnly p) m Q) : Tri (ExcOK p) m Q :=
  tri_exc h (fun _ _ _ => psOnly_excOK)

/-- `except (classes): <handler>` with the same contract before and after -/
theorem tri_tryCatch_same {E : Ctx → Nat → PyExc → Prop} {α : Type} {m m' : M α} {L : List String} {Q : α → Prop}
    (hm : Tri E m Q) (hm' : Tri E m' Q) :
    Tri E (tryCatch m (fun e => if catches L e then some m' else none)) Q := by
  refine tri_tryCatch hm (fun _ _ _ _ h => h) (fun e m'' h _ => ?_)
  split at h
  · cases h; exact hm'
  · cases h

/-- a local handler that catches FileNotFoundError turns the lax contract into the strict one -/
theorem tri_tryCatch_lax {p : Nat} {α : Type} {m m' : M α} {L : List String} {Q : α → Prop}
    (hL : catches L .fnf = true) (hm : Tri (ExcLax p) m Q) (hm' : Tri (ExcOK p) m' Q) :
    Tri (ExcOK p) (tryCatch m (fun e => if catches L e then some m' else none)) Q := by
  refine tri_tryCatch hm (fun e h c k hl => ?_) (fun e m'' h _ => ?_)
  · split at h
    · cases h
    · rename_i hc
      cases e <;> simp_all [ExcLax, ExcOK]
  · split at h
    · cases h; exact hm'
    · cases h

theorem cacheInv_set_stat {k : Cache} (v : StatRec) (h : CacheInv k) : CacheInv { k with stat := some v } :=
  fun x hx => h x hx
theorem cacheInv_set_smaps {k : Cache} (v : Content) (h : CacheInv k) : CacheInv { k with smaps := some v } :=
  fun x hx => h x hx
theorem cacheInv_set_status {k : Cache} (h : CacheInv k) : CacheInv { k with status := some .text } := by
  intro x hx; simp at hx; exact hx.symm

/-! ### os.path.lexists and `_readlink` -/

theorem pathLexists_run (p : Nat) (c : Ctx) (s : St) (ha : Adm c) :
    ∃ b s', pathLexists (.pidDir p) c s = (.ok b, s') ∧ s'.cache = s.cache ∧ s'.k = s.k + 1 ∧
      (b = false → c.deny s.k ≠ none ∨ pst c s.k p = .gone) := by
  obtain ⟨r1, s1, h1, hk1, hc1, hr1⟩ :=
    access_spec (.fs .lstat (.pidDir p)) (fun w st => tblStat w st (.pidDir p)) c s ha
  unfold pathLexists accLstat tryCatch
  simp only [bind_eq, pure_eq, M.bind, M.pure, h1]
  cases r1 with
  | ok u => exact ⟨true, s1, rfl, hc1, hk1, fun h => by cases h⟩
  | error e =>
    simp only
    have hcat : catches ["OSError", "ValueError"] e = true := by
      rcases hr1 with ⟨he, _⟩ | ⟨en, _, he, _⟩
      · subst he; rfl
      · subst he; exact catches_os2 en
    simp only [hcat, if_true]
    refine ⟨false, s1, rfl, hc1, hk1, fun _ => ?_⟩
    rcases hr1 with ⟨_, _, hd⟩ | ⟨en, ht, _, _⟩
    · exact Or.inl hd
    · exact Or.inr (tblStat_pid_err (Or.inl rfl) ht).2

/-- `Process._readlink(path, fallback="")` on /proc/<p>/exe|cwd: the FileNotFoundError it lets
    through is raised only where `wrap_exceptions` resolves it (`FnfSafe`) -/
theorem readlinkM_safe (r : Host) (p : Nat) (l : PLink) :
    Tri (ExcOK p) (readlinkM (goodCfg r) p (.link p l)) (fun _ => True) := by
  intro c s ha hi
  obtain ⟨r1, s1, h1, hk1, hc1, hr1⟩ :=
    access_spec (.fs .readlink (.link p l)) (fun w st => tblReadlink w st (.link p l)) c s ha
  unfold readlinkM accReadlink tryCatch
  simp only [bind_eq, pure_eq, M.bind, M.pure, h1]
  cases r1 with
  | ok t => exact ⟨trivial, by rw [hc1]; exact hi⟩
  | error e =>
    simp only
    rcases hr1 with ⟨he, _⟩ | ⟨en, ht, he, hnd⟩
    · subst he
      have : catches (goodCfg r).readlinkCatch .perm = false := by rfl
      simp only [this]
      exact ⟨by simp [ExcOK], by rw [hc1]; exact hi⟩
    · obtain ⟨hen, hna⟩ := tblReadlink_link_err ht
      subst hen; subst he
      have : catches (goodCfg r).readlinkCatch Errno.ENOENT.toExc = true := by rfl
      simp only [this, if_true]
      obtain ⟨b, s2, h2, hc2, hk2, hb⟩ := pathLexists_run p c s1 ha
      simp only [M.bind, h2]
      cases b with
      | true =>
        simp only [↓reduceIte]
        obtain ⟨res, s3, h3, hc3, _, hres, _⟩ := raiseIfZombie_run r p c s2 ha
        simp only [bind_eq, pure_eq, M.bind, M.pure, h3]
        rcases hres with h | h <;> subst h
        · exact ⟨trivial, by rw [hc3, hc2, hc1]; exact hi⟩
        · exact ⟨by simp [ExcOK], by rw [hc3, hc2, hc1]; exact hi⟩
      | false =>
        simp only [Bool.false_eq_true, ↓reduceIte, throw]
        refine ⟨?_, by rw [hc2, hc1]; exact hi⟩
        show FnfSafe c s2.k p
        rcases hb rfl with hd | hg
        · refine ⟨pst_not_alive_mono ha (by omega) hna, fun _ j hj => ?_⟩
          exact denyOnce_after ha hd (by omega)
        · exact fnfSafe_of_gone (pst_gone_mono ha (by omega) hg)

/-! ### the three memoized readers -/

variable (r : Host) (p : Nat)

theorem parseStatFile_safe : Tri (PsOnly p) (Plat.parseStatFile (goodCfg r) p) (fun _ => True) := by
  unfold Plat.parseStatFile
  refine W_safe r _ p (by rfl) ?_
  refine tri_memoIf _ _ _ p (fun _ _ _ _ => trivial) (fun k v hk _ => cacheInv_set_stat v hk) ?_
  refine tri_bind (tri_readFile_file .stat) (fun x hx => ?_)
  obtain ⟨rec, hx⟩ := hx
  subst hx
  exact tri_pure trivial

theorem readStatusFile_safe : Tri (PsOnly p) (Plat.readStatusFile (goodCfg r) p) (fun x => x = .text) := by
  unfold Plat.readStatusFile
  refine W_safe r _ p (by rfl) ?_
  refine tri_memoIf _ _ _ p (fun k v hk hv => hk v hv) (fun k v hk hv => ?_) (tri_readFile_file .status)
  subst hv; exact cacheInv_set_status hk

theorem readSmapsFile_safe : Tri (PsOnly p) (Plat.readSmapsFile (goodCfg r) p) (fun _ => True) := by
  unfold Plat.readSmapsFile
  refine W_safe r _ p (by rfl) ?_
  refine tri_memoIf _ _ _ p (fun _ _ _ _ => trivial) (fun k v hk _ => cacheInv_set_smaps v hk) ?_
  exact tri_post (tri_readFile_file .smaps) (fun _ _ => trivial)

/-! ### getters built on /proc/<pid>/stat -/

theorem name_safe : Tri (PsOnly p) (Plat.name (goodCfg r) p) (fun _ => True) := by
  unfold Plat.name
  exact W_safe r _ p (by rfl) (tri_bind (inner (parseStatFile_safe r p)) (fun _ _ => tri_pure trivial))

theorem terminal_safe : Tri (PsOnly p) (Plat.terminal (goodCfg r) p) (fun _ => True) := by
  unfold Plat.terminal
  exact W_safe r _ p (by rfl) (tri_bind (inner (parseStatFile_safe r p)) (fun _ _ => tri_pure trivial))

theorem cpuTimes_safe : Tri (PsOnly p) (Plat.cpuTimes (goodCfg r) p) (fun _ => True) := by
  unfold Plat.cpuTimes
  exact W_safe r _ p (by rfl) (tri_bind (inner (parseStatFile_safe r p)) (fun _ _ => tri_pure trivial))

theorem cpuNum_safe : Tri (PsOnly p) (Plat.cpuNum (goodCfg r) p) (fun _ => True) := by
  unfold Plat.cpuNum
  exact W_safe r _ p (by rfl) (tri_bind (inner (parseStatFile_safe r p)) (fun _ _ => tri_pure trivial))

theorem createTime_safe : Tri (PsOnly p) (Plat.createTime (goodCfg r) p) (fun _ => True) := by
  unfold Plat.createTime
  exact W_safe r _ p (by rfl) (tri_bind (inner (parseStatFile_safe r p)) (fun _ _ => tri_pure trivial))

theorem status_safe : Tri (PsOnly p) (Plat.status (goodCfg r) p) (fun _ => True) := by
  unfold Plat.status
  exact W_safe r _ p (by rfl) (tri_bind (inner (parseStatFile_safe r p)) (fun _ _ => tri_pure trivial))

theorem ppid_safe : Tri (PsOnly p) (Plat.ppid (goodCfg r) p) (fun _ => True) := by
  unfold Plat.ppid
  exact W_safe r _ p (by rfl) (tri_bind (inner (parseStatFile_safe r p)) (fun _ _ => tri_pure trivial))

/-! ### getters built on /proc/<pid>/status -/

theorem numCtxSwitches_safe : Tri (PsOnly p) (Plat.numCtxSwitches (goodCfg r) p) (fun _ => True) := by
  unfold Plat.numCtxSwitches
  refine W_safe r _ p (by rfl) (tri_bind (inner (readStatusFile_safe r p)) (fun x hx => ?_))
  subst hx; exact tri_pure trivial

theorem numThreads_safe : Tri (PsOnly p) (Plat.numThreads (goodCfg r) p) (fun _ => True) := by
  unfold Plat.numThreads
  refine W_safe r _ p (by rfl) (tri_bind (inner (readStatusFile_safe r p)) (fun x hx => ?_))
  subst hx; exact tri_pure trivial

theorem uids_safe : Tri (PsOnly p) (Plat.uids (goodCfg r) p) (fun _ => True) := by
  unfold Plat.uids
  refine W_safe r _ p (by rfl) (tri_bind (inner (readStatusFile_safe r p)) (fun x hx => ?_))
  subst hx; exact tri_pure trivial

theorem gids_safe : Tri (PsOnly p) (Plat.gids (goodCfg r) p) (fun _ => True) := by
  unfold Plat.gids
  refine W_safe r _ p (by rfl) (tri_bind (inner (readStatusFile_safe r p)) (fun x hx => ?_))
  subst hx; exact tri_pure trivial

/-! ### links, cmdline, environ, io, memory -/

theorem exe_safe : Tri (PsOnly p) (Plat.exe (goodCfg r) p) (fun _ => True) := by
  unfold Plat.exe
  exact W_safe r _ p (by rfl) (readlinkM_safe r p .exe)

theorem cwd_safe : Tri (PsOnly p) (Plat.cwd (goodCfg r) p) (fun _ => True) := by
  unfold Plat.cwd
  exact W_safe r _ p (by rfl) (readlinkM_safe r p .cwd)

theorem cmdline_safe : Tri (PsOnly p) (Plat.cmdline (goodCfg r) p) (fun _ => True) := by
  unfold Plat.cmdline
  refine W_safe r _ p (by rfl) (tri_bind (tri_readFile_file .cmdline) (fun x _ => ?_))
  split
  · exact tri_bind (tri_raiseIfZombie r p (fun _ _ => by simp [ExcOK])) (fun _ _ => tri_pure trivial)
  · exact tri_pure trivial
  · exact tri_pure trivial

theorem environ_safe : Tri (PsOnly p) (Plat.environ (goodCfg r) p) (fun _ => True) := by
  unfold Plat.environ
  exact W_safe r _ p (by rfl) (tri_bind (tri_readFile_file .environ) (fun _ _ => tri_pure trivial))

theorem ioCounters_safe : Tri (PsOnly p) (Plat.ioCounters (goodCfg r) p) (fun _ => True) := by
  unfold Plat.ioCounters
  refine W_safe r _ p (by rfl) (tri_bind (tri_readFile_file .io) (fun x hx => ?_))
  have : x = .text := hx
  subst this; exact tri_pure trivial

theorem memoryInfo_safe : Tri (PsOnly p) (Plat.memoryInfo (goodCfg r) p) (fun _ => True) := by
  unfold Plat.memoryInfo
  refine W_safe r _ p (by rfl) (tri_bind (tri_readFile_file .statm) (fun x hx => ?_))
  have : x = .text := hx
  subst this; exact tri_pure trivial

theorem parseSmaps_safe : Tri (PsOnly p) (Plat.parseSmaps (goodCfg r) p) (fun _ => True) := by
  unfold Plat.parseSmaps
  exact W_safe r _ p (by rfl) (tri_bind (inner (readSmapsFile_safe r p)) (fun _ _ => tri_pure trivial))

theorem parseSmapsRollup_safe : Tri (ExcOK p) (Plat.parseSmapsRollup (goodCfg r) p) (fun _ => True) := by
  unfold Plat.parseSmapsRollup
  exact W_plain r _ p (by rfl) (tri_bind (tri_readFile_file .smapsRollup) (fun _ _ => tri_pure trivial))

theorem memoryFullInfo_safe : Tri (PsOnly p) (Plat.memoryFullInfo (goodCfg r) p) (fun _ => True) := by
  unfold Plat.memoryFullInfo
  refine W_safe r _ p (by rfl) ?_
  obtain ⟨ro, le⟩ := r
  cases ro
  · show Tri (ExcOK p) (Plat.parseSmaps (goodCfg ⟨false, le⟩) p >>= fun _ => Plat.memoryInfo (goodCfg ⟨false, le⟩) p) _
    exact tri_bind (inner (parseSmaps_safe ⟨false, le⟩ p)) (fun _ _ => inner (memoryInfo_safe ⟨false, le⟩ p))
  · show Tri (ExcOK p)
      (tryCatch (Plat.parseSmapsRollup (goodCfg ⟨true, le⟩) p)
          (fun e => if catches (goodCfg ⟨true, le⟩).fullInfoCatch e then some (Plat.parseSmaps (goodCfg ⟨true, le⟩) p) else none)
        >>= fun _ => Plat.memoryInfo (goodCfg ⟨true, le⟩) p) _
    exact tri_bind (tri_tryCatch_same (parseSmapsRollup_safe ⟨true, le⟩ p) (inner (parseSmaps_safe ⟨true, le⟩ p)))
      (fun _ _ => inner (memoryInfo_safe ⟨true, le⟩ p))

/-- `path_exists_strict` on a mapping's backing path (a file outside procfs): whatever os.stat answers, only the
    PermissionError of a refused access leaves the helper — which `wrap_exceptions` may see (`ExcOK`) -/
theorem pathExistsStrict_safe (i : Nat) :
    Tri (ExcOK p) (Plat.pathExistsStrict (goodCfg r) p i) (fun _ => True) := by
  unfold Plat.pathExistsStrict accStatMap
  refine tri_tryCatch (E' := OsOnly)
    (tri_bind (tri_access_os _ _ (fun _ => True) (fun _ _ _ _ => trivial)) (fun _ _ => tri_pure trivial)) ?_ ?_
  · intro e he c k ho
    rcases ho with h | h | h <;> subst h <;> simp [goodCfg, catches, PyExc.bases] at he
  · intro e m' he ho
    obtain ⟨c, k, ho⟩ := ho
    rcases ho with h | h | h <;> subst h <;> simp [goodCfg, catches, PyExc.bases] at he <;> subst he
    · exact tri_pure trivial
    · exact tri_pure trivial
    · exact tri_throw (fun _ _ => by simp [ExcOK])

/-- the per-mapping loop of memory_maps(): ANY number of mappings of any kinds -/
theorem mapsLoop_safe : ∀ (ks : List MapKind) (i n : Nat),
    Tri (ExcOK p) (Plat.mapsLoop (goodCfg r) p ks i n) (fun _ => True)
  | [], _, _ => by unfold Plat.mapsLoop; exact tri_pure trivial
  | .anon :: ks, i, n => by unfold Plat.mapsLoop; exact mapsLoop_safe ks _ _
  | .file :: ks, i, n => by unfold Plat.mapsLoop; exact mapsLoop_safe ks _ _
  | .deleted _ :: ks, i, n => by
    unfold Plat.mapsLoop
    exact tri_bind (pathExistsStrict_safe r p i) (fun _ _ => mapsLoop_safe ks _ _)

theorem tri_askMaps {E : Ctx → Nat → PyExc → Prop} : Tri E (Plat.askMaps p) (fun _ => True) := by
  intro c s _ hi; exact ⟨trivial, hi⟩

theorem memoryMaps_safe : Tri (PsOnly p) (Plat.memoryMaps (goodCfg r) p) (fun _ => True) := by
  unfold Plat.memoryMaps
  refine W_safe r _ p (by rfl) (tri_bind (inner (readSmapsFile_safe r p)) (fun x _ => ?_))
  split
  · exact tri_bind (tri_raiseIfZombie r p (fun _ _ => by simp [ExcOK])) (fun _ _ => tri_pure trivial)
  · exact tri_bind (tri_askMaps p) (fun ms _ => mapsLoop_safe r p ms 0 0)

/-! ### native calls, num_fds -/

theorem niceGet_safe : Tri (PsOnly p) (Plat.niceGet (goodCfg r) p) (fun _ => True) := by
  unfold Plat.niceGet; exact W_safe r _ p (by rfl) (tri_native _)

theorem cpuAffinityGet_safe : Tri (PsOnly p) (Plat.cpuAffinityGet (goodCfg r) p) (fun _ => True) := by
  unfold Plat.cpuAffinityGet; exact W_safe r _ p (by rfl) (tri_native _)

theorem ioniceGet_safe : Tri (PsOnly p) (Plat.ioniceGet (goodCfg r) p) (fun _ => True) := by
  unfold Plat.ioniceGet; exact W_safe r _ p (by rfl) (tri_native _)

theorem numFds_safe : Tri (PsOnly p) (Plat.numFds (goodCfg r) p) (fun _ => True) := by
  unfold Plat.numFds
  exact W_safe r _ p (by rfl) (tri_bind (tri_listdir_dir .fd) (fun _ _ => tri_pure trivial))

/-! ### more table facts -/

theorem tblRead_taskStat_ok {w : World} {st : WS} {q t : Nat} {x : Content}
    (h : tblRead w st (.taskStat q t) = .ok x) : x = .text := by
  unfold tblRead at h
  cases hs : w.state st q with
  | none => simp [hs] at h
  | some y =>
    obtain ⟨s', i⟩ := y
    cases s' <;> simp [hs] at h
    · exact h.symm
    · split at h <;> simp at h; exact h.symm

theorem tblRead_fdInfo_ok {w : World} {st : WS} {q fd : Nat} {x : Content}
    (h : tblRead w st (.fdInfo q fd) = .ok x) : x = .text := by
  unfold tblRead at h
  cases hs : w.state st q with
  | none => simp [hs] at h
  | some y =>
    obtain ⟨s', i⟩ := y
    cases s' <;> simp [hs] at h
    exact h.symm

/-- accesses to system-wide files (the /proc listing, /proc/net/*) never fail in the model -/
theorem tri_access_never {E : Ctx → Nat → PyExc → Prop} {α : Type} (a : OsAcc)
    (tbl : World → WS → Except Errno α) (Q : α → Prop)
    (hown : a.owner = none) (hok : ∀ w st, ∃ v, tbl w st = .ok v ∧ Q v) : Tri E (access a tbl) Q := by
  intro c s ha hi
  obtain ⟨r, s', h, hk, hc, hr⟩ := access_spec a tbl c s ha
  rw [h]
  obtain ⟨v, hv, hq⟩ := hok c.w (c.ws s.k)
  cases r with
  | ok v' =>
    rw [hv] at hr
    have : v = v' := by injection hr.1
    subst this
    exact ⟨hq, by rw [hc]; exact hi⟩
  | error e =>
    rcases hr with ⟨_, ho, _⟩ | ⟨en, ht, _, _⟩
    · rw [hown] at ho; cases ho
    · rw [hv] at ht; cases ht

theorem tri_readFile_os (path : Path) (Q : Content → Prop)
    (hok : ∀ w st v, tblRead w st path = .ok v → Q v) : Tri OsOnly (readFile path) Q := by
  unfold readFile
  refine tri_bind (Q := fun _ => True) ?_ (fun _ _ => ?_)
  · exact tri_access_os _ _ _ (fun _ _ _ _ => trivial)
  · exact tri_access_os _ _ _ hok

theorem pathExists_never {E : Ctx → Nat → PyExc → Prop} (path : Path) : Tri E (pathExists path) (fun _ => True) := by
  unfold pathExists
  refine tri_tryCatch (E' := OsOnly)
    (tri_bind (Q := fun _ => True) (tri_access_os _ _ _ (fun _ _ _ _ => trivial)) (fun _ _ => tri_pure trivial))
    (fun e h c k ho => ?_) (fun e m' h _ => ?_)
  · rcases ho with ho | ho | ho <;> subst ho <;> simp [catches, PyExc.bases] at h
  · split at h
    · cases h; exact tri_pure trivial
    · cases h

/-! ### threads(): any number of threads -/

theorem threadsLoop_safe : ∀ (ts : List Nat) (n : Nat) (hit : Bool),
    Tri (ExcOK p) (Plat.threadsLoop (goodCfg r) p ts n hit) (fun _ => True) := by
  intro ts
  induction ts with
  | nil => intro n hit; unfold Plat.threadsLoop; exact tri_pure trivial
  | cons t ts ih =>
    intro n hit
    unfold Plat.threadsLoop
    refine tri_bind (Q := fun x => x = none ∨ x = some Content.text) ?_ ?_
    · refine tri_tryCatch_lax (by rfl) ?_ (tri_pure (Or.inl rfl))
      exact tri_bind (tri_readFile_lax _ (· = Content.text) (fun _ _ _ h => tblRead_taskStat_ok h))
        (fun x hx => tri_pure (Or.inr (by rw [hx])))
    · intro x hx
      rcases hx with h | h <;> subst h
      · exact ih n true
      · exact ih (n + 1) hit

theorem threads_safe : Tri (PsOnly p) (Plat.threads (goodCfg r) p) (fun _ => True) := by
  unfold Plat.threads
  refine W_safe r _ p (by rfl) (tri_bind (tri_listdir_dir .task) (fun tids _ => ?_))
  refine tri_bind (threadsLoop_safe r p tids 0 false) (fun x _ => ?_)
  obtain ⟨n, hit⟩ := x
  dsimp only
  cases hit
  · exact tri_pure trivial
  · exact tri_bind tri_raiseIfNotAlive (fun _ _ => tri_pure trivial)

/-! ### open_files(): any number of descriptors -/

theorem fdLink_try_safe (fd : Nat) (L : List String) (hL : L = ["FileNotFoundError", "ProcessLookupError"]) :
    Tri (ExcOK p)
      (tryCatch (do let t ← accReadlink (.fdLink p fd); pure (some t))
        (fun e => if catches L e then some (pure none)
                  else if catches ["OSError"] e then some (throw e) else none))
      (fun _ => True) := by
  subst hL
  refine tri_tryCatch (E' := OsOnly)
    (tri_bind (Q := fun _ => True) (tri_access_os _ _ _ (fun _ _ _ _ => trivial)) (fun _ _ => tri_pure trivial))
    (fun e h c k ho => ?_) (fun e m' h ho => ?_)
  · rcases ho with ho | ho | ho <;> subst ho <;> simp [catches, PyExc.bases] at h
  · obtain ⟨c, k, ho⟩ := ho
    rcases ho with ho | ho | ho <;> subst ho <;> simp [catches, PyExc.bases] at h <;> subst h
    · exact tri_pure trivial
    · exact tri_pure trivial
    · exact tri_throw (fun _ _ => by simp [ExcOK])

theorem openFilesLoop_safe : ∀ (fds : List Nat) (n : Nat) (hit : Bool),
    Tri (ExcOK p) (Plat.openFilesLoop (goodCfg r) p fds n hit) (fun _ => True) := by
  intro fds
  induction fds with
  | nil => intro n hit; unfold Plat.openFilesLoop; exact tri_pure trivial
  | cons fd fds ih =>
    intro n hit
    unfold Plat.openFilesLoop
    refine tri_bind (fdLink_try_safe p fd _ rfl) (fun x _ => ?_)
    split
    · exact ih n true
    · refine tri_bind (Q := fun _ => True) ?_ (fun r2 _ => ?_)
      · refine tri_tryCatch_lax (by rfl) ?_ (tri_pure trivial)
        refine tri_bind (tri_readFile_lax _ (· = Content.text) (fun _ _ _ h => tblRead_fdInfo_ok h)) (fun x hx => ?_)
        subst hx; exact tri_pure trivial
      · cases r2
        · exact ih n true
        · exact ih (n + 1) hit
    · exact ih n hit

theorem openFiles_safe : Tri (PsOnly p) (Plat.openFiles (goodCfg r) p) (fun _ => True) := by
  unfold Plat.openFiles
  refine W_safe r _ p (by rfl) (tri_bind (tri_listdir_dir .fd) (fun fds _ => ?_))
  refine tri_bind (openFilesLoop_safe r p fds 0 false) (fun x _ => ?_)
  obtain ⟨n, hit⟩ := x
  dsimp only
  cases hit
  · exact tri_pure trivial
  · exact tri_bind tri_raiseIfNotAlive (fun _ _ => tri_pure trivial)

/-! ### net_connections(): get_proc_inodes over any number of descriptors -/

theorem inodesLoop_safe : ∀ (fds : List Nat) (n : Nat),
    Tri (ExcOK p) (Plat.inodesLoop (goodCfg r) p fds n) (fun _ => True) := by
  intro fds
  induction fds with
  | nil => intro n; unfold Plat.inodesLoop; exact tri_pure trivial
  | cons fd fds ih =>
    intro n
    unfold Plat.inodesLoop
    refine tri_bind (fdLink_try_safe p fd _ rfl) (fun x _ => ?_)
    split
    · exact ih (n + 1)
    · exact ih n

theorem processInet_safe {E : Ctx → Nat → PyExc → Prop} (f : NetFile) : Tri E (Plat.processInet f) (fun _ => True) := by
  unfold Plat.processInet
  refine tri_bind (Q := fun _ => True) ?_ (fun u _ => ?_)
  · split
    · exact tri_bind (pathExists_never _) (fun _ _ => tri_pure trivial)
    · exact tri_pure trivial
  · cases u
    · refine tri_bind (Q := fun _ => True) ?_ (fun _ _ => tri_pure trivial)
      unfold readFile
      refine tri_bind (Q := fun _ => True) ?_ (fun _ _ => ?_)
      · exact tri_access_never _ _ _ rfl (fun _ _ => ⟨(), rfl, trivial⟩)
      · exact tri_access_never _ _ _ rfl (fun _ _ => ⟨.text, rfl, trivial⟩)
    · exact tri_pure trivial

theorem retrieve_safe : Tri (ExcOK p) (Plat.retrieve (goodCfg r) p) (fun _ => True) := by
  unfold Plat.retrieve
  refine tri_bind (tri_listdir_dir .fd) (fun fds _ => ?_)
  refine tri_bind (inodesLoop_safe r p fds 0) (fun n _ => ?_)
  split
  · exact tri_pure trivial
  · exact tri_bind (processInet_safe _) (fun _ _ => tri_bind (processInet_safe _) (fun _ _ =>
      tri_bind (processInet_safe _) (fun _ _ => tri_bind (processInet_safe _) (fun _ _ => tri_pure trivial))))

theorem netConnections_safe : Tri (PsOnly p) (Plat.netConnections (goodCfg r) p) (fun _ => True) := by
  unfold Plat.netConnections
  refine W_safe r _ p (by rfl) (tri_bind (retrieve_safe r p) (fun n _ => ?_))
  exact tri_bind tri_raiseIfNotAlive (fun _ _ => tri_pure trivial)

/-! ### rlimit (get) -/

theorem rlimit_safe (hp : p ≠ 0) : Tri (PsOnly p) (Plat.rlimit (goodCfg r) p) (fun _ => True) := by
  unfold Plat.rlimit
  refine W_safe r _ p (by rfl) ?_
  have hp0 : (p == 0) = false := by simp [hp]
  simp only [hp0, Bool.false_eq_true, ↓reduceIte]
  · refine tri_tryCatch (E' := fun _ _ e => e = .ple ∨ e = .perm) ?_ (fun e _ c k h => ?_) (fun e m' h he => ?_)
    · intro c s ha hi
      obtain ⟨res, s', h, hk, hc, hr⟩ :=
        access_spec (.native .prlimit p) (fun w st => tblNative w st p) c s ha
      unfold accNative
      rw [h]
      cases res with
      | ok v => exact ⟨trivial, by rw [hc]; exact hi⟩
      | error e =>
        refine ⟨?_, by rw [hc]; exact hi⟩
        rcases hr with ⟨he, _⟩ | ⟨en, ht, he, _⟩
        · exact Or.inr he
        · have := tblNative_err ht
          subst this; subst he; exact Or.inl rfl
    · rcases h with h | h <;> subst h <;> simp [ExcOK]
    · obtain ⟨c, k, he⟩ := he
      rcases he with he | he <;> subst he <;> simp [catches, PyExc.bases] at h <;> subst h <;>
        exact tri_throw (fun _ _ => by simp [ExcOK])

/-! ### ppid_map(): nothing escapes once PermissionError is tolerated too -/

def NoExc : Ctx → Nat → PyExc → Prop := fun _ _ _ => False

theorem ppidMapLoop_safe : ∀ (qs : List Nat), Tri NoExc (Plat.ppidMapLoop (goodCfg r) qs) (fun _ => True) := by
  intro qs
  induction qs with
  | nil => unfold Plat.ppidMapLoop; exact tri_pure trivial
  | cons q qs ih =>
    unfold Plat.ppidMapLoop
    refine tri_bind (Q := fun x => x = none ∨ ∃ rec, x = some (Content.stat rec)) ?_ (fun x hx => ?_)
    · refine tri_tryCatch (E' := OsOnly) ?_ (fun e h c k ho => ?_) (fun e m' h _ => ?_)
      · refine tri_bind (tri_readFile_os (.file q .stat) (okContent .stat) (fun _ _ _ h => tblRead_file_ok h))
          (fun x hx => tri_pure ?_)
        obtain ⟨rec, hx⟩ := hx
        exact Or.inr ⟨rec, by rw [hx]⟩
      · rcases ho with ho | ho | ho <;> subst ho <;> simp [catches, PyExc.bases, goodCfg] at h
      · split at h
        · cases h; exact tri_pure (Or.inl rfl)
        · cases h
    · rcases hx with h | ⟨rec, h⟩ <;> subst h
      · exact ih
      · exact tri_bind ih (fun _ _ => tri_pure trivial)

theorem ppidMap_safe : Tri NoExc (Plat.ppidMap (goodCfg r)) (fun _ => True) := by
  unfold Plat.ppidMap
  refine tri_bind (Q := fun _ => True) ?_ (fun pids _ => ppidMapLoop_safe r pids)
  exact tri_access_never _ _ _ rfl (fun _ _ => ⟨_, rfl, trivial⟩)

end Psutil.C03
