/-
  Proofs/C05Parent.lean — helper lemmas about `parent()` / `parents()` for Props/C05.lean.
-/
import PsutilModel.Proofs.C05
namespace Psutil.C05
open Spec

theorem find_some {T : Table} {pid : Nat} {r : Row} (h : T.find pid = some r) : r.pid = pid ∧ r ∈ T := by
  unfold Table.find at h
  have h1 := List.find?_some h
  exact ⟨by simpa using h1, List.mem_of_find?_eq_some h⟩

theorem find_self {T : Table} {pid : Nat} {r : Row} (h : T.find pid = some r) : T.find r.pid = some r := by
  rw [(find_some h).1]; exact h

theorem lookOf_some {T : Table} {pid s : Nat} (h : lookOf T pid = some s) :
    ∃ r, T.find pid = some r ∧ r.start = s := by
  unfold lookOf at h
  cases hf : T.find pid with
  | none => rw [hf] at h; cases h
  | some r => rw [hf] at h; exact ⟨r, rfl, by simpa using h⟩

theorem lookOf_of_find {T : Table} {pid : Nat} {r : Row} (h : T.find pid = some r) :
    lookOf T pid = some r.start := by
  unfold lookOf; rw [h]; rfl

theorem minPid_some_of_mem {T : Table} {r : Row} (h : r ∈ T) : ∃ m, minPid? T = some m := by
  unfold minPid? Table.pids
  cases hm : (T.map (·.pid)).min? with
  | some m => exact ⟨m, rfl⟩
  | none =>
    have := List.min?_eq_none_iff.1 hm
    have : T = [] := by simpa using this
    subst this; cases h

theorem not_recycled_of_look {look : Look} {me : Caller} (h : look me.pid = some me.ctime) :
    ¬ Recycled look me := by
  rintro ⟨s, hs, hne⟩
  rw [h] at hs
  exact hne (Option.some.inj hs).symm

/-- `parent()` under a good configuration, for a caller that is listed with its own start time,
    when `_LOWEST_PID` is unset or current. -/
theorem parent_good (c : Cfg) (hg : c.Good) (ps : Ps) (T : Table) (me : Caller)
    (hfresh : ps.lowest = none ∨ ps.lowest = minPid? T)
    (hr : me.reused = false) (hgone : me.gone = false) (hl : lookOf T me.pid = some me.ctime) :
    (parent c ps T me).2.2 = .ok (parentOf T me.pid me.ctime)
      ∧ (parent c ps T me).1.lowest = minPid? T := by
  obtain ⟨r, hfind, hstart⟩ := lookOf_some hl
  obtain ⟨m, hm⟩ := minPid_some_of_mem (find_some hfind).2
  have hlow : lowestPid ps T = (⟨some m⟩, some m) := by
    unfold lowestPid
    rcases hfresh with h | h
    · rw [h, hm]
    · rw [hm] at h
      have : ps = ⟨some m⟩ := by cases ps; simp_all
      rw [this]
  have hraise := raise_false true hr hgone (show Alive (lookOf T) me from hl)
  unfold parent
  simp only [hg.lowestStop, if_true, hlow]
  by_cases hroot : me.pid = m
  · subst hroot
    have hroot' : isRoot T me.pid = true := by simp [isRoot, hm]
    cases hrg : c.rootGuarded <;> simp [parentOf, hroot', hm, hg.goneRaises, hraise]
  · have hnr : isRoot T me.pid = false := by
      simp [isRoot, hm]; exact fun h => hroot h.symm
    have hbeq : (me.pid == m) = false := by simpa using hroot
    simp only [hbeq, Bool.false_eq_true, if_false, hm, and_true]
    unfold parentCore parentOf
    simp only [hg.ppidGuarded, hg.goneRaises, if_true, hraise, Bool.false_eq_true, if_false, hfind, hnr]
    cases hq : T.find r.ppid with
    | none => simp
    | some q =>
      by_cases hle : q.start ≤ me.ctime
      · simp [hg.parentOp, Cmp.eval, hle]
      · simp [hg.parentOp, Cmp.eval, hle]

theorem parentOf_some {T : Table} {pid ct : Nat} {q : Row} (h : parentOf T pid ct = some q) :
    T.find q.pid = some q ∧ q ∈ T ∧ q.start ≤ ct ∧ isRoot T pid = false
      ∧ ∃ r, T.find pid = some r ∧ q.pid = r.ppid := by
  unfold parentOf at h
  cases hroot : isRoot T pid with
  | true => simp [hroot] at h
  | false =>
    simp only [hroot, Bool.false_eq_true, if_false] at h
    cases hf : T.find pid with
    | none => simp [hf] at h
    | some r =>
      simp only [hf] at h
      cases hq : T.find r.ppid with
      | none => simp [hq] at h
      | some q' =>
        simp only [hq] at h
        by_cases hle : q'.start ≤ ct
        · simp only [hle, if_true, Option.some.injEq] at h
          subst h
          exact ⟨find_self hq, (find_some hq).2, hle, rfl, r, rfl, (find_some hq).1⟩
        · simp [hle] at h

theorem unseenCnt_le_length (U seen : List Nat) : unseenCnt U seen ≤ U.length :=
  List.length_filter_le _ _

/-- the loop of `parents()` under a good configuration: it ends within the fuel and yields the
    specification's chain -/
theorem parentsLoop_good (c : Cfg) (hg : c.Good) (T : Table) :
    ∀ (fuel : Nat) (ps : Ps) (seen : List Nat) (cur : Caller) (acc : List Row),
      (ps.lowest = none ∨ ps.lowest = minPid? T) → cur.reused = false → cur.gone = false →
      lookOf T cur.pid = some cur.ctime → unseenCnt T.pids seen < fuel →
      ∃ l, (parentsLoop c T fuel ps seen cur acc).2 = .ok (acc ++ l)
        ∧ Chain T seen cur.pid cur.ctime l := by
  intro fuel
  induction fuel with
  | zero => intro ps seen cur acc _ _ _ _ h; omega
  | succ fuel ih =>
    intro ps seen cur acc hfresh hr hgone hl hlt
    obtain ⟨hout, hps⟩ := parent_good c hg ps T cur hfresh hr hgone hl
    rcases hp : parent c ps T cur with ⟨ps', me', out⟩
    rw [hp] at hout hps
    simp only at hout hps
    subst hout
    cases hpo : parentOf T cur.pid cur.ctime with
    | none =>
      refine ⟨[], ?_, Chain.root hpo⟩
      simp [parentsLoop, hp, hpo]
    | some q =>
      by_cases hs : q.pid ∈ seen
      · refine ⟨[], ?_, Chain.cycle hpo hs⟩
        have hcont : seen.contains q.pid = true := by simpa using hs
        simp [parentsLoop, hp, hpo, hg.parentsSeen, hs]
      · have hcont : seen.contains q.pid = false := by simpa using hs
        obtain ⟨hfq, hqT, _, _, _⟩ := parentOf_some hpo
        have hqU : q.pid ∈ T.pids := List.mem_map.2 ⟨q, hqT, rfl⟩
        have hdec := unseenCnt_lt hqU hs
        obtain ⟨l, hl', hch⟩ := ih ps' (q.pid :: seen) (callerOf q) (acc ++ [q]) (Or.inr hps) rfl rfl
          (lookOf_of_find hfq) (by omega)
        refine ⟨q :: l, ?_, Chain.step hpo hs hch⟩
        simp only [parentsLoop, hp, hpo, hg.parentsSeen, hcont, Bool.and_false, Bool.false_eq_true,
          if_false]
        rw [hl']
        simp

/-- a strict rank along parent links (an acyclic table) rules out the cycle cut -/
theorem chain_toRoot {T : Table} (rk : Nat → Nat)
    (hrk : ∀ r ∈ T, ∀ q ∈ T, q.pid = r.ppid → isRoot T r.pid = false → q.start ≤ r.start →
      rk q.pid < rk r.pid) :
    ∀ {seen : List Nat} {pid ct : Nat} {l : List Row},
      lookOf T pid = some ct → (∀ s ∈ seen, rk pid ≤ rk s) → Chain T seen pid ct l →
      ChainToRoot T pid ct l := by
  intro seen pid ct l hl hs h
  induction h with
  | root hp => exact ChainToRoot.root hp
  | @cycle seen pid ct q hp hq =>
    obtain ⟨_, hqT, hle, hnr, r, hfr, hqr⟩ := parentOf_some hp
    obtain ⟨r', hfr', hst⟩ := lookOf_some hl
    rw [hfr] at hfr'
    cases hfr'
    have h1 := hrk r (find_some hfr).2 q hqT hqr ((find_some hfr).1 ▸ hnr) (hst ▸ hle)
    have h2 := hs _ hq
    rw [(find_some hfr).1] at h1
    omega
  | @step seen pid ct q rest hp hq _ ih =>
    obtain ⟨hfq, hqT, hle, hnr, r, hfr, hqr⟩ := parentOf_some hp
    obtain ⟨r', hfr', hst⟩ := lookOf_some hl
    rw [hfr] at hfr'
    cases hfr'
    have h1 := hrk r (find_some hfr).2 q hqT hqr ((find_some hfr).1 ▸ hnr) (hst ▸ hle)
    rw [(find_some hfr).1] at h1
    refine ChainToRoot.step hp (ih (lookOf_of_find hfq) ?_)
    intro s hs'
    rcases List.mem_cons.1 hs' with rfl | hs''
    · exact Nat.le_refl _
    · have := hs s hs''; omega

/-- the chain is a function of the table -/
theorem chain_unique {T : Table} : ∀ {seen : List Nat} {pid ct : Nat} {l1 l2 : List Row},
    Chain T seen pid ct l1 → Chain T seen pid ct l2 → l1 = l2 := by
  intro seen pid ct l1 l2 h1
  induction h1 generalizing l2 with
  | root hp =>
    intro h2
    cases h2 with
    | root _ => rfl
    | cycle _ _ => rfl
    | step hp' _ _ => rw [hp] at hp'; cases hp'
  | cycle hp hq =>
    intro h2
    cases h2 with
    | root _ => rfl
    | cycle _ _ => rfl
    | step hp' hq' _ => rw [hp] at hp'; cases hp'; exact absurd hq hq'
  | step hp hq _ ih =>
    intro h2
    cases h2 with
    | root hp' => rw [hp] at hp'; cases hp'
    | cycle hp' hq' => rw [hp] at hp'; cases hp'; exact absurd hq' hq
    | step hp' _ hc' => rw [hp] at hp'; cases hp'; rw [ih hc']

/-- the executable chain of the driver is the specification's chain -/
theorem chainList_chain (T : Table) : ∀ (n : Nat) (seen : List Nat) (pid ct : Nat),
    unseenCnt T.pids seen < n → Chain T seen pid ct (chainList T n seen pid ct) := by
  intro n
  induction n with
  | zero => intro seen pid ct h; omega
  | succ n ih =>
    intro seen pid ct hlt
    unfold chainList
    cases hpo : parentOf T pid ct with
    | none => exact Chain.root hpo
    | some q =>
      by_cases hs : q.pid ∈ seen
      · have hcont : seen.contains q.pid = true := by simpa using hs
        simp only [hcont, if_true]
        exact Chain.cycle hpo hs
      · have hcont : seen.contains q.pid = false := by simpa using hs
        simp only [hcont, Bool.false_eq_true, if_false]
        obtain ⟨_, hqT, _⟩ := parentOf_some hpo
        have hqU : q.pid ∈ T.pids := List.mem_map.2 ⟨q, hqT, rfl⟩
        have hdec := unseenCnt_lt hqU hs
        exact Chain.step hpo hs (ih _ _ _ (by omega))

end Psutil.C05
