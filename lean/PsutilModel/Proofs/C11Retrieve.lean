/-
  Proofs/C11Retrieve.lean — `retrieve`: set semantics over the files of a kind, and what the
  rows of one socket are in terms of the owners the specification allows.
-/
import PsutilModel.Proofs.C11World
set_option linter.unusedSimpArgs false
namespace Psutil.C11
open Spec

/-! ### `ret.add(conn)` -/

theorem mem_setAdd (ret : List Row) (r x : Row) : x ∈ setAdd ret r ↔ x ∈ ret ∨ x = r := by
  unfold setAdd
  by_cases h : r ∈ ret
  · simp only [h, if_true]
    constructor
    · exact Or.inl
    · rintro (h1 | h1)
      · exact h1
      · rw [h1]; exact h
  · simp [h]

theorem mem_foldl_setAdd (rows : List Row) : ∀ (ret : List Row) (x : Row),
    x ∈ rows.foldl setAdd ret ↔ x ∈ ret ∨ x ∈ rows := by
  induction rows with
  | nil => intro ret x; simp
  | cons r rs ih =>
    intro ret x
    simp only [List.foldl_cons, ih, mem_setAdd, List.mem_cons]
    constructor
    · rintro ((h | h) | h)
      · exact Or.inl h
      · exact Or.inr (Or.inl h)
      · exact Or.inr (Or.inr h)
    · rintro (h | h | h)
      · exact Or.inl (Or.inl h)
      · exact Or.inl (Or.inr h)
      · exact Or.inr h

theorem nodup_setAdd (ret : List Row) (r : Row) (h : ret.Nodup) : (setAdd ret r).Nodup := by
  unfold setAdd
  by_cases hm : r ∈ ret
  · simp [hm, h]
  · simp only [hm, if_false]
    rw [List.nodup_append]
    refine ⟨h, by simp, ?_⟩
    intro a ha b hb
    simp at hb; subst hb
    exact fun e => hm (e ▸ ha)

theorem nodup_foldl_setAdd (rows : List Row) : ∀ ret : List Row, ret.Nodup → (rows.foldl setAdd ret).Nodup := by
  induction rows with
  | nil => intro ret h; exact h
  | cons r rs ih => intro ret h; exact ih _ (nodup_setAdd ret r h)

theorem length_setAdd (ret : List Row) (r : Row) : (setAdd ret r).length ≤ ret.length + 1 := by
  unfold setAdd
  by_cases hm : r ∈ ret <;> simp [hm]

theorem length_foldl_setAdd (rows : List Row) : ∀ ret : List Row,
    (rows.foldl setAdd ret).length ≤ ret.length + rows.length := by
  induction rows with
  | nil => intro ret; simp
  | cons r rs ih =>
    intro ret
    have h1 := ih (setAdd ret r)
    have h2 := length_setAdd ret r
    simp only [List.foldl_cons, List.length_cons]
    omega

/-! ### the loop over `tmap[kind]` -/

theorem retrieveEntries_ok (c : Cfg) (fs : ProcFs) (inodes : Inodes) (pid : Option Nat) (R : TEntry → List Row) :
    ∀ (es : List TEntry) (ret : List Row), (∀ e ∈ es, entryRows c fs inodes pid e = .ok (R e)) →
      ∃ out, retrieveEntries c fs inodes pid es ret = .ok out
        ∧ (∀ x, x ∈ out ↔ x ∈ ret ∨ ∃ e ∈ es, x ∈ (R e).map (wrapRow pid))
        ∧ (ret.Nodup → out.Nodup)
        ∧ out.length ≤ ret.length + (es.map fun e => (R e).length).sum := by
  intro es
  induction es with
  | nil =>
    intro ret _
    exact ⟨ret, rfl, by simp, id, by simp⟩
  | cons e es ih =>
    intro ret h
    have he := h e (by simp)
    obtain ⟨out, h1, h2, h3, h4⟩ := ih (((R e).map (wrapRow pid)).foldl setAdd ret) (fun x hx => h x (by simp [hx]))
    refine ⟨out, by simp [retrieveEntries, he, h1], ?_, ?_, ?_⟩
    · intro x
      rw [h2 x, mem_foldl_setAdd]
      constructor
      · rintro ((hx | hx) | ⟨e', he', hx⟩)
        · exact Or.inl hx
        · exact Or.inr ⟨e, by simp, hx⟩
        · exact Or.inr ⟨e', by simp [he'], hx⟩
      · rintro (hx | ⟨e', he', hx⟩)
        · exact Or.inl (Or.inl hx)
        · rcases List.mem_cons.mp he' with rfl | he'
          · exact Or.inl (Or.inr hx)
          · exact Or.inr ⟨e', he', hx⟩
    · intro hn; exact h3 (nodup_foldl_setAdd _ ret hn)
    · have := length_foldl_setAdd ((R e).map (wrapRow pid)) ret
      simp only [List.length_map] at this
      simp only [List.map_cons, List.sum_cons]
      omega

/-! ### one `tmap` entry over a rendered world -/

/-- the five `(file, family, type)` classes of `/proc/net` -/
def canonicalEntries : List TEntry :=
  [("tcp", 2, some 1), ("tcp6", 10, some 1), ("udp", 2, some 2), ("udp6", 10, some 2), ("unix", 1, none)]

/-- the sockets shown in the file a canonical entry names -/
def entrySocks (w : World) (e : TEntry) : List Sock :=
  if e.1 = "tcp" then w.socks.filter (inClass .inet4 1)
  else if e.1 = "udp" then w.socks.filter (inClass .inet4 2)
  else if e.1 = "tcp6" then w.socks.filter (inClass .inet6 1)
  else if e.1 = "udp6" then w.socks.filter (inClass .inet6 2)
  else w.socks.filter (fun s => s.fam == .unix)

/-- the tuples yielded for one socket -/
def sockRows (inodes : Inodes) (pid : Option Nat) (s : Sock) : List Row :=
  if s.fam = .unix then unixRows inodes pid s else (inetRow? inodes pid s).toList

theorem filterMap_eq_flatMap_sockRows (inodes : Inodes) (pid : Option Nat) (l : List Sock)
    (h : ∀ s ∈ l, s.fam ≠ .unix) : l.filterMap (inetRow? inodes pid) = l.flatMap (sockRows inodes pid) := by
  induction l with
  | nil => rfl
  | cons a as ih =>
    have ha := h a (by simp)
    rw [List.filterMap_cons, List.flatMap_cons, ih (fun s hs => h s (by simp [hs]))]
    cases hr : inetRow? inodes pid a <;> simp [sockRows, ha, hr]

theorem flatMap_unixRows_eq (inodes : Inodes) (pid : Option Nat) (l : List Sock)
    (h : ∀ s ∈ l, s.fam = .unix) : l.flatMap (unixRows inodes pid) = l.flatMap (sockRows inodes pid) := by
  apply flatMap_congr'
  intro s hs
  simp [sockRows, h s hs]

set_option maxRecDepth 8000 in
theorem headers_nl : 10 ∉ padRight 149 tcpHeader ∧ 10 ∉ padRight 127 udpHeader ∧ 10 ∉ tcp6Header
    ∧ 10 ∉ udp6Header := by
  refine ⟨by decide, by decide, by decide, by decide⟩

theorem inClass_mem {f : Fam} {t : Nat} {w : World} {s : Sock} (h : s ∈ w.socks.filter (inClass f t)) :
    s ∈ w.socks ∧ s.fam = f ∧ s.typ = t := by
  simp only [List.mem_filter, inClass, Bool.and_eq_true, beq_iff_eq] at h
  exact ⟨h.1, h.2.1, h.2.2⟩

theorem entryRows_inet (c : Cfg) (hg : c.Good) (w : World) (hw : w.WF) (inodes : Inodes) (hi : Inv inodes)
    (pid : Option Nat) (name : String) (f : Fam) (t : Nat) (header : Bytes) (hh : 10 ∉ header)
    (hf : f = .inet4 ∨ f = .inet6)
    (hnet : (renderWorld c.littleEndian w).net name = some (inetFile c.littleEndian w f t header)) :
    processInet c name ((renderWorld c.littleEndian w).net name) f.num t inodes pid
      = .ok ((w.socks.filter (inClass f t)).flatMap (sockRows inodes pid)) := by
  rw [hnet]
  unfold inetFile
  have hs : ∀ s ∈ w.socks.filter (inClass f t), IsInet s ∧ s.WF ∧ s.fam = f ∧ s.typ = t := by
    intro s hs
    obtain ⟨h1, h2, h3⟩ := inClass_mem hs
    refine ⟨?_, hw.socks s h1, h2, h3⟩
    unfold IsInet; rw [h2]; exact hf
  rw [processInet_render c hg name f t header hh inodes hi pid _ hs]
  rw [filterMap_eq_flatMap_sockRows]
  intro s hs'
  rcases hf with h | h <;> rw [(hs s hs').2.2.1, h] <;> decide

/-- every canonical entry, run over a rendered world, yields the tuples of the sockets of its class -/
theorem entryRows_render (c : Cfg) (hg : c.Good) (w : World) (hw : w.WF) (inodes : Inodes) (hi : Inv inodes)
    (pid : Option Nat) : ∀ e ∈ canonicalEntries,
      entryRows c (renderWorld c.littleEndian w) inodes pid e
        = .ok ((entrySocks w e).flatMap (sockRows inodes pid)) := by
  intro e he
  obtain ⟨h1, h2, h3, h4⟩ := headers_nl
  simp only [canonicalEntries, List.mem_cons, List.not_mem_nil, or_false] at he
  rcases he with rfl | rfl | rfl | rfl | rfl
  · -- tcp
    have := entryRows_inet c hg w hw inodes hi pid "tcp" .inet4 1 _ h1 (Or.inl rfl) (by simp [renderWorld])
    simpa [entryRows, hg.afInet, hg.afInet6, entrySocks, Fam.num] using this
  · -- tcp6
    cases hv : w.v6 with
    | true =>
      have := entryRows_inet c hg w hw inodes hi pid "tcp6" .inet6 1 _ h3 (Or.inr rfl) (by simp [renderWorld, hv])
      simpa [entryRows, hg.afInet, hg.afInet6, entrySocks, Fam.num] using this
    | false =>
      have hnone : (renderWorld c.littleEndian w).net "tcp6" = none := by simp [renderWorld, hv]
      have hemp : w.socks.filter (inClass .inet6 1) = [] := by
        rw [List.filter_eq_nil_iff]
        intro s hs
        have := hw.v6 hv s hs
        simp [inClass, this]
      have hlast : "tcp6".toList.getLast? = some '6' := by decide
      simp [entryRows, hg.afInet, hg.afInet6, entrySocks, processInet, hnone, hemp, hlast]
  · -- udp
    have := entryRows_inet c hg w hw inodes hi pid "udp" .inet4 2 _ h2 (Or.inl rfl) (by simp [renderWorld])
    simpa [entryRows, hg.afInet, hg.afInet6, entrySocks, Fam.num] using this
  · -- udp6
    cases hv : w.v6 with
    | true =>
      have := entryRows_inet c hg w hw inodes hi pid "udp6" .inet6 2 _ h4 (Or.inr rfl) (by simp [renderWorld, hv])
      simpa [entryRows, hg.afInet, hg.afInet6, entrySocks, Fam.num] using this
    | false =>
      have hnone : (renderWorld c.littleEndian w).net "udp6" = none := by simp [renderWorld, hv]
      have hemp : w.socks.filter (inClass .inet6 2) = [] := by
        rw [List.filter_eq_nil_iff]
        intro s hs
        have := hw.v6 hv s hs
        simp [inClass, this]
      have hlast : "udp6".toList.getLast? = some '6' := by decide
      simp [entryRows, hg.afInet, hg.afInet6, entrySocks, processInet, hnone, hemp, hlast]
  · -- unix
    have hs : ∀ s ∈ w.socks.filter (fun s => s.fam == .unix), s.fam = .unix ∧ s.WF := by
      intro s hs
      simp only [List.mem_filter, beq_iff_eq] at hs
      exact ⟨hs.2, hw.socks s hs.1⟩
    have := processUnix_render c hg inodes pid _ hs
    rw [flatMap_unixRows_eq inodes pid _ (fun s h => (hs s h).1)] at this
    have hnet : (renderWorld c.littleEndian w).net "unix" = some (unixFile w) := by simp [renderWorld]
    simpa [entryRows, hg.afInet, hg.afInet6, entrySocks, hnet, unixFile] using this

/-! ### the tuples of one socket in terms of owners -/

/-- what `if pid:` does to the pid field -/
def wrapPid (pid : Option Nat) (x : Option Nat) : Option Nat :=
  match pid with
  | some (_ + 1) => none
  | _ => x

/-- the `(pid, fd)` values of the tuples `process_unix` yields under inode key `k` -/
def modelOwners (inodes : Inodes) (pid : Option Nat) (k : Bytes) : List (Option Nat × Int) :=
  ((ownerPairs inodes k).filter (fun p => !filteredOut pid p.1)).map (fun p => (wrapPid pid p.1, p.2))

/-- the promised tuple of `s` carrying owner `o` (= `Expect.row`) -/
def rowOf (s : Sock) (o : Option Nat × Int) : Row := { baseRow s with pid := o.1, fd := o.2 }

theorem wrapRow_rowFor (pid : Option Nat) (s : Sock) (p : Option Nat) (fd : Int) :
    wrapRow pid (rowFor s p fd) = rowOf s (wrapPid pid p, fd) := by
  unfold wrapRow wrapPid rowFor rowOf
  cases pid with
  | none => rfl
  | some n => cases n <;> rfl

theorem sockRows_unix (inodes : Inodes) (pid : Option Nat) (s : Sock) (hu : s.fam = .unix) :
    (sockRows inodes pid s).map (wrapRow pid) = (modelOwners inodes pid (renderDec s.inode)).map (rowOf s) := by
  simp only [sockRows, hu, if_true, unixRows, modelOwners, List.map_map]
  apply List.map_congr_left
  intro p _
  simp [wrapRow_rowFor]

/-- every pair in the map belongs to the queried process (trivially true system-wide) -/
def Uniform (inodes : Inodes) (pid : Option Nat) : Prop :=
  ∀ k, ∀ x ∈ sem inodes k, ∀ p, pid = some p → x.1 = p

theorem ownerPairs_eq (inodes : Inodes) (hi : Inv inodes) (k : Bytes) :
    ownerPairs inodes k = if sem inodes k = [] then [(none, -1)]
      else (sem inodes k).map (fun h => (some h.1, (h.2 : Int))) := by
  unfold ownerPairs
  rw [lookup_eq_of_inv hi k]
  by_cases h : sem inodes k = [] <;> simp [h]

/-- under `Uniform`, the owners of the yielded tuples -/
theorem modelOwners_eq (inodes : Inodes) (hi : Inv inodes) (pid : Option Nat) (hu : Uniform inodes pid) (k : Bytes) :
    modelOwners inodes pid k =
      match pid with
      | none => if sem inodes k = [] then [(none, -1)] else (sem inodes k).map (fun h => (some h.1, (h.2 : Int)))
      | some p => (sem inodes k).map (fun h => (wrapPid (some p) (some h.1), (h.2 : Int))) := by
  unfold modelOwners
  rw [ownerPairs_eq inodes hi k]
  cases pid with
  | none =>
    have : ∀ l : List (Option Nat × Int), l.filter (fun p => !filteredOut none p.1) = l := by
      intro l; simp [filteredOut]
    rw [this]
    by_cases h : sem inodes k = [] <;> simp [h, wrapPid]
  | some p =>
    by_cases h : sem inodes k = []
    · simp [h, filteredOut]
    · simp only [h, if_false]
      have hall : ∀ x ∈ (sem inodes k).map (fun h => (some h.1, (h.2 : Int))),
          (fun p' : Option Nat × Int => !filteredOut (some p) p'.1) x = true := by
        intro x hx
        obtain ⟨y, hy, rfl⟩ := List.mem_map.mp hx
        simp [filteredOut, hu k y hy p rfl]
      rw [List.filter_eq_self.mpr hall, List.map_map]
      rfl

theorem firstOwner_eq_head (inodes : Inodes) (hi : Inv inodes) (k : Bytes) :
    (ownerPairs inodes k).head? = some (firstOwner inodes k) := by
  rw [ownerPairs_eq inodes hi k]
  unfold firstOwner
  cases h : sem inodes k with
  | nil => simp
  | cons a as => simp

theorem sockRows_inet (inodes : Inodes) (hi : Inv inodes) (pid : Option Nat) (hu : Uniform inodes pid) (s : Sock)
    (hf : s.fam ≠ .unix) :
    (sockRows inodes pid s).map (wrapRow pid)
      = (modelOwners inodes pid (renderDec s.inode)).head?.toList.map (rowOf s) := by
  simp only [sockRows, hf, if_false, inetRow?]
  have hfo := firstOwner_eq_head inodes hi (renderDec s.inode)
  unfold modelOwners
  -- all pairs share the filter status of the first one
  cases pid with
  | none =>
    have : ∀ l : List (Option Nat × Int), l.filter (fun p => !filteredOut none p.1) = l := by
      intro l; simp [filteredOut]
    rw [this]
    simp only [filteredOut, Bool.false_eq_true, if_false, Option.toList, List.map_cons, List.map_nil,
      List.head?_map, hfo, Option.map_some, wrapRow_rowFor]
  | some p =>
    rw [ownerPairs_eq inodes hi] at hfo ⊢
    by_cases h : sem inodes (renderDec s.inode) = []
    · simp [firstOwner, h, filteredOut]
    · simp only [h, if_false] at hfo ⊢
      have hall : ∀ x ∈ (sem inodes (renderDec s.inode)).map (fun h => (some h.1, (h.2 : Int))),
          (fun p' : Option Nat × Int => !filteredOut (some p) p'.1) x = true := by
        intro x hx
        obtain ⟨y, hy, rfl⟩ := List.mem_map.mp hx
        simp [filteredOut, hu _ y hy p rfl]
      rw [List.filter_eq_self.mpr hall]
      have hnf : filteredOut (some p) (firstOwner inodes (renderDec s.inode)).1 = false := by
        have hm : firstOwner inodes (renderDec s.inode) ∈
            (sem inodes (renderDec s.inode)).map (fun h => (some h.1, (h.2 : Int))) :=
          List.mem_of_mem_head? hfo
        simpa using hall _ hm
      simp only [hnf, Bool.false_eq_true, if_false, Option.toList, List.map_cons, List.map_nil,
        List.head?_map, hfo, Option.map_some, wrapRow_rowFor]

/-! ### model owners = promised owners -/

theorem owners_system (c : Cfg) (hg : c.Good) (le : Bool) (w : World) (hw : w.WF) (kind : String) (i : Nat) :
    modelOwners (getAllInodes c (renderWorld le w).procs) none (renderDec i) = owners w ⟨kind, none⟩ i := by
  obtain ⟨h1, h2⟩ := getAllInodes_spec c hg.inodesExtend (renderWorld le w).procs
  have hu : Uniform (getAllInodes c (renderWorld le w).procs) none := by intro k x _ p hp; cases hp
  rw [modelOwners_eq _ h2 none hu, h1, allHits_render le w hw i]
  simp only [owners]
  cases h : holders w i <;> simp

theorem lookupNat_cons {β : Type} (k k0 : Nat) (v : β) (as : List (Nat × β)) :
    List.lookup k ((k0, v) :: as) = if k = k0 then some v else List.lookup k as := by
  by_cases h : k = k0
  · subst h; simp [List.lookup]
  · have hb : (k == k0) = false := by simpa using h
    simp [List.lookup, hb, h]

theorem lookup_renderProcs (le : Bool) (w : World) (p : Nat) :
    (renderWorld le w).procs.lookup p = (w.procs.lookup p).map (fun x => x.map renderFds) := by
  rw [renderWorld_procs]
  induction w.procs with
  | nil => rfl
  | cons a as ih =>
    obtain ⟨p0, x⟩ := a
    simp only [List.map_cons, lookupNat_cons]
    by_cases h : p = p0 <;> simp [h, ih]

/-- the holders that belong to a process listed once are the socket descriptors of its own table -/
theorem holders_filter (procs : List (Nat × Option (List (Nat × Target)))) (socks : List Sock) (v6 : Bool)
    (hn : (procs.map (·.1)).Nodup) (p i : Nat) (fds : List (Nat × Target))
    (hl : procs.lookup p = some (some fds)) :
    (holders ⟨socks, procs, v6⟩ i).filter (fun h => h.1 == p)
      = fds.filterMap fun e => if e.2 = .sock i then some (p, e.1) else none := by
  have hnone : ∀ (ps : List (Nat × Option (List (Nat × Target)))), p ∉ ps.map (·.1) →
      (holders ⟨socks, ps, v6⟩ i).filter (fun h => h.1 == p) = [] := by
    intro ps
    induction ps with
    | nil => intro _; rfl
    | cons a as ih =>
      intro hp
      have hp1 : a.1 ≠ p := fun e => hp (by simp [e])
      have hp2 : p ∉ as.map (·.1) := fun hm => hp (by simp at hm ⊢; exact Or.inr hm)
      have ih' := ih hp2
      simp only [holders, List.flatMap_cons, List.filter_append] at ih' ⊢
      rw [ih', List.append_nil, List.filter_eq_nil_iff]
      intro x hx
      cases ha : a.2 with
      | none => rw [ha] at hx; cases hx
      | some f =>
        rw [ha] at hx
        simp only [List.mem_filterMap] at hx
        obtain ⟨e, _, he⟩ := hx
        by_cases hs : e.2 = .sock i
        · simp only [hs, if_true, Option.some.injEq] at he
          rw [← he]; simpa using hp1
        · simp [hs] at he
  induction procs with
  | nil => cases hl
  | cons a as ih =>
    obtain ⟨p0, x⟩ := a
    have hn' : p0 ∉ as.map (·.1) ∧ (as.map (·.1)).Nodup := by simpa using hn
    rw [lookupNat_cons] at hl
    simp only [holders, List.flatMap_cons, List.filter_append]
    by_cases h : p = p0
    · subst h
      simp only [if_true, Option.some.injEq] at hl
      subst hl
      have := hnone as hn'.1
      simp only [holders] at this
      rw [this, List.append_nil, List.filter_eq_self]
      intro y hy
      simp only [List.mem_filterMap] at hy
      obtain ⟨e, _, he⟩ := hy
      by_cases hs : e.2 = .sock i
      · simp only [hs, if_true, Option.some.injEq] at he
        rw [← he]; simp
      · simp [hs] at he
    · simp only [h, if_false] at hl
      have ih' := ih hn'.2 hl
      simp only [holders] at ih'
      rw [ih']
      cases x with
      | none => simp
      | some f =>
        simp only []
        have : List.filter (fun h => h.1 == p)
            (List.filterMap (fun e => if e.2 = Target.sock i then some (p0, e.1) else none) f) = [] := by
          rw [List.filter_eq_nil_iff]
          intro y hy
          simp only [List.mem_filterMap] at hy
          obtain ⟨e, _, he⟩ := hy
          by_cases hs : e.2 = .sock i
          · simp only [hs, if_true, Option.some.injEq] at he
            rw [← he]; simpa using fun e' : p0 = p => h e'.symm
          · simp [hs] at he
        rw [this, List.nil_append]

theorem owners_process (w : World) (hw : w.WF) (hn : (w.procs.map (·.1)).Nodup) (kind : String) (p' i : Nat)
    (fds : List (Nat × Target)) (hl : w.procs.lookup (p' + 1) = some (some fds)) :
    modelOwners (getProcInodes (p' + 1) (renderFds fds)) (some (p' + 1)) (renderDec i)
      = owners w ⟨kind, some (p' + 1)⟩ i
    ∧ Inv (getProcInodes (p' + 1) (renderFds fds))
    ∧ Uniform (getProcInodes (p' + 1) (renderFds fds)) (some (p' + 1)) := by
  obtain ⟨h1, h2, _⟩ := getProcInodes_spec (p' + 1) (renderFds fds)
  have hu : Uniform (getProcInodes (p' + 1) (renderFds fds)) (some (p' + 1)) := by
    intro k x hx p hp
    cases hp
    rw [h1 k] at hx
    simp only [hits, List.mem_filterMap] at hx
    obtain ⟨e, _, he⟩ := hx
    by_cases hk : keyOf e.2 = some k
    · simp only [hk, if_true, Option.some.injEq] at he
      rw [← he]
    · simp [hk] at he
  refine ⟨?_, h2, hu⟩
  have hmem : (p' + 1, some fds) ∈ w.procs := by
    clear hn
    generalize w.procs = ps at hl
    induction ps with
    | nil => cases hl
    | cons a as ih =>
      obtain ⟨p0, x⟩ := a
      rw [lookupNat_cons] at hl
      by_cases h : p' + 1 = p0
      · simp only [h, if_true, Option.some.injEq] at hl
        rw [h, hl]; simp
      · simp only [h, if_false] at hl
        simp [ih hl]
  have hwf : ∀ e ∈ fds, e.2.WF := hw.targets _ hmem fds rfl
  rw [modelOwners_eq _ h2 (some (p' + 1)) hu, h1, hits_render (p' + 1) i fds hwf]
  have := holders_filter w.procs w.socks w.v6 hn (p' + 1) i fds hl
  simp only [owners]
  rw [show (⟨w.socks, w.procs, w.v6⟩ : World) = w from rfl] at this
  rw [this]
  rfl

end Psutil.C11
