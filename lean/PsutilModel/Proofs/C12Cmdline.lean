/-
  Proofs/C12Cmdline.lean — cmdline(): model = documented reading; kernel-layout round-trip.
-/
import PsutilModel.Proofs.C12
namespace Psutil.C12
open Spec

theorem lastIs_iff (c : Nat) (s : Bytes) : lastIs c s = true ↔ s.getLast? = some c := by
  simp [lastIs]

theorem contains_iff (c : Nat) (s : Bytes) : s.contains c = true ↔ c ∈ s := by
  simp

/-- the separator heuristics of `cmdline()` compute the documented reading, for every
    non-empty content of the file -/
theorem cmdlineSplit_eq_args (data : Bytes) : cmdlineSplit good data = args data := by
  unfold cmdlineSplit args
  simp only [good, if_true]
  by_cases h0 : data.getLast? = some 0
  · have hl : lastIs 0 data = true := (lastIs_iff 0 data).2 h0
    simp only [hl, if_true, h0]
    by_cases hin : 0 ∈ data.dropLast
    · have hlen : (splitOn 0 data.dropLast).length ≠ 1 := by
        intro h; exact (splitOn_length_one 0 _).1 h hin
      simp [hin, hlen, fields_eq_splitOn]
    · have hsp : splitOn 0 data.dropLast = [data.dropLast] := splitOn_noSep 0 _ hin
      by_cases h32 : 32 ∈ data.dropLast
      · simp [hin, hsp, h32, fields_eq_splitOn]
      · simp [hin, hsp, h32]
  · have hl : lastIs 0 data = false := by
      cases h : lastIs 0 data with
      | false => rfl
      | true => exact absurd ((lastIs_iff 0 data).1 h) h0
    simp only [hl, h0, if_false, Bool.false_eq_true]
    by_cases h32 : data.getLast? = some 32
    · have hl2 : lastIs 32 data = true := (lastIs_iff 32 data).2 h32
      simp [hl2, h32, fields_eq_splitOn]
    · have hl2 : lastIs 32 data = false := by
        cases h : lastIs 32 data with
        | false => rfl
        | true => exact absurd ((lastIs_iff 32 data).1 h) h32
      simp [hl2, h32, fields_eq_splitOn]

theorem renderArgv_cons (a : Bytes) (as : List Bytes) :
    renderArgv (a :: as) = a ++ 0 :: renderArgv as := by
  simp [renderArgv]

theorem renderArgv_eq_join (argv : List Bytes) (hne : argv ≠ []) :
    renderArgv argv = joinWith [0] argv ++ [0] := by
  induction argv with
  | nil => exact absurd rfl hne
  | cons a as ih =>
    cases as with
    | nil => simp [renderArgv, joinWith]
    | cons b bs =>
      have := ih (by simp)
      rw [renderArgv_cons, this]
      simp [joinWith]

theorem mem_joinWith_of_two (sep : Nat) (a b : Bytes) (rest : List Bytes) :
    sep ∈ joinWith [sep] (a :: b :: rest) := by
  simp [joinWith]

/-- the documented reading inverts the kernel's layout of an argument vector -/
theorem args_renderArgv (argv : List Bytes) (hne : argv ≠ []) (hnul : ∀ a ∈ argv, 0 ∉ a)
    (hsp : 2 ≤ argv.length ∨ ∀ a ∈ argv, 32 ∉ a) : args (renderArgv argv) = argv := by
  rw [renderArgv_eq_join argv hne]
  unfold args
  simp only [List.getLast?_append, List.getLast?_singleton, Option.some_or, List.dropLast_concat,
    if_true]
  match argv, hne, hnul, hsp with
  | [a], _, hnul, hsp =>
    have h0 : 0 ∉ a := hnul a (by simp)
    have h32 : 32 ∉ a := by
      rcases hsp with h | h
      · simp at h
      · exact h a (by simp)
    simp [joinWith, h0, h32]
  | a :: b :: rest, _, hnul, _ =>
    have hin : 0 ∈ joinWith [0] (a :: b :: rest) := mem_joinWith_of_two 0 a b rest
    simp only [hin, if_true]
    rw [fields_eq_splitOn]
    exact splitOn_join 0 _ (by simp) hnul

end Psutil.C12
