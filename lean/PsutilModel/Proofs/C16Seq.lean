/-
  Proofs/C16Seq.lean — the sequential model of `oneshot()` / `as_dict()` (Model/C16.lean)
  refines the specification (Spec/C16.lean) for every history, under `Cfg.Good`.
  Part A: definitions, simulation relation, `refines`.
-/
import PsutilModel.Model.C16
import PsutilModel.Spec.C16
namespace Psutil.C16
open Spec

def Src.all : List Src := [.stat, .status, .smaps, .statm, .cmdline, .io, .rollup]
def FFun.all : List FFun := [.cpuTimes, .memoryInfo, .ppid, .uids]
def Exc.all : List Exc := [.accessDenied, .noSuchProcess, .zombieProcess, .notImplemented]

theorem Src.mem_all (s : Src) : s ∈ Src.all := by cases s <;> simp [Src.all]
theorem FFun.mem_all (f : FFun) : f ∈ FFun.all := by cases f <;> simp [FFun.all]
theorem Exc.mem_all (e : Exc) : e ∈ Exc.all := by cases e <;> simp [Exc.all]

/-- the configuration the theorems are about -/
structure Cfg.Good (c : Cfg) : Prop where
  memoProc : ∀ s ∈ Src.all, c.memoProc.contains s = Spec.blockCached s
  memoFront : ∀ f ∈ FFun.all, c.memoFront.contains f = true
  fa : c.frontActivate ≠ []
  fd : c.frontDeactivate ≠ []
  pa : c.procActivate ≠ []
  pd : c.procDeactivate ≠ []
  nested : c.nestedTest = true
  fin : c.exitInFinally = true
  del : c.delSwallows = true
  vfirst : c.validatesFirst = true
  ad : ∀ e ∈ Exc.all, c.adCatches.contains e = (e == .accessDenied || e == .zombieProcess)
  ni : c.notImplSkips = true
  ema : c.emptyMeansAll = true

theorem Cfg.good_iff (c : Cfg) : c.Good ↔
    ((∀ s ∈ Src.all, c.memoProc.contains s = Spec.blockCached s) ∧
     (∀ f ∈ FFun.all, c.memoFront.contains f = true) ∧
     c.frontActivate ≠ [] ∧ c.frontDeactivate ≠ [] ∧ c.procActivate ≠ [] ∧ c.procDeactivate ≠ [] ∧
     c.nestedTest = true ∧ c.exitInFinally = true ∧ c.delSwallows = true ∧ c.validatesFirst = true ∧
     (∀ e ∈ Exc.all, c.adCatches.contains e = (e == .accessDenied || e == .zombieProcess)) ∧
     c.notImplSkips = true ∧ c.emptyMeansAll = true) :=
  ⟨fun h => ⟨h.memoProc, h.memoFront, h.fa, h.fd, h.pa, h.pd, h.nested, h.fin, h.del, h.vfirst,
      h.ad, h.ni, h.ema⟩,
   fun ⟨a, b, c1, d, e, f, g, h, i, j, k, l, m⟩ => ⟨a, b, c1, d, e, f, g, h, i, j, k, l, m⟩⟩

instance (c : Cfg) : Decidable c.Good := decidable_of_iff _ (Cfg.good_iff c).symm

theorem Cfg.Good.mp (hg : Cfg.Good c) (s : Src) : c.memoProc.contains s = Spec.blockCached s :=
  hg.memoProc s (Src.mem_all s)
theorem Cfg.Good.mf (hg : Cfg.Good c) (f : FFun) : c.memoFront.contains f = true :=
  hg.memoFront f (FFun.mem_all f)
theorem Cfg.Good.adc (hg : Cfg.Good c) (e : Exc) :
    c.adCatches.contains e = (e == .accessDenied || e == .zombieProcess) :=
  hg.ad e (Exc.mem_all e)

/- ------------------------------------------------------------------ histories -/

/-- outputs of the model along a history -/
def outs (c : Cfg) : Sys → List Op → List Out
  | _, [] => []
  | y, op :: ops => (step c y op).2 :: outs c (step c y op).1 ops

/-- spec state after a history -/
def runS (c : Cfg) : SSt → World → List Op → SSt × World
  | ss, w, [] => (ss, w)
  | ss, w, op :: ops =>
    runS c (stepS c.meths c.validNames ss w op).1 (stepS c.meths c.validNames ss w op).2.1 ops

/-- outputs of the spec along a history -/
def outsS (c : Cfg) : SSt → World → List Op → List Out
  | _, _, [] => []
  | ss, w, op :: ops =>
    (stepS c.meths c.validNames ss w op).2.2 ::
      outsS c (stepS c.meths c.validNames ss w op).1 (stepS c.meths c.validNames ss w op).2.1 ops

theorem runAll_append (c : Cfg) (y : Sys) (a b : List Op) :
    runAll c y (a ++ b) = runAll c (runAll c y a) b := by
  induction a generalizing y with
  | nil => rfl
  | cons op ops ih => simp [runAll, ih]

theorem runS_append (c : Cfg) (ss : SSt) (w : World) (a b : List Op) :
    runS c ss w (a ++ b) = runS c (runS c ss w a).1 (runS c ss w a).2 b := by
  induction a generalizing ss w with
  | nil => rfl
  | cons op ops ih => simp [runS, ih]

/- ------------------------------------------------------------------ enter / exit, simplified -/

theorem foldl_const {α β : Type} (g : α → α) (hidem : ∀ a, g (g a) = g a) (l : List β)
    (hl : l ≠ []) (a : α) : l.foldl (fun a _ => g a) a = g a := by
  induction l generalizing a with
  | nil => exact absurd rfl hl
  | cons x xs ih =>
    simp only [List.foldl_cons]
    by_cases hx : xs = []
    · subst hx; rfl
    · rw [ih hx, hidem]

theorem activate_eq (hg : Cfg.Good c) (st : St) :
    activate c st = { st with cache := some [], pcache := some [] } := by
  unfold activate
  simp only
  rw [foldl_const (fun st : St => { st with cache := some [] }) (fun _ => rfl) _ hg.fa,
      foldl_const (fun st : St => { st with pcache := some [] }) (fun _ => rfl) _ hg.pa]

theorem delFront_eq (hg : Cfg.Good c) (a : St × Bool) :
    delFront c a = ({ a.1 with cache := none }, a.2) := by
  obtain ⟨st, b⟩ := a
  obtain ⟨ca, pc, sk, rd, pr⟩ := st
  cases ca <;> simp [delFront, hg.del]

theorem delProc_eq (hg : Cfg.Good c) (a : St × Bool) :
    delProc c a = ({ a.1 with pcache := none }, a.2) := by
  obtain ⟨st, b⟩ := a
  obtain ⟨ca, pc, sk, rd, pr⟩ := st
  cases pc <;> simp [delProc, hg.del]

theorem deactivate_eq (hg : Cfg.Good c) (st : St) :
    deactivate c st = ({ st with cache := none, pcache := none }, true) := by
  unfold deactivate
  simp only [delFront_eq hg, delProc_eq hg]
  rw [foldl_const (fun a : St × Bool => (({ a.1 with cache := none } : St), a.2)) (fun _ => rfl) _ hg.fd,
      foldl_const (fun a : St × Bool => (({ a.1 with pcache := none } : St), a.2)) (fun _ => rfl) _ hg.pd]

theorem enter_eq (hg : Cfg.Good c) (st : St) :
    enter c st = if st.cache.isSome then { st with stack := false :: st.stack }
      else { st with cache := some [], pcache := some [], stack := true :: st.stack } := by
  unfold enter
  rw [activate_eq hg, hg.nested]
  simp

theorem exit_eq (hg : Cfg.Good c) (st : St) (b : Bool) :
    exit c st b = match st.stack with
      | [] => (st, true)
      | false :: rest => ({ st with stack := rest }, true)
      | true :: rest => ({ st with cache := none, pcache := none, stack := rest }, true) := by
  unfold exit
  rw [deactivate_eq hg, hg.fin]
  split <;> rename_i heq <;> simp [heq]

/- ------------------------------------------------------------------ simulation relation -/

structure R (st : St) (ss : SSt) : Prop where
  depth : ss.depth = st.stack.length
  reads : ss.reads = st.reads
  cache : st.cache.isSome = decide (0 < ss.depth)
  pcache : st.pcache.isSome = decide (0 < ss.depth)
  ffun : ∀ f, st.cache.bind (·.lookup f) = ss.frozenFun f
  fsrc : ∀ s, st.pcache.bind (·.lookup s) = ss.frozenSrc s
  shape : st.stack = [] ∨ ∃ k, st.stack = List.replicate k false ++ [true]
  onlyBC : ∀ s, Spec.blockCached s = false → st.pcache.bind (·.lookup s) = none

theorem R_init : R St.init SSt.init :=
  ⟨rfl, rfl, rfl, rfl, fun _ => rfl, fun _ => rfl, .inl rfl, fun _ _ => rfl⟩

theorem R.probes (h : R st ss) (n : Nat) : R { st with probes := n } ss :=
  ⟨h.depth, h.reads, h.cache, h.pcache, h.ffun, h.fsrc, h.shape, h.onlyBC⟩

theorem R.bump (h : R st ss) (s : Src) :
    R { st with reads := bump st.reads s } { ss with reads := bump ss.reads s } :=
  ⟨h.depth, by simp [h.reads], h.cache, h.pcache, h.ffun, h.fsrc, h.shape, h.onlyBC⟩

theorem R.inBlock_cache (h : R st ss) : inBlock ss = st.cache.isSome := by
  simp [inBlock, h.cache]
theorem R.inBlock_pcache (h : R st ss) : inBlock ss = st.pcache.isSome := by
  simp [inBlock, h.pcache]

theorem R.storeSrc (h : R st ss) (hd : st.pcache = some d) (hs : Spec.blockCached s = true)
    (c : Content) :
    R { st with pcache := some ((s, c) :: d) }
      { ss with frozenSrc := fun x => if x = s then some c else ss.frozenSrc x } := by
  refine ⟨h.depth, h.reads, h.cache, ?_, h.ffun, ?_, h.shape, ?_⟩
  · have := h.pcache; simp [hd] at this; simp [this]
  · intro x
    have := h.fsrc x
    simp only [hd, Option.bind_some] at this
    by_cases hx : x = s
    · simp [hx, List.lookup]
    · have hb : (x == s) = false := by simpa using hx
      simp [hx, List.lookup, this, hb]
  · intro x hx
    have := h.onlyBC x hx
    simp only [hd, Option.bind_some] at this
    have hne : x ≠ s := by intro e; rw [e, hs] at hx; cases hx
    have hb : (x == s) = false := by simpa using hne
    simp [List.lookup, hb, this]

theorem R.storeFun (h : R st ss) (hd : st.cache = some d) (f : FFun) (v : Val) :
    R { st with cache := some ((f, v) :: d) }
      { ss with frozenFun := fun x => if x = f then some v else ss.frozenFun x } := by
  refine ⟨h.depth, h.reads, ?_, h.pcache, ?_, h.fsrc, h.shape, h.onlyBC⟩
  · have := h.cache; simp [hd] at this; simp [this]
  · intro x
    have := h.ffun x
    simp only [hd, Option.bind_some] at this
    by_cases hx : x = f
    · simp [hx, List.lookup]
    · have hb : (x == f) = false := by simpa using hx
      simp [hx, List.lookup, this, hb]

/- ------------------------------------------------------------------ reads -/

theorem rawRead_sim (h : R st ss) (w : World) (s : Src) :
    R (rawRead st w s).1 (fresh ss w s).1 ∧ (rawRead st w s).2 = (fresh ss w s).2 := by
  unfold rawRead fresh
  cases w.read s with
  | ok c => exact ⟨h.bump s, rfl⟩
  | error e => exact ⟨h, rfl⟩

theorem helper_sim (hg : Cfg.Good c) (h : R st ss) (w : World) (s : Src) :
    R (helper c st w s).1 (readSrc ss w s).1 ∧ (helper c st w s).2 = (readSrc ss w s).2 := by
  unfold helper readSrc
  rw [hg.mp s, h.inBlock_pcache]
  cases hb : Spec.blockCached s with
  | false => simpa using rawRead_sim h w s
  | true =>
    cases hp : st.pcache with
    | none => simpa using rawRead_sim h w s
    | some d =>
      have hl := h.fsrc s
      simp only [hp, Option.bind_some] at hl
      simp only [Option.isSome_some, Bool.and_self, if_true, ← hl]
      cases hd : d.lookup s with
      | some c => exact ⟨h, rfl⟩
      | none =>
        simp only
        have hr := rawRead_sim h w s
        unfold rawRead fresh at hr ⊢
        cases hw : w.read s with
        | error e => simp only [hw] at hr ⊢; exact hr
        | ok c0 =>
          simp only [hw] at hr ⊢
          exact ⟨R.storeSrc (st := { st with reads := Psutil.C16.bump st.reads s }) hr.1 hp hb c0, trivial⟩

theorem readAll_sim (hg : Cfg.Good c) (w : World) (l : List Src) (h : R st ss) :
    R (readAll c w st l).1 (readAllS w ss l).1 ∧ (readAll c w st l).2 = (readAllS w ss l).2 := by
  induction l generalizing st ss with
  | nil => exact ⟨h, rfl⟩
  | cons s rest ih =>
    unfold readAll readAllS
    have h1 := helper_sim hg h w s
    rcases hm : helper c st w s with ⟨st1, r1⟩
    rcases hs : readSrc ss w s with ⟨ss1, r1'⟩
    rw [hm, hs] at h1
    obtain ⟨hR1, he⟩ := h1
    simp only at he hR1
    subst he
    cases r1 with
    | error e => exact ⟨hR1, rfl⟩
    | ok c0 =>
      simp only
      have h2 := ih hR1
      rcases hm2 : readAll c w st1 rest with ⟨st2, r2⟩
      rcases hs2 : readAllS w ss1 rest with ⟨ss2, r2'⟩
      rw [hm2, hs2] at h2
      obtain ⟨hR2, he2⟩ := h2
      simp only at he2 hR2
      subst he2
      cases r2 with
      | error e => exact ⟨hR2, rfl⟩
      | ok cs => exact ⟨hR2, rfl⟩

/- ------------------------------------------------------------------ frame: the front-end cache -/

theorem helper_cache (c : Cfg) (st : St) (w : World) (s : Src) :
    (helper c st w s).1.cache = st.cache := by
  unfold helper rawRead
  cases hw : w.read s <;> simp only <;> (repeat' split) <;> rfl

theorem readAll_cache (c : Cfg) (w : World) (l : List Src) (st : St) :
    (readAll c w st l).1.cache = st.cache := by
  induction l generalizing st with
  | nil => rfl
  | cons s rest ih =>
    unfold readAll
    have h1 := helper_cache c st w s
    rcases hm : helper c st w s with ⟨st1, r1⟩
    rw [hm] at h1
    cases r1 with
    | error e => exact h1
    | ok c0 =>
      simp only
      have h2 := ih st1
      rcases hm2 : readAll c w st1 rest with ⟨st2, r2⟩
      rw [hm2] at h2
      cases r2 <;> simp_all

theorem platCall_cache (c : Cfg) (m : Meth) (st : St) (w : World) :
    (platCall c m st w).1.cache = st.cache := by
  unfold platCall
  have h1 := readAll_cache c w (m.eff w) st
  rcases hm : readAll c w st (m.eff w) with ⟨st1, r1⟩
  rw [hm] at h1
  cases r1 with
  | error e => exact h1
  | ok cs =>
    simp only
    split
    · unfold zombieProbe
      cases w.st <;> simp_all
    · exact h1

theorem frontBody_cache (c : Cfg) (m : Meth) (st : St) (w : World) :
    (frontBody c m st w).1.cache = st.cache := by
  unfold frontBody
  rw [platCall_cache]
  unfold guardProbe
  split
  · cases w.st <;> rfl
  · rfl

/- ------------------------------------------------------------------ calls -/

theorem platCall_sim (hg : Cfg.Good c) (h : R st ss) (m : Meth) (w : World) :
    R (platCall c m st w).1 (bodyS m ss w).1 ∧ (platCall c m st w).2 = (bodyS m ss w).2 := by
  unfold platCall bodyS
  have h1 := readAll_sim hg w (m.eff w) h
  rcases hm : readAll c w st (m.eff w) with ⟨st1, r1⟩
  rcases hs : readAllS w ss (m.eff w) with ⟨ss1, r1'⟩
  rw [hm, hs] at h1
  obtain ⟨hR1, he⟩ := h1
  simp only at he hR1
  subst he
  cases r1 with
  | error e => exact ⟨hR1, rfl⟩
  | ok cs =>
    simp only
    cases hz : (m.zprobe && cs.head? == some Content.empty) with
    | false => simpa using hR1
    | true =>
      unfold zombieProbe
      have := hR1.probes (st1.probes + 1)
      cases hw : w.st <;> simp [hR1, this]

theorem frontBody_sim (hg : Cfg.Good c) (h : R st ss) (m : Meth) (w : World) :
    R (frontBody c m st w).1 (bodyS m ss w).1 ∧ (frontBody c m st w).2 = (bodyS m ss w).2 := by
  unfold frontBody
  apply platCall_sim hg
  unfold guardProbe
  split
  · cases w.st
    · exact h.probes _
    · exact h.probes _
    · exact h
  · exact h

theorem frontGuarded_cache (c : Cfg) (m : Meth) (st : St) (w : World) :
    (frontGuarded c m st w).1.cache = st.cache := by
  unfold frontGuarded
  split
  · rfl
  · exact frontBody_cache c m st w

theorem frontGuarded_sim (hg : Cfg.Good c) (h : R st ss) (m : Meth) (w : World) :
    R (frontGuarded c m st w).1 (bodyG m ss w).1 ∧ (frontGuarded c m st w).2 = (bodyG m ss w).2 := by
  unfold frontGuarded bodyG
  split
  · exact ⟨h, rfl⟩
  · exact frontBody_sim hg h m w

theorem call_sim (hg : Cfg.Good c) (h : R st ss) (m : Meth) (w : World) :
    R (call c m st w).1 (callS m ss w).1 ∧ (call c m st w).2 = (callS m ss w).2 := by
  unfold call callS
  cases hf : m.front with
  | none => exact frontGuarded_sim hg h m w
  | some f =>
    simp only [hg.mf f, if_true, h.inBlock_cache]
    cases hc : st.cache with
    | none => simpa using frontGuarded_sim hg h m w
    | some d =>
      have hl := h.ffun f
      simp only [hc, Option.bind_some] at hl
      simp only [Option.isSome_some, if_true, ← hl]
      cases hd : d.lookup f with
      | some v => exact ⟨h, rfl⟩
      | none =>
        simp only
        have h1 := frontGuarded_sim hg h m w
        have h2 := frontGuarded_cache c m st w
        rcases hm : frontGuarded c m st w with ⟨st1, r1⟩
        rcases hs : bodyG m ss w with ⟨ss1, r1'⟩
        rw [hm, hs] at h1
        rw [hm] at h2
        obtain ⟨hR1, he⟩ := h1
        simp only at he hR1 h2
        subst he
        cases r1 with
        | error e => exact ⟨hR1, rfl⟩
        | ok v => exact ⟨hR1.storeFun (h2.trans hc) f v, rfl⟩

/- ------------------------------------------------------------------ enter / exit -/

theorem R.depth_pos_iff (h : R st ss) : 0 < ss.depth ↔ st.stack ≠ [] := by
  rw [h.depth]
  cases st.stack <;> simp

theorem R.out (h : R st ss) (h0 : st.stack = []) :
    ss.depth = 0 ∧ st.cache = none ∧ st.pcache = none := by
  have hd : ss.depth = 0 := by rw [h.depth, h0]; rfl
  have hc := h.cache
  have hp := h.pcache
  rw [hd] at hc hp
  exact ⟨hd, by simpa using hc, by simpa using hp⟩

theorem R.inn (h : R st ss) (h0 : st.stack ≠ []) :
    0 < ss.depth ∧ st.cache.isSome = true ∧ st.pcache.isSome = true := by
  have hd : 0 < ss.depth := h.depth_pos_iff.mpr h0
  have hc := h.cache
  have hp := h.pcache
  simp only [hd, decide_true] at hc hp
  exact ⟨hd, hc, hp⟩

theorem enter_sim (hg : Cfg.Good c) (h : R st ss) : R (enter c st) (enterS ss) := by
  rw [enter_eq hg]
  unfold enterS
  by_cases h0 : st.stack = []
  · obtain ⟨hd, hc, hp⟩ := h.out h0
    simp only [hc, Option.isSome_none, Bool.false_eq_true, if_false]
    refine ⟨by simp [h0, hd], h.reads, by simp, by simp, ?_, ?_, .inr ⟨0, by simp [h0]⟩, by simp⟩
    · intro f
      have := h.ffun f
      simp only [hc, Option.bind_none] at this
      simp [← this]
    · intro s
      have := h.fsrc s
      simp only [hp, Option.bind_none] at this
      simp [← this]
  · obtain ⟨hd, hc, hp⟩ := h.inn h0
    simp only [hc, if_true]
    refine ⟨by simp [h.depth], h.reads, by simp [hc], by simp [hp], h.ffun, h.fsrc, ?_, h.onlyBC⟩
    rcases h.shape with he | ⟨k, hk⟩
    · exact absurd he h0
    · exact .inr ⟨k + 1, by simp [hk, List.replicate_succ]⟩

theorem exit_sim (hg : Cfg.Good c) (h : R st ss) (b : Bool) :
    R (exit c st b).1 (exitS ss) ∧ (exit c st b).2 = true := by
  rw [exit_eq hg]
  obtain ⟨hd, hr, hc, hp, hf, hs, hsh, hbc⟩ := h
  obtain ⟨d, fs, ff, rd⟩ := ss
  obtain ⟨ca, pc, sk, rds, pr⟩ := st
  simp only at hd hr hc hp hf hs hsh hbc
  subst hd
  rcases hsh with he | ⟨k, hk⟩
  · subst he
    exact ⟨⟨rfl, hr, hc, hp, hf, hs, .inl rfl, hbc⟩, rfl⟩
  · subst hk
    cases k with
    | zero =>
      simp only [List.replicate_zero, List.nil_append, List.length_cons, List.length_nil, exitS]
      exact ⟨⟨rfl, hr, rfl, rfl, fun _ => rfl, fun _ => rfl, .inl rfl, fun _ _ => rfl⟩, trivial⟩
    | succ k =>
      simp only [List.replicate_succ, List.cons_append, List.length_cons, List.length_append,
        List.length_replicate, List.length_nil, exitS]
      refine ⟨⟨by simp, hr, ?_, ?_, hf, hs, .inr ⟨k, rfl⟩, hbc⟩, trivial⟩
      · simpa using hc
      · simpa using hp

/- ------------------------------------------------------------------ as_dict -/

theorem evalName_sim (hg : Cfg.Good c) (h : R st ss) (env : List (String × EnvOut)) (w : World)
    (n : String) :
    R (evalName c env st w n).1 (evalNameS c.meths env ss w n).1 ∧
      (evalName c env st w n).2 = (evalNameS c.meths env ss w n).2 := by
  unfold evalName evalNameS findMeth
  split
  · exact ⟨h, rfl⟩
  · cases hfm : c.meths.find? (fun m => m.name == n) with
    | none => exact ⟨h, rfl⟩
    | some m =>
      simp only
      have h1 := call_sim hg h m w
      rcases hm : call c m st w with ⟨st1, r1⟩
      rcases hs : callS m ss w with ⟨ss1, r1'⟩
      rw [hm, hs] at h1
      obtain ⟨hR1, he⟩ := h1
      simp only at he hR1
      subst he
      cases r1 with
      | error e => exact ⟨hR1, rfl⟩
      | ok v => exact ⟨hR1, rfl⟩

theorem loop_sim (hg : Cfg.Good c) (env : List (String × EnvOut)) (explicit : Bool) (w : World)
    (l : List String) (h : R st ss) (acc : List (String × DVal)) :
    R (asDictLoop c env explicit w st l acc).1 (loopS c.meths env explicit w ss l acc).1 ∧
      (asDictLoop c env explicit w st l acc).2 = (loopS c.meths env explicit w ss l acc).2 := by
  induction l generalizing st ss acc with
  | nil => exact ⟨h, rfl⟩
  | cons n rest ih =>
    unfold asDictLoop loopS
    have h1 := evalName_sim hg h env w n
    rcases hm : evalName c env st w n with ⟨st1, r1⟩
    rcases hs : evalNameS c.meths env ss w n with ⟨ss1, r1'⟩
    rw [hm, hs] at h1
    obtain ⟨hR1, he⟩ := h1
    simp only at he hR1
    subst he
    cases r1 with
    | ok v => exact ih hR1 _
    | error e =>
      simp only [hg.adc, hg.ni]
      cases e with
      | accessDenied => simpa using ih hR1 _
      | zombieProcess => simpa using ih hR1 _
      | noSuchProcess => simpa using hR1
      | notImplemented =>
        cases explicit with
        | true => simpa using hR1
        | false => simpa using ih hR1 _

theorem asDictBody_sim (hg : Cfg.Good c) (h : R st ss) (a : AsDictArg) (w : World) :
    R (asDictBody c a st w).1
      (exitS (loopS c.meths a.env (decide (a.kind = .names) && !a.attrs.isEmpty) w (enterS ss)
        (if (decide (a.kind = .names) && !a.attrs.isEmpty) = true then a.attrs else a.allOrder) []).1) ∧
    (asDictBody c a st w).2 =
      (loopS c.meths a.env (decide (a.kind = .names) && !a.attrs.isEmpty) w (enterS ss)
        (if (decide (a.kind = .names) && !a.attrs.isEmpty) = true then a.attrs else a.allOrder) []).2 := by
  unfold asDictBody
  simp only [hg.ema, Bool.true_and]
  have hl := loop_sim hg a.env (decide (a.kind = .names) && !a.attrs.isEmpty) w
    (if (decide (a.kind = .names) && !a.attrs.isEmpty) = true then a.attrs else a.allOrder)
    (enter_sim hg h) []
  rcases hm : asDictLoop c a.env (decide (a.kind = .names) && !a.attrs.isEmpty) w (enter c st)
    (if (decide (a.kind = .names) && !a.attrs.isEmpty) = true then a.attrs else a.allOrder) []
    with ⟨st2, out⟩
  rw [hm] at hl
  exact ⟨(exit_sim hg hl.1 _).1, hl.2⟩

theorem asDict_sim (hg : Cfg.Good c) (h : R st ss) (a : AsDictArg) (w : World) :
    R (asDict c a st w).1 (asDictS c.meths c.validNames a ss w).1 ∧
      (asDict c a st w).2 = (asDictS c.meths c.validNames a ss w).2 := by
  have hb := asDictBody_sim hg h a w
  unfold asDict asDictS
  rw [hg.vfirst]
  simp only [if_true]
  cases hk : a.kind with
  | nonCollection => exact ⟨h, rfl⟩
  | none =>
    rw [hk] at hb
    simpa using hb
  | names =>
    rw [hk] at hb
    unfold invalidNames
    cases hinv : a.attrs.any (fun n => !c.validNames.contains n) with
    | true => exact ⟨h, by simp⟩
    | false => simpa using hb

/- ------------------------------------------------------------------ histories -/

theorem step_sim (hg : Cfg.Good c) {y : Sys} (h : R y.st ss) (op : Op) :
    R (step c y op).1.st (stepS c.meths c.validNames ss y.w op).1 ∧
      (step c y op).1.w = (stepS c.meths c.validNames ss y.w op).2.1 ∧
      (step c y op).2 = (stepS c.meths c.validNames ss y.w op).2.2 := by
  cases op with
  | enter => exact ⟨enter_sim hg h, rfl, rfl⟩
  | exit b =>
    have h1 := exit_sim hg h b
    have h2 : exit c y.st b = ((exit c y.st b).1, true) := Prod.ext rfl h1.2
    simp only [step, stepS]
    rw [h2]
    exact ⟨h1.1, by first | rfl | trivial, by first | rfl | trivial⟩
  | call i =>
    simp only [step, stepS]
    cases hi : c.meths[i]? with
    | none => exact ⟨h, rfl, rfl⟩
    | some m =>
      have h1 := call_sim hg h m y.w
      simp only
      exact ⟨h1.1, by first | rfl | trivial, by rw [h1.2]⟩
  | asDict a =>
    have h1 := asDict_sim hg h a y.w
    simp only [step, stepS]
    exact ⟨h1.1, by first | rfl | trivial, by rw [h1.2]⟩
  | setVer s v => exact ⟨h, rfl, rfl⟩
  | setDenied s b => exact ⟨h, rfl, rfl⟩
  | setState p => exact ⟨h, rfl, rfl⟩
  | setAbsent s b => exact ⟨h, rfl, rfl⟩

theorem run_sim (hg : Cfg.Good c) (ops : List Op) {y : Sys} (h : R y.st ss) :
    R (runAll c y ops).st (runS c ss y.w ops).1 ∧ (runAll c y ops).w = (runS c ss y.w ops).2 ∧
      outs c y ops = outsS c ss y.w ops := by
  induction ops generalizing y ss with
  | nil => exact ⟨h, rfl, rfl⟩
  | cons op ops ih =>
    obtain ⟨h1, h2, h3⟩ := step_sim hg h op
    have := ih h1
    rw [h2] at this
    simp only [runAll, runS, outs, outsS, h3]
    exact ⟨this.1, this.2.1, by rw [this.2.2]⟩

/-- the simulation relation holds at every reachable state -/
theorem reach_sim (c : Cfg) (hg : c.Good) (ops : List Op) :
    R (runAll c Sys.init ops).st (runS c SSt.init World.init ops).1 ∧
      (runAll c Sys.init ops).w = (runS c SSt.init World.init ops).2 :=
  let h := run_sim hg ops (y := Sys.init) R_init
  ⟨h.1, h.2.1⟩

/-- 1. every history: the model's outputs are the specification's outputs -/
theorem refines (c : Cfg) (hg : c.Good) (ops : List Op) :
    outs c Sys.init ops = outsS c SSt.init World.init ops :=
  (run_sim hg ops (y := Sys.init) R_init).2.2

theorem refines_reads (c : Cfg) (hg : c.Good) (ops : List Op) :
    (runAll c Sys.init ops).st.reads = (runS c SSt.init World.init ops).1.reads :=
  (reach_sim c hg ops).1.reads.symm

/- ------------------------------------------------------------------ 3. outside every block -/

/-- what a method's reads deliver when nothing is cached: a function of the world alone -/
def readAllW (w : World) : List Src → Except Exc Val
  | [] => .ok []
  | s :: rest =>
    match w.read s with
    | .ok c =>
      match readAllW w rest with
      | .ok cs => .ok (c :: cs)
      | .error e => .error e
    | .error e => .error e

theorem readAllS_out (w : World) (l : List Src) (ss : SSt) (h : ss.depth = 0) :
    (readAllS w ss l).2 = readAllW w l := by
  induction l generalizing ss with
  | nil => rfl
  | cons s rest ih =>
    unfold readAllS readAllW
    have hin : inBlock ss = false := by simp [inBlock, h]
    simp only [readSrc, hin, Bool.false_and, Bool.false_eq_true, if_false, fresh]
    cases hw : w.read s with
    | error e => rfl
    | ok c0 =>
      simp only
      have := ih { ss with reads := bump ss.reads s } h
      rcases hm : readAllS w { ss with reads := bump ss.reads s } rest with ⟨ss2, r2⟩
      rw [hm] at this
      simp only at this
      subst this
      cases readAllW w rest <;> rfl

theorem bodyS_out (m : Meth) (w : World) (ss ss' : SSt) (h : ss.depth = 0) (h' : ss'.depth = 0) :
    (bodyS m ss w).2 = (bodyS m ss' w).2 := by
  unfold bodyS
  have h1 := readAllS_out w (m.eff w) ss h
  have h2 := readAllS_out w (m.eff w) ss' h'
  rcases hm : readAllS w ss (m.eff w) with ⟨s1, r1⟩
  rcases hm' : readAllS w ss' (m.eff w) with ⟨s2, r2⟩
  rw [hm] at h1
  rw [hm'] at h2
  simp only at h1 h2
  rw [h1, h2]
  cases readAllW w (m.eff w) with
  | error e => rfl
  | ok cs => simp only; split <;> rfl

theorem bodyG_out (m : Meth) (w : World) (ss ss' : SSt) (h : ss.depth = 0) (h' : ss'.depth = 0) :
    (bodyG m ss w).2 = (bodyG m ss' w).2 := by
  unfold bodyG
  split
  · rfl
  · exact bodyS_out m w ss ss' h h'

theorem callS_out (m : Meth) (w : World) (ss : SSt) (h : ss.depth = 0) :
    callS m ss w = bodyG m ss w := by
  unfold callS
  have hin : inBlock ss = false := by simp [inBlock, h]
  cases m.front <;> simp [hin]

/-- 3a. outside every block a call's result depends on the current world only -/
theorem fresh_after_exit (c : Cfg) (hg : c.Good) (ops : List Op) (m : Meth)
    (hout : (runAll c Sys.init ops).st.stack = []) :
    (call c m (runAll c Sys.init ops).st (runAll c Sys.init ops).w).2 =
      (bodyG m SSt.init (runAll c Sys.init ops).w).2 := by
  have hR := (reach_sim c hg ops).1
  have hd := (hR.out hout).1
  rw [(call_sim hg hR m _).2, callS_out m _ _ hd]
  exact bodyG_out m _ _ _ hd rfl

/-- 3b. leaving the outermost level clears both caches, however it is left -/
theorem exit_outermost_clears (c : Cfg) (hg : c.Good) (ops : List Op) (b : Bool)
    (h1 : (runAll c Sys.init ops).st.stack = [true]) :
    let st' := (exit c (runAll c Sys.init ops).st b).1
    st'.cache = none ∧ st'.pcache = none ∧ st'.stack = [] := by
  show (exit c (runAll c Sys.init ops).st b).1.cache = none ∧
    (exit c (runAll c Sys.init ops).st b).1.pcache = none ∧
    (exit c (runAll c Sys.init ops).st b).1.stack = []
  rw [exit_eq hg, h1]
  exact ⟨rfl, rfl, rfl⟩

/-- 4. a nested enter/exit pair changes nothing -/
theorem nested_noop (c : Cfg) (hg : c.Good) (ops : List Op) (b : Bool)
    (hin : (runAll c Sys.init ops).st.stack ≠ []) :
    exit c (enter c (runAll c Sys.init ops).st) b = ((runAll c Sys.init ops).st, true) := by
  have hR := (reach_sim c hg ops).1
  obtain ⟨_, hc, _⟩ := hR.inn hin
  rw [enter_eq hg, hc, exit_eq hg]
  rfl

/- ------------------------------------------------------------------ 5. as_dict on the model -/

theorem World.read_ne_ni (w : World) (s : Src) : w.read s ≠ .error .notImplemented := by
  unfold World.read
  cases w.st <;> simp only <;> (repeat' split) <;> simp

theorem helper_ne_ni (c : Cfg) (st : St) (w : World) (s : Src) :
    (helper c st w s).2 ≠ .error .notImplemented := by
  have hr := World.read_ne_ni w s
  unfold helper rawRead
  cases hw : w.read s with
  | ok c0 => simp only; (repeat' split) <;> simp
  | error e =>
    have : e ≠ .notImplemented := fun he => hr (he ▸ hw)
    simp only; (repeat' split) <;> simp [this]

theorem readAll_ne_ni (c : Cfg) (w : World) (l : List Src) (st : St) :
    (readAll c w st l).2 ≠ .error .notImplemented := by
  induction l generalizing st with
  | nil => simp [readAll]
  | cons s rest ih =>
    unfold readAll
    have h1 := helper_ne_ni c st w s
    rcases hm : helper c st w s with ⟨st1, r1⟩
    rw [hm] at h1
    cases r1 with
    | error e => simpa using h1
    | ok c0 =>
      simp only
      have h2 := ih st1
      rcases hm2 : readAll c w st1 rest with ⟨st2, r2⟩
      rw [hm2] at h2
      cases r2 with
      | error e => simpa using h2
      | ok cs => simp

theorem platCall_ne_ni (c : Cfg) (m : Meth) (st : St) (w : World) :
    (platCall c m st w).2 ≠ .error .notImplemented := by
  unfold platCall
  have h1 := readAll_ne_ni c w (m.eff w) st
  rcases hm : readAll c w st (m.eff w) with ⟨st1, r1⟩
  rw [hm] at h1
  cases r1 with
  | error e => exact h1
  | ok cs =>
    simp only
    split
    · unfold zombieProbe
      cases w.st <;> simp
    · simp

/-- the modelled methods never raise NotImplementedError -/
theorem call_ne_ni (c : Cfg) (m : Meth) (st : St) (w : World) :
    (call c m st w).2 ≠ .error .notImplemented := by
  have h1 : (frontGuarded c m st w).2 ≠ .error .notImplemented := by
    unfold frontGuarded frontBody
    split
    · simp
    · exact platCall_ne_ni c m _ w
  unfold call
  rcases hm : frontGuarded c m st w with ⟨st1, r1⟩
  rw [hm] at h1
  (repeat' split) <;> simp_all

theorem asDict_typeError (c : Cfg) (hg : c.Good) (a : AsDictArg) (st : St) (w : World)
    (h : a.kind = .nonCollection) : asDict c a st w = (st, .typeError) := by
  unfold asDict
  rw [hg.vfirst, h]
  rfl

theorem asDict_valueError (c : Cfg) (hg : c.Good) (a : AsDictArg) (st : St) (w : World)
    (h : a.kind = .names) (hbad : invalidNames c a = true) : asDict c a st w = (st, .valueError) := by
  unfold asDict
  rw [hg.vfirst, h, hbad]
  rfl

/-- when validation passes, the result of `as_dict` is the result of the loop -/
theorem asDict_out (c : Cfg) (hg : c.Good) (a : AsDictArg) (st : St) (w : World)
    (hnc : a.kind ≠ .nonCollection) (hv : a.kind = .names → invalidNames c a = false) :
    (asDict c a st w).2 =
      (asDictLoop c a.env (decide (a.kind = .names) && !a.attrs.isEmpty) w (enter c st)
        (if (decide (a.kind = .names) && !a.attrs.isEmpty) = true then a.attrs else a.allOrder) []).2 := by
  have hb : (asDictBody c a st w).2 =
      (asDictLoop c a.env (decide (a.kind = .names) && !a.attrs.isEmpty) w (enter c st)
        (if (decide (a.kind = .names) && !a.attrs.isEmpty) = true then a.attrs else a.allOrder) []).2 := by
    unfold asDictBody
    simp only [hg.ema, Bool.true_and]
  unfold asDict
  rw [hg.vfirst]
  simp only [if_true]
  cases hk : a.kind with
  | nonCollection => exact absurd hk hnc
  | none => simpa [hk] using hb
  | names => simpa [hk, hv hk] using hb

theorem loop_keys_explicit (c : Cfg) (env : List (String × EnvOut)) (w : World) (l : List String)
    (st : St) (acc : List (String × DVal)) (st' : St) (kvs : List (String × DVal))
    (h : asDictLoop c env true w st l acc = (st', .dict kvs)) :
    kvs.map Prod.fst = acc.reverse.map Prod.fst ++ l := by
  induction l generalizing st acc with
  | nil =>
    simp only [asDictLoop, Prod.mk.injEq, DOut.dict.injEq] at h
    simp [← h.2]
  | cons n rest ih =>
    unfold asDictLoop at h
    rcases hm : evalName c env st w n with ⟨st1, r1⟩
    rw [hm] at h
    cases r1 with
    | ok v => simpa using ih _ _ h
    | error e =>
      simp only [Bool.not_true, Bool.and_false, Bool.false_eq_true, if_false] at h
      split at h
      · simpa using ih _ _ h
      · simp at h

theorem loop_keys_sublist (c : Cfg) (env : List (String × EnvOut)) (explicit : Bool) (w : World)
    (l : List String) (st : St) (acc : List (String × DVal)) (st' : St)
    (kvs : List (String × DVal)) (h : asDictLoop c env explicit w st l acc = (st', .dict kvs)) :
    ∃ l', l'.Sublist l ∧ kvs.map Prod.fst = acc.reverse.map Prod.fst ++ l' := by
  induction l generalizing st acc with
  | nil =>
    simp only [asDictLoop, Prod.mk.injEq, DOut.dict.injEq] at h
    exact ⟨[], List.Sublist.refl _, by simp [← h.2]⟩
  | cons n rest ih =>
    unfold asDictLoop at h
    rcases hm : evalName c env st w n with ⟨st1, r1⟩
    rw [hm] at h
    cases r1 with
    | ok v =>
      obtain ⟨l', hs, he⟩ := ih _ _ h
      exact ⟨n :: l', hs.cons_cons n, by simpa using he⟩
    | error e =>
      simp only at h
      split at h
      · obtain ⟨l', hs, he⟩ := ih _ _ h
        exact ⟨n :: l', hs.cons_cons n, by simpa using he⟩
      · split at h
        · obtain ⟨l', hs, he⟩ := ih _ _ h
          exact ⟨l', hs.cons n, he⟩
        · simp at h

theorem loop_keys_all (c : Cfg) (env : List (String × EnvOut)) (explicit : Bool) (w : World)
    (l : List String) (hni : ∀ n ∈ l, ∀ st, (evalName c env st w n).2 ≠ .error .notImplemented)
    (st : St) (acc : List (String × DVal)) (st' : St)
    (kvs : List (String × DVal)) (h : asDictLoop c env explicit w st l acc = (st', .dict kvs)) :
    kvs.map Prod.fst = acc.reverse.map Prod.fst ++ l := by
  induction l generalizing st acc with
  | nil =>
    simp only [asDictLoop, Prod.mk.injEq, DOut.dict.injEq] at h
    simp [← h.2]
  | cons n rest ih =>
    have hn := hni n (List.mem_cons_self ..) st
    have ih' := ih (fun n' hn' => hni n' (List.mem_cons_of_mem _ hn'))
    unfold asDictLoop at h
    rcases hm : evalName c env st w n with ⟨st1, r1⟩
    rw [hm] at h hn
    cases r1 with
    | ok v => simpa using ih' _ _ h
    | error e =>
      have hne : e ≠ .notImplemented := fun he => hn (by rw [he])
      simp only [hne, decide_false, Bool.false_and, Bool.false_eq_true, if_false] at h
      split at h
      · simpa using ih' _ _ h
      · simp at h

theorem evalName_ne_ni (c : Cfg) (env : List (String × EnvOut)) (st : St) (w : World) (n : String)
    (hn : env.lookup n ≠ some .notimpl) : (evalName c env st w n).2 ≠ .error .notImplemented := by
  unfold evalName
  split
  · simp
  · cases hf : findMeth c n with
    | some m =>
      simp only
      have h1 := call_ne_ni c m st w
      rcases hm : call c m st w with ⟨st1, r1⟩
      rw [hm] at h1
      cases r1 <;> simp_all
    | none =>
      simp only [envOut]
      split <;> simp_all

theorem asDict_keys_explicit (c : Cfg) (hg : c.Good) (a : AsDictArg) (st : St) (w : World)
    (st' : St) (kvs : List (String × DVal)) (hk : a.kind = .names) (hne : a.attrs ≠ [])
    (h : asDict c a st w = (st', .dict kvs)) : kvs.map Prod.fst = a.attrs := by
  have hv : a.kind = .names → invalidNames c a = false := by
    intro _
    cases hi : invalidNames c a with
    | false => rfl
    | true => rw [asDict_valueError c hg a st w hk hi] at h; simp at h
  have ho := asDict_out c hg a st w (by rw [hk]; simp) hv
  have he : (decide (a.kind = .names) && !a.attrs.isEmpty) = true := by simp [hk, hne]
  rw [h, he] at ho
  simp only [if_true] at ho
  rcases hm : asDictLoop c a.env true w (enter c st) a.attrs [] with ⟨st2, out⟩
  rw [hm] at ho
  simp only at ho
  subst ho
  simpa using loop_keys_explicit c a.env w a.attrs _ [] st2 kvs hm

theorem asDict_loop_all (c : Cfg) (hg : c.Good) (a : AsDictArg) (st : St) (w : World)
    (st' : St) (kvs : List (String × DVal)) (himp : a.kind = .none ∨ a.attrs = [])
    (hnc : a.kind ≠ .nonCollection) (h : asDict c a st w = (st', .dict kvs)) :
    ∃ st2, asDictLoop c a.env false w (enter c st) a.allOrder [] = (st2, .dict kvs) := by
  have hv : a.kind = .names → invalidNames c a = false := by
    intro hk
    cases hi : invalidNames c a with
    | false => rfl
    | true => rw [asDict_valueError c hg a st w hk hi] at h; simp at h
  have ho := asDict_out c hg a st w hnc hv
  have he : (decide (a.kind = .names) && !a.attrs.isEmpty) = false := by
    rcases himp with hk | hk <;> simp [hk]
  rw [h, he] at ho
  simp only [Bool.false_eq_true, if_false] at ho
  rcases hm : asDictLoop c a.env false w (enter c st) a.allOrder [] with ⟨st2, out⟩
  rw [hm] at ho
  simp only at ho
  subst ho
  exact ⟨st2, rfl⟩

theorem asDict_keys_all (c : Cfg) (hg : c.Good) (a : AsDictArg) (st : St) (w : World)
    (st' : St) (kvs : List (String × DVal)) (himp : a.kind = .none ∨ a.attrs = [])
    (hnc : a.kind ≠ .nonCollection) (h : asDict c a st w = (st', .dict kvs)) :
    (kvs.map Prod.fst).Sublist a.allOrder := by
  obtain ⟨st2, hm⟩ := asDict_loop_all c hg a st w st' kvs himp hnc h
  obtain ⟨l', hs, he⟩ := loop_keys_sublist c a.env false w a.allOrder _ [] st2 kvs hm
  simpa [he] using hs

theorem asDict_keys_all_eq (c : Cfg) (hg : c.Good) (a : AsDictArg) (st : St) (w : World)
    (st' : St) (kvs : List (String × DVal)) (himp : a.kind = .none ∨ a.attrs = [])
    (hnc : a.kind ≠ .nonCollection) (h : asDict c a st w = (st', .dict kvs))
    (hni : ∀ n ∈ a.allOrder, a.env.lookup n ≠ some .notimpl) :
    kvs.map Prod.fst = a.allOrder := by
  obtain ⟨st2, hm⟩ := asDict_loop_all c hg a st w st' kvs himp hnc h
  simpa using loop_keys_all c a.env false w a.allOrder
    (fun n hn st => evalName_ne_ni c a.env st w n (hni n hn)) _ [] st2 kvs hm

theorem loop_never_ad (hg : Cfg.Good c) (env : List (String × EnvOut)) (explicit : Bool) (w : World)
    (l : List String) (st : St) (acc : List (String × DVal)) :
    (asDictLoop c env explicit w st l acc).2 ≠ .raised .accessDenied ∧
      (asDictLoop c env explicit w st l acc).2 ≠ .raised .zombieProcess := by
  induction l generalizing st acc with
  | nil => simp [asDictLoop]
  | cons n rest ih =>
    unfold asDictLoop
    rcases hm : evalName c env st w n with ⟨st1, r1⟩
    cases r1 with
    | ok v => exact ih _ _
    | error e =>
      simp only [hg.adc]
      cases e with
      | accessDenied => simpa using ih _ _
      | zombieProcess => simpa using ih _ _
      | noSuchProcess => simp
      | notImplemented =>
        simp only [show (Exc.notImplemented == Exc.accessDenied ||
          Exc.notImplemented == Exc.zombieProcess) = false from rfl, Bool.false_eq_true, if_false]
        split
        · exact ih _ _
        · simp

theorem asDict_never_accessDenied (c : Cfg) (hg : c.Good) (a : AsDictArg) (st : St) (w : World) :
    (asDict c a st w).2 ≠ .raised .accessDenied ∧ (asDict c a st w).2 ≠ .raised .zombieProcess := by
  by_cases hnc : a.kind = .nonCollection
  · rw [asDict_typeError c hg a st w hnc]; simp
  · by_cases hv : a.kind = .names ∧ invalidNames c a = true
    · rw [asDict_valueError c hg a st w hv.1 hv.2]; simp
    · rw [asDict_out c hg a st w hnc (fun hk => by
        cases hi : invalidNames c a with
        | false => rfl
        | true => exact absurd ⟨hk, hi⟩ hv)]
      exact loop_never_ad hg _ _ _ _ _ _

/- ------------------------------------------------------------------ 2. read at most once -/

/-- the ops never close the level that is open when the counter starts at `d ≥ 1` -/
def staysIn : Nat → List Op → Bool
  | _, [] => true
  | d, .enter :: r => staysIn (d + 1) r
  | d, .exit _ :: r => decide (2 ≤ d) && staysIn (d - 1) r
  | d, .call _ :: r => staysIn d r
  | d, .setVer _ _ :: r => staysIn d r
  | d, .setDenied _ _ :: r => staysIn d r
  | d, .setState _ :: r => staysIn d r
  | d, .setAbsent _ _ :: r => staysIn d r
  | d, .asDict _ :: r => staysIn d r

section Pres
/- a predicate on spec states that single reads preserve and that does not look at the
   frozen front-end results is preserved by calls and by the as_dict loop -/
variable (P : SSt → Prop)
  (hread : ∀ ss w x, P ss → P (readSrc ss w x).1)
  (hfun : ∀ ss g, P ss → P { ss with frozenFun := g })
include hread

theorem readAllS_pres (w : World) (l : List Src) (ss : SSt) (h : P ss) : P (readAllS w ss l).1 := by
  induction l generalizing ss with
  | nil => exact h
  | cons s rest ih =>
    unfold readAllS
    have h1 := hread ss w s h
    rcases hm : readSrc ss w s with ⟨ss1, r1⟩
    rw [hm] at h1
    cases r1 with
    | error e => exact h1
    | ok c0 =>
      simp only
      have h2 := ih ss1 h1
      rcases hm2 : readAllS w ss1 rest with ⟨ss2, r2⟩
      rw [hm2] at h2
      cases r2 <;> exact h2

theorem bodyS_pres (m : Meth) (w : World) (ss : SSt) (h : P ss) : P (bodyS m ss w).1 := by
  unfold bodyS
  have h1 := readAllS_pres P hread w (m.eff w) ss h
  rcases hm : readAllS w ss (m.eff w) with ⟨ss1, r1⟩
  rw [hm] at h1
  cases r1 with
  | error e => exact h1
  | ok cs => simp only; split <;> exact h1

include hfun

theorem callS_pres (m : Meth) (w : World) (ss : SSt) (h : P ss) : P (callS m ss w).1 := by
  unfold callS
  have h1 : P (bodyG m ss w).1 := by
    unfold bodyG
    split
    · exact h
    · exact bodyS_pres P hread m w ss h
  rcases hm : bodyG m ss w with ⟨ss1, r1⟩
  rw [hm] at h1
  cases m.front with
  | none => exact h1
  | some f =>
    simp only
    split
    · split
      · exact h
      · cases r1 with
        | error e => exact h1
        | ok v => exact hfun _ _ h1
    · exact h1

theorem evalNameS_pres (meths : List Meth) (env : List (String × EnvOut)) (w : World) (n : String)
    (ss : SSt) (h : P ss) : P (evalNameS meths env ss w n).1 := by
  unfold evalNameS
  split
  · exact h
  · split
    · rename_i m _
      have h1 := callS_pres P hread hfun m w ss h
      rcases hm : callS m ss w with ⟨ss1, r1⟩
      rw [hm] at h1
      cases r1 <;> exact h1
    · exact h

theorem loopS_pres (meths : List Meth) (env : List (String × EnvOut)) (explicit : Bool) (w : World)
    (l : List String) (ss : SSt) (acc : List (String × DVal)) (h : P ss) :
    P (loopS meths env explicit w ss l acc).1 := by
  induction l generalizing ss acc with
  | nil => exact h
  | cons n rest ih =>
    unfold loopS
    have h1 := evalNameS_pres P hread hfun meths env w n ss h
    rcases hm : evalNameS meths env ss w n with ⟨ss1, r1⟩
    rw [hm] at h1
    cases r1 with
    | ok v => exact ih _ _ h1
    | error e =>
      cases e with
      | accessDenied => exact ih _ _ h1
      | zombieProcess => exact ih _ _ h1
      | noSuchProcess => exact h1
      | notImplemented =>
        simp only
        split
        · exact h1
        · exact ih _ _ h1

end Pres

/-- at depth `d`, the reads of `s` so far are at most `n0`, plus one if `s` is frozen -/
def Bnd (s : Src) (n0 d : Nat) (ss : SSt) : Prop :=
  ss.depth = d ∧ ss.reads s ≤ n0 + (if (ss.frozenSrc s).isSome then 1 else 0)

theorem Bnd.readSrc (hs : Spec.blockCached s = true) (hd : 1 ≤ d) (ss : SSt) (w : World) (x : Src)
    (h : Bnd s n0 d ss) : Bnd s n0 d (readSrc ss w x).1 := by
  obtain ⟨h1, h2⟩ := h
  have hin : inBlock ss = true := by
    simp only [inBlock, h1, decide_eq_true_eq]; omega
  unfold Spec.readSrc fresh
  rw [hin]
  by_cases hx : x = s
  · subst hx
    simp only [hs, Bool.and_self, if_true]
    cases hf : ss.frozenSrc x with
    | some c0 => exact ⟨h1, h2⟩
    | none =>
      cases hw : w.read x with
      | error e => exact ⟨h1, h2⟩
      | ok c0 =>
        simp only [hf, Option.isSome_none, Bool.false_eq_true, if_false] at h2
        refine ⟨h1, ?_⟩
        simp only [bump, if_true, Option.isSome_some]
        omega
  · have hsx : ¬ s = x := fun e => hx e.symm
    have hb : bump ss.reads x s = ss.reads s := by simp [bump, hsx]
    cases Spec.blockCached x with
    | false =>
      simp only [Bool.and_false, Bool.false_eq_true, if_false]
      cases w.read x with
      | error e => exact ⟨h1, h2⟩
      | ok c0 => exact ⟨h1, by simpa only [hb] using h2⟩
    | true =>
      simp only [Bool.and_self, if_true]
      cases ss.frozenSrc x with
      | some c0 => exact ⟨h1, h2⟩
      | none =>
        cases w.read x with
        | error e => exact ⟨h1, h2⟩
        | ok c0 =>
          refine ⟨h1, ?_⟩
          simp only [hb, hsx, if_false]
          exact h2

section PresD
/- a depth-indexed family of predicates on spec states that single reads (inside a block),
   `enterS` and a non-outermost `exitS` preserve is preserved along every history that stays
   inside the block -/
variable (Q : Nat → SSt → Prop)
  (hread : ∀ d, 1 ≤ d → ∀ ss w x, Q d ss → Q d (readSrc ss w x).1)
  (hfun : ∀ d ss g, Q d ss → Q d { ss with frozenFun := g })
  (henter : ∀ d ss, Q d ss → Q (d + 1) (enterS ss))
  (hexit : ∀ d ss, Q (d + 2) ss → Q (d + 1) (exitS ss))
include hread hfun henter hexit

theorem asDictS_presD (d : Nat) (hd : 1 ≤ d) (meths : List Meth)
    (valid : List String) (a : AsDictArg) (w : World) (ss : SSt)
    (h : Q d ss) : Q d (asDictS meths valid a ss w).1 := by
  unfold Spec.asDictS
  split
  · exact h
  · split
    · exact h
    · simp only
      obtain ⟨d', rfl⟩ : ∃ d', d = d' + 1 := ⟨d - 1, by omega⟩
      apply hexit
      exact loopS_pres (Q (d' + 2)) (hread (d' + 2) (by omega)) (hfun (d' + 2)) _ _ _ _ _ _ _
        (henter _ _ h)

theorem runS_presD (c : Cfg) (ops : List Op) (d : Nat) (hd : 1 ≤ d)
    (ss : SSt) (w : World) (h : Q d ss) (hin : staysIn d ops = true) :
    ∃ d', 1 ≤ d' ∧ Q d' (runS c ss w ops).1 := by
  induction ops generalizing d ss w with
  | nil => exact ⟨d, hd, h⟩
  | cons op ops ih =>
    simp only [runS]
    cases op with
    | enter => exact ih (d + 1) (by omega) _ _ (henter _ _ h) (by simpa [staysIn] using hin)
    | exit b =>
      simp only [staysIn, Bool.and_eq_true, decide_eq_true_eq] at hin
      obtain ⟨d', rfl⟩ : ∃ d', d = d' + 2 := ⟨d - 2, by omega⟩
      exact ih (d' + 1) (by omega) _ _ (hexit _ _ h) (by simpa using hin.2)
    | call i =>
      refine ih d hd _ _ ?_ (by simpa [staysIn] using hin)
      simp only [stepS]
      split
      · exact h
      · exact callS_pres (Q d) (hread d hd) (hfun d) _ _ _ h
    | asDict a =>
      refine ih d hd _ _ ?_ (by simpa [staysIn] using hin)
      exact asDictS_presD Q hread hfun henter hexit d hd _ _ _ _ _ h
    | setVer x v => exact ih d hd _ _ h (by simpa [staysIn] using hin)
    | setDenied x b => exact ih d hd _ _ h (by simpa [staysIn] using hin)
    | setState p => exact ih d hd _ _ h (by simpa [staysIn] using hin)
    | setAbsent x b => exact ih d hd _ _ h (by simpa [staysIn] using hin)

end PresD

theorem exitS_of_depth (ss : SSt) (h : ss.depth = d + 2) : exitS ss = { ss with depth := d + 1 } := by
  obtain ⟨dd, fs, ff, rd⟩ := ss
  simp only at h
  subst h
  rfl

theorem Bnd.run (c : Cfg) (hs : Spec.blockCached s = true) (ops : List Op) (d : Nat) (hd : 1 ≤ d)
    (ss : SSt) (w : World) (h : Bnd s n0 d ss) (hin : staysIn d ops = true) :
    (runS c ss w ops).1.reads s ≤ n0 + 1 := by
  obtain ⟨d', _, h'⟩ := runS_presD (Bnd s n0)
    (fun d hd ss w x h => Bnd.readSrc hs hd ss w x h) (fun _ _ _ h => h)
    (fun d ss h => ⟨by simp [enterS, h.1], h.2⟩)
    (fun d ss h => by rw [exitS_of_depth ss h.1]; exact ⟨rfl, h.2⟩)
    c ops d hd ss w h hin
  have := h'.2
  split at this <;> omega

/-- 2. inside one outermost block every block-cached source is read at most once -/
theorem read_at_most_once (c : Cfg) (hg : c.Good) (pre blk : List Op) (s : Src)
    (hs : Spec.blockCached s = true) (hout : (runAll c Sys.init pre).st.stack = [])
    (hin : staysIn 1 blk = true) :
    (runAll c Sys.init (pre ++ Op.enter :: blk)).st.reads s ≤
      (runAll c Sys.init pre).st.reads s + 1 := by
  have hR := (reach_sim c hg pre).1
  obtain ⟨hd, _, hp⟩ := hR.out hout
  have hf : (runS c SSt.init World.init pre).1.frozenSrc s = none := by
    rw [← hR.fsrc s, hp]; rfl
  rw [refines_reads c hg, runS_append, ← hR.reads]
  simp only [runS, stepS]
  apply Bnd.run c hs blk 1 (Nat.le_refl 1) _ _ _ hin
  refine ⟨by simp [enterS, hd], ?_⟩
  simp [enterS, hf]

/- ------------------------------------------------------------------ extras -/

theorem outsS_no_attributeError (c : Cfg) (ops : List Op) (ss : SSt) (w : World) :
    ∀ o ∈ outsS c ss w ops, o ≠ Out.attributeError := by
  induction ops generalizing ss w with
  | nil => intro o ho; cases ho
  | cons op ops ih =>
    intro o ho
    simp only [outsS, List.mem_cons] at ho
    rcases ho with rfl | ho
    · cases op <;> simp only [stepS] <;> (try split) <;> simp
    · exact ih _ _ o ho

/-- corollary of `refines`: AttributeError never escapes `oneshot().__exit__` -/
theorem no_attributeError (c : Cfg) (hg : c.Good) (ops : List Op) :
    ∀ o ∈ outs c Sys.init ops, o ≠ Out.attributeError := by
  rw [refines c hg]
  exact outsS_no_attributeError c ops _ _

/-- `s` is frozen to `c0` at depth `d` -/
def Frz (s : Src) (c0 : Content) (d : Nat) (ss : SSt) : Prop :=
  ss.depth = d ∧ ss.frozenSrc s = some c0

theorem Frz.readSrc (ss : SSt) (w : World) (x : Src) (h : Frz s c0 d ss) :
    Frz s c0 d (readSrc ss w x).1 := by
  obtain ⟨h1, h2⟩ := h
  unfold Spec.readSrc fresh
  split
  · cases hf : ss.frozenSrc x with
    | some c1 => exact ⟨h1, h2⟩
    | none =>
      cases w.read x with
      | error e => exact ⟨h1, h2⟩
      | ok c1 =>
        have hne : ¬ s = x := by intro e; rw [e, hf] at h2; cases h2
        exact ⟨h1, by simp only [hne, if_false]; exact h2⟩
  · cases w.read x with
    | error e => exact ⟨h1, h2⟩
    | ok c1 => exact ⟨h1, h2⟩

/-- (spec) a frozen content is never overwritten while the block stays open -/
theorem frozen_stable (c : Cfg) (ops : List Op) (d : Nat) (hd : 1 ≤ d) (ss : SSt) (w : World)
    (s : Src) (c0 : Content) (hdep : ss.depth = d) (hf : ss.frozenSrc s = some c0)
    (hin : staysIn d ops = true) : (runS c ss w ops).1.frozenSrc s = some c0 := by
  obtain ⟨d', _, h'⟩ := runS_presD (Frz s c0)
    (fun d _ ss w x h => Frz.readSrc ss w x h) (fun _ _ _ h => h)
    (fun d ss h => ⟨by simp [enterS, h.1], h.2⟩)
    (fun d ss h => by rw [exitS_of_depth ss h.1]; exact ⟨rfl, h.2⟩)
    c ops d hd ss w ⟨hdep, hf⟩ hin
  exact h'.2

/-- (spec) a content becomes frozen only by a read of that very source, and it is what the world
    delivered at that read -/
theorem frozen_from_world (ss : SSt) (w : World) (x s : Src) (c0 : Content)
    (h0 : ss.frozenSrc s = none) (h1 : (readSrc ss w x).1.frozenSrc s = some c0) :
    x = s ∧ w.read s = .ok c0 ∧ (readSrc ss w x).2 = .ok c0 := by
  unfold Spec.readSrc fresh at h1 ⊢
  split at h1
  · rename_i hc
    simp only [hc, if_true]
    cases hf : ss.frozenSrc x with
    | some c1 => rw [hf] at h1; simp only at h1; rw [h0] at h1; cases h1
    | none =>
      rw [hf] at h1
      cases hw : w.read x with
      | error e => rw [hw] at h1; simp only at h1; rw [h0] at h1; cases h1
      | ok c1 =>
        rw [hw] at h1
        simp only at h1
        by_cases hsx : s = x
        · subst hsx
          simp only [if_true, Option.some.injEq] at h1
          subst h1
          exact ⟨rfl, hw, rfl⟩
        · simp only [hsx, if_false] at h1; rw [h0] at h1; cases h1
  · cases hw : w.read x with
    | error e => rw [hw] at h1; simp only at h1; rw [h0] at h1; cases h1
    | ok c1 => rw [hw] at h1; simp only at h1; rw [h0] at h1; cases h1

end Psutil.C16
