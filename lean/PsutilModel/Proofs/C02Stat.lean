/-
  Proofs/C02Stat.lean — C02's machine (identity machine + failing reads) over the bytes of `/proc/<pid>/stat`
  (Model/C02Stat.lean) refines the machine of Model/C02Fault.lean on the kernel's own table: with the reader in the
  shape `StatCfg.Good` (Proofs/C01Stat.lean: `view_good`, `forget_apply` — reused, not repeated) every byte-level
  history with failing reads runs as its erasure, whatever command names the incarnations show and however often
  living processes rewrite their lines.
-/
import PsutilModel.Proofs.C01Stat
import PsutilModel.Spec.C01Stat
import PsutilModel.Proofs.C02Fault
import PsutilModel.Model.C02Stat
namespace Psutil.C02
open Psutil Psutil.C01 Psutil.C01.Spec

def FEvB.WF : FEvB → Prop
  | .ev e => e.WF
  | .fault _ _ => True

/-- every stat line of the history is in the kernel's format (proc(5)): a state letter, 17 numbers between ppid and
    starttime, at least 17 after it.  The comm fields are unconstrained. -/
def FHistWF (h : List FEvB) : Prop := ∀ e ∈ h, e.WF

instance : DecidablePred FEvB.WF := fun e => by cases e <;> simp only [FEvB.WF] <;> infer_instance
instance (h : List FEvB) : Decidable (FHistWF h) := by unfold FHistWF; infer_instance

/-- hypotheses of the byte-level theorems: kernel-formatted lines (NO hypothesis on any comm), and on the process
    table what `FHistOK true` asks (stat files can be opened, no PID recycled within one clock tick); faults and
    rewrites of living processes' lines are unrestricted -/
def FHistOKB (h : List FEvB) : Prop := FHistWF h ∧ FHistOK true (h.map FEvB.erase)

instance (h : List FEvB) : Decidable (FHistOKB h) := by unfold FHistOKB; infer_instance

theorem FHistOKB.append {h1 h2 : List FEvB} (a : FHistOKB h1) (b : FHistOKB h2) : FHistOKB (h1 ++ h2) := by
  refine ⟨fun e he => ?_, fun e he => ?_⟩
  · rcases List.mem_append.1 he with he | he
    · exact a.1 e he
    · exact b.1 e he
  · rw [List.map_append] at he
    rcases List.mem_append.1 he with he | he
    · exact a.2 e he
    · exact b.2 e he

/-! ### a rename is invisible to the kernel's own table -/

/-- the line of a living process changes (comm, counters, …): the process table — who holds which PID since when,
    zombie or not, the clock — is what it was -/
theorem forget_rewrite (k : KernelB) (pid : Nat) (comm : Bytes) (aux : Aux) :
    (k.apply (.rewrite pid comm aux)).forget = k.forget := by
  rw [forget_apply]
  rfl

/-! ### one step -/

/-- with the good reader a psutil call over kernel-formatted stat bytes — any comm — is the call of
    Model/C02Fault.lean on the kernel's own table: same outcome, same objects, same effects -/
theorem FStB.step_call_good {sc : StatCfg} (hg : sc.Good) (cfg : Cfg) (sf : StatFault) (fs : FStB)
    (hk : fs.sb.kern.WF) (call : Call) :
    (fs.step sc cfg sf (.ev (.c call))).2 = some (stepF cfg sf fs.toFSt.st fs.toFSt.faulty call).2
    ∧ (fs.step sc cfg sf (.ev (.c call))).1.toFSt = (fs.toFSt.step cfg sf (.ev (.c call))).1
    ∧ (fs.step sc cfg sf (.ev (.c call))).1.sb.kern = fs.sb.kern := by
  simp only [FStB.step, view_good hg fs.sb.kern hk]
  refine ⟨rfl, ?_, trivial⟩
  have hkern := stepF_kern cfg sf fs.sb.toSt fs.faulty call
  simp only [FStB.toFSt, FSt.step, StB.toSt] at hkern ⊢
  generalize stepF cfg sf ⟨fs.sb.kern.forget, fs.sb.ps, fs.sb.log⟩ fs.faulty call = r at hkern ⊢
  obtain ⟨⟨k, ps, log⟩, out⟩ := r
  simp only at hkern ⊢
  rw [hkern]

theorem FStB.step_kernel_event (sc : StatCfg) (cfg : Cfg) (sf : StatFault) (fs : FStB) (e : KEvB) :
    (fs.step sc cfg sf (.ev (.k e))).1.toFSt = (fs.toFSt.step cfg sf (.ev (.k e.erase))).1
    ∧ (fs.step sc cfg sf (.ev (.k e))).1.sb.kern = fs.sb.kern.apply e := by
  simp [FStB.step, FSt.step, C01.step, FStB.toFSt, StB.toSt, forget_apply]

theorem FStB.step_fault (sc : StatCfg) (cfg : Cfg) (sf : StatFault) (fs : FStB) (p : Nat) (on : Bool) :
    (fs.step sc cfg sf (.fault p on)).1.toFSt = (fs.toFSt.step cfg sf (.fault p on)).1
    ∧ (fs.step sc cfg sf (.fault p on)).1.sb.kern = fs.sb.kern := by
  cases on <;> exact ⟨rfl, rfl⟩

theorem FStB.step_wf (sc : StatCfg) (cfg : Cfg) (sf : StatFault) (fs : FStB) (hk : fs.sb.kern.WF) (e : FEvB)
    (he : e.WF) : (fs.step sc cfg sf e).1.sb.kern.WF := by
  cases e with
  | fault p on => rw [(FStB.step_fault sc cfg sf fs p on).2]; exact hk
  | ev ev =>
    cases ev with
    | k ke => rw [(FStB.step_kernel_event sc cfg sf fs ke).2]; exact hk.apply ke he
    | c call =>
      simp only [FStB.step]
      cases view sc fs.sb.kern <;> exact hk

/-- one step of a byte-level history is the step of its erasure -/
theorem FStB.step_toFSt {sc : StatCfg} (hg : sc.Good) (cfg : Cfg) (sf : StatFault) (fs : FStB)
    (hk : fs.sb.kern.WF) (e : FEvB) :
    (fs.step sc cfg sf e).1.toFSt = (fs.toFSt.step cfg sf e.erase).1 := by
  cases e with
  | fault p on => exact (FStB.step_fault sc cfg sf fs p on).1
  | ev ev =>
    cases ev with
    | k ke => exact (FStB.step_kernel_event sc cfg sf fs ke).1
    | c call => exact (FStB.step_call_good hg cfg sf fs hk call).2.1

/-! ### histories -/

/-- **runFB_toFSt.** Every byte-level history with failing reads runs as its erasure -/
theorem runFB_toFSt {sc : StatCfg} (hg : sc.Good) (cfg : Cfg) (sf : StatFault) (h : List FEvB) :
    ∀ (fs : FStB), fs.sb.kern.WF → FHistWF h →
      (runFB sc cfg sf fs h).toFSt = runF cfg sf fs.toFSt (h.map FEvB.erase) ∧ (runFB sc cfg sf fs h).sb.kern.WF := by
  induction h with
  | nil => intro fs hk _; exact ⟨rfl, hk⟩
  | cons e es ih =>
    intro fs hk hwf
    have he := hwf e List.mem_cons_self
    have hrest : FHistWF es := fun x hx => hwf x (List.mem_cons_of_mem _ hx)
    obtain ⟨h1, h2⟩ := ih _ (FStB.step_wf sc cfg sf fs hk e he) hrest
    refine ⟨?_, h2⟩
    simp only [runFB, List.map_cons, runF]
    rw [h1, FStB.step_toFSt hg cfg sf fs hk e]

theorem runFB_append (sc : StatCfg) (cfg : Cfg) (sf : StatFault) : ∀ (l1 l2 : List FEvB) (fs : FStB),
    runFB sc cfg sf fs (l1 ++ l2) = runFB sc cfg sf (runFB sc cfg sf fs l1) l2 := by
  intro l1
  induction l1 with
  | nil => intro l2 fs; rfl
  | cons e es ih => intro l2 fs; exact ih l2 _

theorem runF_append (cfg : Cfg) (sf : StatFault) : ∀ (l1 l2 : List FEv) (fs : FSt),
    runF cfg sf fs (l1 ++ l2) = runF cfg sf (runF cfg sf fs l1) l2 := by
  intro l1
  induction l1 with
  | nil => intro l2 fs; rfl
  | cons e es ih => intro l2 fs; exact ih l2 _

theorem initB_toFSt (b0 : Nat) : (FStB.init b0).toFSt = FSt.init b0 := rfl

theorem initB_wf (b0 : Nat) : (FStB.init b0).sb.kern.WF := init_wf b0

/-! ### the sweep's answer is its cache -/

theorem sweepF_some (c : Cfg) (k : Kernel) (ps : Ps) (F : List Nat) (l : List (Nat × Nat))
    (h : (sweepF c .propagates k ps F).2 = some l) : (sweepF c .propagates k ps F).1.pmap = l := by
  simp only [sweepF] at h ⊢
  split at h
  · cases h
  · rename_i hcut
    rw [if_neg hcut]
    simp only [Option.some.injEq] at h
    rw [← h]
    exact (processIter_shape c k ps).2.1

/-- a sweep that was not cut short hands out exactly what it leaves in the cache -/
theorem stepF_sweep_pmap (c : Cfg) (s : St) (F : List Nat) (l : List (Nat × Nat))
    (h : (stepF c .propagates s F .processIter).2 = .ok (.procs l)) :
    (stepF c .propagates s F .processIter).1.ps.pmap = l := by
  rw [stepF_sweep]
  apply sweepF_some
  simp only [stepF] at h
  cases hr : (sweepF c .propagates s.kern s.ps F).2 with
  | none => rw [hr] at h; cases h
  | some l' => rw [hr] at h; simp only [OutF.ok.injEq, Out.procs.injEq] at h; rw [h]

/-- `ListedB` (kernel's own table, with bytes) as the Boolean the driver prints on the table with the bytes forgotten -/
theorem listedB_forget_iff (k : KernelB) (o : PObj) : listedB k.forget o = true ↔ ListedB k o := by
  rw [listedB_iff, listedB_forget]

end Psutil.C02
