/-
  Proofs/C12Environ.lean — parse_environ_block: the position-based scanner computes the
  documented dictionary; kernel-layout round-trip; "last duplicate wins".
-/
import PsutilModel.Proofs.C12
namespace Psutil.C12
open Spec

theorem dictSet_eq_put (k v : Bytes) (d : Dict) : dictSet k v d = put d (k, v) := by
  induction d with
  | nil => rfl
  | cons e rest ih =>
    obtain ⟨k', v'⟩ := e
    simp only [dictSet, put, ih]

theorem findFrom_append (c : Nat) (pre rest : Bytes) (k : Nat) :
    findFrom c (pre ++ rest) pre.length (pre.length + k)
      = (findIdx? c (rest.take k)).map (· + pre.length) := by
  unfold findFrom
  have : ((pre ++ rest).take (pre.length + k)).drop pre.length = rest.take k := by
    rw [List.take_append]
    simp
  rw [this]

theorem slice_append (pre rest : Bytes) (a b : Nat) :
    slice (pre ++ rest) (pre.length + a) (pre.length + b) = (rest.take b).drop a := by
  unfold slice
  rw [List.take_append]
  simp [List.drop_append]

theorem findIdx?_none_of_not_mem (c : Nat) (s : Bytes) (h : c ∉ s) : findIdx? c s = none := by
  induction s with
  | nil => rfl
  | cons x xs ih =>
    have hx : x ≠ c := fun e => h (by simp [e])
    have hxs : c ∉ xs := fun m => h (by simp [m])
    simp [findIdx?, hx, ih hxs]

theorem exists_first (c : Nat) (s : Bytes) (h : c ∈ s) :
    ∃ e r, s = e ++ c :: r ∧ c ∉ e := by
  induction s with
  | nil => cases h
  | cons x xs ih =>
    by_cases hx : x = c
    · exact ⟨[], xs, by simp [hx], by simp⟩
    · have : c ∈ xs := by
        cases h with
        | head => exact absurd rfl hx
        | tail _ h => exact h
      obtain ⟨e, r, he, hn⟩ := ih this
      refine ⟨x :: e, r, by simp [he], ?_⟩
      simp only [List.mem_cons, not_or]
      exact ⟨fun e => hx e.symm, hn⟩

theorem findIdx?_takeWhile (c : Nat) (e : Bytes) :
    findIdx? c e =
      if (e.takeWhile (· != c)).length < e.length then some (e.takeWhile (· != c)).length
      else none := by
  induction e with
  | nil => rfl
  | cons x xs ih =>
    by_cases hx : x = c
    · simp [findIdx?, hx, List.takeWhile]
    · have hb : (x != c) = true := by simpa using hx
      simp only [findIdx?, hx, if_false, List.takeWhile, hb, ih, List.length_cons]
      split <;> rename_i h
      · have : (List.takeWhile (fun x => x != c) xs).length + 1 < xs.length + 1 := by omega
        simp [this]
      · have : ¬ (List.takeWhile (fun x => x != c) xs).length + 1 < xs.length + 1 := by omega
        simp [this]

theorem length_takeWhile_le' (p : Nat → Bool) (e : Bytes) : (e.takeWhile p).length ≤ e.length := by
  induction e with
  | nil => simp
  | cons x xs ih =>
    simp only [List.takeWhile]
    split
    · simp; omega
    · simp

theorem take_length_takeWhile (p : Nat → Bool) (e : Bytes) :
    e.take (e.takeWhile p).length = e.takeWhile p := by
  induction e with
  | nil => rfl
  | cons x xs ih =>
    simp only [List.takeWhile]
    split
    · simp [ih]
    · simp

/-- what one complete entry `e` does to the dictionary in the scanner -/
def entryUpdate (e : Bytes) (ret : Dict) : Dict :=
  match findIdx? 61 e with
  | some i => if i > 0 then dictSet (e.take i) (e.drop (i + 1)) ret else ret
  | none => ret

theorem entryUpdate_eq (e : Bytes) (ret : Dict) :
    entryUpdate e ret = match parseEntry e with
      | some kv => put ret kv
      | none => ret := by
  unfold entryUpdate parseEntry
  rw [findIdx?_takeWhile]
  by_cases hlt : (e.takeWhile (· != 61)).length < e.length
  · simp only [hlt, if_true]
    by_cases hz : (e.takeWhile (· != 61)).length = 0
    · have hnil : e.takeWhile (· != 61) = [] := List.eq_nil_of_length_eq_zero hz
      simp [hnil]
    · have hpos : (e.takeWhile (· != 61)).length > 0 := by omega
      have hne : (e.takeWhile (· != 61)).isEmpty = false := by
        cases h : e.takeWhile (· != 61) with
        | nil => simp [h] at hpos
        | cons a b => rfl
      have hneq : ((e.takeWhile (· != 61)).length == e.length) = false := by
        simp; omega
      simp only [hpos, if_true, hne, hneq, Bool.or_self, Bool.false_eq_true, if_false,
        take_length_takeWhile, dictSet_eq_put]
  · have heq : (e.takeWhile (· != 61)).length = e.length := by
      have := length_takeWhile_le' (· != 61) e
      omega
    simp [heq]

/-! ### the specification, entry by entry -/

theorem fields0_append (e rest : Bytes) (h : 0 ∉ e) :
    fields 0 (e ++ 0 :: rest) = e :: fields 0 rest := by
  rw [fields_eq_splitOn, fields_eq_splitOn, splitOn_append 0 e rest h]

theorem assignments_noNul (rest : Bytes) (h : 0 ∉ rest) : assignments rest = [] := by
  unfold assignments envEntries
  rw [fields_eq_splitOn, splitOn_noSep 0 rest h]
  rfl

theorem envEntries_cons (e rest : Bytes) (h : 0 ∉ e) :
    envEntries (e ++ 0 :: rest) = if e = [] then [] else e :: envEntries rest := by
  unfold envEntries
  rw [fields0_append e rest h]
  have hne : fields 0 rest ≠ [] := by rw [fields_eq_splitOn]; exact splitOn_ne_nil 0 rest
  cases hf : fields 0 rest with
  | nil => exact absurd hf hne
  | cons a t =>
    simp only [List.dropLast_cons_cons, List.takeWhile_cons]
    cases e with
    | nil => simp
    | cons x xs => simp

theorem assignments_cons (e rest : Bytes) (h : 0 ∉ e) :
    assignments (e ++ 0 :: rest)
      = if e = [] then [] else (parseEntry e).toList ++ assignments rest := by
  unfold assignments
  rw [envEntries_cons e rest h]
  by_cases he : e = []
  · simp [he]
  · simp only [he, if_false, List.filterMap_cons]
    cases parseEntry e <;> simp

/-! ### the scanner -/

theorem envLoop_noNul (pre rest : Bytes) (fuel : Nat) (ret : Dict) (h : 0 ∉ rest) :
    envLoop good (pre ++ rest) (fuel + 1) pre.length ret = ret := by
  have hf : findFrom 0 (pre ++ rest) pre.length (pre ++ rest).length = none := by
    rw [List.length_append, findFrom_append, List.take_length,
      findIdx?_none_of_not_mem 0 rest h]
    rfl
  simp only [envLoop, good, hf]

theorem envLoop_entry (pre e rest : Bytes) (fuel : Nat) (ret : Dict) (h : 0 ∉ e) :
    envLoop good (pre ++ (e ++ 0 :: rest)) (fuel + 1) pre.length ret
      = if e = [] then ret
        else envLoop good ((pre ++ e ++ [0]) ++ rest) fuel (pre ++ e ++ [0]).length
              (entryUpdate e ret) := by
  have hnul : findFrom 0 (pre ++ (e ++ 0 :: rest)) pre.length (pre ++ (e ++ 0 :: rest)).length
      = some (e.length + pre.length) := by
    rw [List.length_append, findFrom_append, List.take_length, findIdx?_first 0 e rest h]
    rfl
  have hdata : (pre ++ e ++ [0]) ++ rest = pre ++ (e ++ 0 :: rest) := by simp
  by_cases he : e = []
  · subst he
    simp only [envLoop, good, hnul]
    simp
  · have hpos : 0 < e.length := List.length_pos_iff.mpr he
    have hle : ¬ (e.length + pre.length ≤ pre.length) := by omega
    have heq : findFrom 61 (pre ++ (e ++ 0 :: rest)) pre.length (e.length + pre.length)
        = (findIdx? 61 e).map (· + pre.length) := by
      rw [Nat.add_comm e.length, findFrom_append]
      simp
    have hlen : (pre ++ e ++ [0]).length = e.length + pre.length + 1 := by
      simp; omega
    simp only [envLoop, good, hnul, hle, if_false, he, heq, hdata, hlen]
    congr 1
    unfold entryUpdate
    cases hfi : findIdx? 61 e with
    | none => rfl
    | some i =>
      have hi : i < e.length := by
        rw [findIdx?_takeWhile] at hfi
        split at hfi
        · rename_i hlt; simp at hfi; omega
        · cases hfi
      simp only [Option.map_some]
      by_cases hi0 : i > 0
      · have hg : i + pre.length > pre.length := by omega
        simp only [hi0, hg, if_true]
        have hk : slice (pre ++ (e ++ 0 :: rest)) pre.length (i + pre.length) = e.take i := by
          have := slice_append pre (e ++ 0 :: rest) 0 i
          rw [Nat.add_zero, Nat.add_comm pre.length i] at this
          rw [this]
          simp [List.take_append, Nat.sub_eq_zero_of_le (Nat.le_of_lt hi)]
        have hv : slice (pre ++ (e ++ 0 :: rest)) (i + pre.length + 1) (e.length + pre.length)
            = e.drop (i + 1) := by
          have := slice_append pre (e ++ 0 :: rest) (i + 1) e.length
          rw [show pre.length + (i + 1) = i + pre.length + 1 by omega,
            Nat.add_comm pre.length e.length] at this
          rw [this]
          simp
        rw [hk, hv]
      · have hg : ¬ (i + pre.length > pre.length) := by omega
        simp only [hi0, hg, if_false]

/-- the position-based scanner, started at the beginning of a suffix `rest`, folds the
    documented assignments of `rest` into the dictionary -/
theorem envLoop_eq : ∀ (fuel : Nat) (pre rest : Bytes) (ret : Dict), rest.length < fuel →
    envLoop good (pre ++ rest) fuel pre.length ret = (assignments rest).foldl put ret := by
  intro fuel
  induction fuel with
  | zero => intro _ _ _ h; omega
  | succ fuel ih =>
    intro pre rest ret hlen
    by_cases hin : 0 ∈ rest
    · obtain ⟨e, r, hrest, hne⟩ := exists_first 0 rest hin
      subst hrest
      rw [envLoop_entry pre e r fuel ret hne, assignments_cons e r hne]
      by_cases he : e = []
      · simp [he]
      · simp only [he, if_false]
        have hl : r.length < fuel := by
          simp only [List.length_append, List.length_cons] at hlen
          omega
        rw [ih (pre ++ e ++ [0]) r _ hl, entryUpdate_eq, List.foldl_append]
        cases parseEntry e <;> rfl
    · rw [envLoop_noNul pre rest fuel ret hin, assignments_noNul rest hin]
      rfl

theorem parseEnvironBlock_eq (data : Bytes) : parseEnvironBlock good data = environOf data := by
  unfold parseEnvironBlock environOf
  have := envLoop_eq (data.length + 1) [] data [] (by omega)
  simpa using this

/-! ### round-trip and "last wins" -/

theorem takeWhile_ne_append (c : Nat) (k v : Bytes) (h : c ∉ k) :
    (k ++ c :: v).takeWhile (· != c) = k := by
  induction k with
  | nil => simp
  | cons x xs ih =>
    have hx : x ≠ c := fun e => h (by simp [e])
    have hxs : c ∉ xs := fun m => h (by simp [m])
    simp [hx, ih hxs]

theorem parseEntry_render (k v : Bytes) (hk : k ≠ []) (h61 : 61 ∉ k) :
    parseEntry (k ++ 61 :: v) = some (k, v) := by
  unfold parseEntry
  rw [takeWhile_ne_append 61 k v h61]
  have h1 : k.isEmpty = false := by cases k <;> simp_all
  simp [h1]

/-- keys are non-empty and contain neither `=` nor NUL; values contain no NUL -/
def EnvOk (env : List (Bytes × Bytes)) : Prop :=
  ∀ kv ∈ env, kv.1 ≠ [] ∧ 61 ∉ kv.1 ∧ 0 ∉ kv.1 ∧ 0 ∉ kv.2

theorem renderEnv_cons (kv : Bytes × Bytes) (env : List (Bytes × Bytes)) :
    renderEnv (kv :: env) = (kv.1 ++ 61 :: kv.2) ++ 0 :: renderEnv env := by
  simp [renderEnv]

theorem assignments_renderEnv (env : List (Bytes × Bytes)) (h : EnvOk env) :
    assignments (renderEnv env) = env := by
  induction env with
  | nil => exact assignments_noNul [] (by simp)
  | cons kv env ih =>
    obtain ⟨hk, h61, h0k, h0v⟩ := h kv (by simp)
    have hno : 0 ∉ kv.1 ++ 61 :: kv.2 := by
      simp only [List.mem_append, List.mem_cons, not_or]
      exact ⟨h0k, by decide, h0v⟩
    have hne : kv.1 ++ 61 :: kv.2 ≠ [] := by simp
    rw [renderEnv_cons, assignments_cons _ _ hno, if_neg hne, parseEntry_render kv.1 kv.2 hk h61,
      ih (fun x hx => h x (by simp [hx]))]
    rfl

theorem assignments_renderEnv_tail (env : List (Bytes × Bytes)) (h : EnvOk env) (tail : Bytes)
    (ht : tail = [] ∨ ∃ g, tail = 0 :: g) : assignments (renderEnv env ++ tail) = env := by
  induction env with
  | nil =>
    rcases ht with rfl | ⟨g, rfl⟩
    · exact assignments_noNul [] (by simp)
    · have := assignments_cons [] g (by simp)
      simpa [renderEnv] using this
  | cons kv env ih =>
    obtain ⟨hk, h61, h0k, h0v⟩ := h kv (by simp)
    have hno : 0 ∉ kv.1 ++ 61 :: kv.2 := by
      simp only [List.mem_append, List.mem_cons, not_or]
      exact ⟨h0k, by decide, h0v⟩
    have hne : kv.1 ++ 61 :: kv.2 ≠ [] := by simp
    rw [renderEnv_cons, List.append_assoc, List.cons_append, assignments_cons _ _ hno,
      if_neg hne, parseEntry_render kv.1 kv.2 hk h61, ih (fun x hx => h x (by simp [hx]))]
    rfl

theorem put_of_not_mem (d : Dict) (kv : Bytes × Bytes) (h : kv.1 ∉ d.map (·.1)) :
    put d kv = d ++ [kv] := by
  induction d with
  | nil => rfl
  | cons e rest ih =>
    have he : e.1 ≠ kv.1 := fun x => h (by simp [x])
    have hr : kv.1 ∉ rest.map (·.1) := fun m => h (by simp [m])
    simp [put, he, ih hr]

theorem foldl_put_nodup (env d : Dict) (h : ((d ++ env).map (·.1)).Nodup) :
    env.foldl put d = d ++ env := by
  induction env generalizing d with
  | nil => simp
  | cons kv env ih =>
    have hnot : kv.1 ∉ d.map (·.1) := by
      simp only [List.map_append, List.map_cons] at h
      have := List.nodup_append.1 h
      intro hm
      exact this.2.2 _ hm _ (by simp) rfl
    simp only [List.foldl_cons]
    rw [put_of_not_mem d kv hnot, ih (d ++ [kv]) (by simpa using h)]
    simp

theorem lookup_put (d : Dict) (kv : Bytes × Bytes) (k : Bytes) :
    (put d kv).lookup k = if k = kv.1 then some kv.2 else d.lookup k := by
  induction d with
  | nil =>
    by_cases h : k = kv.1
    · simp [put, List.lookup, h]
    · have hb : (k == kv.1) = false := by simpa using h
      simp [put, List.lookup, h, hb]
  | cons e rest ih =>
    obtain ⟨ek, ev⟩ := e
    by_cases he : ek = kv.1
    · by_cases h : k = kv.1
      · simp [put, he, List.lookup, h]
      · have hb : (k == kv.1) = false := by simpa using h
        simp [put, he, List.lookup, h, hb]
    · by_cases h : k = kv.1
      · have hb : (kv.1 == ek) = false := by simpa using fun x => he x.symm
        subst h
        simp [put, he, List.lookup, hb, ih]
      · simp [put, he, List.lookup, h, ih]

theorem lookup_foldl_put (as d : Dict) (k : Bytes) :
    (as.foldl put d).lookup k = (lastValue as k).or (d.lookup k) := by
  induction as generalizing d with
  | nil => simp [lastValue]
  | cons kv as ih =>
    simp only [List.foldl_cons]
    rw [ih, lookup_put]
    unfold lastValue
    simp only [List.reverse_cons, List.find?_append]
    cases hf : List.find? (fun x => x.1 == k) as.reverse with
    | some x => simp
    | none =>
      by_cases h : k = kv.1
      · simp [h]
      · have : (kv.1 == k) = false := by simp; exact fun x => h x.symm
        simp [h, this]

theorem put_keys_nodup (d : Dict) (kv : Bytes × Bytes) (h : (d.map (·.1)).Nodup) :
    ((put d kv).map (·.1)).Nodup := by
  induction d with
  | nil => simp [put]
  | cons e rest ih =>
    simp only [List.map_cons, List.nodup_cons] at h
    simp only [put]
    by_cases he : e.1 = kv.1
    · simp only [he, if_true, List.map_cons, List.nodup_cons]
      rw [← he]; exact h
    · simp only [he, if_false, List.map_cons, List.nodup_cons]
      refine ⟨?_, ih h.2⟩
      intro hm
      have hkeys : ∀ (d : Dict) x, x ∈ (put d kv).map (·.1) → x = kv.1 ∨ x ∈ d.map (·.1) := by
        intro d
        induction d with
        | nil => intro x hx; simp [put] at hx; exact Or.inl hx
        | cons f fs ihf =>
          intro x hx
          simp only [put] at hx
          by_cases hf : f.1 = kv.1
          · simp only [hf, if_true, List.map_cons, List.mem_cons] at hx
            rcases hx with hx | hx
            · exact Or.inl hx
            · exact Or.inr (by simp [hx])
          · simp only [hf, if_false, List.map_cons, List.mem_cons] at hx
            rcases hx with hx | hx
            · exact Or.inr (by simp [hx])
            · rcases ihf x hx with h1 | h1
              · exact Or.inl h1
              · exact Or.inr (by simp [h1])
      rcases hkeys rest e.1 hm with h1 | h1
      · exact he h1
      · exact h.1 h1

theorem foldl_put_keys_nodup (as d : Dict) (h : (d.map (·.1)).Nodup) :
    ((as.foldl put d).map (·.1)).Nodup := by
  induction as generalizing d with
  | nil => exact h
  | cons kv as ih => exact ih _ (put_keys_nodup d kv h)

end Psutil.C12
