/-
  Proofs/C18.lean — helper lemmas for Props/C18.lean: bit arithmetic of the ioprio packing,
  list lemmas about CPU sets (ascending enumerations, `sorted(set(…))`, the `cpu_set_t` loop,
  the status-line range), and the configuration predicate `Cfg.Good`.
-/
import PsutilModel.Model.C18
import PsutilModel.Spec.C18
namespace Psutil.C18

/-- a native range check, if present, must let every class 0..3 with data 0..7 through -/
def nativeRangeOk : Option (Int × Int × Int × Int) → Bool
  | none => true
  | some (a, b, x, y) => decide (a ≤ 0 ∧ 3 ≤ b ∧ x ≤ 0 ∧ 7 ≤ y)

/-- the configuration under which the full statements hold (what the translator must find) -/
structure Cfg.Good (c : Cfg) : Prop where
  shift : c.shift = 13
  macros : c.macrosCanonical = true
  /-- a native range check, if present, lets every class 0..3 with data 0..7 through -/
  native : nativeRangeOk c.nativeRange = true
  dflt : c.defaultLevel = 0
  lo : c.levelMin = 0
  hi : c.levelMax = 7
  noval : c.noValueClasses = [0, 3]
  enum : c.enumClasses = [0, 1, 2, 3]
  pair : c.pairLen = 2
  vwc : c.valueWithoutClassRaises = true
  pid0 : c.pid0Refused = true
  empty : c.emptyAsksAll = some 1024
  /-- … and not for `range(len(per_cpu_times()))`, which misses eligible CPUs whose id is ≥ the number of `cpuN` lines -/
  count : c.emptyAsksCount = false
  sorted : c.getSortedSet = true
  /-- getpriority(2) may legitimately return −1: errno must be cleared first and be part of the test -/
  prio : c.prioGet.clears = true ∧ c.prioGet.test ≠ .sentinelOnly
  /-- ioprio_get(2) / sched_getaffinity(2) never return −1 on success: testing the return value
      is enough; testing errno alone needs the clearing -/
  ioGet : c.ioprioGet.test ≠ .errnoOnly ∨ c.ioprioGet.clears = true
  /-- sched_getaffinity(2) is called in a retry loop: only the return value says whether THIS call
      failed (errno still holds the EINVAL of the previous round after a success) -/
  affGet : c.affGet.test = .sentinelOnly
  /-- the three native setters notice a refused system call -/
  setChecks : c.setPrioChecks = true ∧ c.ioprioSetChecks = true ∧ c.affSetChecks = true
  /-- the sizing loop of the affinity getter: starts at 64 CPUs, retries on EINVAL only, doubles -/
  affLoop : c.affLoop = ⟨64, 0, 2, 0⟩

theorem inNativeRange {c : Cfg} (hg : c.Good) {cls data : Int} (h1 : 0 ≤ cls ∧ cls ≤ 3)
    (h2 : 0 ≤ data ∧ data ≤ 7) : outOfNativeRange c.nativeRange cls data = false := by
  unfold outOfNativeRange
  cases hr : c.nativeRange with
  | none => rfl
  | some r =>
    obtain ⟨a, b, x, y⟩ := r
    have := hg.native
    rw [hr] at this
    simp only [nativeRangeOk, decide_eq_true_eq] at this
    simp only [decide_eq_false_iff_not]
    omega

/-! ### ioprio packing -/

theorem pack_eq (cls data : Nat) (hd : data < 8192) : ioprioPack 13 cls data = cls * 8192 + data := by
  unfold ioprioPack
  rw [← Nat.shiftLeft_add_eq_or_of_lt (i := 13) (by simpa using hd), Nat.shiftLeft_eq]

theorem unpack_eq (v : Nat) : ioprioUnpack 13 v = (v / 8192, v % 8192) := by
  unfold ioprioUnpack
  have h1 : (1 <<< 13 : Nat) - 1 = 2 ^ 13 - 1 := by decide
  rw [h1, Nat.and_two_pow_sub_one_eq_mod, Nat.shiftRight_eq_div_pow]

theorem unpack_pack (cls data : Nat) (hd : data < 8192) :
    ioprioUnpack 13 (ioprioPack 13 cls data) = (cls, data) := by
  rw [pack_eq _ _ hd, unpack_eq]
  congr 1 <;> omega

theorem classOf_eq (cls level : Nat) (hc : cls < 8) (hl : level < 8192) :
    ioprioClassOf (cls * 8192 + level) = cls := by
  unfold ioprioClassOf abiClassShift
  rw [Nat.shiftRight_eq_div_pow]
  omega

theorem levelOf_eq (cls level : Nat) (hl : level < 8) : ioprioLevelOf (cls * 8192 + level) = level := by
  unfold ioprioLevelOf; omega

theorem accepted_valid (cls level : Nat) (hc : cls ≤ 3) (hl : level < 8) (h0 : cls = 0 → level = 0) :
    ioprioAccepted (cls * 8192 + level) = true := by
  unfold ioprioAccepted
  rw [classOf_eq _ _ (by omega) (by omega), levelOf_eq _ _ hl]
  have : cls = 0 ∨ cls = 1 ∨ cls = 2 ∨ cls = 3 := by omega
  rcases this with h | h | h | h <;> subst h <;> simp_all

/-! ### ascending duplicate-free lists -/

abbrev Asc (l : List Nat) : Prop := l.Pairwise (· < ·)

theorem asc_ext : ∀ {l₁ l₂ : List Nat}, Asc l₁ → Asc l₂ → (∀ x, x ∈ l₁ ↔ x ∈ l₂) → l₁ = l₂
  | [], [], _, _, _ => rfl
  | [], b :: l₂, _, _, h => by have := (h b).2 (by simp); simp at this
  | a :: l₁, [], _, _, h => by have := (h a).1 (by simp); simp at this
  | a :: l₁, b :: l₂, h₁, h₂, h => by
    have h₁ := List.pairwise_cons.1 h₁
    have h₂ := List.pairwise_cons.1 h₂
    have hab : a = b := by
      have ha := (h a).1 (by simp)
      have hb := (h b).2 (by simp)
      simp only [List.mem_cons] at ha hb
      rcases ha with ha | ha
      · exact ha
      · rcases hb with hb | hb
        · exact hb.symm
        · have := h₂.1 a ha; have := h₁.1 b hb; omega
    subst hab
    congr 1
    refine asc_ext h₁.2 h₂.2 fun x => ?_
    constructor
    · intro hx
      have := (h x).1 (by simp [hx])
      simp only [List.mem_cons] at this
      rcases this with e | e
      · have := h₁.1 x hx; omega
      · exact e
    · intro hx
      have := (h x).2 (by simp [hx])
      simp only [List.mem_cons] at this
      rcases this with e | e
      · have := h₂.1 x hx; omega
      · exact e

theorem asc_rangeFilter (n : Nat) (p : Nat → Bool) : Asc ((List.range n).filter p) :=
  List.Pairwise.filter p List.pairwise_lt_range

/-- an ascending list of CPUs below `n` is its own ascending enumeration -/
theorem rangeFilter_contains_self {n : Nat} {l : List Nat} (ha : Asc l) (hb : ∀ c ∈ l, c < n) :
    (List.range n).filter (fun c => l.contains c) = l := by
  refine asc_ext (asc_rangeFilter _ _) ha fun x => ?_
  simp only [List.mem_filter, List.mem_range, List.contains_iff_mem]
  exact ⟨fun h => h.2, fun h => ⟨hb x h, h⟩⟩

theorem mem_insertU (x y : Nat) : ∀ (l : List Nat), y ∈ insertU x l ↔ y = x ∨ y ∈ l
  | [] => by simp [insertU]
  | z :: zs => by
    unfold insertU
    split
    · simp
    · split
      · rename_i h; subst h; simp
      · simp only [List.mem_cons, mem_insertU x y zs]
        constructor
        · rintro (h | h | h) <;> simp [h]
        · rintro (h | h | h) <;> simp [h]

theorem asc_insertU (x : Nat) : ∀ (l : List Nat), Asc l → Asc (insertU x l)
  | [], _ => by simp [insertU]
  | z :: zs, h => by
    unfold insertU
    have h' := List.pairwise_cons.1 h
    split
    · rename_i hxz
      refine List.pairwise_cons.2 ⟨fun a ha => ?_, h⟩
      simp only [List.mem_cons] at ha
      rcases ha with e | e
      · omega
      · have := h'.1 a e; omega
    · split
      · exact h
      · rename_i h1 h2
        refine List.pairwise_cons.2 ⟨fun a ha => ?_, asc_insertU x zs h'.2⟩
        rcases (mem_insertU x a zs).1 ha with e | e
        · omega
        · exact h'.1 a e

theorem asc_sortedSet (l : List Nat) : Asc (sortedSet l) := by
  induction l with
  | nil => simp [sortedSet]
  | cons x xs ih => exact asc_insertU x _ ih

theorem mem_sortedSet (l : List Nat) (y : Nat) : y ∈ sortedSet l ↔ y ∈ l := by
  induction l with
  | nil => simp [sortedSet]
  | cons x xs ih =>
    show y ∈ insertU x (sortedSet xs) ↔ _
    rw [mem_insertU, ih]; simp

theorem sortedSet_of_asc {l : List Nat} (h : Asc l) : sortedSet l = l :=
  asc_ext (asc_sortedSet l) h (mem_sortedSet l)

/-! ### the `cpu_set_t` loop -/

/-- no element leaves the range of a C long -/
def AllLong (l : List Int) : Prop := ∀ v ∈ l, fitsCLong v = true

theorem cpuSetOfSeq_minus1 : ∀ {l : List Int}, AllLong l → (-1 : Int) ∈ l → cpuSetOfSeq l = .error .valueError
  | [], _, h => by simp at h
  | v :: rest, hl, h => by
    have hv : fitsCLong v = true := hl v (by simp)
    unfold cpuSetOfSeq
    simp only [hv, Bool.not_true, Bool.false_eq_true, if_false]
    by_cases e : v = -1
    · simp [e]
    · simp only [e, if_false]
      have : (-1 : Int) ∈ rest := by
        simp only [List.mem_cons] at h
        rcases h with h | h
        · exact absurd h.symm e
        · exact h
      rw [cpuSetOfSeq_minus1 (fun w hw => hl w (by simp [hw])) this]

theorem cpuSetOfSeq_ok : ∀ {l : List Int}, AllLong l → (-1 : Int) ∉ l →
    ∃ m, cpuSetOfSeq l = .ok m ∧ ∀ x : Nat, x ∈ m ↔ (x < 1024 ∧ (x : Int) ∈ l)
  | [], _, _ => ⟨[], by simp [cpuSetOfSeq]⟩
  | v :: rest, hl, h => by
    have hv : fitsCLong v = true := hl v (by simp)
    have hne : v ≠ -1 := fun e => h (by simp [e])
    obtain ⟨m, hm, hmem⟩ := cpuSetOfSeq_ok (l := rest) (fun w hw => hl w (by simp [hw]))
      (fun hh => h (by simp [hh]))
    unfold cpuSetOfSeq
    simp only [hv, Bool.not_true, Bool.false_eq_true, if_false, hne, hm]
    by_cases hr : 0 ≤ v ∧ v < 1024
    · refine ⟨v.toNat :: m, by simp [hr], fun x => ?_⟩
      simp only [List.mem_cons, hmem]
      constructor
      · rintro (e | ⟨h1, h2⟩)
        · subst e; exact ⟨by omega, Or.inl (by omega)⟩
        · exact ⟨h1, Or.inr h2⟩
      · rintro ⟨h1, e | h2⟩
        · left; omega
        · exact Or.inr ⟨h1, h2⟩
    · refine ⟨m, by simp [hr], fun x => ?_⟩
      simp only [List.mem_cons, hmem]
      constructor
      · rintro ⟨h1, h2⟩; exact ⟨h1, Or.inr h2⟩
      · rintro ⟨h1, e | h2⟩
        · exfalso; apply hr; omega
        · exact ⟨h1, h2⟩

theorem mem_pySet (l : List Int) (x : Int) : x ∈ pySet l ↔ x ∈ l := List.mem_eraseDups

theorem allLong_pySet {l : List Int} (h : AllLong l) : AllLong (pySet l) :=
  fun v hv => h v ((mem_pySet l v).1 hv)

theorem mem_dedup (c : Cfg) (l : List Int) (x : Int) : x ∈ dedup c l ↔ x ∈ l := by
  unfold dedup
  split
  · exact mem_pySet l x
  · exact Iff.rfl

theorem allLong_dedup (c : Cfg) {l : List Int} (h : AllLong l) : AllLong (dedup c l) :=
  fun v hv => h v ((mem_dedup c l v).1 hv)

/-! ### the diagnosis loop -/

theorem diagnose_true (all el : List Nat) : ∀ (cpus : List Int),
    diagnose all el cpus = true ↔
      ∃ c ∈ cpus, c < 0 ∨ all.contains c.toNat = false ∨ el.contains c.toNat = false
  | [] => by simp [diagnose]
  | cpu :: rest => by
    unfold diagnose
    by_cases h1 : cpu < 0 ∨ (!all.contains cpu.toNat) = true
    · simp only [h1, if_true, true_iff]
      refine ⟨cpu, by simp, ?_⟩
      rcases h1 with h | h
      · exact Or.inl h
      · right; left; simpa using h
    · simp only [h1, if_false]
      by_cases h2 : (!el.contains cpu.toNat) = true
      · simp only [h2, if_true, true_iff]
        exact ⟨cpu, by simp, Or.inr (Or.inr (by simpa using h2))⟩
      · simp only [h2, Bool.false_eq_true, if_false]
        rw [diagnose_true all el rest]
        have h1' : ¬ cpu < 0 ∧ all.contains cpu.toNat = true := by
          constructor
          · exact fun h => h1 (Or.inl h)
          · cases hh : all.contains cpu.toNat with
            | true => rfl
            | false => exact absurd (Or.inr (by rw [hh]; rfl)) h1
        have h2' : el.contains cpu.toNat = true := by
          cases hh : el.contains cpu.toNat with
          | true => rfl
          | false => exact absurd (by rw [hh]; rfl) h2
        constructor
        · rintro ⟨c, hc, h⟩; exact ⟨c, by simp [hc], h⟩
        · rintro ⟨c, hc, h⟩
          simp only [List.mem_cons] at hc
          rcases hc with e | hc
          · subst e
            rcases h with h | h | h
            · exact absurd h h1'.1
            · rw [h1'.2] at h; cases h
            · rw [h2'] at h; cases h
          · exact ⟨c, hc, h⟩

/-! ### the status-line range -/

theorem runEnd_ge : ∀ (a : Nat) (l : List Nat), a ≤ runEnd a l
  | _, [] => Nat.le_refl _
  | a, b :: rest => by
    unfold runEnd
    split
    · rename_i h; have := runEnd_ge b rest; omega
    · exact Nat.le_refl _

/-- every CPU of the range the regex reads off the status line is in the current mask -/
theorem runEnd_mem : ∀ (a : Nat) (l : List Nat) (x : Nat), a ≤ x → x ≤ runEnd a l → x ∈ a :: l
  | a, [], x, h1, h2 => by simp only [runEnd] at h2; simp; omega
  | a, b :: rest, x, h1, h2 => by
    unfold runEnd at h2
    split at h2
    · rename_i hb
      by_cases e : x = a
      · simp [e]
      · have := runEnd_mem b rest x (by omega) h2
        simp only [List.mem_cons] at this ⊢
        exact Or.inr this
    · simp; omega

theorem statusRange_sub {aff : List Nat} {a b : Nat} (h : statusRange aff = some (a, b)) :
    ∀ x ∈ List.range' a (b + 1 - a), x ∈ aff := by
  cases aff with
  | nil => simp [statusRange] at h
  | cons a0 rest =>
    simp only [statusRange] at h
    by_cases hgt : runEnd a0 rest > a0
    · simp only [hgt, if_true, Option.some.injEq, Prod.mk.injEq] at h
      obtain ⟨rfl, rfl⟩ := h
      intro x hx
      rw [List.mem_range'] at hx
      obtain ⟨i, hi, rfl⟩ := hx
      exact runEnd_mem a0 rest _ (by omega) (by omega)
    · simp [hgt] at h

end Psutil.C18
