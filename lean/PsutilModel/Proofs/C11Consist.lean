/-
  Proofs/C11Consist.lean — WHICH rows are returned (not only that they are acceptable): the exact
  membership of the result of both forms over a rendered world, the per-process form on a Python
  without IPv6 text support, and the relation between the system-wide and the per-process form.
-/
import PsutilModel.Proofs.C11NoV6
import PsutilModel.Proofs.C11Scan
set_option linter.unusedSimpArgs false
namespace Psutil.C11
open Spec

/-- the rows both forms return for query `q`: for every requested socket the rows `promisedRows`
    lists — one per owner for a UNIX socket, one carrying the FIRST owner (listing order) otherwise -/
def RowsAre (w : World) (q : Query) (rows : List Row) : Prop :=
  ∀ x, x ∈ rows ↔ ∃ s ∈ w.socks, kindSelects q.kind s.fam s.typ = true ∧ x ∈ promisedRows w q s

/-- `entries_accept_of` with the exact membership of the result -/
theorem entries_rows_of (c : Cfg) (fs : ProcFs) (w : World) (hws : ∀ s ∈ w.socks, s.WF) (q : Query)
    (inodes : Inodes) (ok : OwnersOK w q inodes) (es : List TEntry) (hc : ∀ e ∈ es, e ∈ canonicalEntries)
    (hsel : ∀ ce ∈ canonicalEntries, ce ∈ es ↔ entrySelected q.kind ce = true) (hn : es.Nodup)
    (hER : ∀ e ∈ canonicalEntries,
      entryRows c fs inodes q.pid e = .ok ((entrySocks w e).flatMap (sockRows inodes q.pid))) :
    ∃ rows, retrieveEntries c fs inodes q.pid es [] = .ok rows ∧ Accepts (expects w q) rows ∧ RowsAre w q rows := by
  obtain ⟨rows, h1, hacc⟩ := entries_accept_of c fs w hws q inodes ok es hc hsel hn hER
  obtain ⟨out, h1', h2, _, _⟩ := retrieveEntries_ok c fs inodes q.pid
    (fun e => (entrySocks w e).flatMap (sockRows inodes q.pid)) es []
    (fun e he => hER e (hc e he))
  have hro : rows = out := by
    rw [h1] at h1'
    exact Except.ok.inj h1'
  subst hro
  refine ⟨rows, h1, hacc, ?_⟩
  intro x
  rw [h2 x]
  simp only [List.not_mem_nil, false_or]
  constructor
  · rintro ⟨e, he, hx⟩
    rw [List.map_flatMap, entrySocks_eq] at hx
    obtain ⟨s, hs, hxs⟩ := List.mem_flatMap.mp hx
    rw [sockRows_promised ok s] at hxs
    obtain ⟨hs1, hs2⟩ := List.mem_filter.mp hs
    exact ⟨s, hs1, (selected_iff hc hsel s (hws s hs1)).mp ⟨e, he, hs2⟩, hxs⟩
  · rintro ⟨s, hs, hsel', hx⟩
    obtain ⟨e, he, hin⟩ := (selected_iff hc hsel s (hws s hs)).mpr hsel'
    refine ⟨e, he, ?_⟩
    rw [List.map_flatMap, entrySocks_eq]
    refine List.mem_flatMap.mpr ⟨s, List.mem_filter.mpr ⟨hs, hin⟩, ?_⟩
    rw [sockRows_promised ok s]; exact hx

/-- system-wide form: the exact rows -/
theorem netConnections_system_rows (c : Cfg) (hg : c.Good) (ht : c.TmapGood) (w : World) (hw : w.WF)
    (kind : String) (hk : kind ∈ kinds) :
    ∃ rows, netConnections c (renderWorld c.littleEndian w) kind none = .ok rows
      ∧ Accepts (expects w ⟨kind, none⟩) rows ∧ RowsAre w ⟨kind, none⟩ rows := by
  obtain ⟨es, hl, hc, hsel, hn⟩ := ht.entries hk
  obtain ⟨_, hinv⟩ := getAllInodes_spec c hg.inodesExtend (renderWorld c.littleEndian w).procs
  have ok : OwnersOK w ⟨kind, none⟩ (getAllInodes c (renderWorld c.littleEndian w).procs) :=
    ⟨hinv, (by intro k x _ p hp; cases hp), fun i => owners_system c hg c.littleEndian w hw kind i⟩
  obtain ⟨rows, h1, h2, h3⟩ := entries_rows_of c (renderWorld c.littleEndian w) w hw.socks ⟨kind, none⟩ _ ok es hc hsel hn
    (fun e he => entryRows_render c hg w hw _ ok.inv none e he)
  refine ⟨rows, ?_, h2, h3⟩
  have hin : ¬ kind ∉ c.connKinds := fun h => h (kind_in_connKinds ht hk)
  simp only [netConnections, hin, if_false, retrieve, Option.isSome, Bool.false_and, Bool.false_eq_true, hl]
  exact h1

/-- no owner at all: nothing is promised and `RowsAre` describes the empty list -/
theorem rowsAre_nil_of_no_owner (w : World) (q : Query) (h : ∀ i, owners w q i = []) : RowsAre w q [] := by
  intro x
  constructor
  · intro hx; cases hx
  · rintro ⟨s, _, _, hx⟩
    unfold promisedRows at hx
    rw [h s.inode] at hx
    by_cases hu : s.fam = .unix <;> simp [hu] at hx

/-- per-process form over a rendered world, for a configuration `c'` that reads every canonical entry
    as `w'`'s sockets (`w'` = `w`, or `w.dropV6` on a Python without IPv6 text) -/
theorem netConnections_process_rows_of (c c' : Cfg) (ht : c.TmapGood)
    (hcfg : c'.tmap = c.tmap ∧ c'.connKinds = c.connKinds) (w w' : World) (hw : w.WF)
    (hsocks : ∀ s ∈ w'.socks, s.WF) (hprocs : w'.procs = w.procs)
    (hn : (w.procs.map (·.1)).Nodup) (kind : String) (hk : kind ∈ kinds) (p' : Nat)
    (fds : List (Nat × Target)) (hl : w.procs.lookup (p' + 1) = some (some fds))
    (hER : ∀ inodes, Inv inodes → ∀ e ∈ canonicalEntries,
      entryRows c' (renderWorld c.littleEndian w) inodes (some (p' + 1)) e
        = .ok ((entrySocks w' e).flatMap (sockRows inodes (some (p' + 1))))) :
    ∃ rows, netConnections c' (renderWorld c.littleEndian w) kind (some (p' + 1)) = .ok rows
      ∧ Accepts (expects w' ⟨kind, some (p' + 1)⟩) rows ∧ RowsAre w' ⟨kind, some (p' + 1)⟩ rows := by
  obtain ⟨es, hlk, hc, hsel, hnd⟩ := ht.entries hk
  have hown : ∀ i, owners w' ⟨kind, some (p' + 1)⟩ i = owners w ⟨kind, some (p' + 1)⟩ i := by
    intro i; simp only [owners, holders, hprocs]
  obtain ⟨_, hinv, hu⟩ := owners_process w hw hn kind p' 0 fds hl
  have ok : OwnersOK w' ⟨kind, some (p' + 1)⟩ (getProcInodes (p' + 1) (renderFds fds)) :=
    ⟨hinv, hu, fun i => by rw [hown i]; exact (owners_process w hw hn kind p' i fds hl).1⟩
  have hin : ¬ kind ∉ c'.connKinds := by rw [hcfg.2]; exact fun h => h (kind_in_connKinds ht hk)
  have hlk' : c'.tmap.lookup kind = some es := by rw [hcfg.1]; exact hlk
  have hlook : (renderWorld c.littleEndian w).procs.lookup (p' + 1) = some (some (renderFds fds)) := by
    rw [lookup_renderProcs, hl]; rfl
  cases hemp : (getProcInodes (p' + 1) (renderFds fds)).isEmpty with
  | true =>
    have hnone : ∀ i, owners w' ⟨kind, some (p' + 1)⟩ i = [] := by
      intro i
      rw [← ok.owners i]
      have : getProcInodes (p' + 1) (renderFds fds) = [] := by
        cases h : getProcInodes (p' + 1) (renderFds fds) with
        | nil => rfl
        | cons a as => rw [h] at hemp; cases hemp
      rw [this]
      simp [modelOwners, ownerPairs, filteredOut]
    refine ⟨[], ?_, accepts_nil_of_no_owner w' _ hnone, rowsAre_nil_of_no_owner w' _ hnone⟩
    simp [netConnections, hin, retrieve, hlook, hemp]
  | false =>
    obtain ⟨rows, h1, h2, h3⟩ := entries_rows_of c' (renderWorld c.littleEndian w) w' hsocks ⟨kind, some (p' + 1)⟩ _ ok
      es hc hsel hnd (hER _ hinv)
    refine ⟨rows, ?_, h2, h3⟩
    simp only [netConnections, hin, if_false, retrieve, hlook, Option.isSome, Bool.true_and, hemp,
      Bool.false_eq_true, hlk']
    exact h1

/-- per-process form: the exact rows -/
theorem netConnections_process_rows (c : Cfg) (hg : c.Good) (ht : c.TmapGood) (w : World) (hw : w.WF)
    (hn : (w.procs.map (·.1)).Nodup) (kind : String) (hk : kind ∈ kinds) (p' : Nat)
    (fds : List (Nat × Target)) (hl : w.procs.lookup (p' + 1) = some (some fds)) :
    ∃ rows, netConnections c (renderWorld c.littleEndian w) kind (some (p' + 1)) = .ok rows
      ∧ Accepts (expects w ⟨kind, some (p' + 1)⟩) rows ∧ RowsAre w ⟨kind, some (p' + 1)⟩ rows :=
  netConnections_process_rows_of c c ht ⟨rfl, rfl⟩ w w hw hw.socks rfl hn kind hk p' fds hl
    (fun inodes hi e he => entryRows_render c hg w hw inodes hi _ e he)

/-- per-process form on a Python that cannot format IPv6 addresses: the rows promised for `w.dropV6` -/
theorem netConnections_process_noV6 (c : Cfg) (hg : c.Good) (ht : c.TmapGood) (w : World) (hw : w.WF)
    (hn : (w.procs.map (·.1)).Nodup) (kind : String) (hk : kind ∈ kinds) (p' : Nat)
    (fds : List (Nat × Target)) (hl : w.procs.lookup (p' + 1) = some (some fds)) :
    ∃ rows, netConnections c.noV6 (renderWorld c.littleEndian w) kind (some (p' + 1)) = .ok rows
      ∧ Accepts (expects w.dropV6 ⟨kind, some (p' + 1)⟩) rows ∧ RowsAre w.dropV6 ⟨kind, some (p' + 1)⟩ rows :=
  netConnections_process_rows_of c c.noV6 ht ⟨rfl, rfl⟩ w w.dropV6 hw
    (fun s hs => hw.socks s (List.mem_filter.mp hs).1) rfl hn kind hk p' fds hl
    (fun inodes hi e he => entryRows_render_noV6 c hg w hw inodes hi _ e he)

/-! ### which holder an inet row shows -/

theorem promisedRows_inet (w : World) (q : Query) (s : Sock) (hf : s.fam ≠ .unix) :
    promisedRows w q s = (owners w q s.inode).head?.toList.map (rowOf s) := by
  simp [promisedRows, hf]

theorem promisedRows_unix (w : World) (q : Query) (s : Sock) (hf : s.fam = .unix) :
    promisedRows w q s = (owners w q s.inode).map (rowOf s) := by
  simp [promisedRows, hf]

theorem owners_system_head (w : World) (kind : String) (i : Nat) (h : Nat × Nat) (t : List (Nat × Nat))
    (hh : holders w i = h :: t) : (owners w ⟨kind, none⟩ i).head? = some (some h.1, (h.2 : Int)) := by
  simp [owners, hh]

/-! ### system-wide vs per-process -/

/-- the pid field of a row -/
def setPid (x : Option Nat) (r : Row) : Row := { r with pid := x }

theorem setPid_rowOf (x : Option Nat) (s : Sock) (o : Option Nat × Int) : setPid x (rowOf s o) = rowOf s (x, o.2) := rfl

theorem head_filter_of_head {α : Type} (l : List α) (f : α → Bool) (a : α) (h : l.head? = some a) (hf : f a = true) :
    (l.filter f).head? = some a := by
  cases l with
  | nil => cases h
  | cons b bs =>
    simp only [List.head?_cons, Option.some.injEq] at h
    subst h
    simp [List.filter_cons, hf]

/-- a row of `promisedRows` system-wide that carries pid `p` is, without the pid, a row of
    `promisedRows` for process `p` -/
theorem promised_sys_to_proc (w : World) (kind : String) (p : Nat) (s : Sock) (x : Row)
    (hx : x ∈ promisedRows w ⟨kind, none⟩ s) (hp : x.pid = some p) :
    setPid none x ∈ promisedRows w ⟨kind, some p⟩ s := by
  by_cases hu : s.fam = .unix
  · rw [promisedRows_unix _ _ _ hu] at hx ⊢
    obtain ⟨o, ho, rfl⟩ := List.mem_map.mp hx
    simp only [owners] at ho
    by_cases he : (holders w s.inode).isEmpty
    · simp only [he, if_true, List.mem_cons, List.not_mem_nil, or_false] at ho
      subst ho
      simp [rowOf] at hp
    · simp only [he, Bool.false_eq_true, if_false, List.mem_map] at ho
      obtain ⟨h, hh, rfl⟩ := ho
      have hp' : h.1 = p := by simpa [rowOf] using hp
      rw [setPid_rowOf]
      refine List.mem_map.mpr ⟨(none, (h.2 : Int)), ?_, rfl⟩
      simp only [owners, List.mem_map, List.mem_filter]
      exact ⟨h, ⟨hh, by simpa using hp'⟩, rfl⟩
  · rw [promisedRows_inet _ _ _ hu] at hx ⊢
    obtain ⟨o, ho, rfl⟩ := List.mem_map.mp hx
    have ho' : (owners w ⟨kind, none⟩ s.inode).head? = some o := by
      cases h : (owners w ⟨kind, none⟩ s.inode).head? with
      | none => rw [h] at ho; cases ho
      | some a => rw [h] at ho; simp at ho; rw [ho]
    simp only [owners] at ho'
    by_cases he : (holders w s.inode).isEmpty
    · simp only [he, if_true, List.head?_cons, Option.some.injEq] at ho'
      subst ho'
      simp [rowOf] at hp
    · simp only [he, Bool.false_eq_true, if_false, List.head?_map] at ho'
      cases hh : (holders w s.inode).head? with
      | none => rw [hh] at ho'; cases ho'
      | some h =>
        rw [hh] at ho'
        simp only [Option.map_some, Option.some.injEq] at ho'
        subst ho'
        have hp' : h.1 = p := by simpa [rowOf] using hp
        rw [setPid_rowOf]
        refine List.mem_map.mpr ⟨(none, (h.2 : Int)), ?_, rfl⟩
        simp only [owners, List.head?_map]
        rw [head_filter_of_head _ _ h hh (by simpa using hp')]
        simp

/-- no TCP/UDP socket that process `p` holds is held by a process listed before `p`: whenever `p`
    is among the holders of an inet socket, the first holder (listing order) is `p` itself -/
def FirstAmongHolders (w : World) (p : Nat) : Prop :=
  ∀ s ∈ w.socks, s.fam ≠ .unix → ∀ h ∈ holders w s.inode, h.1 = p →
    ∃ h0, (holders w s.inode).head? = some h0 ∧ h0.1 = p

theorem head_filter_eq_head {α : Type} (l : List α) (f : α → Bool) (a : α) (h : l.head? = some a) (hf : f a = true) :
    (l.filter f).head? = l.head? := by
  rw [head_filter_of_head l f a h hf, h]

/-- conversely: a row of the per-process form is, with the pid put back, a system-wide row — always
    for a UNIX socket, and for a TCP/UDP socket when `p` is its first holder -/
theorem promised_proc_to_sys (w : World) (kind : String) (p : Nat) (s : Sock) (x : Row)
    (hx : x ∈ promisedRows w ⟨kind, some p⟩ s)
    (hfirst : s.fam ≠ .unix → ∀ h ∈ holders w s.inode, h.1 = p →
      ∃ h0, (holders w s.inode).head? = some h0 ∧ h0.1 = p) :
    setPid (some p) x ∈ promisedRows w ⟨kind, none⟩ s := by
  by_cases hu : s.fam = .unix
  · rw [promisedRows_unix _ _ _ hu] at hx ⊢
    obtain ⟨o, ho, rfl⟩ := List.mem_map.mp hx
    simp only [owners, List.mem_map, List.mem_filter] at ho
    obtain ⟨h, ⟨hh, hp⟩, rfl⟩ := ho
    have hp' : h.1 = p := by simpa using hp
    rw [setPid_rowOf]
    refine List.mem_map.mpr ⟨(some h.1, (h.2 : Int)), ?_, by rw [hp']⟩
    have hne : (holders w s.inode).isEmpty = false := by
      cases hl : holders w s.inode with
      | nil => rw [hl] at hh; cases hh
      | cons a as => rfl
    simp only [owners, hne, Bool.false_eq_true, if_false, List.mem_map]
    exact ⟨h, hh, rfl⟩
  · rw [promisedRows_inet _ _ _ hu] at hx ⊢
    obtain ⟨o, ho, rfl⟩ := List.mem_map.mp hx
    have ho' : (owners w ⟨kind, some p⟩ s.inode).head? = some o := by
      cases h : (owners w ⟨kind, some p⟩ s.inode).head? with
      | none => rw [h] at ho; cases ho
      | some a => rw [h] at ho; simp at ho; rw [ho]
    simp only [owners, List.head?_map] at ho'
    cases hh : ((holders w s.inode).filter fun h => h.1 == p).head? with
    | none => rw [hh] at ho'; cases ho'
    | some h =>
      rw [hh] at ho'
      simp only [Option.map_some, Option.some.injEq] at ho'
      subst ho'
      have hmem : h ∈ (holders w s.inode).filter fun h => h.1 == p := List.mem_of_mem_head? hh
      obtain ⟨hm1, hm2⟩ := List.mem_filter.mp hmem
      have hp' : h.1 = p := by simpa using hm2
      obtain ⟨h0, hh0, hp0⟩ := hfirst hu h hm1 hp'
      have : ((holders w s.inode).filter fun h => h.1 == p).head? = some h0 :=
        head_filter_of_head _ _ h0 hh0 (by simpa using hp0)
      rw [this] at hh
      have e : h0 = h := Option.some.inj hh
      subst e
      rw [setPid_rowOf]
      have hne : (holders w s.inode).isEmpty = false := by
        cases hl : holders w s.inode with
        | nil => rw [hl] at hm1; cases hm1
        | cons a as => rfl
      refine List.mem_map.mpr ⟨(some h0.1, (h0.2 : Int)), ?_, by rw [hp0]⟩
      simp [owners, hne, List.head?_map, hh0]

/-- every per-process row has no pid (it is a `pconn`) -/
theorem promised_proc_pid (w : World) (kind : String) (p : Nat) (s : Sock) (x : Row)
    (hx : x ∈ promisedRows w ⟨kind, some p⟩ s) : x.pid = none := by
  have : ∀ o ∈ owners w ⟨kind, some p⟩ s.inode, o.1 = none := by
    intro o ho
    simp only [owners, List.mem_map] at ho
    obtain ⟨h, _, rfl⟩ := ho
    rfl
  by_cases hu : s.fam = .unix
  · rw [promisedRows_unix _ _ _ hu] at hx
    obtain ⟨o, ho, rfl⟩ := List.mem_map.mp hx
    exact this o ho
  · rw [promisedRows_inet _ _ _ hu] at hx
    obtain ⟨o, ho, rfl⟩ := List.mem_map.mp hx
    have hm : o ∈ owners w ⟨kind, some p⟩ s.inode := by
      cases h : (owners w ⟨kind, some p⟩ s.inode).head? with
      | none => rw [h] at ho; cases ho
      | some a =>
        rw [h] at ho; simp at ho; subst ho
        exact List.mem_of_mem_head? h
    exact this o hm

/-! ### round 3: a Python that cannot format IPv6 addresses × failing descriptors

  The error handling of `get_proc_inodes` / `get_all_inodes` does not look at the two host flags, so the simulation of
  Proofs/C11Scan carries over to `c.noV6` verbatim. -/

theorem scan_noV6 (c : Cfg) (fds : List FdEntryE) : scan c.noV6 fds = scan c fds := by
  induction fds with
  | nil => rfl
  | cons x rest ih =>
    obtain ⟨fd, r⟩ := x
    cases r with
    | ok t => simp only [scan, ih]
    | err e =>
      have : linkSkips c.noV6 e = linkSkips c e := rfl
      simp only [scan, ih, this]

theorem eraseProcs_noV6 (c : Cfg) (procs : List (Nat × ListRes)) : eraseProcs c.noV6 procs = eraseProcs c procs := by
  simp only [eraseProcs]
  apply List.map_congr_left
  intro p _
  cases hp : p.2 with
  | error e => simp [eraseList]
  | ok fds => simp only [eraseList, scan_noV6]

theorem listCaught_noV6 (c : Cfg) (l : ListRes) (h : ListCaught c l) : ListCaught c.noV6 l := by
  cases l with
  | error e => exact h
  | ok fds =>
    simp only [ListCaught, scan_noV6] at h ⊢
    exact h

/-- system-wide call on an IPv6-less Python over a world whose descriptors / processes fail in the "cannot be
    inspected" ways: does not fail, returns the rows promised for the inspectable part minus the IPv6 sockets that
    need an address text -/
theorem scan_system_noV6 (c : Cfg) (hg : c.Good) (ht : c.TmapGood) (w : WorldE) (hw : w.view.WF)
    (hi : w.Inspectable) (kind : String) (hk : kind ∈ kinds) :
    ∃ rows, netConnectionsE c.noV6 (renderWorldE c.littleEndian w) kind none = .ok rows
      ∧ Accepts (expects w.view.dropV6 ⟨kind, none⟩) rows := by
  obtain ⟨rows, h1, h2⟩ := netConnections_system_noV6 c hg ht w.view hw kind hk
  obtain ⟨e1, e2⟩ := erase_renderWorldE c hg c.littleEndian w hi
  refine ⟨rows, ?_, h2⟩
  rw [netConnectionsE_system c.noV6 _ kind (fun p hp => listCaught_noV6 c p.2 (e2 p hp)), eraseProcs_noV6, e1]
  exact h1

end Psutil.C11
